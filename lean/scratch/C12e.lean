import Vinegar.Lemmas.YamlCache
namespace Vinegar.Yaml

theorem mapE_ok_mem {α β ε : Type} (g : α → Except ε β) (l : List α) (bs : List β) (h : mapE g l = .ok bs) :
    ∀ b, b ∈ bs → ∃ a, a ∈ l ∧ g a = .ok b := by
  induction l generalizing bs with
  | nil => simp [mapE] at h; subst h; intro b hb; cases hb
  | cons a as ih =>
    rw [mapE_ok_cons_iff] at h
    obtain ⟨b0, bs0, h1, h2, rfl⟩ := h
    intro b hb
    cases List.mem_cons.1 hb with
    | inl e => subst e; exact ⟨a, List.mem_cons_self, h1⟩
    | inr hm =>
      obtain ⟨a', ha', hg⟩ := ih bs0 h2 b hm
      exact ⟨a', List.mem_cons_of_mem _ ha', hg⟩

section
variable (vf : VerFns) (W : World)

/-- a versioned piece that really is the pre- or post-include part of the parse of a text
with that version (D14 repaired: the tag tells which part) -/
def GoodPiece (p : Mapping × String) : Prop :=
  ∃ t kvs, W.parse t = .mapping kvs ∧
    ((p.2 = vf.ver t ++ TAG0 ∧ p.1 = (processContent kvs).1) ∨
     (p.2 = vf.ver t ++ TAG1 ∧ p.1 = (processContent kvs).2.2))

theorem loadPure_ok (node : VNode) (l : Parts × String) (h : loadPure vf W node = .ok l) :
    ∃ t kvs, W.parse t = .mapping kvs ∧ l.1 = processContent kvs ∧ l.2 = vf.ver t := by
  cases node with
  | dir => simp [loadPure] at h
  | renderError => simp [loadPure] at h
  | text t =>
    simp only [loadPure] at h
    cases hp : W.parse t with
    | error => simp [hp] at h
    | nonMapping => simp [hp] at h
    | mapping kvs => simp [hp] at h; subst h; exact ⟨t, kvs, hp, rfl, rfl⟩

theorem mem_vpiecesOf (pre post : Mapping) (mid : List (Mapping × String)) (fv : String) (p : Mapping × String)
    (h : p ∈ vpiecesOf pre mid post fv) : p = (pre, fv ++ TAG0) ∨ p ∈ mid ∨ p = (post, fv ++ TAG1) := by
  unfold vpiecesOf at h
  simp only [List.mem_append] at h
  rcases h with (h | h) | h
  · split at h
    · cases h
    · simp at h; exact Or.inl h
  · exact Or.inr (Or.inl h)
  · split at h
    · cases h
    · simp at h; exact Or.inr (Or.inr h)

theorem expandFileV_good (tree : VTree) (fuel : Nat) :
    ∀ (parents : List Name) (name res : Name) (node : VNode) (vps : List (Mapping × String)),
      expandFileV vf W tree fuel parents name res node = .ok vps → ∀ p, p ∈ vps → GoodPiece vf W p := by
  induction fuel with
  | zero => intro parents name res node vps h; simp [expandFileV] at h
  | succ f ih =>
    intro parents name res node vps h
    rw [expandFileV.eq_def] at h
    by_cases hc : name ∈ parents
    · simp [hc] at h
    · simp only [hc, if_false, bindE_ok_iff] at h
      obtain ⟨l, hl, incs, _, names, _, rs, _, mid, hmid, hfin⟩ := h
      cases hfin
      obtain ⟨t, kvs, hp, h1, h2⟩ := loadPure_ok vf W node l hl
      intro p hp'
      rcases mem_vpiecesOf _ _ _ _ p hp' with h | h | h
      · exact ⟨t, kvs, hp, Or.inl ⟨by rw [h, h2], by rw [h, h1]⟩⟩
      · unfold expandAllV at hmid
        rw [bindE_ok_iff] at hmid
        obtain ⟨pss, hpss, hfl⟩ := hmid
        cases hfl
        rw [List.mem_flatten] at h
        obtain ⟨ps, hps, hpm⟩ := h
        obtain ⟨r, _, hr⟩ := mapE_ok_mem _ rs pss hpss ps hps
        exact ih _ _ _ _ _ hr p hpm
      · exact ⟨t, kvs, hp, Or.inr ⟨by rw [h, h2], by rw [h, h1]⟩⟩

theorem expandListV_good (tree : VTree) (fuel : Nat) (parents : List Name) (names : List Name)
    (vps : List (Mapping × String)) (h : expandListV vf W tree fuel parents names = .ok vps) :
    ∀ p, p ∈ vps → GoodPiece vf W p := by
  unfold expandListV at h
  rw [bindE_ok_iff] at h
  obtain ⟨rs, _, hmid⟩ := h
  unfold expandAllV at hmid
  rw [bindE_ok_iff] at hmid
  obtain ⟨pss, hpss, hfl⟩ := hmid
  cases hfl
  intro p h
  rw [List.mem_flatten] at h
  obtain ⟨ps, hps, hpm⟩ := h
  obtain ⟨r, _, hr⟩ := mapE_ok_mem _ rs pss hpss ps hps
  exact expandFileV_good vf W tree fuel _ _ _ _ _ hr p hpm

theorem good_sepFree (hver : VerOK vf) (p : Mapping × String) (h : GoodPiece vf W p) : SepFree p.2 := by
  obtain ⟨t, kvs, _, h | h⟩ := h
  · rw [h.1]; exact sepFree_append _ _ (hver.ver_sepFree t) sepFree_tag0
  · rw [h.1]; exact sepFree_append _ _ (hver.ver_sepFree t) sepFree_tag1

/-- the version of a good piece determines its data -/
theorem good_determines (hver : VerOK vf) (p q : Mapping × String) (hp : GoodPiece vf W p)
    (hq : GoodPiece vf W q) (hv : p.2 = q.2) : p.1 = q.1 := by
  obtain ⟨t, kvs, hpt, h1⟩ := hp
  obtain ⟨t', kvs', hpt', h2⟩ := hq
  rcases h1 with h1 | h1 <;> rcases h2 with h2 | h2
  · have : t = t' := hver.ver_inj _ _ (append_tag_inj _ _ TAG0 (by rw [← h1.1, ← h2.1, hv]))
    subst this; rw [hpt] at hpt'; cases hpt'; rw [h1.2, h2.2]
  · exact absurd (by rw [← h1.1, ← h2.1, hv]) (tag0_ne_tag1 (vf.ver t) (vf.ver t'))
  · exact absurd (by rw [← h1.1, ← h2.1, hv]) (tag0_ne_tag1 (vf.ver t') (vf.ver t))
  · have : t = t' := hver.ver_inj _ _ (append_tag_inj _ _ TAG1 (by rw [← h1.1, ← h2.1, hv]))
    subst this; rw [hpt] at hpt'; cases hpt'; rw [h1.2, h2.2]

theorem good_lists (hver : VerOK vf) (l1 l2 : List (Mapping × String))
    (h1 : ∀ p, p ∈ l1 → GoodPiece vf W p) (h2 : ∀ p, p ∈ l2 → GoodPiece vf W p)
    (hv : l1.map (·.2) = l2.map (·.2)) : l1.map (·.1) = l2.map (·.1) := by
  induction l1 generalizing l2 with
  | nil => cases l2 with
    | nil => rfl
    | cons b bs => simp at hv
  | cons a as ih =>
    cases l2 with
    | nil => simp at hv
    | cons b bs =>
      simp only [List.map_cons, List.cons.injEq] at hv ⊢
      exact ⟨good_determines vf W hver a b (h1 a List.mem_cons_self) (h2 b List.mem_cons_self) hv.1,
        ih bs (fun p hp => h1 p (List.mem_cons_of_mem _ hp)) (fun p hp => h2 p (List.mem_cons_of_mem _ hp)) hv.2⟩

end
end Vinegar.Yaml
