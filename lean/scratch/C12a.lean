import Vinegar.Lemmas.Yaml
namespace Vinegar.Yaml

/-! ## LRU: membership facts (enough for invariants over cache contents) -/

theorem odGet_mem {V : Type} (k : String) (l : List (String × V)) (v : V) (h : odGet k l = some v) :
    (k, v) ∈ l := by
  induction l with
  | nil => simp [odGet] at h
  | cons p rest ih =>
    obtain ⟨k', v'⟩ := p
    rw [odGet] at h
    by_cases hk : k' = k
    · simp [hk] at h; subst h; subst hk; exact List.mem_cons_self
    · simp [hk] at h; exact List.mem_cons_of_mem _ (ih h)

theorem mem_odMoveToEnd {V : Type} (k : String) (l : List (String × V)) (x : String × V)
    (h : x ∈ odMoveToEnd k l) : x ∈ l := by
  induction l with
  | nil => simp [odMoveToEnd] at h
  | cons p rest ih =>
    obtain ⟨k', v'⟩ := p
    rw [odMoveToEnd] at h
    by_cases hk : k' = k
    · simp [hk] at h
      cases h with
      | inl h => exact List.mem_cons_of_mem _ h
      | inr h => rw [h, hk]; exact List.mem_cons_self
    · simp [hk] at h
      cases h with
      | inl h => rw [h]; exact List.mem_cons_self
      | inr h => exact List.mem_cons_of_mem _ (ih h)

theorem mem_odSet {V : Type} (k : String) (v : V) (l : List (String × V)) (x : String × V)
    (h : x ∈ odSet k v l) : x = (k, v) ∨ x ∈ l := by
  induction l with
  | nil => simp [odSet] at h; exact Or.inl h
  | cons p rest ih =>
    obtain ⟨k', v'⟩ := p
    rw [odSet] at h
    by_cases hk : k' = k
    · simp [hk] at h
      cases h with
      | inl h => exact Or.inl h
      | inr h => exact Or.inr (List.mem_cons_of_mem _ h)
    · simp [hk] at h
      cases h with
      | inl h => rw [h]; exact Or.inr List.mem_cons_self
      | inr h =>
        cases ih h with
        | inl h => exact Or.inl h
        | inr h => exact Or.inr (List.mem_cons_of_mem _ h)

/-- everything stored satisfies `P` -/
def Cache.All {V : Type} (P : String → V → Prop) (c : Cache V) : Prop := ∀ k v, (k, v) ∈ c.data → P k v

theorem Cache.get_all {V : Type} (P : String → V → Prop) (c : Cache V) (k : String) (h : c.All P) :
    (∀ v, (c.get k).1 = some v → P k v) ∧ (c.get k).2.All P ∧ (c.get k).2.size = c.size := by
  unfold Cache.get
  by_cases hs : c.size = 0
  · simp [hs]; exact h
  · simp only [hs, if_false]
    cases hg : odGet k c.data with
    | none => simp; exact h
    | some v =>
      refine ⟨?_, ?_, rfl⟩
      · intro v' hv; simp at hv; subst hv; exact h k v (odGet_mem k c.data v hg)
      · intro k' v' hm; exact h k' v' (mem_odMoveToEnd k c.data _ hm)

theorem Cache.set_all {V : Type} (P : String → V → Prop) (c : Cache V) (k : String) (v : V) (h : c.All P)
    (hv : P k v) : (c.set k v).All P ∧ (c.set k v).size = c.size := by
  unfold Cache.set
  by_cases hs : c.size = 0
  · simp [hs]; exact h
  · simp only [hs, if_false]
    have hall : ∀ x, x ∈ odMoveToEnd k (odSet k v c.data) → P x.1 x.2 := by
      intro x hx
      cases mem_odSet k v c.data x (mem_odMoveToEnd k _ x hx) with
      | inl h1 => rw [h1]; exact hv
      | inr h1 => exact h x.1 x.2 h1
    split
    · refine ⟨?_, rfl⟩
      intro k' v' hm
      exact hall (k', v') (List.mem_of_mem_tail hm)
    · exact ⟨fun k' v' hm => hall (k', v') hm, rfl⟩

/-! ## LRU refines a bounded recency list -/

def keysOf {V : Type} (l : List (String × V)) : List String := l.map (·.1)

/-- reference: drop the key, append it as most recent, keep the `size` most recent entries -/
def specTouch {V : Type} (size : Nat) (k : String) (v : V) (l : List (String × V)) : List (String × V) :=
  let l' := l.filter (fun p => p.1 ≠ k) ++ [(k, v)]
  l'.drop (l'.length - size)

theorem odGet_none_of_not_mem {V : Type} (k : String) (l : List (String × V)) (h : k ∉ keysOf l) :
    odGet k l = none := by
  induction l with
  | nil => rfl
  | cons p rest ih =>
    obtain ⟨k', v'⟩ := p
    simp [keysOf] at h
    rw [odGet]
    have : ¬ k' = k := fun e => h.1 e.symm
    simp [this]
    exact ih (by simpa [keysOf] using h.2)

theorem filter_ne_of_not_mem {V : Type} (k : String) (l : List (String × V)) (h : k ∉ keysOf l) :
    l.filter (fun p => p.1 ≠ k) = l := by
  rw [List.filter_eq_self]
  intro p hp
  simp
  intro e
  exact h (by rw [← e]; exact List.mem_map_of_mem (f := (·.1)) hp)

theorem moveToEnd_set {V : Type} (k : String) (v : V) (l : List (String × V)) (hn : (keysOf l).Nodup) :
    odMoveToEnd k (odSet k v l) = l.filter (fun p => p.1 ≠ k) ++ [(k, v)] := by
  induction l with
  | nil => simp [odSet, odMoveToEnd]
  | cons p rest ih =>
    obtain ⟨k', v'⟩ := p
    simp only [keysOf, List.map_cons, List.nodup_cons] at hn
    rw [odSet]
    by_cases hk : k' = k
    · subst hk
      simp only [if_true, odMoveToEnd]
      have : rest.filter (fun p => p.1 ≠ k') = rest := filter_ne_of_not_mem k' rest hn.1
      simp
      simpa using this.symm
    · simp only [hk, if_false, odMoveToEnd]
      rw [ih hn.2]
      simp [hk]

theorem moveToEnd_get {V : Type} (k : String) (v : V) (l : List (String × V)) (hn : (keysOf l).Nodup)
    (hg : odGet k l = some v) : odMoveToEnd k l = l.filter (fun p => p.1 ≠ k) ++ [(k, v)] := by
  induction l with
  | nil => simp [odGet] at hg
  | cons p rest ih =>
    obtain ⟨k', v'⟩ := p
    simp only [keysOf, List.map_cons, List.nodup_cons] at hn
    rw [odGet] at hg
    by_cases hk : k' = k
    · subst hk
      simp at hg; subst hg
      simp only [odMoveToEnd, if_true]
      have : rest.filter (fun p => p.1 ≠ k') = rest := filter_ne_of_not_mem k' rest hn.1
      simp
      simpa using this.symm
    · simp only [hk, if_false] at hg
      simp only [odMoveToEnd, hk, if_false]
      rw [ih hn.2 hg]
      simp [hk]

theorem keys_touch_nodup {V : Type} (k : String) (v : V) (l : List (String × V)) (hn : (keysOf l).Nodup) :
    (keysOf (l.filter (fun p => p.1 ≠ k) ++ [(k, v)])).Nodup := by
  simp only [keysOf, List.map_append, List.map_cons, List.map_nil]
  rw [List.nodup_append]
  refine ⟨?_, by simp, ?_⟩
  · exact List.Nodup.sublist (List.Sublist.map _ List.filter_sublist) hn
  · intro a ha b hb
    rw [List.mem_map] at ha
    obtain ⟨x, hx, rfl⟩ := ha
    have h2 := (List.mem_filter.1 hx).2
    simp at hb h2
    subst hb
    exact h2

/-- the representation invariant of `LRUCache._data`: distinct keys, at most `size` entries;
the `NullCache` never stores anything -/
def Cache.Inv {V : Type} (c : Cache V) : Prop :=
  (keysOf c.data).Nodup ∧ c.data.length ≤ c.size

end Vinegar.Yaml
