import Vinegar.Lemmas.YamlCache
namespace Vinegar.Yaml

section
variable (vf : VerFns) (W : World)

/-- `_process_top` without a cache -/
def pureTop (allowEmpty : Bool) (id pdv : String) : VTop → Except Err (Option (List Name) × String)
  | .missing => .error .topMissing
  | .renderError => .error .topRender
  | .text t => bindE (topOutcome allowEmpty (W.topParse t id pdv)) (fun d => .ok (d, vf.agg [vf.ver t, pdv]))

def expandTopV (tree : VTree) (fuel : Nat) : Option (List Name) → Except Err (List (Mapping × String))
  | none => .ok []
  | some ns => expandListV vf W tree fuel [TOPFILE] ns

/-- `compile_data` without any cache: data and version -/
def compileV (cfg : Cfg) (fuel : Nat) (id pdv : String) (top : VTop) (tree : VTree) :
    Except Err (Mapping × String) :=
  bindE (pureTop vf W cfg.allowEmptyTop id pdv top) fun te =>
  bindE (expandTopV vf W tree fuel te.1) fun vps =>
  bindE (foldMerge cfg [] (vps.map (·.1))) fun data =>
  .ok (data, vf.agg (vps.map (·.2)))

/-- **The invariant of a per-system cache item**: every cached part was computed from a text
(and, for the top entry, a preceding-data version) with the version it is stored under. It
does not mention the current tree: edits cannot invalidate it. -/
structure Valid (cfg : Cfg) (id : String) (item : Item) : Prop where
  top : ∀ d v, item.top = some (d, v) →
    ∃ t pdv, SepFree pdv ∧ v = vf.agg [vf.ver t, pdv] ∧
      topOutcome cfg.allowEmptyTop (W.topParse t id pdv) = .ok d
  files : OldOK vf W item.files
  result : ∀ d v, item.result = some (d, v) →
    ∃ vps : List (Mapping × String), (∀ p, p ∈ vps → GoodPiece vf W p) ∧ v = vf.agg (vps.map (·.2)) ∧
      foldMerge cfg [] (vps.map (·.1)) = .ok d

theorem valid_empty (cfg : Cfg) (id : String) : Valid vf W cfg id Item.empty := by
  refine ⟨?_, ?_, ?_⟩
  · intro d v h; simp [Item.empty] at h
  · intro n c h; simp [Item.empty, lookupFile] at h
  · intro d v h; simp [Item.empty] at h

theorem processTopC_eq (hver : VerOK vf) (cfg : Cfg) (id pdv : String) (hpdv : SepFree pdv) (item : Item)
    (hv : Valid vf W cfg id item) (top : VTop) :
    processTopC vf W cfg.allowEmptyTop id pdv item.top top = pureTop vf W cfg.allowEmptyTop id pdv top := by
  cases top with
  | missing => rfl
  | renderError => rfl
  | text t =>
    simp only [processTopC, pureTop]
    cases ht : item.top with
    | none => rfl
    | some dv =>
      obtain ⟨d, v⟩ := dv
      simp only []
      by_cases hveq : v = vf.agg [vf.ver t, pdv]
      · simp only [hveq, if_true]
        obtain ⟨t0, pdv0, hs0, hv0, hout⟩ := hv.top d v ht
        have hl : [vf.ver t0, pdv0] = [vf.ver t, pdv] := by
          apply hver.agg_inj
          · intro x hx; simp at hx; rcases hx with rfl | rfl
            · exact hver.ver_sepFree t0
            · exact hs0
          · intro x hx; simp at hx; rcases hx with rfl | rfl
            · exact hver.ver_sepFree t
            · exact hpdv
          · rw [← hv0, hveq]
        simp only [List.cons.injEq, and_true] at hl
        have ht0 : t0 = t := hver.ver_inj _ _ hl.1
        subst ht0
        rw [hl.2] at hout
        simp [hout, bindE]
      · simp [hveq]

theorem pureTop_ok (cfg : Cfg) (id pdv : String) (top : VTop) (te : Option (List Name) × String)
    (h : pureTop vf W cfg.allowEmptyTop id pdv top = .ok te) :
    ∃ t, te.2 = vf.agg [vf.ver t, pdv] ∧ topOutcome cfg.allowEmptyTop (W.topParse t id pdv) = .ok te.1 := by
  cases top with
  | missing => simp [pureTop] at h
  | renderError => simp [pureTop] at h
  | text t =>
    simp only [pureTop, bindE_ok_iff] at h
    obtain ⟨d, h1, h2⟩ := h
    cases h2
    exact ⟨t, rfl, h1⟩

theorem invSt_empty (tree : VTree) : InvSt vf W tree {} := by
  refine ⟨?_, ?_, ?_⟩
  · intro n c h; simp [lookupFile] at h
  · simp
  · intro n h; simp at h

theorem expandTopC_sim (hver : VerOK vf) (old : List (Name × CFile)) (hold : OldOK vf W old) (tree : VTree)
    (fuel : Nat) (o : Option (List Name)) :
    Sim (InvSt vf W tree) (expandTopV vf W tree fuel o) (expandTopC vf W old tree fuel o) := by
  cases o with
  | none => exact ⟨{}, rfl, invSt_empty vf W tree⟩
  | some ns => exact expandListC_sim vf W old tree hver hold fuel [TOPFILE] {} ns (invSt_empty vf W tree)

theorem expandTopV_good (tree : VTree) (fuel : Nat) (o : Option (List Name)) (vps : List (Mapping × String))
    (h : expandTopV vf W tree fuel o = .ok vps) : ∀ p, p ∈ vps → GoodPiece vf W p := by
  cases o with
  | none => simp [expandTopV] at h; subst h; intro p hp; cases hp
  | some ns => exact expandListV_good vf W tree fuel _ ns vps h

/-- what `compile_data` returns, and that it leaves a valid item -/
theorem compileC_spec (hver : VerOK vf) (cfg : Cfg) (fuel : Nat) (id pdv : String) (hpdv : SepFree pdv)
    (top : VTop) (tree : VTree) (old : Option Item) (hold : ∀ item, old = some item → Valid vf W cfg id item) :
    match compileV vf W cfg fuel id pdv top tree with
    | .error e => compileC vf W cfg fuel id pdv top tree old = .error e
    | .ok dv => ∃ r, compileC vf W cfg fuel id pdv top tree old = .ok r ∧ r.data = dv.1 ∧ r.version = dv.2 ∧
        Valid vf W cfg id r.item ∧ r.reads.Nodup := by
  have hval : Valid vf W cfg id (old.getD Item.empty) := by
    cases old with
    | none => exact valid_empty vf W cfg id
    | some item => exact hold item rfl
  unfold compileC compileV
  rw [processTopC_eq vf W hver cfg id pdv hpdv _ hval top]
  cases htop : pureTop vf W cfg.allowEmptyTop id pdv top with
  | error e => simp [bindE]
  | ok te =>
    simp only [bindE]
    have hsim := expandTopC_sim vf W hver (old.getD Item.empty).files hval.files tree fuel te.1
    cases hx : expandTopV vf W tree fuel te.1 with
    | error e =>
      rw [hx] at hsim
      simp only [Sim] at hsim
      simp [hsim]
    | ok vps =>
      rw [hx] at hsim
      obtain ⟨st, hc, hinv⟩ := hsim
      simp only [hc]
      have hgood := expandTopV_good vf W tree fuel te.1 vps hx
      obtain ⟨t, hte2, hte1⟩ := pureTop_ok vf W cfg id pdv top te htop
      -- the item built when the result has to be (re)computed
      have hnew : ∀ data, foldMerge cfg [] (vps.map (fun p => p.1)) = .ok data →
          Valid vf W cfg id ⟨some te, st.files, some (data, vf.agg (vps.map (fun p => p.2)))⟩ := by
        intro data hfm
        refine ⟨?_, ?_, ?_⟩
        · intro d v h
          simp only [Option.some.injEq] at h
          subst h
          exact ⟨t, pdv, hpdv, hte2, hte1⟩
        · intro n c hl
          obtain ⟨_, t', kvs, _, h2, h3, h4⟩ := hinv.1 n c hl
          exact ⟨t', kvs, h2, h3, h4⟩
        · intro d v h
          simp only [Option.some.injEq, Prod.mk.injEq] at h
          obtain ⟨rfl, rfl⟩ := h
          exact ⟨vps, hgood, rfl, hfm⟩
      unfold finish
      cases hfm : foldMerge cfg [] (vps.map (fun p => p.1)) with
      | error e =>
        simp only []
        cases hres : (old.getD Item.empty).result with
        | none => simp [bindE]
        | some dvo =>
          obtain ⟨d, v⟩ := dvo
          simp only []
          by_cases hveq : v = vf.agg (vps.map (fun p => p.2))
          · exfalso
            obtain ⟨vps0, hg0, hv0, hf0⟩ := hval.result d v hres
            have hl : vps0.map (·.2) = vps.map (·.2) := by
              apply hver.agg_inj
              · intro x hx; rw [List.mem_map] at hx; obtain ⟨p, hp, rfl⟩ := hx
                exact good_sepFree vf W hver p (hg0 p hp)
              · intro x hx; rw [List.mem_map] at hx; obtain ⟨p, hp, rfl⟩ := hx
                exact good_sepFree vf W hver p (hgood p hp)
              · rw [← hv0, hveq]
            have hd := good_lists vf W hver vps0 vps hg0 hgood hl
            rw [hd, hfm] at hf0
            cases hf0
          · simp [hveq, bindE]
      | ok data =>
        simp only []
        cases hres : (old.getD Item.empty).result with
        | none => exact ⟨_, rfl, rfl, rfl, hnew data hfm, hinv.2.1⟩
        | some dvo =>
          obtain ⟨d, v⟩ := dvo
          simp only []
          by_cases hveq : v = vf.agg (vps.map (fun p => p.2))
          · simp only [hveq, if_true]
            obtain ⟨vps0, hg0, hv0, hf0⟩ := hval.result d v hres
            have hl : vps0.map (·.2) = vps.map (·.2) := by
              apply hver.agg_inj
              · intro x hx; rw [List.mem_map] at hx; obtain ⟨p, hp, rfl⟩ := hx
                exact good_sepFree vf W hver p (hg0 p hp)
              · intro x hx; rw [List.mem_map] at hx; obtain ⟨p, hp, rfl⟩ := hx
                exact good_sepFree vf W hver p (hgood p hp)
              · rw [← hv0, hveq]
            have hd := good_lists vf W hver vps0 vps hg0 hgood hl
            rw [hd, hfm] at hf0
            cases hf0
            exact ⟨_, rfl, rfl, rfl, hval, hinv.2.1⟩
          · simp only [hveq, if_false, bindE]
            exact ⟨_, rfl, rfl, rfl, hnew data hfm, hinv.2.1⟩

end
end Vinegar.Yaml
