import Vinegar.Theorems.C11
import Vinegar.Theorems.C12
#print axioms Vinegar.C11.compile_eq_doc
#print axioms Vinegar.C11.doc_complete
#print axioms Vinegar.C11.c11Check_compile
#print axioms Vinegar.C11.cycle_raises
#print axioms Vinegar.C11.cycle_never_ok
#print axioms Vinegar.C11.missing_raises
#print axioms Vinegar.C11.nonmapping_raises
#print axioms Vinegar.C11.empty_name_raises
#print axioms Vinegar.C11.above_root_raises
#print axioms Vinegar.C11.never_partial
#print axioms Vinegar.C11.preceding_not_merged
#print axioms Vinegar.C12.lru_spec
#print axioms Vinegar.C12.compile_transparent
#print axioms Vinegar.C12.compile_preserves_valid
#print axioms Vinegar.C12.history_transparent
#print axioms Vinegar.C12.version_separates_data
#print axioms Vinegar.C12.one_read_per_file
