import Vinegar.Lemmas.Yaml
namespace Vinegar.Yaml

theorem mapE_resolveRelative_iff (place : Name) (incs names : List Name) :
    mapE (fun i => resolveRelative i place) incs = .ok names ↔
      mapO (fun i => docResolve i place) incs = some names := by
  rw [mapE_ok_iff_mapO]
  have : (fun a => toOpt (resolveRelative a place)) = (fun i => docResolve i place) := by
    funext a; exact resolveRelative_doc a place
  rw [this]

/-- the model and the executable documentation agree at every fuel -/
theorem expandDoc (tree : Tree) (f : Nat) :
    (∀ parents name place node ps, resolveFile tree name = .ok (place, node) →
        expandFile f tree parents name place node = .ok ps →
        ∃ dps, docFile tree f parents name = some dps ∧ ps = nonEmpties dps) ∧
    (∀ parents name dps, docFile tree f parents name = some dps →
        ∃ place node, resolveFile tree name = .ok (place, node) ∧
          expandFile f tree parents name place node = .ok (nonEmpties dps)) ∧
    (∀ parents names ps, expandList f tree parents names = .ok ps →
        ∃ dps, docList tree f parents names = some dps ∧ ps = nonEmpties dps) ∧
    (∀ parents names dps, docList tree f parents names = some dps →
        expandList f tree parents names = .ok (nonEmpties dps)) := by
  induction f with
  | zero =>
    refine ⟨?_, ?_, ?_, ?_⟩
    · intro parents name place node ps _ h; simp [expandFile_zero] at h
    · intro parents name dps h; simp [docFile_zero] at h
    · intro parents names ps h
      cases names with
      | nil => simp [expandList_nil] at h; subst h; exact ⟨[], docList_nil _ _ _, rfl⟩
      | cons n ns =>
        rw [expandList_cons_ok_iff] at h
        obtain ⟨_, _, _, _, _, h2, _, _⟩ := h
        simp [expandFile_zero] at h2
    · intro parents names dps h
      cases names with
      | nil => simp [docList_nil] at h; subst h; exact expandList_nil _ _ _
      | cons n ns =>
        rw [docList_cons_some_iff] at h
        obtain ⟨_, _, h1, _, _⟩ := h
        simp [docFile_zero] at h1
  | succ f ih =>
    obtain ⟨_, _, ihl1, ihl2⟩ := ih
    have hfile1 : ∀ parents name place node ps, resolveFile tree name = .ok (place, node) →
        expandFile (f + 1) tree parents name place node = .ok ps →
        ∃ dps, docFile tree (f + 1) parents name = some dps ∧ ps = nonEmpties dps := by
      intro parents name place node ps hres h
      rw [expandFile_succ_ok_iff] at h
      obtain ⟨hn, kvs, incs, names, mid, rfl, h1, h2, h3, rfl⟩ := h
      obtain ⟨dmid, hd, rfl⟩ := ihl1 _ _ _ h3
      refine ⟨[(splitAtInclude kvs).1] ++ dmid ++ [(splitAtInclude kvs).2.2], ?_, piecesOf_eq _ _ _⟩
      rw [docFile_succ_some_iff]
      exact ⟨hn, place, kvs, incs, names, dmid, (docResolveFile_iff _ _ _ _).2 hres, h1,
        (mapE_resolveRelative_iff _ _ _).1 h2, hd, rfl⟩
    have hfile2 : ∀ parents name dps, docFile tree (f + 1) parents name = some dps →
        ∃ place node, resolveFile tree name = .ok (place, node) ∧
          expandFile (f + 1) tree parents name place node = .ok (nonEmpties dps) := by
      intro parents name dps h
      rw [docFile_succ_some_iff] at h
      obtain ⟨hn, place, kvs, incs, names, mid, h0, h1, h2, h3, rfl⟩ := h
      refine ⟨place, .file (.mapping kvs), (docResolveFile_iff _ _ _ _).1 h0, ?_⟩
      rw [expandFile_succ_ok_iff]
      exact ⟨hn, kvs, incs, names, nonEmpties mid, rfl, h1, (mapE_resolveRelative_iff _ _ _).2 h2,
        ihl2 _ _ _ h3, (piecesOf_eq _ _ _).symm⟩
    refine ⟨hfile1, hfile2, ?_, ?_⟩
    · intro parents names
      induction names with
      | nil => intro ps h; simp [expandList_nil] at h; subst h; exact ⟨[], docList_nil _ _ _, rfl⟩
      | cons n ns ihn =>
        intro ps h
        rw [expandList_cons_ok_iff] at h
        obtain ⟨place, node, p, q, h1, h2, h3, rfl⟩ := h
        obtain ⟨d1, hd1, rfl⟩ := hfile1 _ _ _ _ _ h1 h2
        obtain ⟨d2, hd2, rfl⟩ := ihn _ h3
        refine ⟨d1 ++ d2, ?_, (nonEmpties_append _ _).symm⟩
        rw [docList_cons_some_iff]
        exact ⟨d1, d2, hd1, hd2, rfl⟩
    · intro parents names
      induction names with
      | nil => intro dps h; simp [docList_nil] at h; subst h; exact expandList_nil _ _ _
      | cons n ns ihn =>
        intro dps h
        rw [docList_cons_some_iff] at h
        obtain ⟨d1, d2, h1, h2, rfl⟩ := h
        obtain ⟨place, node, hr, he⟩ := hfile2 _ _ _ h1
        rw [expandList_cons_ok_iff]
        exact ⟨place, node, _, _, hr, he, ihn _ h2, nonEmpties_append _ _⟩

end Vinegar.Yaml
