import Driver.Ops.Addr
import Driver.Ops.Cidr
import Driver.Ops.Conc
import Driver.Ops.Http
import Driver.Ops.Jinja
import Driver.Ops.Lifecycle
import Driver.Ops.Matcher
import Driver.Ops.Merge
import Driver.Ops.Paths
import Driver.Ops.Sqlite
import Driver.Ops.TextFile
import Driver.Ops.Tftp
import Driver.Ops.Yaml
/-
Line protocol: one JSON object per input line with a field "op"; one JSON object per
output line: {"ok": <result>} or {"err": "<message>"}.
-/
open Lean Driver

def allOps : List (String × Op) :=
  Driver.Addr.ops ++
  Driver.Cidr.ops ++
  Driver.Conc.ops ++
  Driver.Http.ops ++
  Driver.Jinja.ops ++
  Driver.Lifecycle.ops ++
  Driver.Matcher.ops ++
  Driver.Merge.ops ++
  Driver.Paths.ops ++
  Driver.Sqlite.ops ++
  Driver.TextFile.ops ++
  Driver.Tftp.ops ++
  Driver.Yaml.ops

def handleLine (line : String) : String :=
  match Json.parse line with
  | .error e => (Json.mkObj [("err", Json.str s!"parse: {e}")]).compress
  | .ok j =>
    match j.getObjVal? "op" >>= Json.getStr? with
    | .error e => (Json.mkObj [("err", Json.str s!"no op: {e}")]).compress
    | .ok op =>
      match allOps.lookup op with
      | none => (Json.mkObj [("err", Json.str s!"unknown op {op}")]).compress
      | some f =>
        match f j with
        | .ok r => (Json.mkObj [("ok", r)]).compress
        | .error e => (Json.mkObj [("err", Json.str e)]).compress

partial def loop (hin hout : IO.FS.Stream) : IO Unit := do
  let line ← hin.getLine
  if line.isEmpty then return ()
  let t := line.trimAscii.toString
  if !t.isEmpty then
    hout.putStrLn (handleLine t)
    hout.flush
  loop hin hout

def main : IO Unit := do
  let hin ← IO.getStdin
  let hout ← IO.getStdout
  loop hin hout
  hout.flush
