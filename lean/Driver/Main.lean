import Driver.Ops.Tftp
import Driver.Ops.Http
/-
Line protocol: one JSON object per input line with a field "op"; one JSON object per
output line: {"ok": <result>} or {"err": "<message>"}.
-/
open Lean Driver

def allOps : List (String × Op) :=
  Driver.Tftp.ops ++ Driver.Http.ops

def handleLine (line : String) : String :=
  match Json.parse line with
  | .error e => (Json.mkObj [("err", Json.str s!"parse: {e}")]).compress
  | .ok j =>
    match j.getObjVal? "op" >>= Json.getStr? with
    | .error e => (Json.mkObj [("err", Json.str s!"no op: {e}")]).compress
    | .ok op =>
      match allOps.lookup op with
      | none => (Json.mkObj [("err", Json.str s!"unknown op {op}")]).compress
      | some f =>
        match f j with
        | .ok r => (Json.mkObj [("ok", r)]).compress
        | .error e => (Json.mkObj [("err", Json.str e)]).compress

partial def loop (hin hout : IO.FS.Stream) : IO Unit := do
  let line ← hin.getLine
  if line.isEmpty then return ()
  let t := line.trimAscii.toString
  if !t.isEmpty then
    hout.putStrLn (handleLine t)
  loop hin hout

def main : IO Unit := do
  let hin ← IO.getStdin
  let hout ← IO.getStdout
  loop hin hout
  hout.flush
