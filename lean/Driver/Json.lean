import Lean.Data.Json
import Vinegar.Model.Basic
/-
JSON helpers of the line-protocol driver. Bytes travel as lower-case hex strings.
-/
namespace Driver
open Lean Vinegar

abbrev Op := Json → Except String Json

def hexDigit (n : Nat) : Char :=
  if n < 10 then Char.ofNat (48 + n) else Char.ofNat (87 + n)

def toHex (b : Bytes) : String :=
  String.ofList (b.flatMap (fun x => [hexDigit (x.toNat / 16), hexDigit (x.toNat % 16)]))

def hexVal (c : Char) : Option Nat :=
  if '0' ≤ c ∧ c ≤ '9' then some (c.toNat - 48)
  else if 'a' ≤ c ∧ c ≤ 'f' then some (c.toNat - 87)
  else if 'A' ≤ c ∧ c ≤ 'F' then some (c.toNat - 55)
  else none

def fromHexList : List Char → Except String Bytes
  | [] => .ok []
  | [_] => .error "odd hex length"
  | a :: b :: rest =>
    match hexVal a, hexVal b with
    | some x, some y => (fromHexList rest).map (fun t => UInt8.ofNat (x * 16 + y) :: t)
    | _, _ => .error "bad hex digit"

def fromHex (s : String) : Except String Bytes := fromHexList s.toList

def getField (j : Json) (k : String) : Except String Json := j.getObjVal? k
def getNat (j : Json) (k : String) : Except String Nat := do (← getField j k).getNat?
def getInt (j : Json) (k : String) : Except String Int := do (← getField j k).getInt?
def getStr (j : Json) (k : String) : Except String String := do (← getField j k).getStr?
def getBool (j : Json) (k : String) : Except String Bool := do (← getField j k).getBool?
def getArr (j : Json) (k : String) : Except String (List Json) := do
  return (← (← getField j k).getArr?).toList
def getBytes (j : Json) (k : String) : Except String Bytes := do fromHex (← getStr j k)
def getOptNat (j : Json) (k : String) : Except String (Option Nat) := do
  match j.getObjVal? k with
  | .ok Json.null => return none
  | .ok v => return some (← v.getNat?)
  | .error _ => return none
def getNatList (j : Json) (k : String) : Except String (List Nat) := do
  (← getArr j k).mapM (fun x => x.getNat?)

def jNat (n : Nat) : Json := Json.num (JsonNumber.fromNat n)
def jStr (s : String) : Json := Json.str s
def jBytes (b : Bytes) : Json := Json.str (toHex b)
def jArr (l : List Json) : Json := Json.arr l.toArray
def jBool (b : Bool) : Json := Json.bool b
def jOptNat : Option Nat → Json
  | none => Json.null
  | some n => jNat n
def jChars (s : List Char) : Json := Json.str (String.ofList s)

end Driver
