import Driver.Json
import Vinegar.Spec.Http
/-
Line-protocol operations of the HTTP model (C03; HTTP halves of C09, C10, C20).
Raw response bytes travel as hex; they are parsed HERE with the Lean `parseResponse`.
-/
namespace Driver.Http
open Lean Vinegar Vinegar.Http Vinegar.Http.Spec Driver

/-- hex decoding without deep recursion (bodies of several MiB) -/
def fromHexBig (s : String) : Except String Bytes :=
  let st : Array UInt8 × Option Nat × Bool :=
    s.foldl (fun (acc : Array UInt8 × Option Nat × Bool) c =>
      match hexVal c with
      | none => (acc.1, acc.2.1, true)
      | some v =>
        match acc.2.1 with
        | none => (acc.1, some v, acc.2.2)
        | some hi => (acc.1.push (UInt8.ofNat (hi * 16 + v)), none, acc.2.2)) (#[], none, false)
  if st.2.2 then .error "bad hex digit"
  else if st.2.1.isSome then .error "odd hex length"
  else .ok st.1.toList

def getBig (j : Json) (k : String) : Except String Bytes := do fromHexBig (← getStr j k)

def hexChars : Array Char := #['0','1','2','3','4','5','6','7','8','9','a','b','c','d','e','f']

def toHexBig (b : Bytes) : String :=
  b.foldl (fun (s : String) x => (s.push (hexChars[x.toNat / 16]!)).push (hexChars[x.toNat % 16]!)) ""

/-- deterministic body pattern: byte i = (i * mul + (i / 256) * add + off) % 256 -/
def genBody (len mul add off : Nat) : Bytes :=
  (List.range len).map (fun i => UInt8.ofNat ((i * mul + (i / 256) * add + off) % 256))

def headerFromJson (j : Json) : Except String Header := do
  let a ← j.getArr?
  return (← fromHex (← (a[0]?.getD Json.null).getStr?), ← fromHex (← (a[1]?.getD Json.null).getStr?))

def bodyFromJson (j : Json) : Except String (Option Bytes) := do
  match j.getObjVal? "body_gen" with
  | .ok (Json.obj _) =>
    let g ← getField j "body_gen"
    return some (genBody (← getNat g "len") (← getNat g "mul") (← getNat g "add") (← getNat g "off"))
  | _ =>
    match j.getObjVal? "body" with
    | .ok (Json.str s) => return some (← fromHexBig s)
    | _ => return none

def resultFromJson (j : Json) : Except String Result := do
  match ← getStr j "kind" with
  | "raised" => return .raised
  | "ret" =>
    let hs ← match j.getObjVal? "headers" with
      | .ok (Json.arr a) => pure (some (← a.toList.mapM headerFromJson))
      | _ => pure none
    return .ret (← getNat j "status") hs (← bodyFromJson j)
  | k => throw s!"bad result kind {k}"

def acceptFromString : String → Except String Accept
  | "yes" => pure .yes
  | "no" => pure .no
  | "raise_prepare" => pure .raisePrepare
  | "raise_can" => pure .raiseCanHandle
  | s => throw s!"bad accept {s}"

def handlerFromJson (j : Json) : Except String Handler := do
  return ⟨← acceptFromString (← getStr j "accept"), ← resultFromJson (← getField j "result")⟩

def tableFromJson (l : List Json) : Except String (List (Nat × Bytes)) :=
  l.mapM (fun p => do
    let a ← p.getArr?
    return (← (a[0]?.getD Json.null).getNat?, ← fromHex (← (a[1]?.getD Json.null).getStr?)))

def lookupTable (t : List (Nat × Bytes)) (dflt : Bytes) (code : Nat) : Bytes :=
  match t.lookup code with
  | some b => b
  | none => dflt

def callToJson : Call → Json
  | .prepare i => jArr [jStr "prepare", jNat i]
  | .canHandle i => jArr [jStr "can_handle", jNat i]
  | .handle i => jArr [jStr "handle", jNat i]

def callFromJson (j : Json) : Except String Call := do
  let a ← j.getArr?
  let i ← (a[1]?.getD Json.null).getNat?
  match ← (a[0]?.getD Json.null).getStr? with
  | "prepare" => return .prepare i
  | "can_handle" => return .canHandle i
  | "handle" => return .handle i
  | t => throw s!"bad call {t}"

def outcomeToJson : Outcome → Json
  | .badRequest => Json.mkObj [("kind", jStr "bad_request")]
  | .notFound => Json.mkObj [("kind", jStr "not_found")]
  | .failed => Json.mkObj [("kind", jStr "failed")]
  | .handled i r => Json.mkObj [("kind", jStr "handled"), ("index", jNat i),
      ("raised", jBool (r == .raised))]

def clausesToJson (cs : List (String × Bool)) : Json :=
  jArr (cs.map (fun c => jArr [jStr c.1, jBool c.2]))

def optStr : Option String → Json
  | none => Json.null
  | some s => jStr s

def responseToJson (r : Response) : Json :=
  Json.mkObj [("status", jNat r.status),
    ("headers", jArr (r.headers.map (fun h => jArr [jBytes h.1, jBytes h.2]))),
    ("body_len", jNat r.body.length),
    ("body_head", jBytes (r.body.take 64))]

def firstDiff : Bytes → Bytes → Nat → Nat
  | a :: as, b :: bs, i => if a = b then firstDiff as bs (i + 1) else i
  | _, _, i => i

/-- one exchange: model, spec checkers on the implementation's raw bytes and on the model's -/
def exchange : Op := fun j => do
  let isHead ← getBool j "is_head"
  let path ← getBytes j "path"
  let hs ← (← getArr j "handlers").mapM handlerFromJson
  let tables ← getField j "tables"
  let reason ← tableFromJson (← getArr tables "reason")
  let errpage ← tableFromJson (← getArr tables "errpage")
  let raw ← getBig j "impl_raw"
  let implCalls ← (← getArr j "impl_calls").mapM callFromJson
  -- the two values the property leaves open are taken from the implementation's response
  let parsed := parseResponse isHead raw
  let hv (n : String) : Bytes :=
    match parsed with
    | some (r, _) => (headerValue (lit n) r.headers).getD (lit "*")
    | none => lit "*"
  let env : Env := ⟨hv "Server", hv "Date", lookupTable reason (lit "???"), lookupTable errpage []⟩
  let ex := respond env isHead path hs
  let csImpl := clauses env isHead ex.outcome raw
  let csModel := clauses env isHead ex.outcome ex.bytes
  let agree := raw == ex.bytes
  let mut fields : List (String × Json) := [
    ("outcome", outcomeToJson ex.outcome),
    ("logs_exception", jBool ex.outcome.logsException),
    ("model_calls", jArr (ex.calls.map callToJson)),
    ("calls_ok", jBool (callsOk hs path implCalls)),
    ("clauses_impl", clausesToJson csImpl),
    ("spec_impl", jBool (csImpl.all (·.2))),
    ("failed_clause", optStr (firstFailed csImpl)),
    ("spec_model", jBool (csModel.all (·.2))),
    ("bytes_agree", jBool agree),
    ("model_len", jNat ex.bytes.length),
    ("impl_len", jNat raw.length),
    ("expected", responseToJson (expectedOutcome env isHead ex.outcome)),
    ("model_parse_is_expected",
      jBool (parseResponse isHead ex.bytes == some (expectedOutcome env isHead ex.outcome, [])))]
  match parsed with
  | some (r, rest) => fields := fields ++ [("impl_parsed", responseToJson r), ("impl_trailing", jNat rest.length)]
  | none => fields := fields ++ [("impl_parsed", Json.null)]
  if !agree then
    let d := firstDiff raw ex.bytes 0
    fields := fields ++ [("first_diff", jNat d),
      ("model_at_diff", jBytes ((ex.bytes.drop (d - min d 16)).take 64)),
      ("impl_at_diff", jBytes ((raw.drop (d - min d 16)).take 64)),
      ("model_head", jBytes (ex.bytes.take 300))]
  return Json.mkObj fields

/-- strict parse only (C09: arbitrary request heads) -/
def parse : Op := fun j => do
  let isHead ← getBool j "is_head"
  let raw ← getBig j "raw"
  let gateOk := match j.getObjVal? "path" with
    | .ok (Json.str s) => (match fromHex s with
        | .ok p => jBool (gate (stdlibPath p))
        | .error _ => Json.null)
    | _ => Json.null
  match parseResponse isHead raw with
  | some (r, rest) =>
    return Json.mkObj [("parsed", responseToJson r), ("trailing", jNat rest.length),
      ("c09_ok", jBool (c09ResponseOk isHead raw)), ("gate", gateOk)]
  | none => return Json.mkObj [("parsed", Json.null), ("trailing", jNat 0),
      ("c09_ok", jBool (c09ResponseOk isHead raw)), ("gate", gateOk)]

/-! lifecycle -/
open Vinegar.Http.Lifecycle Vinegar.Http.Spec.Lifecycle

def opFromJson (j : Json) : Except String Lifecycle.Op := do
  match ← j.getStr? with
  | "start" => return .start true
  | "start_blocked" => return .start false
  | "stop" => return .stop
  | s => throw s!"bad lifecycle op {s}"

def probeFromJson (j : Json) : Except String Probe := do
  return ⟨← getBool j "raised", ← getBool j "accepts", ← getBool j "serves", ← getBool j "rebind",
    ← getBool j "thread_alive"⟩

def probeToJson (p : Probe) : Json :=
  Json.mkObj [("raised", jBool p.raised), ("accepts", jBool p.accepts), ("serves", jBool p.serves),
    ("rebind", jBool p.rebind), ("thread_alive", jBool p.threadAlive)]

/-- all end states of the serialisations of the threads' calls (lock granularity) -/
def finals : Nat → State → List (List Lifecycle.Op) → List State
  | 0, s, _ => [s]
  | fuel + 1, s, ths =>
    if ths.all List.isEmpty then [s]
    else
      ((List.range ths.length).flatMap (fun i =>
        match ths[i]? with
        | some (op :: rest) => finals fuel (call s op).1 (ths.set i rest)
        | _ => [])).eraseDups

def lifecycle : Op := fun j => do
  match ← getStr j "mode" with
  | "seq" =>
    let steps ← getArr j "steps"
    let ops ← steps.mapM (fun s => do opFromJson (← getField s "op"))
    let probes ← steps.mapM (fun s => do probeFromJson (← getField s "probe"))
    let model := modelProbes Lifecycle.init ops
    let failed := historyCheck Lifecycle.init (ops.zip probes) 0
    return Json.mkObj [
      ("model", jArr (model.map probeToJson)),
      ("ok_impl", jBool failed.isNone),
      ("failed", match failed with
        | none => Json.null
        | some (i, c) => jArr [jNat i, jStr c]),
      ("ok_model", jBool (historyCheck Lifecycle.init (ops.zip model) 0).isNone),
      ("agree", jBool (model == probes)),
      ("end_consistent", jBool (consistent (run Lifecycle.init ops)))]
  | "conc" =>
    let pre ← (← getArr j "pre").mapM opFromJson
    let ths ← (← getArr j "threads").mapM (fun t => do (← t.getArr?).toList.mapM opFromJson)
    let anyRaised ← getBool j "any_raised"
    let p ← probeFromJson (← getField j "probe")
    let s0 := run Lifecycle.init pre
    let total := (ths.map List.length).foldl (· + ·) 0
    let fs := finals (total + 1) s0 ths
    let possible := fs.map (fun s => expectProbe s false)
    return Json.mkObj [
      ("ok_impl", jBool (concurrentCheck anyRaised p)),
      ("possible", jArr (possible.map probeToJson)),
      ("agree", jBool (possible.contains p)),
      ("ok_model", jBool (possible.all (fun q => concurrentCheck false q)))]
  | "replay" =>
    -- a run of the real server under the deterministic scheduler: the calls in the order in which they took
    -- `_running_lock` (each runs to the end of its `with` block: `call`), with the state observed after each
    let calls ← (← getArr j "calls").mapM opFromJson
    let stateJ (s : State) : Json := Json.mkObj [("running", jBool s.running), ("server_obj", jBool s.serverObj),
      ("listening", jBool s.listening), ("thread_ref", jBool s.threadRef), ("thread_alive", jBool s.threadAlive)]
    let rec go (s : State) : List Lifecycle.Op → List State
      | [] => []
      | op :: rest => (call s op).1 :: go (call s op).1 rest
    let states := go Lifecycle.init calls
    let final ← getField j "final"
    let fRunning ← getBool final "running"
    let fObj ← getBool final "server_obj"
    let fListening ← getBool final "listening"
    let fRef ← getBool final "thread_ref"
    let fAlive ← getBool final "thread_alive"
    let fs : State := ⟨fRunning, fObj, fListening, fRef, fAlive⟩
    return Json.mkObj [("states", jArr (states.map stateJ)),
      ("model_final", stateJ (run Lifecycle.init calls)),
      ("model_final_consistent", jBool (consistent (run Lifecycle.init calls))),
      ("impl_final_consistent", jBool (consistent fs))]
  | m => throw s!"bad mode {m}"

def ops : List (String × Op) := [
  ("http.exchange", exchange), ("http.parse", parse), ("http.lifecycle", lifecycle)]

end Driver.Http
