import Driver.Json
import Vinegar.Spec.Merge
/-
Line-protocol operations of the merge / composite-source model (C13).

Values travel as tagged JSON:
  {"t":"none"} {"t":"bool","v":true} {"t":"int","v":5} {"t":"str","v":"x"}
  {"t":"bytes","v":"<hex>"} {"t":"float","v":"<repr>"}
  {"t":"list"|"tuple"|"set","v":[…]}   {"t":"dict","v":[[key,value],…]}
Outcomes: {"ok": …} or {"exc": "<exception class name>"}.
-/
namespace Driver.Merge
open Lean Vinegar Vinegar.Merge Driver

def keyToJson : Key → Json
  | .none => Json.mkObj [("t", "none")]
  | .bool b => Json.mkObj [("t", "bool"), ("v", Json.bool b)]
  | .int i => Json.mkObj [("t", "int"), ("v", Json.num (JsonNumber.fromInt i))]
  | .str s => Json.mkObj [("t", "str"), ("v", Json.str s)]
  | .bytes b => Json.mkObj [("t", "bytes"), ("v", jBytes b)]
  | .float r => Json.mkObj [("t", "float"), ("v", Json.str r)]

partial def valToJson : Val → Json
  | .none => Json.mkObj [("t", "none")]
  | .bool b => Json.mkObj [("t", "bool"), ("v", Json.bool b)]
  | .int i => Json.mkObj [("t", "int"), ("v", Json.num (JsonNumber.fromInt i))]
  | .str s => Json.mkObj [("t", "str"), ("v", Json.str s)]
  | .bytes b => Json.mkObj [("t", "bytes"), ("v", jBytes b)]
  | .float r => Json.mkObj [("t", "float"), ("v", Json.str r)]
  | .list xs => Json.mkObj [("t", "list"), ("v", jArr (xs.map valToJson))]
  | .tuple xs => Json.mkObj [("t", "tuple"), ("v", jArr (xs.map valToJson))]
  | .set xs => Json.mkObj [("t", "set"), ("v", jArr (xs.map valToJson))]
  | .dict d => Json.mkObj [("t", "dict"), ("v", jArr (d.map (fun kv => jArr [keyToJson kv.1, valToJson kv.2])))]

def dictToJson (d : Dict) : Json := valToJson (.dict d)

def keyFromJson (j : Json) : Except String Key := do
  match ← getStr j "t" with
  | "none" => return .none
  | "bool" => return .bool (← getBool j "v")
  | "int" => return .int (← getInt j "v")
  | "str" => return .str (← getStr j "v")
  | "bytes" => return .bytes (← getBytes j "v")
  | "float" => return .float (← getStr j "v")
  | t => throw s!"bad key tag {t}"

partial def valFromJson (j : Json) : Except String Val := do
  match ← getStr j "t" with
  | "none" => return .none
  | "bool" => return .bool (← getBool j "v")
  | "int" => return .int (← getInt j "v")
  | "str" => return .str (← getStr j "v")
  | "bytes" => return .bytes (← getBytes j "v")
  | "float" => return .float (← getStr j "v")
  | "list" => return .list (← (← getArr j "v").mapM valFromJson)
  | "tuple" => return .tuple (← (← getArr j "v").mapM valFromJson)
  | "set" => return .set (← (← getArr j "v").mapM valFromJson)
  | "dict" =>
    let es ← (← getArr j "v").mapM (fun p => do
      let a ← p.getArr?
      let k ← keyFromJson (a[0]?.getD Json.null)
      let v ← valFromJson (a[1]?.getD Json.null)
      return (k, v))
    return .dict es
  | t => throw s!"bad value tag {t}"

def dictFromJson (j : Json) : Except String Dict := do
  match ← valFromJson j with
  | .dict d => return d
  | _ => throw "expected a dict"

def getDict (j : Json) (k : String) : Except String Dict := do dictFromJson (← getField j k)

/-- {"ok": dict} | {"exc": name} -/
def outcomeFromJson (j : Json) : Except String Outcome := do
  match j.getObjVal? "exc" with
  | .ok e => return .error (← e.getStr?)
  | .error _ => return .ok (← getDict j "ok")

def outcomeToJson : Except TypeError Dict → Json
  | .ok d => Json.mkObj [("ok", dictToJson d)]
  | .error _ => Json.mkObj [("exc", "TypeError")]

def modelOutcome := observedOutcome

def checksOf (ml ms : Bool) (a b : Dict) (o : Outcome) : Json :=
  let onOk (f : Dict → Bool) : Bool := match o with | .ok r => f r | .error _ => true
  Json.mkObj [
    ("typeerror_iff", jBool (checkTypeErrorIff ml ms a b o)),
    ("keys", jBool (onOk (checkKeys a b))),
    ("values", jBool (onOk (checkDict ml ms a b))),
    ("lookup", jBool (onOk (checkLookup ml ms a b))),
    ("empty_left", jBool (if a.isEmpty then checkEmptyLeft b o else true)),
    ("empty_right", jBool (if b.isEmpty then checkEmptyRight a o else true)),
    ("outcome", jBool (checkOutcome ml ms a b o))]

/-- {"op":"c13_merge","ml":…,"ms":…,"a":dict,"b":dict,"impl":outcome} -/
def opMerge : Op := fun j => do
  let ml ← getBool j "ml"
  let ms ← getBool j "ms"
  let a ← getDict j "a"
  let b ← getDict j "b"
  let impl ← outcomeFromJson (← getField j "impl")
  let m := mergeDataTrees ml ms a b
  return Json.mkObj [
    ("wf", jBool (Dict.wf a && Dict.wf b)),
    ("model", outcomeToJson m),
    ("conflict", jBool (dictConflict ml ms a b)),
    ("checks_model", checksOf ml ms a b (modelOutcome m)),
    ("checks_impl", checksOf ml ms a b impl)]

/-- {"op":"c13_merge3",…,"a","b","c"}: both bracketings in the model -/
def opMerge3 : Op := fun j => do
  let ml ← getBool j "ml"
  let ms ← getBool j "ms"
  let a ← getDict j "a"
  let b ← getDict j "b"
  let c ← getDict j "c"
  let ab := mergeDataTrees ml ms a b
  let bc := mergeDataTrees ml ms b c
  let left := mergeLeft ml ms a b c
  let right := mergeRight ml ms a b c
  return Json.mkObj [
    ("wf", jBool (Dict.wf a && Dict.wf b && Dict.wf c)),
    ("ab", outcomeToJson ab), ("bc", outcomeToJson bc),
    ("left", outcomeToJson left), ("right", outcomeToJson right)]

/-! ### sources of the composite ops -/

def hashFromTable (t : List (String × String)) : String → String :=
  fun s => (t.lookup s).getD ("?H(" ++ s ++ ")")

def tableFromJson (j : Json) (k : String) : Except String (List (String × String)) := do
  (← getArr j k).mapM (fun p => do
    let a ← p.getArr?
    return (← (a[0]?.getD Json.null).getStr?, ← (a[1]?.getD Json.null).getStr?))

/-- the small language of scripted sources the harness also implements in Python -/
def getFnFromJson (j : Json) : Except String (String → Dict → String → Except String (Dict × String)) := do
  match ← getStr j "kind" with
  | "const" =>
    let d ← getDict j "data"
    let v ← getStr j "version"
    return fun _ _ _ => .ok (d, v)
  | "raise" =>
    let c ← getStr j "cls"
    return fun _ _ _ => .error c
  | "echo" =>   -- data = {key: preceding_data}, version = prefix + preceding_version
    let k ← keyFromJson (← getField j "key")
    let p ← getStr j "prefix"
    return fun _ pd pv => .ok ([(k, .dict pd)], p ++ pv)
  | "sysid" =>  -- data = {"id": system_id}, version = "s:" + system_id
    return fun sid _ _ => .ok ([(.str "id", .str sid)], "s:" ++ sid)
  | k => throw s!"bad get kind {k}"

def optStrFromJson (j : Json) : Except String (Option String) :=
  match j with
  | Json.null => return none
  | v => return some (← v.getStr?)

def findFnFromJson (j : Json) : Except String (String → Val → Except String (Option String)) := do
  match ← getStr j "kind" with
  | "const" =>
    let r ← optStrFromJson ((j.getObjVal? "result").toOption.getD Json.null)
    return fun _ _ => .ok r
  | "raise" =>
    let c ← getStr j "cls"
    return fun _ _ => .error c
  | "eq" =>     -- result if (key, value) are the configured ones, else None
    let k ← getStr j "key"
    let v ← valFromJson (← getField j "value")
    let r ← getStr j "result"
    return fun k' v' => .ok (if k' == k && v' == v then some r else none)
  | k => throw s!"bad find kind {k}"

def sourceFromJson (j : Json) : Except String Source := do
  return { getData := ← getFnFromJson (← getField j "get"),
           findSystem := ← findFnFromJson (← getField j "find") }

def getOutToJson : Except String (Dict × String) → Json
  | .ok (d, v) => Json.mkObj [("ok", jArr [dictToJson d, jStr v])]
  | .error c => Json.mkObj [("exc", jStr c)]

def getOutFromJson (j : Json) : Except String (Except String (Dict × String)) := do
  match j.getObjVal? "exc" with
  | .ok e => return .error (← e.getStr?)
  | .error _ =>
    let a ← getArr j "ok"
    return .ok (← dictFromJson (a[0]?.getD Json.null), ← (a[1]?.getD Json.null).getStr?)

def getEntryFromJson (j : Json) : Except String GetEntry := do
  return { sid := ← getStr j "sid", pd := ← getDict j "pd", pv := ← getStr j "pv",
           out := ← getOutFromJson (← getField j "out") }

def getEntryToJson (e : GetEntry) : Json :=
  Json.mkObj [("sid", jStr e.sid), ("pd", dictToJson e.pd), ("pv", jStr e.pv), ("out", getOutToJson e.out)]

/-- {"op":"c13_chain","ml","ms","sid","d0","v0","sources":[…],"htable":[[in,out]…],
     "impl":{"result":out,"log":[entry…]}} -/
def opChain : Op := fun j => do
  let ml ← getBool j "ml"
  let ms ← getBool j "ms"
  let sid ← getStr j "sid"
  let d0 ← getDict j "d0"
  let v0 ← getStr j "v0"
  let srcs ← (← getArr j "sources").mapM sourceFromJson
  let H := hashFromTable (← tableFromJson j "htable")
  let impl ← getField j "impl"
  let implRes ← getOutFromJson (← getField impl "result")
  let implLog ← (← getArr impl "log").mapM getEntryFromJson
  let run := compositeRun H ml ms srcs sid d0 v0
  let mRes := observedResult run.2
  let mLog := getEntriesOf srcs run.1
  return Json.mkObj [
    ("model", Json.mkObj [("result", getOutToJson mRes), ("log", jArr (mLog.map getEntryToJson))]),
    ("checks_model", Json.mkObj [("chain", jBool (checkChain H ml ms sid srcs.length d0 v0 mLog mRes))]),
    ("checks_impl", Json.mkObj [("chain", jBool (checkChain H ml ms sid srcs.length d0 v0 implLog implRes))])]

def findOutToJson : Except String (Option String) → Json
  | .ok none => Json.mkObj [("ok", Json.null)]
  | .ok (some s) => Json.mkObj [("ok", jStr s)]
  | .error c => Json.mkObj [("exc", jStr c)]

def findOutFromJson (j : Json) : Except String (Except String (Option String)) := do
  match j.getObjVal? "exc" with
  | .ok e => return .error (← e.getStr?)
  | .error _ => return .ok (← optStrFromJson (← getField j "ok"))

def findEntryFromJson (j : Json) : Except String FindEntry := do
  return { key := ← getStr j "key", value := ← valFromJson (← getField j "value"),
           out := ← findOutFromJson (← getField j "out") }

/-- {"op":"c13_find","key","value","sources":[…],"impl":{"result":…,"log":[…]}} -/
def opFind : Op := fun j => do
  let key ← getStr j "key"
  let value ← valFromJson (← getField j "value")
  let srcs ← (← getArr j "sources").mapM sourceFromJson
  let impl ← getField j "impl"
  let implRes ← findOutFromJson (← getField impl "result")
  let implLog ← (← getArr impl "log").mapM findEntryFromJson
  let run := compositeFindRun srcs key value
  let mLog := findEntriesOf srcs key value run.1
  return Json.mkObj [
    ("model", Json.mkObj [("result", findOutToJson run.2), ("calls", jNat run.1)]),
    ("checks_model", Json.mkObj [("find", jBool (checkFind key value srcs.length mLog run.2))]),
    ("checks_impl", Json.mkObj [("find", jBool (checkFind key value srcs.length implLog implRes))])]

/-- {"op":"c13_agg","versions":[…],"htable":[[in,out]…]} -/
def opAgg : Op := fun j => do
  let vs ← (← getArr j "versions").mapM (fun x => x.getStr?)
  let H := hashFromTable (← tableFromJson j "htable")
  return Json.mkObj [("model", jStr (aggregateVersion H vs)), ("joined", jStr (joinSep vs))]

def ops : List (String × Op) :=
  [("c13_merge", opMerge), ("c13_merge3", opMerge3), ("c13_chain", opChain),
   ("c13_find", opFind), ("c13_agg", opAgg)]

end Driver.Merge
