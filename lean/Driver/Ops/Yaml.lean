import Driver.Json
import Vinegar.Spec.Yaml
/-
Line-protocol operations of the YAML target source (C11, C12).

Values travel as tagged JSON arrays: ["n"], ["b",true], ["i",5], ["s","x"], ["f","1.5"],
["l",[…]], ["d",[[key,value],…]] (ordered), ["S",[sorted strings]], ["o",repr].
Names travel as dotted strings and are split here exactly like `str.split(".")`; paths are
arrays of segments.
-/
namespace Driver.Yaml
open Lean Vinegar Vinegar.Yaml Driver

partial def valFromJson (j : Json) : Except String Val := do
  let a ← j.getArr?
  let tag ← (a[0]?.getD Json.null).getStr?
  let x := a[1]?.getD Json.null
  match tag with
  | "n" => return .null
  | "b" => return .bool (← x.getBool?)
  | "i" => return .int (← x.getInt?)
  | "s" => return .str (← x.getStr?)
  | "f" => return .float (← x.getStr?)
  | "l" => return .list (← (← x.getArr?).toList.mapM valFromJson)
  | "d" =>
    let kvs ← (← x.getArr?).toList.mapM (fun p => do
      let q ← p.getArr?
      let k ← (q[0]?.getD Json.null).getStr?
      let v ← valFromJson (q[1]?.getD Json.null)
      return (k, v))
    return .dict kvs
  | "S" => return .set (← (← x.getArr?).toList.mapM (fun s => s.getStr?))
  | "o" => return .opaque (← x.getStr?)
  | t => throw s!"bad value tag {t}"

def mappingFromJson (j : Json) : Except String Mapping := do
  (← j.getArr?).toList.mapM (fun p => do
    let q ← p.getArr?
    let k ← (q[0]?.getD Json.null).getStr?
    let v ← valFromJson (q[1]?.getD Json.null)
    return (k, v))

partial def valToJson : Val → Json
  | .null => jArr [jStr "n"]
  | .bool b => jArr [jStr "b", jBool b]
  | .int i => jArr [jStr "i", Json.num (JsonNumber.fromInt i)]
  | .str s => jArr [jStr "s", jStr s]
  | .float r => jArr [jStr "f", jStr r]
  | .list xs => jArr [jStr "l", jArr (xs.map valToJson)]
  | .dict kvs => jArr [jStr "d", jArr (kvs.map (fun p => jArr [jStr p.1, valToJson p.2]))]
  | .set xs => jArr [jStr "S", jArr (xs.map jStr)]
  | .opaque r => jArr [jStr "o", jStr r]

def mappingToJson (m : Mapping) : Json := jArr (m.map (fun p => jArr [jStr p.1, valToJson p.2]))

def tagOf (j : Json) : Except String (String × Array Json) := do
  let a ← j.getArr?
  return (← (a[0]?.getD Json.null).getStr?, a)

def parsedFromJson (j : Json) : Except String Parsed := do
  let (tag, a) ← tagOf j
  match tag with
  | "error" => return .error
  | "nonMapping" => return .nonMapping
  | "mapping" => return .mapping (← mappingFromJson (a[1]?.getD Json.null))
  | t => throw s!"bad parsed tag {t}"

def fileNodeFromJson (j : Json) : Except String FileNode := do
  let (tag, _) ← tagOf j
  match tag with
  | "dir" => return .dir
  | "renderError" => return .renderError
  | _ => return .file (← parsedFromJson j)

def matchFromJson (j : Json) : Except String MatchRes :=
  match j with
  | .str "yes" => .ok .yes
  | .str "no" => .ok .no
  | _ => do
    let (tag, a) ← tagOf j
    if tag == "error" then return .error (← (a[1]?.getD Json.null).getStr?) else throw "bad match result"

def topListFromJson (j : Json) : Except String TopList := do
  let (tag, a) ← tagOf j
  match tag with
  | "names" =>
    let ss ← (← (a[1]?.getD Json.null).getArr?).toList.mapM (fun s => s.getStr?)
    return .names (ss.map splitName)
  | "str" => return .str
  | "notSeq" => return .notSeq
  | "unsupported" => return .unsupported
  | t => throw s!"bad top list tag {t}"

def topParsedFromJson (j : Json) : Except String TopParsed := do
  let (tag, a) ← tagOf j
  match tag with
  | "error" => return .error
  | "null" => return .null
  | "nonMapping" => return .nonMapping
  | "entries" =>
    let es ← (← (a[1]?.getD Json.null).getArr?).toList.mapM (fun e => do
      let q ← e.getArr?
      let m ← matchFromJson (q[0]?.getD Json.null)
      let l ← topListFromJson (q[1]?.getD Json.null)
      return (m, l))
    return .entries es
  | t => throw s!"bad top tag {t}"

def topViewFromJson (j : Json) : Except String TopView := do
  let (tag, _) ← tagOf j
  match tag with
  | "missing" => return .missing
  | "renderError" => return .renderError
  | _ => return .parsed (← topParsedFromJson j)

def pathFromJson (j : Json) : Except String Path := do
  (← j.getArr?).toList.mapM (fun s => s.getStr?)

def cfgFromJson (j : Json) : Except String Cfg := do
  return { mergeLists := ← getBool j "merge_lists", mergeSets := ← getBool j "merge_sets",
           allowEmptyTop := ← getBool j "allow_empty_top" }

def assocGet {α β : Type} [BEq α] (k : α) : List (α × β) → Option β
  | [] => none
  | (k', v) :: rest => if k' == k then some v else assocGet k rest

def resToJson : Except Err Mapping → Json
  | .ok m => jArr [jStr "ok", mappingToJson m]
  | .error e => jArr [jStr "err", jStr e.cls, jStr e.kind]

def docToJson : DocResult → Json
  | .data m => jArr [jStr "data", mappingToJson m]
  | .error => jArr [jStr "error"]

def implObs (j : Json) : Except String (Option Mapping × String) := do
  let (tag, a) ← tagOf j
  match tag with
  | "ok" => return (some (← mappingFromJson (a[1]?.getD Json.null)), "")
  | "err" => return (none, ← (a[1]?.getD Json.null).getStr?)
  | t => throw s!"bad observation tag {t}"

/-- C11: one call on one rendered and parsed tree -/
def opCompile : Op := fun j => do
  let cfg ← cfgFromJson (← getField j "cfg")
  let fuel ← getNat j "fuel"
  let top ← topViewFromJson (← getField j "top")
  let files ← (← getArr j "files").mapM (fun e => do
    let q ← e.getArr?
    let p ← pathFromJson (q[0]?.getD Json.null)
    let n ← fileNodeFromJson (q[1]?.getD Json.null)
    return (p, n))
  let tree : Tree := fun p => assocGet p files
  let model := compile cfg fuel top tree
  let doc := docData cfg fuel top tree
  let (implData, _) ← implObs (← getField j "impl")
  let modelObs : Option Mapping := match model with | .ok m => some m | .error _ => none
  return Json.mkObj [
    ("model", resToJson model),
    ("doc", docToJson doc),
    ("spec_impl", jBool (c11Check cfg fuel top tree implData)),
    ("spec_model", jBool (c11Check cfg fuel top tree modelObs))]

/-- `_resolve_relative_include` alone (small-scope cross-check) -/
def opResolve : Op := fun j => do
  let inc := splitName (← getStr j "include")
  let par := splitName (← getStr j "parent")
  let m := resolveRelative inc par
  let d := docResolve inc par
  return Json.mkObj [
    ("model", match m with
      | .ok n => jArr [jStr "ok", jStr (String.intercalate "." n)]
      | .error e => jArr [jStr "err", jStr e.cls, jStr e.kind]),
    ("doc", match d with
      | some n => jArr [jStr "ok", jStr (String.intercalate "." n)]
      | none => jArr [jStr "none"])]

/-- `merge_data_trees` alone -/
def opMerge : Op := fun j => do
  let a ← mappingFromJson (← getField j "a")
  let b ← mappingFromJson (← getField j "b")
  let ml ← getBool j "merge_lists"
  let ms ← getBool j "merge_sets"
  return match merge ml ms a b with
    | some m => jArr [jStr "ok", mappingToJson m]
    | none => jArr [jStr "err", jStr "TypeError"]

def snodeFromJson (j : Json) : Except String (Option SNode) := do
  match j with
  | .null => return none
  | _ =>
    let (tag, a) ← tagOf j
    match tag with
    | "dir" => return some .dir
    | "file" => return some (.file (← (a[1]?.getD Json.null).getStr?))
    | t => throw s!"bad node tag {t}"

def stepFromJson (j : Json) : Except String Step := do
  let (tag, a) ← tagOf j
  let x := a[1]?.getD Json.null
  match tag with
  | "write" => return .write (← pathFromJson x) (← (a[2]?.getD Json.null).getStr?)
  | "delete" => return .delete (← pathFromJson x)
  | "mkdir" => return .mkdir (← pathFromJson x)
  | "swap" => return .swap (← pathFromJson x)
  | "setTop" => return .setTop (← snodeFromJson x)
  | "get" => return .get (← x.getStr?) (← (a[2]?.getD Json.null).getStr?)
  | t => throw s!"bad step tag {t}"

/-- the hash functions of the driver instance: texts are shipped as unique separator-free
identifiers, so the identity and a bracketed join are injective where the theorems need it -/
def driverVer : VerFns := ⟨fun t => t, fun l => "(" ++ String.intercalate "|" l ++ ")"⟩

def obsFromJson (j : Json) : Except String Obs := do
  let (tag, a) ← tagOf j
  match tag with
  | "ok" => return .ok (← mappingFromJson (a[1]?.getD Json.null)) (← (a[2]?.getD Json.null).getStr?)
  | "err" => return .err (← (a[1]?.getD Json.null).getStr?)
  | t => throw s!"bad observation tag {t}"

def outToObs : Except Err (Mapping × String) → Obs
  | .ok (d, v) => .ok d v
  | .error e => .err e.cls

def outToJson : Except Err (Mapping × String) → Json
  | .ok (d, v) => jArr [jStr "ok", mappingToJson d, jStr v]
  | .error e => jArr [jStr "err", jStr e.cls, jStr e.kind]

structure HistOut where
  model : List Json := []
  fresh : List Json := []
  specImpl : List Bool := []
  specModel : List Bool := []
  reads : List Json := []
  readsNodup : Bool := true
  modelObs : List (String × Obs) := []
  implObs : List (String × Obs) := []

def nodupNames : List Vinegar.Yaml.Name → Bool
  | [] => true
  | n :: rest => !(rest.contains n) && nodupNames rest

/-- fold of the model over the history (same functions as `Vinegar.Yaml.runHistory`) with the
checkers evaluated after every call -/
def foldHistory (W : World) (R : Render) (cfg : Cfg) (fuel : Nat) :
    Fs → Cache Item → List Step → List (Obs × Obs) → HistOut → Except String HistOut
  | _, _, [], _, out => .ok out
  | fs, cache, .get id pdv :: rest, impl, out =>
    match impl with
    | [] => .error "fewer observations than get steps"
    | o :: impl' =>
      let call := fs.call R id pdv
      let r := getData driverVer W cfg fuel cache call
      let fresh := freshResult W cfg fuel call
      let out' : HistOut := {
        model := out.model ++ [outToJson r.1],
        fresh := out.fresh ++ [resToJson fresh],
        specImpl := out.specImpl ++ [c12CheckCall o.2 o.1],
        specModel := out.specModel ++ [c12ModelCheck W cfg fuel call (outToObs r.1)],
        reads := out.reads ++ [jArr (r.2.2.map (fun n => jStr (String.intercalate "." n)))],
        readsNodup := out.readsNodup && nodupNames r.2.2,
        modelObs := out.modelObs ++ [(id, outToObs r.1)],
        implObs := out.implObs ++ [(id, o.1)] }
      foldHistory W R cfg fuel fs r.2.1 rest impl' out'
  | fs, cache, s :: rest, impl, out => foldHistory W R cfg fuel (fs.apply s) cache rest impl out

/-- the tables of the model's world (`texts`, `tops`, `render`) and the initial tree (`init`) of a
request (shared by `yaml.history` and `conc.yaml`, C19) -/
def worldFromJson (j : Json) : Except String (World × Render × Fs) := do
  let texts ← (← getArr j "texts").mapM (fun e => do
    let q ← e.getArr?
    return (← (q[0]?.getD Json.null).getStr?, ← parsedFromJson (q[1]?.getD Json.null)))
  let tops ← (← getArr j "tops").mapM (fun e => do
    let q ← e.getArr?
    let k := (← (q[0]?.getD Json.null).getStr?, ← (q[1]?.getD Json.null).getStr?, ← (q[2]?.getD Json.null).getStr?)
    return (k, ← topParsedFromJson (q[3]?.getD Json.null)))
  let renders ← (← getArr j "render").mapM (fun e => do
    let q ← e.getArr?
    let k := (← (q[0]?.getD Json.null).getStr?, ← (q[1]?.getD Json.null).getStr?, ← (q[2]?.getD Json.null).getStr?)
    let v : Option String ← match q[3]?.getD Json.null with
      | .null => pure none
      | x => do pure (some (← x.getStr?))
    return (k, v))
  let W : World := {
    parse := fun t => (assocGet t texts).getD .error,
    topParse := fun t id pdv => (assocGet (t, id, pdv) tops).getD .error }
  let R : Render := fun s id pdv => (assocGet (s, id, pdv) renders).getD none
  let init ← getField j "init"
  let top ← snodeFromJson (← getField init "top")
  let files ← (← getArr init "files").mapM (fun e => do
    let q ← e.getArr?
    let p ← pathFromJson (q[0]?.getD Json.null)
    let n ← snodeFromJson (q[1]?.getD Json.null)
    return (p, n))
  let fs : Fs := ⟨top, fun p => (assocGet p files).getD none⟩
  return (W, R, fs)

/-- C12: a history over a tree of template sources -/
def opHistory : Op := fun j => do
  let cfg ← cfgFromJson (← getField j "cfg")
  let fuel ← getNat j "fuel"
  let size ← getNat j "cache_size"
  let (W, R, fs) ← worldFromJson j
  let steps ← (← getArr j "steps").mapM stepFromJson
  let implLong ← (← getArr j "impl").mapM obsFromJson
  let implFresh ← (← getArr j "impl_fresh").mapM obsFromJson
  let impl := implLong.zip implFresh
  let out ← foldHistory W R cfg fuel fs ⟨size, []⟩ steps impl {}
  return Json.mkObj [
    ("model", jArr out.model),
    ("fresh", jArr out.fresh),
    ("spec_impl", jArr (out.specImpl.map jBool)),
    ("spec_model", jArr (out.specModel.map jBool)),
    ("versions_impl_ok", jBool (versionsSeparate out.implObs)),
    ("versions_model_ok", jBool (versionsSeparate out.modelObs)),
    ("reads", jArr out.reads),
    ("reads_nodup", jBool out.readsNodup)]

/-- `LRUCache` / `NullCache` alone: fold of get/set operations; the checker compares the
model's final content with the reference `specTouch` folded over the same operations -/
def opLru : Op := fun j => do
  let size ← getNat j "size"
  let ops ← getArr j "ops"
  let mut c : Cache Nat := ⟨size, []⟩
  let mut ref : List (String × Nat) := []
  let mut gets : List Json := []
  for o in ops do
    let (tag, a) ← tagOf o
    let k ← (a[1]?.getD Json.null).getStr?
    match tag with
    | "get" =>
      let r := c.get k
      gets := gets ++ [match r.1 with | some v => jNat v | none => Json.null]
      c := r.2
      if size > 0 then
        match odGet k ref with
        | some v => ref := specTouch size k v ref
        | none => pure ()
    | "set" =>
      let v ← (a[2]?.getD Json.null).getNat?
      c := c.set k v
      if size > 0 then ref := specTouch size k v ref
    | t => throw s!"bad lru op {t}"
  return Json.mkObj [
    ("gets", jArr gets),
    ("keys", jArr (c.data.map (fun p => jStr p.1))),
    ("ref_keys", jArr (ref.map (fun p => jStr p.1))),
    ("len", jNat c.data.length)]

def ops : List (String × Op) := [
  ("yaml.lru", opLru),
  ("yaml.compile", opCompile),
  ("yaml.resolve", opResolve),
  ("yaml.merge", opMerge),
  ("yaml.history", opHistory)]

end Driver.Yaml
