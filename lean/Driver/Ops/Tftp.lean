import Vinegar.Lemmas.TftpForeign
import Driver.Json
import Vinegar.Spec.Tftp
/-
Line-protocol operations of the TFTP model cluster (C01 C02 C07 C08 C09 C10 C20).
-/
namespace Driver.Tftp
open Lean Vinegar Vinegar.Tftp Driver

def obsToJson : Obs → Json
  | .send t dst p => jArr [jStr "send", jNat t, jNat dst, jBytes p]
  | .recv t d src p => jArr [jStr "recv", jNat t, jNat d, jNat src, jBytes p]
  | .timeout t => jArr [jStr "timeout", jNat t]
  | .closeSocket => jArr [jStr "closeSocket"]
  | .closeFile => jArr [jStr "closeFile"]
  | .logException => jArr [jStr "logException"]

def obsFromJson (j : Json) : Except String Obs := do
  let a ← j.getArr?
  let tag ← (a[0]?.getD Json.null).getStr?
  let nat (i : Nat) : Except String Nat := (a[i]?.getD Json.null).getNat?
  let bytes (i : Nat) : Except String Bytes := do fromHex (← (a[i]?.getD Json.null).getStr?)
  match tag with
  | "send" => return .send (← nat 1) (← nat 2) (← bytes 3)
  | "recv" => return .recv (← nat 1) (← nat 2) (← nat 3) (← bytes 4)
  | "timeout" => return .timeout (← nat 1)
  | "closeSocket" => return .closeSocket
  | "closeFile" => return .closeFile
  | "logException" => return .logException
  | t => throw s!"bad obs tag {t}"

def evFromJson (j : Json) : Except String Ev := do
  let a ← j.getArr?
  let tag ← (a[0]?.getD Json.null).getStr?
  let nat (i : Nat) : Except String Nat := (a[i]?.getD Json.null).getNat?
  match tag with
  | "silence" => return .silence
  | "pkt" => return .pkt (← nat 1) (← nat 2) (← nat 3) (← fromHex (← (a[4]?.getD Json.null).getStr?))
  | t => throw s!"bad ev tag {t}"

def optsFromJson (l : List Json) : Except String Opts :=
  l.mapM (fun p => do
    let a ← p.getArr?
    let n ← (a[0]?.getD Json.null).getStr?
    let v ← (a[1]?.getD Json.null).getStr?
    return (n.toList, v.toList))

def optsToJson (o : Opts) : Json := jArr (o.map (fun (p : List Char × List Char) => jArr [jChars p.1, jChars p.2]))

def cfgFromJson (j : Json) : Except String Cfg := do
  return clampCfg (← getNat j "default_timeout_ticks") (← getNat j "max_timeout")
    (← getInt j "max_retries") (← getNat j "max_block_size") (← getOptNat j "wrap")

def handlerFromJson (j : Json) : Except String HandlerResult := do
  match ← getStr j "kind" with
  | "stream" =>
    return .stream (← getBytes j "content") (← getNatList j "caps") (← getBool j "size_known")
      (← getOptNat j "fault_after_bytes")
  | "tftp_error" => return .tftpError (← getNat j "code")
  | "raised" => return .raised
  | k => throw s!"bad handler kind {k}"

def endToString : End → String
  | .completed => "completed" | .gaveUp => "gaveUp" | .invalid => "invalid"
  | .peerError => "peerError" | .overflow => "overflow" | .readFault => "readFault"

/-- every checker of the cluster on one trace -/
def checksJson (cfg : Cfg) (na : Bool) (h : HandlerResult) (neg : Negotiated) (tr : List Obs) : Json :=
  match h with
  | .stream content _ _ faultAt =>
    let completed := !sawAbort neg.timeout cfg.maxRetries tr
    Json.mkObj [
      ("c01", jBool (faultAt.isSome || c01Check na neg.blockSize cfg.wrap neg.timeout cfg.maxRetries content tr)),
      ("c01_prefix", jBool ((dataFirsts tr).isPrefixOf (idealPackets cfg.wrap 0 (idealBlocks na neg.blockSize content)))),
      ("c02", jBool (c02Check neg.timeout cfg.maxRetries tr)),
      ("c07", jBool (c07Check neg tr && tsizeMatches neg tr (completed && faultAt.isNone))),
      -- netascii never announces a size: the negotiated OACK has no tsize (`C08.netascii_no_tsize`) AND every
      -- OACK on the trace is exactly that negotiated OACK (`c07Check`, evaluated on the trace given)
      ("c08_no_tsize", jBool (!na || ((dictGet neg.oack optTsize).isNone && c07Check neg tr))),
      ("c09", jBool (c09Check faultAt.isSome tr && invalidAnswered tr)),
      ("c20", jBool (resourcesOK true tr)),
      ("completed", jBool completed)]
  | .tftpError _ =>
    Json.mkObj [("c09", jBool (c09Check false tr)), ("c20", jBool (resourcesOK false tr)),
      ("c02", jBool (c02Check neg.timeout cfg.maxRetries tr))]
  | .raised =>
    Json.mkObj [("c09", jBool (c09Check true tr)), ("c20", jBool (resourcesOK false tr)),
      ("c02", jBool (c02Check neg.timeout cfg.maxRetries tr))]

def transferFields (cfg : Cfg) (na : Bool) (opts : Opts) (h : HandlerResult) (script : List Ev)
    (j : Json) : Except String (List (String × Json)) := do
  let rrq : Rrq := { netascii := na, options := opts }
  let tr := runTransfer cfg rrq h script
  let neg := negOf cfg rrq h
  let mut fields : List (String × Json) := [
    ("trace", jArr (tr.map obsToJson)),
    ("neg", Json.mkObj [("oack", optsToJson neg.oack), ("block_size", jNat neg.blockSize),
                        ("timeout", jNat neg.timeout)]),
    ("cfg", Json.mkObj [("default_timeout", jNat cfg.defaultTimeout), ("max_timeout", jNat cfg.maxTimeout),
                        ("max_retries", jNat cfg.maxRetries), ("max_block_size", jNat cfg.maxBlockSize)]),
    ("checks_model", checksJson cfg na h neg tr)]
  match j.getObjVal? "impl_trace" with
  | .ok (Json.arr a) =>
    let itr ← a.toList.mapM obsFromJson
    fields := fields ++ [("checks_impl", checksJson cfg na h neg itr)]
  | _ => pure ()
  -- C09, non-interference on the implementation: the same transfer was also run on the script without its
  -- foreign datagrams; by `C09.foreign_noninterference` the client's views of the two runs coincide
  match j.getObjVal? "twin_script", j.getObjVal? "twin_trace", j.getObjVal? "impl_trace" with
  | .ok (Json.arr ts), .ok (Json.arr tt), .ok (Json.arr it) =>
    let twinScript ← ts.toList.mapM evFromJson
    let twinTrace ← tt.toList.mapM obsFromJson
    let itr ← it.toList.mapM obsFromJson
    let applicable := foreignOK script && dropForeign script == twinScript
    fields := fields ++ [("twin", Json.mkObj [
      ("applicable", jBool applicable),
      ("impl_view_equal", jBool (clientView itr == clientView twinTrace)),
      ("model_view_equal", jBool (clientView tr == runTransfer cfg rrq h (dropForeign script)))])]
  | _, _, _ => pure ()
  return fields

def transfer : Op := fun j => do
  let cfg ← cfgFromJson (← getField j "cfg")
  let na ← getBool j "netascii"
  let opts ← optsFromJson (← getArr j "options")
  let h ← handlerFromJson (← getField j "handler")
  let script ← (← getArr j "script").mapM evFromJson
  return Json.mkObj (← transferFields cfg na opts h script j)

def resultToJson : ReqResult → Json
  | .ignored => Json.mkObj [("kind", jStr "ignored")]
  | .error c => Json.mkObj [("kind", jStr "error"), ("code", jNat c)]
  | .transfer r i => Json.mkObj [("kind", jStr "transfer"), ("filename", jChars r.filename),
      ("mode", jStr (match r.mode with | .netascii => "netascii" | .octet => "octet" | .mail => "mail")),
      ("options", optsToJson r.options), ("handler", jNat i)]

def callToJson : Call → Json
  | .prepare i => jArr [jStr "prepare", jNat i]
  | .canHandle i => jArr [jStr "can_handle", jNat i]
  | .handle i => jArr [jStr "handle", jNat i]

/-- a whole session: one datagram on the request port, and the transfer it starts (if any).
`handlers`: per handler `accept` (list of file names, or null = every name) and `result`. -/
def session : Op := fun j => do
  let cfg ← cfgFromJson (← getField j "cfg")
  let data ← getBytes j "datagram"
  let hs ← (← getArr j "handlers").mapM (fun h => do
    let acc ← match h.getObjVal? "accept" with
      | .ok (Json.arr a) => do
        let names ← a.toList.mapM (fun x => do return (← x.getStr?).toList)
        pure (some names)
      | _ => pure none
    let res ← handlerFromJson (← getField h "result")
    let rz : Option Ans := match h.getObjVal? "raise_in" with
      | .ok (Json.str "prepare") => some Ans.raisePrepare
      | .ok (Json.str "can_handle") => some Ans.raiseCanHandle
      | _ => none
    return (acc, res, rz))
  let answers : List Char → List Ans := fun f => hs.map (fun (h : Option (List (List Char)) × HandlerResult × Option Ans) =>
    match h.2.2 with
    | some a => a
    | none =>
      match h.1 with
      | none => Ans.yes
      | some names => if names.contains f then Ans.yes else Ans.no)
  let accepts : List Char → List Bool := fun f => (answers f).map Ans.toBool
  let script ← (← getArr j "script").mapM evFromJson
  match processDatagramF answers data with
  | .handlerFailed i =>
    -- a handler raised while being asked: logged, no reply, no transfer
    let f := (reachesHandlers data).getD []
    let mut portF : List (String × Json) := [("reqport_model", jBool (requestPortFaultOK [] 0))]
    match j.getObjVal? "impl_main" with
    | .ok (Json.arr a) =>
      let replies ← a.toList.mapM (fun x => do fromHex (← x.getStr?))
      portF := portF ++ [("reqport_impl", jBool (requestPortFaultOK replies (← getNat j "impl_transfers")))]
    | _ => pure ()
    return Json.mkObj ([("request", Json.mkObj [("kind", jStr "handler_failed"), ("handler", jNat i)]),
      ("calls", jArr ((dispatchCallsF 0 (answers f)).map callToJson))] ++ portF)
  | .ok _ => pure ()
  let r := processDatagram accepts data
  let mut port : List (String × Json) :=
    [("reqport_model", jBool (requestPortOK2 data (replyOf r) (transfersOf r) false))]
  match j.getObjVal? "impl_main" with
  | .ok (Json.arr a) =>
    let replies ← a.toList.mapM (fun x => do fromHex (← x.getStr?))
    port := port ++ [("reqport_impl", jBool (requestPortOK2 data replies (← getNat j "impl_transfers") (← getBool j "impl_main_exc")))]
  | _ => pure ()
  match r with
  | .transfer rrq i =>
    match hs[i]? with
    | none => throw "handler index out of range"
    | some (_, res, _) =>
      let fields ← transferFields cfg (rrq.mode == .netascii) rrq.options res script j
      return Json.mkObj ([("request", resultToJson r),
        ("calls", jArr ((dispatchCalls 0 (accepts rrq.filename)).map callToJson))] ++ port ++ fields)
  | _ => return Json.mkObj ([("request", resultToJson r)] ++ port)

/-- reader only: payload sequence for a content / caps / block size -/
def blocks : Op := fun j => do
  let na ← getBool j "netascii"
  let bs ← getNat j "bs"
  let content ← getBytes j "content"
  let caps ← getNatList j "caps"
  let bl := transferBlocks na bs content caps
  let mut fields : List (String × Json) := [("blocks", jArr (bl.map jBytes)),
    ("ok_model", jBool (payloadsOK na bs content bl))]
  match j.getObjVal? "impl_blocks" with
  | .ok (Json.arr a) =>
    let ib ← a.toList.mapM (fun x => do fromHex (← x.getStr?))
    fields := fields ++ [("ok_impl", jBool (payloadsOK na bs content ib))]
  | _ => pure ()
  return Json.mkObj fields

/-- server address seen by the handler -/
def serverAddrOp : Op := fun j => do
  let sn ← getArr j "sockname"
  let host ← (sn[0]?.getD Json.null).getStr?
  let port ← (sn[1]?.getD Json.null).getNat?
  let flow ← (sn[2]?.getD Json.null).getNat?
  let scope ← (sn[3]?.getD Json.null).getNat?
  let dst : Option (List Char) := match j.getObjVal? "dst" with
    | .ok (Json.str d) => some d.toList
    | _ => none
  let a := serverAddr dst ⟨host.toList, port, flow, scope⟩
  return jArr [jChars a.host, jNat a.port, jNat a.flow, jNat a.scope]

def ops : List (String × Op) := [("tftp.serveraddr", serverAddrOp),
  ("tftp.transfer", transfer), ("tftp.session", session), ("tftp.blocks", blocks)]

end Driver.Tftp
