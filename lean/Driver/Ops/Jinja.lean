import Driver.Json
import Vinegar.Spec.Jinja
/-
Line-protocol operations of the Jinja engine model (C17).

  jinja_history  cfg, fuel, ops, impl{engine, fresh}  →  model / reference / fresh-model outcomes
                                                        and the spec checkers on both observations
  jinja_access   allow, queries, impl                 →  cached model decisions, documented rule
  jinja_join     relative, template, parent           →  joined template name
Template names and paths travel as strings; they are split at "/" here (Python's `str.split`).
Template nodes: ["t", text] ["v", x] ["i", name] include, ["io", name] include … ignore missing,
["m", name] import, ["p", key] python[key].
-/
namespace Driver.Jinja
open Lean Vinegar Vinegar.Jinja Driver

def splitName (s : String) : Vinegar.Jinja.Name := s.splitOn "/"
def joinName (n : Vinegar.Jinja.Name) : String := "/".intercalate n
/-- a clean absolute path given without the leading slash ("" = the root) -/
def splitPath (s : String) : Path := (s.splitOn "/").filter (fun x => x != "")

def ctxFromJson (l : List Json) : Except String Ctx :=
  l.mapM (fun p => do
    let a ← p.getArr?
    return (← (a[0]?.getD Json.null).getStr?, ← (a[1]?.getD Json.null).getStr?))

def nodeFromJson (j : Json) : Except String Node := do
  let a ← j.getArr?
  let tag ← (a[0]?.getD Json.null).getStr?
  let arg ← (a[1]?.getD Json.null).getStr?
  match tag with
  | "t" => return .text arg
  | "v" => return .var arg
  | "i" => return .incl (splitName arg)
  | "io" => return .inclOpt (splitName arg)
  | "m" => return .imp (splitName arg)
  | "p" => return .py arg.toList
  | t => throw s!"bad node tag {t}"

def tmplFromJson (j : Json) : Except String Tmpl := do
  (← j.getArr?).toList.mapM nodeFromJson

def opFromJson (j : Json) : Except String Vinegar.Jinja.Op := do
  let a ← j.getArr?
  let tag ← (a[0]?.getD Json.null).getStr?
  match tag with
  | "write" =>
    return .write (splitPath (← (a[1]?.getD Json.null).getStr?)) (← tmplFromJson (a[2]?.getD Json.null))
      (← (a[3]?.getD Json.null).getNat?)
  | "delete" => return .delete (splitPath (← (a[1]?.getD Json.null).getStr?))
  | "render" =>
    return .render (splitName (← (a[1]?.getD Json.null).getStr?))
      (← ctxFromJson (← (a[2]?.getD Json.null).getArr?).toList)
  | t => throw s!"bad op tag {t}"

def allowFromJson (j : Json) : Except String AllowCfg :=
  match j with
  | Json.null => return .none
  | Json.str s => return .str s.toList
  | Json.arr a => do return .list (← a.toList.mapM (fun x => do return (← x.getStr?).toList))
  | _ => throw "bad allow"

def modulesFromJson (l : List Json) : Except String (List (Str × List (Str × String))) :=
  l.mapM (fun p => do
    let a ← p.getArr?
    let name ← (a[0]?.getD Json.null).getStr?
    let attrs ← (← (a[1]?.getD Json.null).getArr?).toList.mapM (fun q => do
      let b ← q.getArr?
      return ((← (b[0]?.getD Json.null).getStr?).toList, ← (b[1]?.getD Json.null).getStr?))
    return (name.toList, attrs))

def cfgFromJson (j : Json) : Except String Cfg := do
  let root ← match j.getObjVal? "root" with
    | .ok Json.null => pure none
    | .ok v => do pure (some (splitPath (← v.getStr?)))
    | .error _ => pure none
  let allow ← match j.getObjVal? "allow" with
    | .ok v => allowFromJson v
    | .error _ => pure .none
  let mods ← match j.getObjVal? "modules" with
    | .ok v => do modulesFromJson (← v.getArr?).toList
    | .error _ => pure []
  return {
    root := root
    cwd := splitPath (← getStr j "cwd")
    cacheEnabled := ← getBool j "cache_enabled"
    relative := ← getBool j "relative"
    baseCtx := ← ctxFromJson (← getArr j "context")
    allow := normAllow allow
    modules := mods }

def obsToJson : Obs → Json
  | .ok s => jArr [jStr "ok", jStr s]
  | .err c => jArr [jStr "err", jStr c]

def obsFromJson (j : Json) : Except String Obs := do
  let a ← j.getArr?
  let tag ← (a[0]?.getD Json.null).getStr?
  let arg ← (a[1]?.getD Json.null).getStr?
  match tag with
  | "ok" => return .ok arg
  | "err" => return .err arg
  | t => throw s!"bad obs tag {t}"

def obsListFromJson (j : Json) (k : String) : Except String (List Obs) := do
  (← getArr j k).mapM obsFromJson

def checksJson (ref : List Outcome) (obs fresh : List Obs) : Json :=
  Json.mkObj [
    ("match_ref", jBool (rendersMatchRef ref obs)),
    ("no_cache_failure", jBool (noCacheFailure ref obs)),
    ("no_stale", jBool (noStale ref obs)),
    ("fresh_matches_ref", jBool (rendersMatchRef ref fresh)),
    ("clause", jStr (failedClause ref obs fresh))]

/-- `pyYieldCheck` for histories whose only file is one template consisting of a single
`python[...]` node (the "pyget" cases) -/
def pyYield (cfg : Cfg) (ops : List Vinegar.Jinja.Op) (obs : List Obs) : Bool :=
  let writes : List Tmpl := ops.filterMap (fun o =>
    match o with
    | .write _ t _ => some t
    | _ => none)
  match writes with
  | [[Node.py key]] => obs.all (fun o => pyYieldCheck cfg.allow key o)
  | _ => true

def opHistory (j : Json) : Except String Json := do
  let cfg ← cfgFromJson (← getField j "cfg")
  let fuel ← getNat j "fuel"
  let ops ← (← getArr j "ops").mapM opFromJson
  let impl ← getField j "impl"
  let engine ← obsListFromJson impl "engine"
  let fresh ← obsListFromJson impl "fresh"
  let st : St := { fs := FS.empty, cache := Cache.empty }
  let model := (run cfg fuel st ops).map toObs
  let ref := runRef cfg fuel FS.empty ops
  let freshModel := (runFresh cfg fuel FS.empty ops).map toObs
  let memo := (runMemo cfg fuel FS.empty MCache.empty ops).map toObs
  return Json.mkObj [
    ("model", jArr (model.map obsToJson)),
    ("ref", jArr (ref.map (obsToJson ∘ toObs))),
    ("fresh_model", jArr (freshModel.map obsToJson)),
    ("explained_by_import_memo", jBool (memo == engine && !rendersMatchRef ref engine)),
    ("check_impl", checksJson ref engine fresh),
    ("check_model", checksJson ref model freshModel),
    ("py_yield_impl", jBool (pyYield cfg ops engine)),
    ("py_yield_model", jBool (pyYield cfg ops model))]

def opAccess (j : Json) : Except String Json := do
  let allow := normAllow (← allowFromJson (← getField j "allow"))
  let queries := (← (← getArr j "queries").mapM (fun x => x.getStr?)).map String.toList
  let impl ← (← getArr j "impl").mapM (fun x => x.getBool?)
  let model := checkAccessSeq { allow := allow, cache := [] } queries
  return Json.mkObj [
    ("model", jArr (model.map jBool)),
    ("ref", jArr ((queries.map (allowRef allow)).map jBool)),
    ("helper_present", jBool (!allow.isEmpty)),
    ("check_impl", jBool (allowCheck allow queries impl)),
    ("check_model", jBool (allowCheck allow queries model))]

def opJoin (j : Json) : Except String Json := do
  let rel ← getBool j "relative"
  let t ← getStr j "template"
  let p ← getStr j "parent"
  return jStr (joinName (joinPath rel (splitName t) (splitName p)))

def ops : List (String × Driver.Op) := [
  ("jinja_history", opHistory),
  ("jinja_access", opAccess),
  ("jinja_join", opJoin)]

end Driver.Jinja
