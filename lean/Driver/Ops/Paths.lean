import Driver.Json
import Vinegar.Spec.Paths
/-
Line-protocol operations of the request-path / file-serving models (C06, C04).
Every string travels as an array of Unicode code points.
-/
namespace Driver.Paths
open Lean Vinegar Vinegar.Paths Vinegar.Paths.Spec Driver

def cpsOf (j : Json) : Except String Str := do
  let a ← j.getArr?
  a.toList.mapM (fun x => do return Char.ofNat (← x.getNat?))

def getS (j : Json) (k : String) : Except String Str := do cpsOf (← getField j k)

def optS (j : Json) : Except String (Option Str) :=
  match j with
  | Json.null => return none
  | v => return some (← cpsOf v)

def getOptS (j : Json) (k : String) : Except String (Option Str) :=
  match j.getObjVal? k with
  | .ok v => optS v
  | .error _ => return none

def jS (s : Str) : Json := jArr (s.map (fun c => jNat c.toNat))
def jOptS : Option Str → Json
  | none => Json.null
  | some s => jS s

def getSList (j : Json) (k : String) : Except String (List Str) := do
  (← getArr j k).mapM cpsOf

def cfgFromJson (j : Json) : Except String Cfg := do
  return {
    tftp := ← getBool j "tftp"
    requestPath := ← getS j "request_path"
    file := ← getOptS j "file"
    rootDir := ← getOptS j "root_dir"
    fileSuffix := ← getOptS j "file_suffix"
    lookupKey := ← getOptS j "lookup_key"
    placeholder := ← getS j "placeholder"
    noResultAction := ← getS j "no_result_action"
    dsErrorAction := ← getS j "ds_error_action"
    template := ← getBool j "template"
    clientAddressKey := ← getOptS j "client_address_key"
    clientAddressList := ← getSList j "client_address_list" }

partial def nodeFromJson (j : Json) : Except String Node := do
  match j.getObjVal? "f" with
  | .ok c => return .file (← cpsOf c)
  | .error _ =>
    let es ← getArr j "d"
    let entries ← es.mapM (fun e => do
      let a ← e.getArr?
      let n ← cpsOf (a[0]?.getD Json.null)
      let x ← nodeFromJson (a[1]?.getD Json.null)
      return (n, x))
    return .dir entries

inductive Step where
  | addPrefix (p : Str)
  | addSuffix (s : Str)
  | table (t : List (Str × Option Str))

def stepFromJson (j : Json) : Except String Step := do
  let a ← j.getArr?
  match ← (a[0]?.getD Json.null).getStr? with
  | "prefix" => return .addPrefix (← cpsOf (a[1]?.getD Json.null))
  | "suffix" => return .addSuffix (← cpsOf (a[1]?.getD Json.null))
  | "table" =>
    let rows ← (a[1]?.getD Json.null).getArr?
    let t ← rows.toList.mapM (fun r => do
      let b ← r.getArr?
      return (← cpsOf (b[0]?.getD Json.null), ← optS (b[1]?.getD Json.null)))
    return .table t
  | k => throw s!"bad transform step {k}"

def tableMiss : Str := "<<transform-table-miss>>".toList

def applyStep (st : Step) (v : Str) : Option Str :=
  match st with
  | .addPrefix p => some (p ++ v)
  | .addSuffix s => some (v ++ s)
  | .table t =>
    match t.lookup v with
    | some r => r
    | none => some (tableMiss ++ v)

def applySteps : List Step → Str → Option Str
  | [], v => some v
  | st :: rest, v =>
    match applyStep st v with
    | none => none
    | some w => applySteps rest w

def dsFromJson (j : Json) : Except String DataSource := do
  let findRaises ← getBool j "find_raises"
  let dataRaises ← getBool j "data_raises"
  let ft ← (← getArr j "find_table").mapM (fun r => do
    let b ← r.getArr?
    return (← cpsOf (b[0]?.getD Json.null), ← optS (b[1]?.getD Json.null)))
  let dt ← (← getArr j "data_table").mapM (fun r => do
    let b ← r.getArr?
    let addrs ← ((← (b[2]?.getD Json.null).getArr?).toList.mapM cpsOf)
    return (← cpsOf (b[0]?.getD Json.null), ({ token := ← cpsOf (b[1]?.getD Json.null), addrs := addrs } : SysData)))
  return {
    findSystem := fun _ v => if findRaises then none else some ((ft.lookup v).getD none)
    getData := fun sid =>
      if dataRaises then none else some ((dt.lookup sid).getD { token := "<none>".toList, addrs := [] }) }

def callToJson : Call → Json
  | .findSystem k v => jArr [jStr "find", jS k, jS v]
  | .getData i => jArr [jStr "data", jS i]

def callFromJson (j : Json) : Except String Call := do
  let a ← j.getArr?
  match ← (a[0]?.getD Json.null).getStr? with
  | "find" => return .findSystem (← cpsOf (a[1]?.getD Json.null)) (← cpsOf (a[2]?.getD Json.null))
  | "data" => return .getData (← cpsOf (a[1]?.getD Json.null))
  | k => throw s!"bad call {k}"

def outcomeToJson : Option Outcome → Json
  | none => Json.null
  | some (.served p c ctx) =>
    jArr [jStr "served", jS p, jS c,
      match ctx with
      | none => Json.null
      | some t => Json.mkObj [("id", jOptS t.id), ("data", jOptS t.data)]]
  | some .notFound => jArr [jStr "notFound"]
  | some .forbidden => jArr [jStr "forbidden"]
  | some .methodNotAllowed => jArr [jStr "methodNotAllowed"]
  | some .internalError => jArr [jStr "internalError"]

def outcomeFromJson (j : Json) : Except String (Option Outcome) := do
  match j with
  | Json.null => return none
  | _ =>
    let a ← j.getArr?
    match ← (a[0]?.getD Json.null).getStr? with
    | "served" =>
      let ctx ← (match a[3]?.getD Json.null with
        | Json.null => pure none
        | t => do
          let tc : TplCtx := { id := ← getOptS t "id", data := ← getOptS t "data" }
          pure (some tc))
      return some (.served (← cpsOf (a[1]?.getD Json.null)) (← cpsOf (a[2]?.getD Json.null)) ctx)
    | "notFound" => return some .notFound
    | "forbidden" => return some .forbidden
    | "methodNotAllowed" => return some .methodNotAllowed
    | "internalError" => return some .internalError
    | k => throw s!"bad outcome {k}"

def seenToJson (o : Seen) : Json :=
  Json.mkObj [("accepted", jBool o.accepted), ("calls", jArr (o.calls.map callToJson)),
    ("opens", jArr (o.opens.map jS)), ("outcome", outcomeToJson o.outcome)]

def seenFromJson (j : Json) : Except String Seen := do
  return {
    accepted := ← getBool j "accepted"
    calls := ← (← getArr j "calls").mapM callFromJson
    opens := ← getSList j "opens"
    outcome := ← outcomeFromJson (← getField j "outcome") }

def c06ToJson (v : C06Verdict) : Json :=
  Json.mkObj [("accept", jBool v.acceptOK), ("lookup", jBool v.lookupOK), ("template", jBool v.templateOK)]

def c04ToJson (v : C04Verdict) : Json :=
  Json.mkObj [("confined", jBool v.confinedOK), ("target", jBool v.targetOK), ("outcome", jBool v.outcomeOK),
    ("quiet", jBool v.quietOK)]

def openResultToString : OpenResult → String
  | .content _ => "content" | .enoent => "ENOENT" | .enotdir => "ENOTDIR" | .eisdir => "EISDIR"
  | .enametoolong => "ENAMETOOLONG"

/-- one request: the model's observation, and every spec checker on the model's and on the
    implementation's observation -/
def opRequest (j : Json) : Except String Json := do
  let cfg ← cfgFromJson (← getField j "cfg")
  let steps ← (← getArr j "transform").mapM stepFromJson
  let ds ← dsFromJson (← getField j "ds")
  let fs ← nodeFromJson (← getField j "tree")
  let clientIp ← getS j "client_ip"
  let method ← getS j "method"
  let req ← getS j "req"
  let errorsConfigured ← getBool j "errors_configured"
  let tr := applySteps steps
  let env : Env := { transform := tr, ds := ds, fs := fs, clientIp := clientIp }
  match initHandler cfg with
  | .error e =>
    return Json.mkObj [("ctor", jStr (match e with | .valueError => "ValueError" | .keyError => "KeyError"))]
  | .ok h =>
    let setup := setupOf h
    let ro := requestOn h env method req
    let seen := ro.seen
    let ws := witnesses setup.requestPath setup.placeholder setup.fileMode (setup.request req)
    let tgt := allowedTarget setup req
    let base := [("ctor", jStr "ok"), ("model", seenToJson seen),
      ("ctx", Json.mkObj [("raw", jOptS ro.ctx.rawValue), ("extra", jOptS ro.ctx.extraPath)]),
      ("witnesses", jArr (ws.map jS)), ("target", jOptS tgt),
      ("open_result", jStr (match targetFile h ro.ctx with
                            | some p => openResultToString (openPath fs p)
                            | none => "none")),
      ("c06_model", c06ToJson (c06Check setup tr ds req seen)),
      ("c04_model", c04ToJson (c04Check setup fs errorsConfigured req seen))]
    let base := if cfg.tftp then
        base ++ [("parity_model", jBool (parityOK seen
          (requestOn { h with cfg := { h.cfg with tftp := false } } env "GET".toList (slashed req)).seen))]
      else base
    match j.getObjVal? "impl" with
    | .ok Json.null | .error _ => return Json.mkObj base
    | .ok ij =>
      let io ← seenFromJson ij
      let base ← (match j.getObjVal? "twin" with
        | .ok Json.null | .error _ => pure base
        | .ok tj => do
          let tw ← seenFromJson tj
          pure (base ++ [("parity_impl", jBool (parityOK io tw))]))
      return Json.mkObj (base ++ [("c06_impl", c06ToJson (c06Check setup tr ds req io)),
        ("c04_impl", c04ToJson (c04Check setup fs errorsConfigured req io))])

def opUnquote (j : Json) : Except String Json := do
  return jArr ((← getSList j "items").map (fun s => jS (unquote s)))

def opNormpath (j : Json) : Except String Json := do
  return jArr ((← getSList j "items").map (fun s => jS (normpath s)))

def opDecodeUtf8 (j : Json) : Except String Json := do
  let items ← (← getArr j "items").mapM (fun x => do fromHex (← x.getStr?))
  return jArr (items.map (fun b => jS (decodeUtf8 b)))

def opTranslate (j : Json) : Except String Json := do
  let root ← getS j "root"
  let sfx ← getS j "suffix"
  return jArr ((← getSList j "items").map (fun e =>
    Json.mkObj [("model", jOptS (translatePath root sfx e)), ("ref", jOptS (refTarget root sfx e))]))

def opSplitJoin (j : Json) : Except String Json := do
  return jArr ((← getSList j "items").map (fun s =>
    Json.mkObj [("split", jArr ((splitOn '/' s).map jS)), ("cut", jS (cutQuery s)),
      ("rejoin", jS (joinWith ['/'] (splitOn '/' s)))]))

def ops : List (String × Op) := [
  ("paths_request", opRequest),
  ("paths_unquote", opUnquote),
  ("paths_normpath", opNormpath),
  ("paths_decode_utf8", opDecodeUtf8),
  ("paths_translate", opTranslate),
  ("paths_splitjoin", opSplitJoin)]

end Driver.Paths
