import Driver.Json
import Vinegar.Spec.TextFile
/-
Line-protocol operation of the text-file source model (C14).

  {"op":"textfile.run", "cfg":…, "init": content|null, "steps":[…], "impl_obs":[res…]?}

  cfg     {"mismatch":"ignore|warn|error","duplicate":…,"find_first":b,"cache":b,
           "sys_id":var,"vars":[[key,var],…]}
  var     {"source": "name"|index, "chain":[tr…], "tnv":b, "unv":b}
  tr      ["lower"]|["upper"]|["str"]|["prefix",p]|["suffix",s]|["split",sep|null,maxsplit]
  content {"garbage":true} | {"content":"…","lines":[line…]}
  line    {"t":text,"c":"i"|"m"|"g","named":[[name,str|null]…],"num":[str|null…]}
  step    ["write",content] | ["delete"] | ["get",sid] | ["find",key,val]
  val     null | "str" | {"l":[str…]}
  tree    val | {"d":[[key,tree]…]}
  res     ["data",[[key,tree]…],version] | ["found",sid|null] | ["raised",class]

Versions of the model are `"v" ++ line` (an injective `ver` that never returns "").
The line texts of every written content are re-derived from `content` with the model's
`splitLines`; a difference to the texts the adapter classified is an error of the request.
-/
namespace Driver.TextFile
open Lean Vinegar Vinegar.TextFile Driver

def ver (s : String) : String := "v" ++ s

def statVer : Option Nat → String
  | none => "missing"
  | some n => s!"stat{n}"

def optStr (j : Json) : Except String (Option String) :=
  match j with
  | Json.null => return none
  | v => return some (← v.getStr?)

def valFromJson (j : Json) : Except String Val :=
  match j with
  | Json.null => return .none
  | Json.str s => return .str s
  | v => do
    let l ← (← v.getObjVal? "l").getArr?
    return .list (← l.toList.mapM (fun x => x.getStr?))

def valToJson : Val → Json
  | .none => Json.null
  | .str s => Json.str s
  | .list l => Json.mkObj [("l", jArr (l.map Json.str))]

mutual
def treeToJson : Tree → Json
  | .leaf v => valToJson v
  | .node k => Json.mkObj [("d", jArr (kidsToJson k))]
def kidsToJson : Kids → List Json
  | .nil => []
  | .cons k t r => jArr [Json.str k, treeToJson t] :: kidsToJson r
end

partial def treeFromJson (j : Json) : Except String Tree := do
  match j.getObjVal? "d" with
  | .ok d =>
    let items ← d.getArr?
    let kids ← items.toList.mapM (fun it => do
      let a ← it.getArr?
      let k ← (a[0]?.getD Json.null).getStr?
      let t ← treeFromJson (a[1]?.getD Json.null)
      return (k, t))
    return .node (kids.foldr (fun (p : String × Tree) acc => Kids.cons p.1 p.2 acc) Kids.nil)
  | .error _ => return .leaf (← valFromJson j)

def kidsFromJson (j : Json) : Except String Kids := do
  match ← treeFromJson (Json.mkObj [("d", j)]) with
  | .node k => return k
  | .leaf _ => throw "expected a mapping"

def trFromJson (j : Json) : Except String Tr := do
  let a ← j.getArr?
  let tag ← (a[0]?.getD Json.null).getStr?
  match tag with
  | "lower" => return .toLower
  | "upper" => return .toUpper
  | "str" => return .toStr
  | "prefix" => return .addPrefix (← (a[1]?.getD Json.null).getStr?)
  | "suffix" => return .addSuffix (← (a[1]?.getD Json.null).getStr?)
  | "split" => return .split (← optStr (a[1]?.getD Json.null)) (← (a[2]?.getD Json.null).getInt?)
  | t => throw s!"bad transformation {t}"

def varFromJson (j : Json) : Except String VarCfg := do
  let src ← getField j "source"
  let source ← match src with
    | Json.str s => pure (Source.name s)
    | v => do pure (Source.idx (← v.getNat?))
  let chain ← (← getArr j "chain").mapM trFromJson
  return { source, chain, transformNone := ← getBool j "tnv", useNone := ← getBool j "unv" }

def actionFromJson (s : String) : Except String Action :=
  match s with
  | "ignore" => return .ignore
  | "warn" => return .warn
  | "error" => return .error
  | a => throw s!"bad action {a}"

def cfgFromJson (j : Json) : Except String Cfg := do
  let vars ← (← getArr j "vars").mapM (fun it => do
    let a ← it.getArr?
    return ((← (a[0]?.getD Json.null).getStr?), (← varFromJson (a[1]?.getD Json.null))))
  return { mismatch := ← actionFromJson (← getStr j "mismatch"),
           duplicate := ← actionFromJson (← getStr j "duplicate"),
           findFirst := ← getBool j "find_first", cacheEnabled := ← getBool j "cache",
           sysId := ← varFromJson (← getField j "sys_id"), vars }

def lineFromJson (j : Json) : Except String Line := do
  let text ← getStr j "t"
  match ← getStr j "c" with
  | "i" => return ⟨text, .ignored⟩
  | "m" => return ⟨text, .mismatch⟩
  | "g" =>
    let named ← (← getArr j "named").mapM (fun it => do
      let a ← it.getArr?
      return ((← (a[0]?.getD Json.null).getStr?), (← optStr (a[1]?.getD Json.null))))
    let num ← (← getArr j "num").mapM optStr
    return ⟨text, .groups ⟨named, num⟩⟩
  | c => throw s!"bad line class {c}"

def contentFromJson (j : Json) : Except String (Option Content) := do
  match j with
  | Json.null => return none
  | _ =>
    match j.getObjVal? "garbage" with
    | .ok _ => return some .garbage
    | .error _ =>
      let lines ← (← getArr j "lines").mapM lineFromJson
      let content ← getStr j "content"
      let texts := splitLines content
      if texts != lines.map (·.text) then
        throw s!"line split differs: model {texts} adapter {lines.map (·.text)}"
      return some (.text lines)

def stepFromJson (j : Json) : Except String Step := do
  let a ← j.getArr?
  let tag ← (a[0]?.getD Json.null).getStr?
  match tag with
  | "write" =>
    match ← contentFromJson (a[1]?.getD Json.null) with
    | some c => return .write c
    | none => throw "write without content"
  | "delete" => return .delete
  | "get" => return .call (.get (← (a[1]?.getD Json.null).getStr?))
  | "find" => return .call (.find (← (a[1]?.getD Json.null).getStr?) (← valFromJson (a[2]?.getD Json.null)))
  | t => throw s!"bad step {t}"

def resToJson : Res → Json
  | .data d v => jArr [jStr "data", jArr (kidsToJson d), jStr v]
  | .found none => jArr [jStr "found", Json.null]
  | .found (some s) => jArr [jStr "found", jStr s]
  | .raised e => jArr [jStr "raised", jStr e]

def resFromJson (j : Json) : Except String Res := do
  let a ← j.getArr?
  let tag ← (a[0]?.getD Json.null).getStr?
  match tag with
  | "data" => return .data (← kidsFromJson (a[1]?.getD Json.null)) (← (a[2]?.getD Json.null).getStr?)
  | "found" => return .found (← optStr (a[1]?.getD Json.null))
  | "raised" => return .raised (← (a[1]?.getD Json.null).getStr?)
  | t => throw s!"bad result {t}"

/-- the `find_system` clause on every find call of the history (`findOK`), evaluated with the
records of the content that is current at the call -/
def findChecks (cfg : Cfg) : Option Content → List Step → List Res → List Bool
  | _, [], _ => []
  | _, .write c :: ss, obs => findChecks cfg (some c) ss obs
  | _, .delete :: ss, obs => findChecks cfg none ss obs
  | _, .call _ :: _, [] => [false]
  | cur, .call c :: ss, r :: obs =>
    let here : Bool :=
      match c, cur, r with
      | .find k v, some (.text lines), .found res =>
        match specRecords cfg lines [] with
        | .ok rs => findOK cfg rs k v res
        | .error _ => false
      | _, _, _ => true
    here :: findChecks cfg cur ss obs

def checks (cfg : Cfg) (init : Option Content) (steps : List Step) (obs : List Res) : Json :=
  let expected := specRun ver cfg init steps
  Json.mkObj [
    ("reload", jBool (reloadOK ver cfg init steps obs)),
    ("versions", jBool (versionsOK steps obs)),
    ("find", jBool ((findChecks cfg init steps obs).all id)),
    ("verdicts", jArr ((callVerdicts obs expected).map jBool))]

def runOp : Op := fun j => do
  let cfg ← cfgFromJson (← getField j "cfg")
  let init ← contentFromJson (← getField j "init")
  let steps ← (← getArr j "steps").mapM stepFromJson
  let modelObs := run ver statVer cfg (World.start init) steps
  let mut fields : List (String × Json) := [
    ("model_obs", jArr (modelObs.map resToJson)),
    ("spec_obs", jArr ((specRun ver cfg init steps).map resToJson)),
    ("checks_model", checks cfg init steps modelObs)]
  match j.getObjVal? "impl_obs" with
  | .ok (Json.arr a) =>
    let io ← a.toList.mapM resFromJson
    fields := fields ++ [("checks_impl", checks cfg init steps io)]
  | _ => pure ()
  return Json.mkObj fields

/-- transformation chains alone (validation of the modelled `str` methods) -/
def chainOp : Op := fun j => do
  let chain ← (← getArr j "chain").mapM trFromJson
  let v ← valFromJson (← getField j "value")
  match applyChain chain v with
  | .ok r => return Json.mkObj [("value", valToJson r)]
  | .error e => return Json.mkObj [("raised", jStr e)]

def ops : List (String × Op) := [("textfile.run", runOp), ("textfile.chain", chainOp)]

end Driver.TextFile
