import Driver.Json
import Vinegar.Spec.Sqlite
/-
Line-protocol operations of the SQLite model (C15).

Python strings travel as arrays of code points, JSON texts likewise, bytes as hex strings.
Values are tagged arrays: ["n"] ["b",bool] ["i","<decimal>"] ["f","<repr>"] ["s",[cp…]]
["l",[v…]] ["d",[[k,v]…]] ["t",[v…]] ["set",…] ["bytes",…] ["cyc"]; dict keys are
["s",[cp…]] ["i","<decimal>"] ["b",bool] ["n"] ["f","<repr>"] ["o"].

A history is `{views: {name: config}, steps: [{view, op, args…}], init: dump}`; the op folds the
model over it and returns every step's result and the map after it; if the request carries the
implementation's observation (`impl`) the spec checker is evaluated on it as well.
-/
namespace Driver.Sqlite
open Lean Vinegar Vinegar.Sqlite Driver

/-- printable-ASCII strings travel as JSON strings, everything else as code-point arrays -/
def jCps (s : Str) : Json :=
  if s.all (fun c => 32 ≤ c && c ≤ 126) then Json.str (String.ofList (s.map Char.ofNat))
  else jArr (s.map jNat)

def cpsOf (j : Json) : Except String Str := do
  match j with
  | Json.str t => return lit t
  | _ => (← j.getArr?).toList.mapM (fun x => x.getNat?)

def getCps (j : Json) (k : String) : Except String Str := do cpsOf (← getField j k)

def asciiOf (j : Json) : Except String Str := do return lit (← j.getStr?)

def intOf (j : Json) : Except String Int := do
  match (← j.getStr?).toInt? with
  | some i => return i
  | none => throw "bad integer literal"

def at? (a : Array Json) (i : Nat) : Json := a[i]?.getD Json.null

def keyFromJson (j : Json) : Except String PyKey := do
  let a ← j.getArr?
  match ← (at? a 0).getStr? with
  | "s" => return .str (← cpsOf (at? a 1))
  | "i" => return .int (← intOf (at? a 1))
  | "b" => return .bool (← (at? a 1).getBool?)
  | "n" => return .none
  | "f" => return .float (← asciiOf (at? a 1))
  | "o" => return .other
  | t => throw s!"bad key tag {t}"

partial def valFromJson (j : Json) : Except String PyVal := do
  let a ← j.getArr?
  match ← (at? a 0).getStr? with
  | "n" => return .none
  | "b" => return .bool (← (at? a 1).getBool?)
  | "i" => return .int (← intOf (at? a 1))
  | "f" => return .float (← asciiOf (at? a 1))
  | "s" => return .str (← cpsOf (at? a 1))
  | "srep" => return .str (List.replicate (← (at? a 2).getNat?) (← (at? a 1).getNat?))
  | "l" => return .list (← (← (at? a 1).getArr?).toList.mapM valFromJson)
  | "t" => return .tuple (← (← (at? a 1).getArr?).toList.mapM valFromJson)
  | "d" =>
    let items ← (← (at? a 1).getArr?).toList.mapM (fun p => do
      let q ← p.getArr?
      return (← keyFromJson (at? q 0), ← valFromJson (at? q 1)))
    return .dict items
  | "set" => return .set
  | "bytes" => return .bytes
  | "cyc" => return .cyclic
  | t => throw s!"bad value tag {t}"

def errName : Err → String
  | .keyError => "KeyError"
  | .typeError => "TypeError"
  | .valueError => "ValueError"
  | .unicodeEncodeError => "UnicodeEncodeError"

def errOfName : String → Except String Err
  | "KeyError" => .ok .keyError
  | "TypeError" => .ok .typeError
  | "ValueError" => .ok .valueError
  | "UnicodeEncodeError" => .ok .unicodeEncodeError
  | n => .error s!"exception class outside the model: {n}"

def kvsToJson (kvs : List (Str × Str)) : Json := jArr (kvs.map (fun kv => jArr [jCps kv.1, jCps kv.2]))

def kvsFromJson (j : Json) : Except String (List (Str × Str)) := do
  (← j.getArr?).toList.mapM (fun p => do
    let q ← p.getArr?
    return (← cpsOf (at? q 0), ← cpsOf (at? q 1)))

/-- path of node names and the rows below them -/
def wrappedParts : Wrapped → List Str × List (Str × Str)
  | .data kvs => ([], kvs)
  | .node n inner => let (p, k) := wrappedParts inner; (n :: p, k)

def resToJson : Res → Json
  | .unit => Json.mkObj [("none", Json.bool true)]
  | .exc e => Json.mkObj [("exc", jStr (errName e))]
  | .text t => Json.mkObj [("text", jCps t)]
  | .data kvs => Json.mkObj [("data", kvsToJson kvs)]
  | .systems l => Json.mkObj [("systems", jArr (l.map jCps))]
  | .optSystem none => Json.mkObj [("system", Json.null)]
  | .optSystem (some s) => Json.mkObj [("system", jCps s)]
  | .wrapped w =>
    let (p, k) := wrappedParts w
    Json.mkObj [("wrapped", Json.mkObj [("path", jArr (p.map jCps)), ("rows", kvsToJson k),
      ("text", jCps (render w))])]
  | .noMatch => Json.mkObj [("match", Json.bool false)]
  | .status c => Json.mkObj [("status", jNat c)]

def resFromJson (j : Json) : Except String Res := do
  if let .ok _ := j.getObjVal? "none" then return .unit
  if let .ok e := j.getObjVal? "exc" then return .exc (← errOfName (← e.getStr?))
  if let .ok t := j.getObjVal? "text" then return .text (← cpsOf t)
  if let .ok d := j.getObjVal? "data" then return .data (← kvsFromJson d)
  if let .ok l := j.getObjVal? "systems" then return .systems (← (← l.getArr?).toList.mapM cpsOf)
  if let .ok s := j.getObjVal? "system" then
    match s with
    | Json.null => return .optSystem none
    | _ => return .optSystem (some (← cpsOf s))
  if let .ok w := j.getObjVal? "wrapped" then
    let p ← (← getArr w "path").mapM cpsOf
    let k ← kvsFromJson (← getField w "rows")
    return .wrapped (wrap p (.data k))
  if let .ok _ := j.getObjVal? "match" then return .noMatch
  if let .ok c := j.getObjVal? "status" then return .status (← c.getNat?)
  throw "unrecognised result"

def dbToJson (db : Db) : Json := jArr (db.map (fun e => jArr [jCps e.1.1, jCps e.1.2, jCps e.2]))

def dbFromJson (j : Json) : Except String Db := do
  (← j.getArr?).toList.mapM (fun p => do
    let q ← p.getArr?
    return ((← cpsOf (at? q 0), ← cpsOf (at? q 1)), ← cpsOf (at? q 2)))

def actionOf (n : String) : Except String Action :=
  match Action.all.find? (fun a => a.name == n) with
  | some a => .ok a
  | none => .error s!"bad action {n}"

inductive ViewCfg where
  | store (strict : Bool)
  | source (cfg : SrcCfg)
  | handler (cfg : HCfg)

def viewFromJson (j : Json) : Except String ViewCfg := do
  match ← getStr j "kind" with
  | "store" => return .store (← getBool j "strict")
  | "source" => return .source { findEnabled := ← getBool j "find_enabled", pfx := ← getCps j "prefix" }
  | "handler" =>
    let key ← match j.getObjVal? "key" with
      | .ok Json.null => pure []
      | .ok k => cpsOf k
      | .error _ => pure []
    let value ← match j.getObjVal? "value" with
      | .ok Json.null => pure PyVal.none
      | .ok v => valFromJson v
      | .error _ => pure PyVal.none
    let clients ← match j.getObjVal? "clients" with
      | .ok Json.null => pure []
      | .ok c => (← c.getArr?).toList.mapM cpsOf
      | .error _ => pure []
    return .handler { path := ← getCps j "path", action := ← actionOf (← getStr j "action"),
                      key := key, value := value, clients := clients }
  | k => throw s!"bad view kind {k}"

def bytesAsNats (j : Json) (k : String) : Except String (List Nat) := do
  return (← getBytes j k).map (·.toNat)

/-- a `DataStore` method call `{op, sid?, key?, value?}` (also used by `conc.store`, C19) -/
def storeOpFromJson (j : Json) : Except String StoreOp := do
  match ← getStr j "op" with
  | "set_value" => pure (.setValue (← getCps j "sid") (← getCps j "key") (← valFromJson (← getField j "value")))
  | "delete_value" => pure (.deleteValue (← getCps j "sid") (← getCps j "key"))
  | "delete_data" => pure (.deleteData (← getCps j "sid"))
  | "get_value" => pure (.getValue (← getCps j "sid") (← getCps j "key"))
  | "get_data" => pure (.getData (← getCps j "sid"))
  | "find_systems" => pure (.findSystems (← getCps j "key") (← valFromJson (← getField j "value")))
  | "list_systems" => pure .listSystems
  | o => throw s!"bad store op {o}"

def stepFromJson (views : List (String × ViewCfg)) (j : Json) : Except String Step := do
  let vn ← getStr j "view"
  let op ← getStr j "op"
  match views.lookup vn with
  | none => throw s!"unknown view {vn}"
  | some (.store strict) =>
    return .store strict (← storeOpFromJson j)
  | some (.source cfg) =>
    match op with
    | "get_data" => return .source cfg (.getData (← getCps j "sid"))
    | "find_system" => return .source cfg (.findSystem (← getCps j "key") (← valFromJson (← getField j "value")))
    | o => throw s!"bad source op {o}"
  | some (.handler cfg) =>
    match op with
    | "request" =>
      let cl ← match j.getObjVal? "content_length" with
        | .ok Json.null => pure none
        | .ok c => pure (some (← cpsOf c))
        | .error _ => pure none
      return .handler cfg { method := ← getCps j "method", uri := ← getCps j "uri", contentLength := cl,
                            body := ← bytesAsNats j "body", bodyFault := ← getBool j "body_fault",
                            client := ← getCps j "client" }
    | o => throw s!"bad handler op {o}"

def parseHistory (j : Json) : Except String (List Step × Db) := do
  let vobj ← (← getField j "views").getObj?
  let views ← vobj.toList.mapM (fun (p : String × Json) => do return (p.1, ← viewFromJson p.2))
  let steps ← (← getArr j "steps").mapM (stepFromJson views)
  let init ← dbFromJson (← getField j "init")
  return (steps, init)

def intentName : Intent → String
  | .nothing => "nothing"
  | .set _ _ => "set"
  | .del _ => "del"
  | .delSid _ => "delSid"

def traceToJson (tr : List (Res × Db)) : Json :=
  jArr (tr.map (fun p => Json.mkObj [("res", resToJson p.1), ("dump", dbToJson p.2)]))

def traceFromJson (j : Json) : Except String (List (Res × Db)) := do
  (← j.getArr?).toList.mapM (fun o => do
    return (← resFromJson (← getField o "res"), ← dbFromJson (← getField o "dump")))

def failureToJson : Option (Nat × String) → Json
  | none => Json.null
  | some (i, c) => jArr [jNat i, jStr c]

/-- `sqlite_history` -/
def opHistory : Op := fun j => do
  let (steps, init) ← parseHistory j
  let (tr, fin) := run steps init
  let outside := (steps.zipIdx.filter (fun p => (outsideTarget p.1).isSome)).map (fun p => jNat p.2)
  let base : List (String × Json) := [
    ("model", traceToJson tr),
    ("final", dbToJson fin),
    ("init_sorted", jBool (sortedB init)),
    ("model_check", jBool (checkTrace steps init tr)),
    ("model_failure", failureToJson (firstFailure steps init tr 0)),
    ("intents", jArr (steps.map (fun s => jStr (intentName (intent s))))),
    ("outside", jArr outside)]
  match j.getObjVal? "impl" with
  | .ok Json.null => return Json.mkObj base
  | .error _ => return Json.mkObj base
  | .ok ij =>
    match traceFromJson ij with
    | .error e =>
      -- an observation that cannot even be expressed in the result type of the model
      return Json.mkObj (base ++ [("impl_check", jBool false), ("impl_failure", Json.null),
        ("impl_unreadable", jStr e)])
    | .ok itr =>
      return Json.mkObj (base ++ [
        ("impl_check", jBool (checkTrace steps init itr)),
        ("impl_failure", failureToJson (firstFailure steps init itr 0)),
        ("impl_dumps_sorted", jBool (itr.all (fun p => sortedB p.2)))])

/-- `sqlite_crash`: {views, steps, init, acked, final} -/
def opCrash : Op := fun j => do
  let (steps, init) ← parseHistory j
  let acked ← getNat j "acked"
  let final ← dbFromJson (← getField j "final")
  let a := (run (steps.take acked) init).2
  let b := (run (steps.take (acked + 1)) init).2
  return Json.mkObj [
    ("ok", jBool (crashOK steps init acked final)),
    ("is_old", jBool (final == a)),
    ("is_new", jBool (final == b)),
    ("old_differs_from_new", jBool (a != b)),
    ("rows_old", jNat a.length), ("rows_new", jNat b.length), ("rows_final", jNat final.length)]

def exceptToJson (r : Except Err Str) : Json :=
  match r with
  | .ok t => Json.mkObj [("text", jCps t)]
  | .error e => Json.mkObj [("exc", jStr (errName e))]

/-- `sqlite_fn`: the pure functions one by one -/
def opFn : Op := fun j => do
  match ← getStr j "fn" with
  | "dumps" =>
    let v ← valFromJson (← getField j "value")
    let chk : Json := match checkValue v with
      | .ok _ => Json.mkObj [("none", Json.bool true)]
      | .error e => Json.mkObj [("exc", jStr (errName e))]
    return Json.mkObj [("dumps", exceptToJson (dumps v)), ("check", chk), ("json_safe", jBool (jsonSafe v))]
  | "unquote" => return Json.mkObj [("text", jCps (unquote (← getCps j "s")))]
  | "decode" =>
    let raw ← bytesAsNats j "body"
    let js : Json := match decodeJsonBody raw with
      | .ok v _ => Json.mkObj [("json", exceptToJson (dumps v))]
      | .bad => Json.mkObj [("json", Json.mkObj [("bad", Json.bool true)])]
      | .outside => Json.mkObj [("json", Json.mkObj [("outside", Json.bool true)])]
    let tx : Json := match decodeUtf8 .strict raw with
      | some s => jCps s
      | none => Json.null
    return js.mergeObj (Json.mkObj [("utf8", tx)])
  | f => throw s!"bad fn {f}"

def ops : List (String × Op) := [
  ("sqlite_history", opHistory),
  ("sqlite_crash", opCrash),
  ("sqlite_fn", opFn)]

end Driver.Sqlite
