import Driver.Json
import Vinegar.Spec.Matcher
/-
Line-protocol operations of the system-matcher model (C18). Strings travel as arrays of
code points (so that any Unicode scalar value survives JSON unchanged).

  matcher.parse  {"expr":[cp], "cst"?: {"lead":[cp],"c":<cst>,"trail":[cp]}}
      → {"accepted":bool, "error":name|null, "atoms":[<atom>…]}      (the terms the harness must
        evaluate with the real `re`/`fnmatch`: those of the model's tree and of the given tree)
  matcher.check  {"expr", "cst"?, "systems":[{"id":[cp],"data":[[[cp],[cp]]…]}…],
                  "atoms":[{<atom>, "ok":bool, "vals":[bool per system]}…],
                  "impl":{"first":[obs…],"cached":[…],"mfirst":[…],"mcached":[…]}}   obs = bool | exception class name
      → model observations, the spec checkers on the implementation's and on the model's
        observations, the tie of the given concrete syntax tree to the Lean printer family
-/
namespace Driver.Matcher
open Lean Vinegar Vinegar.Matcher Driver

def strOfCps (l : List Nat) : Str := l.map Char.ofNat
def getCps (j : Json) (k : String) : Except String Str := do return strOfCps (← getNatList j k)
def cpsOf (j : Json) : Except String Str := do
  return strOfCps (← (← j.getArr?).toList.mapM (fun x => x.getNat?))
def jCps (s : Str) : Json := jArr (s.map (fun c => jNat c.toNat))

def kindToStr : Kind → String
  | .glob => "glob"
  | .literal => "literal"
  | .re => "re"

def kindFromStr (s : String) : Except String Kind :=
  match Kind.ofName s with
  | some k => .ok k
  | none => .error s!"bad kind {s}"

def atomToJson (a : Atom) : Json :=
  Json.mkObj [("key", match a.key with | some k => jCps k | none => Json.null),
              ("kind", jStr (kindToStr a.kind)), ("pattern", jCps a.pattern), ("cs", jBool a.caseSensitive)]

def atomFromJson (j : Json) : Except String Atom := do
  let key ← match j.getObjVal? "key" with
    | .ok Json.null => pure none
    | .ok v => pure (some (← cpsOf v))
    | .error _ => pure none
  return ⟨key, ← kindFromStr (← getStr j "kind"), ← getCps j "pattern", ← getBool j "cs"⟩

def quoteFromStr (s : String) : Except String Quote :=
  if s = "none" then .ok .none else if s = "single" then .ok .single else if s = "double" then .ok .double
  else .error s!"bad quote {s}"

partial def cstFromJson (j : Json) : Except String Cst := do
  match ← getStr j "t" with
  | "atom" =>
    let a ← atomFromJson j
    return .atom ⟨a, ← getBool j "shorthand", ← getBool j "slash", ← quoteFromStr (← getStr j "keyq"),
      ← quoteFromStr (← getStr j "patq")⟩
  | "not" => return .not (← getCps j "ws") (← cstFromJson (← getField j "c"))
  | "paren" => return .paren (← getCps j "ws1") (← cstFromJson (← getField j "c")) (← getCps j "ws2")
  | "and" =>
    return .and (← cstFromJson (← getField j "l")) (← getCps j "ws1") (← getCps j "ws2") (← cstFromJson (← getField j "r"))
  | "or" =>
    return .or (← cstFromJson (← getField j "l")) (← getCps j "ws1") (← getCps j "ws2") (← cstFromJson (← getField j "r"))
  | t => throw s!"bad cst tag {t}"

structure Top where
  lead : Str
  c : Cst
  trail : Str

def topFromJson (j : Json) : Except String (Option Top) :=
  match j.getObjVal? "cst" with
  | .ok Json.null => .ok none
  | .error _ => .ok none
  | .ok v => do return some ⟨← getCps v "lead", ← cstFromJson (← getField v "c"), ← getCps v "trail"⟩

def errName : ParseError → String
  | .expected w => s!"expected {w}"
  | .prematureEnd => "prematureEnd"
  | .emptyPattern => "emptyPattern"
  | .emptyKey => "emptyKey"
  | .unsupportedType => "unsupportedType"
  | .keywordMisplaced => "keywordMisplaced"
  | .missingWhitespace => "missingWhitespace"
  | .trailingInput => "trailingInput"
  | .badRegex => "badRegex"
  | .fuel => "fuel"

def obsToJson : Obs → Json
  | .result b => jBool b
  | .raised c => jStr c

def obsFromJson (j : Json) : Except String Obs :=
  match j with
  | .bool b => .ok (.result b)
  | .str s => .ok (.raised s)
  | _ => .error "bad observation"

def obsListFrom (j : Json) (k : String) : Except String (List Obs) := do
  (← getArr j k).mapM obsFromJson

def dedup (l : List Atom) : List Atom :=
  l.foldl (fun acc a => if acc.contains a then acc else acc ++ [a]) []

def opParse (j : Json) : Except String Json := do
  let s ← getCps j "expr"
  let top ← topFromJson j
  let r := parse s
  let fromModel := match r with
    | .ok e => e.atoms
    | .error _ => []
  let fromTree := match top with
    | some t => (abstract t.c).atoms
    | none => []
  return Json.mkObj [
    ("accepted", jBool (match r with | .ok _ => true | .error _ => false)),
    ("error", match r with | .ok _ => Json.null | .error e => jStr (errName e)),
    ("atoms", jArr ((dedup (fromModel ++ fromTree)).map atomToJson))]

def sysFromJson (j : Json) : Except String Sys := do
  let d ← (← getArr j "data").mapM (fun p => do
    let a ← p.getArr?
    let k ← cpsOf (a[0]?.getD Json.null)
    let v ← cpsOf (a[1]?.getD Json.null)
    return (k, v))
  return ⟨← getCps j "id", d⟩

def caseObsToJson (o : CaseObs) : Json :=
  Json.mkObj [("first", jArr (o.first.map obsToJson)), ("cached", jArr (o.cached.map obsToJson)),
              ("mfirst", jArr (o.matcherFirst.map obsToJson)), ("mcached", jArr (o.matcherCached.map obsToJson))]

def sameResult (a b : Except ParseError Expr) : Bool :=
  match a, b with
  | .ok x, .ok y => x == y
  | .error _, .error _ => true
  | _, _ => false

def opCheck (j : Json) : Except String Json := do
  let s ← getCps j "expr"
  let top ← topFromJson j
  let systems ← (← getArr j "systems").mapM sysFromJson
  let table ← (← getArr j "atoms").mapM (fun aj => do
    let a ← atomFromJson aj
    let ok ← getBool aj "ok"
    let vals ← (← getArr aj "vals").mapM (fun b => b.getBool?)
    return (a, ok, vals))
  let implJ ← getField j "impl"
  let impl : CaseObs := ⟨← obsListFrom implJ "first", ← obsListFrom implJ "cached",
    ← obsListFrom implJ "mfirst", ← obsListFrom implJ "mcached"⟩
  let idx := List.range systems.length
  let am : Atom → Nat → Bool := fun a i =>
    match table.lookup a with
    | some (_, vals) => vals.getD i false
    | none => false
  let atomOk : Atom → Bool := fun a =>
    match table.lookup a with
    | some (ok, _) => ok
    | none => false
  let r := parse s
  let expected := compile atomOk s
  let needed := (match r with | .ok e => e.atoms | .error _ => []) ++
    (match top with | some t => (abstract t.c).atoms | none => [])
  let missing := needed.any (fun a => (table.lookup a).isNone)
  let model := modelCaseObs atomOk am s idx
  -- literal terms on ASCII text: the shipped truth table must be the concrete Lean literal matcher
  let literalOk := table.all (fun (a, _, vals) =>
    a.kind != .literal || !isAscii a.pattern ||
      ((systems.zip vals).all (fun (sys, v) => !isAscii (subject a sys) || v == literalMatches a sys)))
  -- the printer family on the model's tree
  let stylesOk := match r with
    | .ok e => !printable e || styles.all (fun sty => sameResult (parse (printTop sty e)) (.ok e) &&
        legal (print sty e) && abstract (print sty e) == e)
    | .error _ => true
  let cstJ := match top with
    | none => Json.null
    | some t =>
      let tree := abstract t.c
      let expectedTree : Except ParseError Expr := if tree.atoms.all atomOk then .ok tree else .error .badRegex
      Json.mkObj [
        ("legal", jBool (legalTop t.lead t.c t.trail)),
        ("render", jBool (renderTop t.lead t.c t.trail == s)),
        ("parse_abstract", jBool (sameResult r (.ok tree))),
        ("impl_tree", jBool (checkSystems expectedTree am idx impl.first)),
        ("model_tree", jBool (checkSystems expectedTree am idx model.first))]
  return Json.mkObj [
    ("accepted", jBool (match expected with | .ok _ => true | .error _ => false)),
    ("error", match expected with | .ok _ => Json.null | .error e => jStr (errName e)),
    ("missing", jBool missing),
    ("model", caseObsToJson model),
    ("spec_impl", Json.mkObj [("semantics", jBool (checkSystems expected am idx impl.first)),
                              ("cache", jBool (checkCache impl))]),
    ("spec_model", Json.mkObj [("semantics", jBool (checkSystems expected am idx model.first)),
                               ("cache", jBool (checkCache model))]),
    ("literal_ok", jBool literalOk),
    ("styles_ok", jBool stylesOk),
    ("cst", cstJ)]

/-- value of one expression on one concrete system by the Lean parser and the concrete term semantics
(C11: target expressions of a top file, evaluated independently of the real matcher) -/
def opEval (j : Json) : Except String Json := do
  let s ← getCps j "expr"
  let sys ← sysFromJson j
  match parse s with
  | .error e => return Json.mkObj [("value", Json.null), ("error", jStr (errName e))]
  | .ok e =>
    match evalConcrete e sys with
    | some b => return Json.mkObj [("value", jBool b), ("error", Json.null)]
    | none => return Json.mkObj [("value", Json.null), ("error", Json.null)]

def ops : List (String × Op) :=
  [("matcher.parse", opParse), ("matcher.check", opCheck), ("matcher.eval", opEval)]

end Driver.Matcher
