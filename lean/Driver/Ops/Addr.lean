import Driver.Json
import Vinegar.Spec.Addr
/-
Line-protocol operations of the address-transform model (C16).

Strings travel as arrays of code points.  A transform result is {"ok": [code points]},
"ValueError" or "crash" (any other exception).  IPv6 uses the concrete port of glibc's
inet_pton/inet_ntop (`Vinegar.Addr.Glibc`); the request carries what the real
socket.inet_pton / inet_ntop answered for every string / byte string involved and the op
reports each entry on which the port differs ("inet_bad"), so the trusted glibc behaviour
is validated on every case instead of assumed.
-/
namespace Driver.Addr
open Lean Vinegar Vinegar.Addr Driver

def strOfJson (j : Json) : Except String Str := do
  let a ← j.getArr?
  a.toList.mapM (fun x => do return Char.ofNat (← x.getNat?))

def jStrCp (s : Str) : Json := jArr (s.map (fun c => jNat c.toNat))

def getS (j : Json) (k : String) : Except String Str := do strOfJson (← getField j k)

def resToJson : Res → Json
  | .ok s => Json.mkObj [("ok", jStrCp s)]
  | .valueError => jStr "ValueError"
  | .crash => jStr "crash"

def resOfJson (j : Json) : Except String Res :=
  match j with
  | Json.str "ValueError" => .ok .valueError
  | Json.str _ => .ok .crash
  | _ => do return .ok (← strOfJson (← j.getObjVal? "ok"))

def getRes (j : Json) (k : String) : Except String Res := do resOfJson (← getField j k)

def getOptRes (j : Json) (k : String) : Except String (Option Res) :=
  match j.getObjVal? k with
  | .ok Json.null => .ok none
  | .ok v => (resOfJson v).map some
  | .error _ => .ok none

def G : Inet := Glibc.inet

structure Req where
  fam : String
  fn : String
  s : Str
  raise : Bool
  tcase : Str
  delim : Str

def reqOf (j : Json) (key : String := "s") : Except String Req := do
  let fam ← getStr j "fam"
  let fn ← getStr j "fn"
  let s ← getS j key
  let raise ← getBool j "raise"
  let tcase ← if fam == "mac" then getS j "case" else pure []
  let delim ← if fam == "mac" then getS j "delim" else pure []
  return ⟨fam, fn, s, raise, tcase, delim⟩

/-- the model's transform selected by the request -/
def run (r : Req) (v : Str) : Except String Res :=
  match r.fam, r.fn with
  | "v4", "normalize" => .ok (normalize4 v r.raise)
  | "v4", "net" => .ok (netAddress4 v r.raise)
  | "v4", "bcast" => .ok (broadcastAddress4 v r.raise)
  | "v4", "strip" => .ok (stripMask4 v r.raise)
  | "v6", "normalize" => .ok (normalize6 G v r.raise)
  | "v6", "net" => .ok (netAddress6 G v r.raise)
  | "v6", "strip" => .ok (stripMask6 G v r.raise)
  | "ip", "normalize" => .ok (normalizeIp G v r.raise)
  | "ip", "net" => .ok (netAddressIp G v r.raise)
  | "ip", "strip" => .ok (stripMaskIp G v r.raise)
  | "mac", "normalize" => .ok (normalizeMac v r.tcase r.delim r.raise)
  | f, g => .error s!"unknown transform {f}.{g}"

def jV4 (p : V4) : Json := jArr [jStr "v4", jNat p.a, jNat p.b, jNat p.c, jNat p.d, jOptNat p.mask]
def jV6 (b : List UInt8) (m : Option Nat) : Json := jArr [jStr "v6", jBytes b, jOptNat m]

/-- the value the input denotes for this transform (JSON, `null` = malformed) -/
def parsedJson (r : Req) : Json :=
  match r.fam with
  | "v4" => match parse4 r.s with | some p => jV4 p | none => Json.null
  | "v6" => match parse6 G r.s with | some (b, m) => jV6 b m | none => Json.null
  | "mac" => match parseMac r.s with | some bs => jArr (jStr "mac" :: bs.map jNat) | none => Json.null
  | _ =>
    match (if r.fn == "normalize" then parseIp G r.s else parseIpPlain G r.s) with
    | some (.v4 p) => jV4 p
    | some (.v6 b m) => jV6 b m
    | none => Json.null

/-- is the input well-formed for this transform -/
def wellFormed (r : Req) : Bool :=
  match r.fam, r.fn with
  | "v4", "net" => wellFormed4m r.s
  | "v4", "bcast" => wellFormed4m r.s
  | "v4", _ => wellFormed4 r.s
  | "v6", "net" => wellFormed6m G r.s
  | "v6", _ => wellFormed6 G r.s
  | "mac", _ => wellFormedMac r.s
  | _, "normalize" => (parseIp G r.s).isSome
  | _, "net" => wellFormedIpM G r.s
  | _, _ => (parseIpPlain G r.s).isSome

/-- all spec clauses that apply to this transform, evaluated on one observation -/
def checks (r : Req) (out : Res) (again : Option Res) : List (String × Bool) :=
  let optsOk : Bool := r.fam != "mac" || (macOptions r.tcase r.delim).isSome
  let base : List (String × Bool) :=
    [("outcome", outcomeOk (r.raise || !optsOk) out)] ++
    (if optsOk then [("malformed", malformedOk (wellFormed r) r.raise r.s out)]
     else [("options", out == .valueError)]) ++
    (match again with
     | some a => [("idem", idemOk out a)]
     | none => [])
  let form : List (String × Bool) :=
    match r.fam, r.fn with
    | "v4", "net" => [("net", net4Ok r.s out)]
    | "v4", "bcast" => [("bcast", bcast4Ok r.s out)]
    | "v4", "strip" => [("strip", strip4Ok r.s out)]
    | "v6", "net" => [("net", net6Ok G r.s out)]
    | "v6", "strip" => [("strip", strip6Ok G r.s out)]
    | "ip", "normalize" => [("mapped", mappedOk G r.s out)]
    | "ip", "net" => [("net", netIpOk G r.s out)]
    | "ip", "strip" => [("strip", stripIpOk G r.s out)]
    | "mac", "normalize" =>
      match macOptions r.tcase r.delim with
      | some (up, dl) => [("macform", macFormOk up dl r.s out)]
      | none => []
    | _, _ => []
  base ++ form

def checksJson (l : List (String × Bool)) : Json := Json.mkObj (l.map (fun p => (p.1, jBool p.2)))

/-- entries of the glibc tables on which the concrete port answers differently -/
def inetBad (j : Json) : Except String (List Json) := do
  let mut bad : List Json := []
  match j.getObjVal? "pton" with
  | .ok t =>
    for e in (← t.getArr?).toList do
      let a ← e.getArr?
      let s ← strOfJson (a[0]?.getD Json.null)
      let want : Option Bytes ← match a[1]?.getD Json.null with
        | Json.null => pure none
        | v => do pure (some (← fromHex (← v.getStr?)))
      if Glibc.pton6 s != want then
        bad := bad ++ [jArr [jStr "pton", jStrCp s, match Glibc.pton6 s with | some b => jBytes b | none => Json.null]]
  | .error _ => pure ()
  match j.getObjVal? "ntop" with
  | .ok t =>
    for e in (← t.getArr?).toList do
      let a ← e.getArr?
      let b ← fromHex (← (a[0]?.getD Json.null).getStr?)
      let want ← strOfJson (a[1]?.getD Json.null)
      if Glibc.ntop6 b != want then
        bad := bad ++ [jArr [jStr "ntop", jBytes b, jStrCp (Glibc.ntop6 b)]]
  | .error _ => pure ()
  return bad

def opAddr : Op := fun j => do
  let r ← reqOf j
  let out ← run r r.s
  let again : Option Res ← if r.fn == "normalize" then
      match out with
      | .ok o => do pure (some (← run r o))
      | _ => pure none
    else pure none
  let implOut ← getRes j "impl_out"
  let implAgain ← getOptRes j "impl_again"
  let implAgain := if r.fn == "normalize" then implAgain else none
  return Json.mkObj [
    ("out", resToJson out),
    ("again", match again with | some a => resToJson a | none => Json.null),
    ("wf", jBool (wellFormed r)),
    ("parsed", parsedJson r),
    ("checks_model", checksJson (checks r out again)),
    ("checks_impl", checksJson (checks r implOut implAgain)),
    ("inet_bad", jArr (← inetBad j))]

/-- canonicity over a pair of inputs (normalisation only) -/
def opAddrPair : Op := fun j => do
  let r ← reqOf j "s"
  let t ← getS j "t"
  let outS ← run r r.s
  let outT ← run r t
  let implS ← getRes j "impl_s"
  let implT ← getRes j "impl_t"
  let rt : Req := { r with s := t }
  let canon (a b : Res) : Bool :=
    match r.fam with
    | "v4" => canonOk (parse4 r.s) (parse4 t) a b
    | "v6" => canonOk (parse6 G r.s) (parse6 G t) a b
    | "mac" => if (macOptions r.tcase r.delim).isSome then canonOk (parseMac r.s) (parseMac t) a b else true
    | _ => canonOk (parseIp G r.s) (parseIp G t) a b
  let bothWf := wellFormed r && wellFormed rt
  return Json.mkObj [
    ("out_s", resToJson outS), ("out_t", resToJson outT),
    ("parsed_s", parsedJson r), ("parsed_t", parsedJson rt),
    ("both_wf", jBool bothWf),
    ("same", jBool (parsedJson r == parsedJson rt)),
    ("canon_model", jBool (canon outS outT)),
    ("canon_impl", jBool (canon implS implT)),
    ("inet_bad", jArr (← inetBad j))]

def ops : List (String × Op) := [("addr", opAddr), ("addr_pair", opAddrPair)]

end Driver.Addr
