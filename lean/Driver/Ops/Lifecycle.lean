import Driver.Json
import Vinegar.Model.Lifecycle
/-
Line-protocol operations of the lifecycle model (C20).
-/
namespace Driver.Lifecycle
open Lean Vinegar.Lifecycle Driver

def sharedToJson (s : Shared) : Json :=
  Json.mkObj [("running", jBool s.running), ("shutdown_requested", jBool s.shutdownReq),
    ("thread_alive", jBool s.threadAlive), ("socket_open", jBool s.socketOpen)]

def opFromString : String → Except String Vinegar.Lifecycle.Op
  | "start" => .ok Vinegar.Lifecycle.Op.start
  | "stop" => .ok Vinegar.Lifecycle.Op.stop
  | "request" => .ok Vinegar.Lifecycle.Op.request
  | s => .error s!"bad lifecycle op {s}"

/-- sequential history: per operation the state afterwards and whether a request was served -/
def seq : Driver.Op := fun j => do
  let ops ← (← getArr j "ops").mapM (fun x => do opFromString (← x.getStr?))
  let rs := seqRun Shared.init ops
  return Json.mkObj [("steps", jArr (rs.map (fun (r : Shared × Bool) =>
    Json.mkObj [("state", sharedToJson r.1), ("ok", jBool r.2), ("consistent", jBool (consistent r.1))])))]

/-- is an observed end state of concurrent calls one of the two consistent states -/
def endState : Driver.Op := fun j => do
  let s : Shared := ⟨← getBool j "running", ← getBool j "shutdown_requested", ← getBool j "thread_alive",
    ← getBool j "socket_open"⟩
  return Json.mkObj [("consistent", jBool (consistent s))]

/-- index (in the flattened list of calls) of the call thread `t` is executing: its first call that is not done -/
def currentCall (pcs : List Pc) (owner : List Nat) (t : Nat) : Option Nat :=
  (List.range pcs.length).find? (fun i => owner[i]? == some t && pcs[i]? != some Pc.done)

/-- Replay of an observed run of the real server under the deterministic scheduler: every call of every
caller thread is one thread of the model (a later call of the same caller only starts once the earlier one is
done, which is a restriction of the schedules the theorems quantify over); every observed critical section of a
caller is `step c (some i)`, the request-port thread noticing the shutdown request is `step c none`.
Answers, per event, the model state afterwards and whether the model step was enabled. -/
def replay : Driver.Op := fun j => do
  let threads ← (← getArr j "threads").mapM (fun th => do
    (← th.getArr?).toList.mapM (fun x => do opFromString (← x.getStr?)))
  let flat : List (Nat × Vinegar.Lifecycle.Op) :=
    (threads.zipIdx.map (fun (p : List Vinegar.Lifecycle.Op × Nat) => p.1.map (fun o => (p.2, o)))).flatten
  let owner := flat.map (·.1)
  let pcs0 : List Pc := flat.map (fun p => match p.2 with
    | Vinegar.Lifecycle.Op.start => Pc.startCall
    | Vinegar.Lifecycle.Op.stop => Pc.stopCall
    | Vinegar.Lifecycle.Op.request => Pc.done)
  let mut c : Config := ⟨Shared.init, pcs0⟩
  let mut out : List Json := []
  for ev in (← getArr j "events") do
    let k ← getStr ev "k"
    let mut enabled := true
    if k == "cs" then
      let t ← getNat ev "t"
      match currentCall c.pcs owner t with
      | none => enabled := false
      | some i =>
        if c.pcs[i]? == some Pc.stopJoin then
          -- the join has returned: enabled in the model only once the request-port thread has ended
          match step c (some i) with
          | some c' => c := c'
          | none => enabled := false
        match step c (some i) with
        | some c' => c := c'
        | none => enabled := false
    else if k == "srv_sees_shutdown" then
      match step c none with
      | some c' => c := c'
      | none => enabled := false
    else if k == "srv_end" then
      pure ()
    else throw s!"bad event kind {k}"
    out := out ++ [Json.mkObj [("state", sharedToJson c.sh), ("enabled", jBool enabled)]]
  return Json.mkObj [("steps", jArr out), ("all_done", jBool (allDone c)), ("consistent", jBool (consistent c.sh)),
    ("final", sharedToJson c.sh)]

def ops : List (String × Driver.Op) := [("lifecycle.seq", seq), ("lifecycle.end", endState), ("lifecycle.replay", replay)]

end Driver.Lifecycle
