import Driver.Json
import Vinegar.Model.Lifecycle
/-
Line-protocol operations of the lifecycle model (C20).
-/
namespace Driver.Lifecycle
open Lean Vinegar.Lifecycle Driver

def sharedToJson (s : Shared) : Json :=
  Json.mkObj [("running", jBool s.running), ("shutdown_requested", jBool s.shutdownReq),
    ("thread_alive", jBool s.threadAlive), ("socket_open", jBool s.socketOpen)]

def opFromString : String → Except String Vinegar.Lifecycle.Op
  | "start" => .ok Vinegar.Lifecycle.Op.start
  | "stop" => .ok Vinegar.Lifecycle.Op.stop
  | "request" => .ok Vinegar.Lifecycle.Op.request
  | s => .error s!"bad lifecycle op {s}"

/-- sequential history: per operation the state afterwards and whether a request was served -/
def seq : Driver.Op := fun j => do
  let ops ← (← getArr j "ops").mapM (fun x => do opFromString (← x.getStr?))
  let rs := seqRun Shared.init ops
  return Json.mkObj [("steps", jArr (rs.map (fun (r : Shared × Bool) =>
    Json.mkObj [("state", sharedToJson r.1), ("ok", jBool r.2), ("consistent", jBool (consistent r.1))])))]

/-- is an observed end state of concurrent calls one of the two consistent states -/
def endState : Driver.Op := fun j => do
  let s : Shared := ⟨← getBool j "running", ← getBool j "shutdown_requested", ← getBool j "thread_alive",
    ← getBool j "socket_open"⟩
  return Json.mkObj [("consistent", jBool (consistent s))]

def ops : List (String × Driver.Op) := [("lifecycle.seq", seq), ("lifecycle.end", endState)]

end Driver.Lifecycle
