import Driver.Json
import Driver.Ops.Sqlite
import Driver.Ops.TextFile
import Driver.Ops.Yaml
import Vinegar.Model.ConcComponents
/-
Line-protocol operations of the concurrency model (C19): is the outcome of ONE concurrent run of
real threads (per thread the calls with the results they returned, plus the probe calls made after
the threads were joined) linearizable with respect to the Lean model of the component's sequential
behaviour — `Conc.linearizableP step`, the checker of `Vinegar.C19.linearizable_run_probe` /
`linearizableP_sound`.

  conc.lru       {size, mark_on_update, threads:[[op…]…], results:[[res…]…], probe:[op…]?, probe_results:[res…]?}
  conc.store     {strict, initial:[call…], threads:[[call…]…], results:[[res…]…], probe:[call…], probe_results:[res…]}
                 call / res = the `DataStore` calls and results of `sqlite_history` (C15)
  conc.textfile  {cfg, init:state, states:[state…], threads:[[op…]…], results:[[res|null…]…], probe:[op…],
                  probe_results:[res…]}
                 cfg / res / the classified lines = those of `textfile.run` (C14);
                 state = {stamp, content, lines}; op = ["write",k] | ["get",sid] | ["find",key,val]

  conc.yaml      {cfg, fuel, cache_size, pdv, texts, tops, render, init, states:[[edit…]…], threads:[[op…]…],
                  results:[[res|null…]…], probe:[op…], probe_results:[res…]}
                 cfg / texts / tops / render / init / the edits (`write`, `setTop`) / res = those of
                 `yaml.history` (C12); op = ["write",k] | ["get",id]. Version strings: the model's
                 (`driverVer`: the text identifiers of the pieces, joined); the adapter maps the hashes the
                 real source returns back to them through the table it computes from
  conc.yaml_versions {…world…, variants:[[k…]…], ids:[id…]} → for every tree reached by applying the
                 states `variant` in order and every id the model's version of a fresh `get_data` (or null)

Every `conc.<component>` op answers {linearizable, threads_only, unreadable?}: `linearizable` = `linearizableP` with the
probe, `threads_only` = the same search without the probe (tells a wrong final state from a wrong
result). A result that cannot be expressed in the result type of the model (an exception class or a
value the sequential model never produces) is not linearizable.
-/
namespace Driver.Conc
open Lean Vinegar Vinegar.Conc Driver

def lruOpFromJson (j : Json) : Except String LruOp := do
  let a ← j.getArr?
  let tag ← (a[0]?.getD Json.null).getStr?
  let nat (i : Nat) : Except String Nat := (a[i]?.getD Json.null).getNat?
  match tag with
  | "get" => return .get (← nat 1)
  | "set" => return .set (← nat 1) (← nat 2)
  | "del" => return .del (← nat 1)
  | "contains" => return .contains (← nat 1)
  | "len" => return .len
  | "clear" => return .clear
  | t => throw s!"bad lru op {t}"

/-- canonical results of the adapter: number, bool, null, {"exc": "KeyError"} -/
def lruResFromJson (op : LruOp) (j : Json) : Except String LruRes :=
  match j with
  | Json.null => .ok .unit
  | Json.bool b => .ok (.bool b)
  | Json.num _ =>
    match op with
    | .len => do return .nat (← j.getNat?)
    | _ => do return .value (← j.getNat?)
  | Json.obj _ =>
    match j.getObjVal? "exc" with
    | .ok (Json.str "KeyError") => .ok .keyError
    | _ => .error "unexpected exception result"
  | _ => .error "unexpected lru result"

/-- pair every call with the result observed for it -/
def zipObs {O R : Type} (dec : O → Json → Except String R) (ops : List O) (rs : Json) :
    Except String (List (O × R)) := do
  let a ← rs.getArr?
  if a.size != ops.length then throw "result count mismatch"
  (ops.zip a.toList).mapM (fun (q : O × Json) => do return (q.1, ← dec q.1 q.2))

def totalOps {O : Type} (threads : List (List O)) : Nat := (threads.map List.length).foldl (· + ·) 0

/-- the answer of every `conc.*` op. `obs` / `probe` are `error` when an observed result has no
counterpart in the result type of the model. -/
def verdict {S O R : Type} [DecidableEq R] (step : S → O → S × R) (s0 : S) (threads : List (List O))
    (obs : Except String (List (List (O × R)))) (probe : Except String (List (O × R))) : Json :=
  match obs, probe with
  | .ok o, .ok p =>
    Json.mkObj [("linearizable", jBool (linearizableP step (totalOps threads) s0 o p)),
                ("threads_only", jBool (linearizable step (totalOps threads) s0 o))]
  | .ok o, .error e =>
    Json.mkObj [("linearizable", jBool false),
                ("threads_only", jBool (linearizable step (totalOps threads) s0 o)),
                ("unreadable", jStr e)]
  | .error e, _ =>
    Json.mkObj [("linearizable", jBool false), ("threads_only", jBool false), ("unreadable", jStr e)]

/-- is the observed per-thread outcome of a concurrent run on the synchronized LRU linearizable -/
def lru : Driver.Op := fun j => do
  let size ← getNat j "size"
  let mark ← getBool j "mark_on_update"
  let threads ← (← getArr j "threads").mapM (fun t => do
    let a ← t.getArr?
    a.toList.mapM lruOpFromJson)
  let results ← getArr j "results"
  if results.length != threads.length then throw "thread count mismatch"
  let obs := (threads.zip results).mapM (fun (p : List LruOp × Json) => zipObs lruResFromJson p.1 p.2)
  let probeOps ← match j.getObjVal? "probe" with
    | .ok p => (← p.getArr?).toList.mapM lruOpFromJson
    | .error _ => pure []
  let probe := match j.getObjVal? "probe_results" with
    | .ok r => zipObs lruResFromJson probeOps r
    | .error _ => .ok []
  return verdict lruStep ⟨size, mark, []⟩ threads obs probe

/-- `DataStore`: the calls of C15's histories, the results of C15's observations -/
def store : Driver.Op := fun j => do
  let strict ← getBool j "strict"
  let calls (k : String) : Except String (List Sqlite.StoreOp) := do
    (← getArr j k).mapM Driver.Sqlite.storeOpFromJson
  let initial ← calls "initial"
  let threads ← (← getArr j "threads").mapM (fun t => do
    (← t.getArr?).toList.mapM Driver.Sqlite.storeOpFromJson)
  let results ← getArr j "results"
  if results.length != threads.length then throw "thread count mismatch"
  let probeOps ← calls "probe"
  let dec (_ : Sqlite.StoreOp) (r : Json) : Except String Sqlite.Res := Driver.Sqlite.resFromJson r
  let obs := (threads.zip results).mapM (fun (p : List Sqlite.StoreOp × Json) => zipObs dec p.1 p.2)
  let probe := zipObs dec probeOps (← getField j "probe_results")
  -- the rows the scenario puts into the table before the threads start
  let db0 := (seqRun (storeStep strict) [] initial).1
  return verdict (storeStep strict) db0 threads obs probe

def tfStateFromJson (j : Json) : Except String TextFile.FileState := do
  let stamp ← getNat j "stamp"
  match ← Driver.TextFile.contentFromJson j with
  | some (.text lines) => return .text stamp lines
  | some .garbage => return .garbage stamp
  | none => return .missing

def tfOpFromJson (j : Json) : Except String TfOp := do
  let a ← j.getArr?
  match ← (a[0]?.getD Json.null).getStr? with
  | "write" => return .write (← (a[1]?.getD Json.null).getNat?)
  | "get" => return .call (.get (← (a[1]?.getD Json.null).getStr?))
  | "find" => return .call (.find (← (a[1]?.getD Json.null).getStr?) (← Driver.TextFile.valFromJson (a[2]?.getD Json.null)))
  | t => throw s!"bad text file op {t}"

def tfResFromJson (op : TfOp) (j : Json) : Except String TfRes :=
  match op, j with
  | .write _, Json.null => .ok none
  | .write _, _ => .error "a file rewrite returns nothing"
  | .call _, _ => do return some (← Driver.TextFile.resFromJson j)

/-- `TextFileSource` next to a file that the scenario rewrites -/
def textfile : Driver.Op := fun j => do
  let cfg ← Driver.TextFile.cfgFromJson (← getField j "cfg")
  let init ← tfStateFromJson (← getField j "init")
  let states ← (← getArr j "states").mapM tfStateFromJson
  let threads ← (← getArr j "threads").mapM (fun t => do
    (← t.getArr?).toList.mapM tfOpFromJson)
  let results ← getArr j "results"
  if results.length != threads.length then throw "thread count mismatch"
  let probeOps ← (← getArr j "probe").mapM tfOpFromJson
  let obs := (threads.zip results).mapM (fun (p : List TfOp × Json) => zipObs tfResFromJson p.1 p.2)
  let probe := zipObs tfResFromJson probeOps (← getField j "probe_results")
  return verdict (tfStep Driver.TextFile.ver Driver.TextFile.statVer cfg states) (TfWorld.start init) threads obs probe

def yOpFromJson (j : Json) : Except String YOp := do
  let a ← j.getArr?
  match ← (a[0]?.getD Json.null).getStr? with
  | "write" => return .write (← (a[1]?.getD Json.null).getNat?)
  | "get" => return .get (← (a[1]?.getD Json.null).getStr?)
  | t => throw s!"bad yaml op {t}"

def yResFromJson (op : YOp) (j : Json) : Except String YRes :=
  match op, j with
  | .write _, Json.null => .ok none
  | .write _, _ => .error "a file change returns nothing"
  | .get _, _ => do return some (← Driver.Yaml.obsFromJson j)

structure YSetup where
  W : Yaml.World
  R : Yaml.Render
  cfg : Yaml.Cfg
  fuel : Nat
  size : Nat
  pdv : String
  fs : Yaml.Fs
  states : List (List Yaml.Step)

def ySetupFromJson (j : Json) : Except String YSetup := do
  let (W, R, fs) ← Driver.Yaml.worldFromJson j
  let states ← (← getArr j "states").mapM (fun st => do
    (← st.getArr?).toList.mapM Driver.Yaml.stepFromJson)
  return { W, R, fs, states, cfg := ← Driver.Yaml.cfgFromJson (← getField j "cfg"), fuel := ← getNat j "fuel",
           size := ← getNat j "cache_size", pdv := ← getStr j "pdv" }

def YSetup.step (y : YSetup) : YWorld → YOp → YWorld × YRes :=
  yamlStep Driver.Yaml.driverVer y.W y.R y.cfg y.fuel y.pdv y.states

/-- `YamlTargetSource.get_data` next to a tree in which the scenario changes one file -/
def yaml : Driver.Op := fun j => do
  let y ← ySetupFromJson j
  let threads ← (← getArr j "threads").mapM (fun t => do
    (← t.getArr?).toList.mapM yOpFromJson)
  let results ← getArr j "results"
  if results.length != threads.length then throw "thread count mismatch"
  let probeOps ← (← getArr j "probe").mapM yOpFromJson
  let obs := (threads.zip results).mapM (fun (p : List YOp × Json) => zipObs yResFromJson p.1 p.2)
  let probe := zipObs yResFromJson probeOps (← getField j "probe_results")
  return verdict y.step ⟨y.fs, ⟨y.size, []⟩⟩ threads obs probe

/-- the version strings the model gives the data of `ids` in the trees reached by the `variants`
(sequences of state indices applied to the initial tree), each from a new source object -/
def yamlVersions : Driver.Op := fun j => do
  let y ← ySetupFromJson j
  let variants ← (← getArr j "variants").mapM (fun v => do
    (← v.getArr?).toList.mapM (fun k => k.getNat?))
  let ids ← (← getArr j "ids").mapM (fun i => i.getStr?)
  let out := variants.map (fun ks =>
    let w := (seqRun y.step ⟨y.fs, ⟨y.size, []⟩⟩ (ks.map YOp.write)).1
    jArr (ids.map (fun id =>
      match (y.step ⟨w.fs, ⟨y.size, []⟩⟩ (.get id)).2 with
      | some (.ok _ v) => jStr v
      | _ => Json.null)))
  return jArr out

def ops : List (String × Driver.Op) := [
  ("conc.lru", lru), ("conc.store", store), ("conc.textfile", textfile), ("conc.yaml", yaml),
  ("conc.yaml_versions", yamlVersions)]

end Driver.Conc
