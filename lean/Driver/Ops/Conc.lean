import Driver.Json
import Vinegar.Model.Conc
/-
Line-protocol operations of the concurrency model (C19).
-/
namespace Driver.Conc
open Lean Vinegar.Conc Driver

def lruOpFromJson (j : Json) : Except String LruOp := do
  let a ← j.getArr?
  let tag ← (a[0]?.getD Json.null).getStr?
  let nat (i : Nat) : Except String Nat := (a[i]?.getD Json.null).getNat?
  match tag with
  | "get" => return .get (← nat 1)
  | "set" => return .set (← nat 1) (← nat 2)
  | "del" => return .del (← nat 1)
  | "contains" => return .contains (← nat 1)
  | "len" => return .len
  | "clear" => return .clear
  | t => throw s!"bad lru op {t}"

/-- canonical results of the adapter: number, bool, null, {"exc": "KeyError"} -/
def lruResFromJson (op : LruOp) (j : Json) : Except String LruRes :=
  match j with
  | Json.null => .ok .unit
  | Json.bool b => .ok (.bool b)
  | Json.num _ =>
    match op with
    | .len => do return .nat (← j.getNat?)
    | _ => do return .value (← j.getNat?)
  | Json.obj _ =>
    match j.getObjVal? "exc" with
    | .ok (Json.str "KeyError") => .ok .keyError
    | _ => .error "unexpected exception result"
  | _ => .error "unexpected lru result"

/-- is the observed per-thread outcome of a concurrent run on the synchronized LRU linearizable -/
def lru : Driver.Op := fun j => do
  let size ← getNat j "size"
  let mark ← getBool j "mark_on_update"
  let threads ← (← getArr j "threads").mapM (fun t => do
    let a ← t.getArr?
    a.toList.mapM lruOpFromJson)
  let results ← getArr j "results"
  let obs ← (threads.zip results).mapM (fun (p : List LruOp × Json) => do
    let rs ← p.2.getArr?
    if rs.size != p.1.length then throw "result count mismatch"
    (p.1.zip rs.toList).mapM (fun (q : LruOp × Json) => do return (q.1, ← lruResFromJson q.1 q.2)))
  let total := (threads.map List.length).foldl (· + ·) 0
  return Json.mkObj [("linearizable", jBool (linearizable lruStep total ⟨size, mark, []⟩ obs))]

def ops : List (String × Driver.Op) := [("conc.lru", lru)]

end Driver.Conc
