import Driver.Json
import Vinegar.Spec.Cidr
/-
Line-protocol operations of the client-address model (C05).

`pton`: list of `[text, hex4|null, hex6|null]` — what the real `socket.inet_pton` answered for the
texts the model asks about (client, every entry, every entry with its netmask suffix removed). A
text that is asked about but missing from the table is an error, never a silent `none`.
-/
namespace Driver.Cidr
open Lean Vinegar Vinegar.Cidr Driver

structure Table where
  rows : List (String × Option Bytes × Option Bytes)

def Table.pton (t : Table) : Pton where
  p4 := fun s => match t.rows.find? (·.1 == s) with | some r => r.2.1 | none => none
  p6 := fun s => match t.rows.find? (·.1 == s) with | some r => r.2.2 | none => none

def Table.has (t : Table) (s : String) : Bool := t.rows.any (·.1 == s)

def optHex (j : Json) : Except String (Option Bytes) :=
  match j with
  | Json.null => return none
  | v => do return some (← fromHex (← v.getStr?))

def tableFromJson (j : Json) : Except String Table := do
  let rows ← (← getArr j "pton").mapM (fun r => do
    let a ← r.getArr?
    let s ← (a[0]?.getD Json.null).getStr?
    return (s, ← optHex (a[1]?.getD Json.null), ← optHex (a[2]?.getD Json.null)))
  return ⟨rows⟩

/-- every text the model hands to `inet_pton` for this client / these entries must be in the table -/
def checkCoverage (t : Table) (allowMask : Bool) (client : String) (cands : List String) : Except String Unit := do
  unless t.has client do throw s!"pton table lacks the client text {client.quote}"
  for c in cands do
    let q := (splitMask allowMask c).1
    unless t.has q do throw s!"pton table lacks {q.quote}"

def candFromJson (j : Json) : Except String Cand :=
  match j with
  | Json.str s => return .str s
  | v => do return .bad (← getBool v "hashable") (← getStr v "bad")

def candToJson : Cand → Json
  | .str s => jStr s
  | .bad h r => Json.mkObj [("bad", jStr r), ("hashable", jBool h)]

partial def valFromJson (j : Json) : Except String Val :=
  match j with
  | Json.null => return .none
  | v =>
    match v.getObjVal? "s" with
    | .ok s => do return .str (← s.getStr?)
    | .error _ =>
    match v.getObjVal? "i" with
    | .ok n => do return .int (← n.getInt?)
    | .error _ =>
    match v.getObjVal? "b" with
    | .ok b => do return .bool (← b.getBool?)
    | .error _ =>
    match v.getObjVal? "l" with
    | .ok l => do
      let kind ← match ← getStr v "k" with
        | "list" => pure SeqKind.list
        | "tuple" => pure SeqKind.tuple
        | "set" => pure SeqKind.set
        | k => throw s!"bad sequence kind {k}"
      let items ← (← l.getArr?).toList.mapM valFromJson
      return .seq kind items
    | .error _ =>
    match v.getObjVal? "d" with
    | .ok d => do
      let kv ← (← d.getArr?).toList.mapM (fun p => do
        let a ← p.getArr?
        let k ← (a[0]?.getD Json.null).getStr?
        let x ← valFromJson (a[1]?.getD Json.null)
        return (k, x))
      return .dict kv
    | .error _ => throw "bad value"

def cresToJson : CRes → Json
  | .allowed => jStr "allowed"
  | .denied => jStr "denied"
  | .raised => jStr "raised"

def outcomeToJson : Outcome → Json
  | .served => jStr "served"
  | .notFound => jStr "not_found"
  | .forbidden => jStr "forbidden"
  | .dsError => jStr "ds_error"
  | .internalError => jStr "internal_error"
  | .badRequest => jStr "bad_request"

def outcomeFromStr : String → Except String Outcome
  | "served" => return .served
  | "not_found" => return .notFound
  | "forbidden" => return .forbidden
  | "ds_error" => return .dsError
  | "internal_error" => return .internalError
  | "bad_request" => return .badRequest
  | s => throw s!"bad outcome {s}"

def effectsToJson (e : Effects) : Json := Json.mkObj [
  ("find_called", jBool e.findCalled), ("get_data_called", jBool e.getDataCalled),
  ("file_touched", jBool e.fileTouched), ("rendered", jBool e.rendered), ("store_ops", jNat e.storeOps)]

def expectedToJson : Expected → Json
  | .unrestricted => Json.mkObj [("kind", jStr "unrestricted")]
  | .cands l => Json.mkObj [("kind", jStr "cands"), ("items", jArr (l.map candToJson))]
  | .nonIter => Json.mkObj [("kind", jStr "non_iterable")]
  | .raises => Json.mkObj [("kind", jStr "raises")]

def expectedStrs : Expected → List String
  | .cands l => strsOf l
  | _ => []

def sameSet (a b : List String) : Bool := a.all (b.contains ·) && b.all (a.contains ·)

/-- `_ip_address_in_subnet` alone -/
def subnet : Op := fun j => do
  let ip ← getBytes j "ip"
  let net ← getBytes j "net"
  let bits ← getNat j "bits"
  let m := inSubnet ip net bits
  let r := topBitsEq ip net bits
  let mut fields : List (String × Json) := [("model", jBool m), ("ref", jBool r)]
  match j.getObjVal? "impl" with
  | .ok (Json.bool b) => fields := fields ++ [("sound_impl", jBool (!b || r)), ("exact_impl", jBool (b == r))]
  | _ => pure ()
  return Json.mkObj fields

/-- `contains_ip_address(cands, client, allow_netmask)` called directly -/
def contains : Op := fun j => do
  let t ← tableFromJson j
  let P := t.pton
  let allowMask ← getBool j "allow_mask"
  let client ← getStr j "client"
  let cands ← (← getArr j "cands").mapM candFromJson
  let strs := strsOf cands
  checkCoverage t allowMask client strs
  let model : CRes := match splitClient P client with
    | none => .denied
    | some (ip4, ip6) => containsLoop P allowMask ip4 ip6 cands
  let ref := refContains P allowMask strs client
  let mut fields : List (String × Json) := [
    ("model", cresToJson model), ("ref", jBool ref),
    ("client_ok", jBool (splitClient P client).isSome),
    ("bad_exists", jBool (cands.any Cand.isBad)),
    ("model_strings_only", jBool (containsIp P allowMask strs client)),
    ("sound_model", jBool (containsSound P allowMask strs client (model == .allowed)))]
  match j.getObjVal? "impl" with
  | .ok (Json.str s) =>
    let b := s == "allowed"
    fields := fields ++ [("sound_impl", jBool (containsSound P allowMask strs client b)),
      ("exact_impl", jBool (s == "raised" || containsExact P allowMask strs client b))]
  | _ => pure ()
  return Json.mkObj fields

def dsActionFromStr : String → Except String DsAction
  | "error" => return .error
  | "ignore" => return .ignore
  | "warn" => return .warn
  | s => throw s!"bad data_source_error_action {s}"

def noResultFromStr : String → Except String NoResult
  | "continue" => return .continue_
  | "not_found" => return .notFound
  | s => throw s!"bad lookup_no_result_action {s}"

def optKey (j : Json) (k : String) : Except String (Option String) :=
  match j.getObjVal? k with
  | .ok (Json.str s) => return (if s.isEmpty then none else some s)
  | _ => return none

def optVal (j : Json) (k : String) : Except String (Option Val) :=
  match j.getObjVal? k with
  | .ok (Json.str "raises") => return none
  | .ok v => do return some (← valFromJson v)
  | .error _ => return none

/-- one request through a handler: model decision + the effect checkers on the model's and on the
implementation's observation.
  spec inputs (`spec`): restricted, entries (listed ∪ stored strings, from the harness' own walk of the
  data), has_bad; observation (`obs`): outcome, file_touched, rendered, store_ops, ds_failed -/
def handle : Op := fun j => do
  let t ← tableFromJson j
  let P := t.pton
  let client ← getStr j "client"
  let cfgj ← getField j "cfg"
  let wj ← getField j "world"
  let listCfg ← (← getArr cfgj "list").mapM candFromJson
  let keyPath ← optKey cfgj "key"
  let data ← optVal wj "data"
  let kind ← getStr j "handler"
  let (o, e, ex, restricted, dsFails) ← match kind with
    | "sqlite" => do
      let cfg : SqliteCfg := { keyPath := keyPath, listCfg := listCfg }
      let bodyOk := (getBool j "body_ok").toOption.getD true
      let r := decideSqlite P cfg data client bodyOk
      let ex := if cfg.keyPath.isSome && data.isNone then Expected.unrestricted else expectedSqlite cfg data
      pure (r.1, r.2, ex, cfg.restricted, cfg.keyPath.isSome && data.isNone)
    | "file" => do
      let lookup ← match ← getStr cfgj "lookup" with
        | "off" => pure LookupMode.off
        | "system_id" => pure LookupMode.systemId
        | "find" => pure LookupMode.find
        | s => throw s!"bad lookup mode {s}"
      let cfg : FileCfg := {
        lookup := lookup, keyPath := keyPath, listCfg := listCfg,
        dsAction := ← dsActionFromStr (← getStr cfgj "ds_action"),
        noResult := ← noResultFromStr (← getStr cfgj "no_result"),
        template := ← getBool cfgj "template" }
      let w : World := {
        find := ← match ← getStr wj "find" with
          | "found" => pure FindRes.found
          | "not_found" => pure FindRes.notFound
          | "raises" => pure FindRes.raises
          | s => throw s!"bad find result {s}",
        data := data,
        file := ← match ← getStr wj "file" with
          | "present" => pure FileState.present
          | "missing" => pure FileState.missing
          | "no_path" => pure FileState.noPath
          | s => throw s!"bad file state {s}" }
      let r := decideFile P cfg w client
      pure (r.1, r.2, worldExpected cfg w, cfg.restricted, dsFails cfg w)
    | k => throw s!"bad handler kind {k}"
  checkCoverage t true client (expectedStrs ex)
  let authorisedModel := authorisedBy P ex client
  let mut fields : List (String × Json) := [
    ("outcome", outcomeToJson o), ("effects", effectsToJson e), ("expected", expectedToJson ex),
    ("restricted", jBool restricted), ("ds_fails", jBool dsFails),
    ("authorised", jBool authorisedModel), ("has_bad", jBool ex.hasBad),
    ("client_ok", jBool (splitClient P client).isSome),
    ("ok_model", jBool (effectsOK authorisedModel dsFails ex.hasBad o e)),
    ("uniform_model", jBool (uniformDenial authorisedModel dsFails ex.hasBad o))]
  match j.getObjVal? "spec", j.getObjVal? "obs" with
  | .ok sp, .ok ob =>
    let entries ← (← getArr sp "entries").mapM (fun x => x.getStr?)
    let sRestricted ← getBool sp "restricted"
    let sHasBad ← getBool sp "has_bad"
    checkCoverage t true client entries
    let authorised := !sRestricted || refContains P true entries client
    let oo ← outcomeFromStr (← getStr ob "outcome")
    let oe : Effects := {
      fileTouched := ← getBool ob "file_touched", rendered := ← getBool ob "rendered",
      storeOps := ← getNat ob "store_ops" }
    let dsFailed ← getBool ob "ds_failed"
    fields := fields ++ [
      ("authorised_spec", jBool authorised),
      ("ok_impl", jBool (handlerOK P sRestricted entries client dsFailed sHasBad oo oe)),
      ("uniform_impl", jBool (uniformDenial authorised dsFailed sHasBad oo)),
      ("entries_agree", jBool (sRestricted == restricted &&
        (dsFails || ex == .raises || ex == .nonIter || sameSet entries (expectedStrs ex))))]
  | _, _ => pure ()
  return Json.mkObj fields

def ops : List (String × Op) := [
  ("cidr.subnet", subnet), ("cidr.contains", contains), ("cidr.handle", handle)]

end Driver.Cidr
