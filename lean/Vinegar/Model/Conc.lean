/-
Concurrency at lock granularity (C19): a shared component whose every public operation runs
inside ONE critical section of ONE lock (`with self._lock:` — SynchronizedCache, DataStore,
TextFileSource).

Threads execute programs (lists of operations). Small steps of thread `i`:
  acquire  — enabled only while the lock is free,
  execute  — the critical section: applies the sequential `step` of the component,
  release.
A schedule is a list of thread indices; the scheduler may pick any thread, steps that are not
enabled are skipped.

`linearizable` / `linearizableP` decide whether ONE observed concurrent run (per thread the calls
with their results, and the calls made after the threads were joined) is explained by a sequential
order; the `step` functions of the real components are in `Model/ConcComponents.lean`.
-/
namespace Vinegar.Conc

inductive Phase where
  | idle | holding | loaded | executed
deriving Repr, DecidableEq

structure Thread (S Op R : Type) where
  todo : List Op
  phase : Phase
  /-- the component state as this thread read it at the start of its critical section -/
  snapshot : Option S
  results : List R      -- newest first
deriving Repr

structure Config (S Op R : Type) where
  state : S
  lock : Option Nat
  threads : List (Thread S Op R)
  /-- execution log (newest first): who executed what with which result -/
  log : List (Nat × Op × R)

variable {S Op R : Type}

def Config.init (s : S) (programs : List (List Op)) : Config S Op R :=
  { state := s, lock := none, threads := programs.map (fun p => ⟨p, .idle, none, []⟩), log := [] }

/-- one scheduler choice. The critical section is deliberately NOT atomic: the thread first reads
the component state (`load`), later computes and writes it back (`store`); other threads may be
scheduled in between — only the lock keeps them out. -/
def stepThread (step : S → Op → S × R) (c : Config S Op R) (i : Nat) : Option (Config S Op R) :=
  match c.threads[i]? with
  | none => none
  | some t =>
    match t.phase, t.todo, t.snapshot with
    | .idle, _ :: _, _ =>
      if c.lock.isNone then
        some { c with lock := some i, threads := c.threads.set i { t with phase := .holding } }
      else none
    | .holding, _ :: _, _ =>
      some { c with threads := c.threads.set i { t with phase := .loaded, snapshot := some c.state } }
    | .loaded, op :: rest, some snap =>
      let r := step snap op
      some { c with state := r.1, log := (i, op, r.2) :: c.log,
                    threads := c.threads.set i
                      { todo := rest, phase := .executed, snapshot := none, results := r.2 :: t.results } }
    | .executed, _, _ =>
      some { c with lock := none, threads := c.threads.set i { t with phase := .idle } }
    | _, _, _ => none

def run (step : S → Op → S × R) (c : Config S Op R) : List Nat → Config S Op R
  | [] => c
  | i :: is =>
    match stepThread step c i with
    | some c' => run step c' is
    | none => run step c is

/-- sequential execution of a history -/
def seqRun (step : S → Op → S × R) (s : S) : List Op → S × List R
  | [] => (s, [])
  | op :: ops =>
    let r := step s op
    let rest := seqRun step r.1 ops
    (rest.1, r.2 :: rest.2)

/-! ### linearizability checker for ONE observed concurrent run

`obs` = per thread the list of (operation, observed result) in program order. The run is
linearizable iff some interleaving of the threads' operations, executed sequentially from the
initial state, returns exactly the observed results. `fuel` = total number of operations. -/

def removeHead {α : Type} (l : List (List α)) (i : Nat) : List (List α) :=
  l.set i ((l[i]?.getD []).tail)

def linearizable [DecidableEq R] (step : S → Op → S × R) : Nat → S → List (List (Op × R)) → Bool
  | 0, _, obs => obs.all (·.isEmpty)
  | f + 1, s, obs =>
    obs.all (·.isEmpty) ||
    (List.range obs.length).any (fun i =>
      match obs[i]? with
      | some ((op, r) :: _) =>
        let x := step s op
        decide (x.2 = r) && linearizable step f x.1 (removeHead obs i)
      | _ => false)

/-! ### … with a probe of the final state

After the threads have been joined the harness makes further calls on the component (the probe).
They must be what the sequential `step` answers in the FINAL state of the SAME linearization that
explains the threads' results: "afterwards the component is in a state from which the next call
returns correct, current data". `probe` = the probe calls with their observed results, in order. -/

/-- the calls of `probe`, made one after the other from state `s`, return the recorded results -/
def probeOK [DecidableEq R] (step : S → Op → S × R) : S → List (Op × R) → Bool
  | _, [] => true
  | s, (op, r) :: rest =>
    let x := step s op
    decide (x.2 = r) && probeOK step x.1 rest

/-- `linearizable`, and the state the accepted sequential order ends in answers the probe -/
def linearizableP [DecidableEq R] (step : S → Op → S × R) :
    Nat → S → List (List (Op × R)) → List (Op × R) → Bool
  | 0, s, obs, probe => obs.all (·.isEmpty) && probeOK step s probe
  | f + 1, s, obs, probe =>
    (obs.all (·.isEmpty) && probeOK step s probe) ||
    (List.range obs.length).any (fun i =>
      match obs[i]? with
      | some ((op, r) :: _) =>
        let x := step s op
        decide (x.2 = r) && linearizableP step f x.1 (removeHead obs i) probe
      | _ => false)

/-! ### a synchronized LRU cache over natural-number keys and values (`SynchronizedCache(LRUCache)`) -/

inductive LruOp where
  | get (k : Nat)
  | set (k v : Nat)
  | del (k : Nat)
  | contains (k : Nat)
  | len
  | clear
deriving Repr, DecidableEq

inductive LruRes where
  | value (v : Nat)
  | keyError
  | bool (b : Bool)
  | nat (n : Nat)
  | unit
deriving Repr, DecidableEq

structure Lru where
  size : Nat
  markOnUpdate : Bool
  /-- least recently used first (the OrderedDict) -/
  items : List (Nat × Nat)
deriving Repr, DecidableEq

def lruStep (c : Lru) : LruOp → Lru × LruRes
  | .get k =>
    match c.items.lookup k with
    | some v => ({ c with items := c.items.filter (·.1 != k) ++ [(k, v)] }, .value v)
    | none => (c, .keyError)
  | .set k v =>
    let items :=
      if (c.items.lookup k).isSome then
        if c.markOnUpdate then c.items.filter (·.1 != k) ++ [(k, v)]
        else c.items.map (fun p => if p.1 == k then (k, v) else p)
      else c.items ++ [(k, v)]
    ({ c with items := if items.length > c.size then items.tail else items }, .unit)
  | .del k =>
    if (c.items.lookup k).isSome then ({ c with items := c.items.filter (·.1 != k) }, .unit) else (c, .keyError)
  | .contains k => (c, .bool (c.items.lookup k).isSome)
  | .len => (c, .nat c.items.length)
  | .clear => ({ c with items := [] }, .unit)

end Vinegar.Conc
