import Vinegar.Generated.Consts
import Vinegar.Model.Basic
/-
C16 — executable model of the address transforms

  vinegar/transform/ipv4_address.py   normalize, net_address, broadcast_address, strip_mask
  vinegar/transform/ipv6_address.py   normalize, net_address, strip_mask       (after repair D12)
  vinegar/transform/ip_address.py     normalize, net_address, strip_mask
  vinegar/transform/mac_address.py    normalize
  vinegar/utils/socket.py             ipv6_address_unwrap                       (after repair D16)

Strings are `List Char`.  IPv4 and MAC are modelled concretely (hand-written recognisers of
the regular expressions whose literals the translator puts into `Vinegar.Generated`;
Python's `int()` / `str()` / `"{:02X}".format` through core's `Nat.ofDigitChars` /
`Nat.toDigits`).  IPv6 is modelled relative to `Inet` (`socket.inet_pton` / `inet_ntop` of
glibc for `AF_INET6`); the theorems assume `InetLaw`.  `Glibc.pton6` / `Glibc.ntop6` is a
concrete port of glibc's two functions; the driver runs it and the correspondence checks it
against the real `socket.inet_pton/ntop` on every string involved.  That the port satisfies
`InetLaw` is proved in `Lemmas/AddrGlibc.lean` (`glibcInetLaw`).
-/
namespace Vinegar.Addr
open Vinegar

abbrev Str := List Char

/-- outcome of a transform: the returned string, `ValueError`, or any other exception
(the model never produces `crash`; it exists so that the implementation's observation can
be represented and rejected by the checkers). -/
inductive Res where
  | ok (s : Str)
  | valueError
  | crash
  deriving DecidableEq, Repr

/-- the common tail of every transform on malformed input:
`if raise_error_if_malformed: raise` / `return value` -/
def malformed (raise : Bool) (value : Str) : Res := if raise then .valueError else .ok value

/-! ### Python primitives -/

/-- `int(ds)` for a non-empty string of ASCII digits: `ValueError` (= `none`) beyond the
interpreter's `int_max_str_digits`. -/
def pyInt (ds : Str) : Option Nat :=
  if ds.length ≤ Generated.PY_INT_MAX_STR_DIGITS then some (Nat.ofDigitChars 10 ds 0) else none

/-- `str(n)` / `f"{n}"` -/
def dec (n : Nat) : Str := Nat.toDigits 10 n

/-- longest prefix of ASCII digits and the rest (greedy `[0-9]*`) -/
def takeDigits : Str → Str × Str
  | [] => ([], [])
  | c :: cs => if c.isDigit then ((takeDigits cs).1.cons c, (takeDigits cs).2) else ([], c :: cs)

/-- `[0-9]+` at the start of the string: the digits and the rest.  Greedy matching is the
only way the regular expressions below can match because every `[0-9]+` is followed by a
non-digit literal or the end. -/
def digits1 (s : Str) : Option (Str × Str) :=
  match takeDigits s with
  | ([], _) => none
  | (d, r) => some (d, r)

def expectChar (c : Char) : Str → Option Str
  | [] => none
  | x :: r => if x = c then some r else none

/-- `value.partition("/")` / `value.split("/", 1)`: text before the first slash and, if there
is a slash, the text after it. -/
def splitSlash : Str → Str × Option Str
  | [] => ([], none)
  | c :: cs => if c = '/' then ([], some cs) else ((splitSlash cs).1.cons c, (splitSlash cs).2)

/-! ### IPv4 -/

/-- groups 1–5 of `_IPV4_REGEXP` -/
structure V4Match where
  a : Str
  b : Str
  c : Str
  d : Str
  mask : Option Str
  deriving DecidableEq, Repr

/-- `([0-9]+)\.` at the start of the string -/
def numDot (s : Str) : Option (Str × Str) :=
  match digits1 s with
  | none => none
  | some (a, r) =>
    match expectChar '.' r with
    | none => none
    | some r => some (a, r)

/-- `(?:/([0-9]+))?` and the end of the string: `some none` = no mask -/
def maskTail : Str → Option (Option Str)
  | [] => some none
  | x :: r =>
    if x = '/' then
      match digits1 r with
      | some (m, []) => some (some m)
      | _ => none
    else none

/-- `_IPV4_REGEXP.fullmatch(value)` for the literal
`([0-9]+)\.([0-9]+)\.([0-9]+)\.([0-9]+)(?:/([0-9]+))?` -/
def matchV4 (s : Str) : Option V4Match :=
  match numDot s with
  | none => none
  | some (a, r) =>
  match numDot r with
  | none => none
  | some (b, r) =>
  match numDot r with
  | none => none
  | some (c, r) =>
  match digits1 r with
  | none => none
  | some (d, r) =>
  match maskTail r with
  | none => none
  | some mask => some ⟨a, b, c, d, mask⟩

/-- a parsed IPv4 address with optional prefix length: the value the string denotes -/
structure V4 where
  a : Nat
  b : Nat
  c : Nat
  d : Nat
  mask : Option Nat
  deriving DecidableEq, Repr

def pyIntOpt : Option Str → Option (Option Nat)
  | none => some none
  | some m => (pyInt m).map some

/-- the `int()` conversions and range checks of `_str_to_addr_bytes_and_mask` (ipv4_address.py).
The bounds 255 / 32 (and 128 for IPv6) are what an address IS, so they are literals here and
not taken from the code; `Lemmas/Addr.lean` (`max_octet`, `max_mask4`, `max_mask6`) proves that
the constants the translator reads from the code are these numbers — a changed bound in the
code breaks that obligation and the correspondence then finds the input. -/
def evalV4 (m : V4Match) : Option V4 :=
  match pyInt m.a, pyInt m.b, pyInt m.c, pyInt m.d, pyIntOpt m.mask with
  | some a, some b, some c, some d, some mask =>
    if a > 255 ∨ b > 255
        ∨ c > 255 ∨ d > 255 then none
    else match mask with
      | none => some ⟨a, b, c, d, none⟩
      | some k => if k > 32 then none else some ⟨a, b, c, d, some k⟩
  | _, _, _, _, _ => none

/-- `_str_to_addr_bytes_and_mask` of ipv4_address.py (`none` = `ValueError`) -/
def parse4 (s : Str) : Option V4 :=
  match matchV4 s with
  | none => none
  | some m => evalV4 m

/-- `f"{a}.{b}.{c}.{d}"` -/
def fmtQuad (a b c d : Nat) : Str := dec a ++ '.' :: (dec b ++ '.' :: (dec c ++ '.' :: dec d))

/-- `f"/{mask}"` if there is a mask -/
def fmtMask : Option Nat → Str
  | none => []
  | some m => '/' :: dec m

def fmt4 (p : V4) : Str := fmtQuad p.a p.b p.c p.d ++ fmtMask p.mask

def normalize4 (value : Str) (raise : Bool) : Res :=
  match parse4 value with
  | none => malformed raise value
  | some p => .ok (fmt4 p)

def toInt4 (p : V4) : Nat := (p.a <<< 24) + (p.b <<< 16) + (p.c <<< 8) + p.d

/-- `(2**w - 1) & ~(2**(w - mask) - 1)` (Python integers; for `mask ≤ w` the complement
within `w` bits is the subtraction) -/
def netMaskInt (w mask : Nat) : Nat := (2 ^ w - 1) - (2 ^ (w - mask) - 1)

/-- `2**(w - mask) - 1` -/
def hostMaskInt (w mask : Nat) : Nat := 2 ^ (w - mask) - 1

def quadOfInt (n : Nat) : Str :=
  fmtQuad ((n >>> 24) &&& 255) ((n >>> 16) &&& 255) ((n >>> 8) &&& 255) (n &&& 255)

def netAddress4 (value : Str) (raise : Bool) : Res :=
  match parse4 value with
  | none => malformed raise value
  | some p =>
    match p.mask with
    | none => malformed raise value
    | some m => .ok (quadOfInt (toInt4 p &&& netMaskInt 32 m) ++ '/' :: dec m)

def broadcastAddress4 (value : Str) (raise : Bool) : Res :=
  match parse4 value with
  | none => malformed raise value
  | some p =>
    match p.mask with
    | none => malformed raise value
    | some m => .ok (quadOfInt (toInt4 p ||| hostMaskInt 32 m))

def stripMask4 (value : Str) (raise : Bool) : Res :=
  match parse4 value with
  | none => malformed raise value
  | some _ => .ok (splitSlash value).1

/-! ### MAC -/

def isHex (c : Char) : Bool :=
  c.isDigit || ('A' ≤ c && c ≤ 'F') || ('a' ≤ c && c ≤ 'f')

/-- `[0-9A-Fa-f]{1,2}` (greedy) at the start of the string -/
def hex12 : Str → Option (Str × Str)
  | [] => none
  | [a] => if isHex a then some ([a], []) else none
  | a :: b :: r =>
    if isHex a then (if isHex b then some ([a, b], r) else some ([a], b :: r)) else none

/-- `((?P=delimiter))([0-9A-Fa-f]{1,2})` repeated `n` times, then the end of the string -/
def macRest (dl : Char) : Nat → Str → Option (List Str)
  | 0, [] => some []
  | 0, _ :: _ => none
  | n + 1, s =>
    match expectChar dl s with
    | none => none
    | some r =>
      match hex12 r with
      | none => none
      | some (g, r) =>
        match macRest dl n r with
        | none => none
        | some gs => some (g :: gs)

/-- `_MAC_REGEXP.fullmatch(value)`: groups 1, 3, 5, 7, 9, 11.  After a greedy `{1,2}` the
next character has to be the delimiter (no hex digit) or the end, so backtracking to one
digit never helps and the greedy reading is the only one. -/
def matchMac (s : Str) : Option (List Str) :=
  match hex12 s with
  | none => none
  | some (g1, r) =>
    match r with
    | [] => none
    | dl :: _ =>
      if dl = ':' ∨ dl = '-' then
        match macRest dl 5 r with
        | none => none
        | some gs => some (g1 :: gs)
      else none

def hexVal (c : Char) : Nat :=
  if c.isDigit then c.toNat - 48
  else if 'a' ≤ c && c ≤ 'f' then c.toNat - 87
  else c.toNat - 55

/-- `int(s, 16)` for one or two hex digits -/
def hexInt (s : Str) : Nat := s.foldl (fun acc c => 16 * acc + hexVal c) 0

/-- the six byte values a well-formed MAC address denotes -/
def parseMac (s : Str) : Option (List Nat) := (matchMac s).map (fun gs => gs.map hexInt)

def hexDigit (upper : Bool) (n : Nat) : Char :=
  if n < 10 then Char.ofNat (48 + n) else if upper then Char.ofNat (55 + n) else Char.ofNat (87 + n)

/-- `"{:02X}".format(n)` / `"{:02x}".format(n)` for `n < 256` -/
def fmt02 (upper : Bool) (n : Nat) : Str := [hexDigit upper (n / 16), hexDigit upper (n % 16)]

/-- `delimiter.join(addr_bytes)` -/
def joinWith (dl : Char) : List Str → Str
  | [] => []
  | [x] => x
  | x :: y :: r => x ++ dl :: joinWith dl (y :: r)

def fmtMac (upper : Bool) (dl : Char) (bs : List Nat) : Str := joinWith dl (bs.map (fmt02 upper))

def strs (l : List String) : List Str := l.map String.toList

/-- the option handling at the top of `mac_address.normalize`: `none` = `ValueError`
(raised whatever `raise_error_if_malformed` says) -/
def macOptions (targetCase delimiter : Str) : Option (Bool × Char) :=
  let dl : Option Char :=
    if delimiter ∈ strs Generated.ADDR_MAC_DELIM_COLON then some ':'
    else if delimiter ∈ strs Generated.ADDR_MAC_DELIM_DASH then some '-'
    else none
  match dl with
  | none => none
  | some dl =>
    if targetCase ∈ strs Generated.ADDR_MAC_CASES then some (targetCase == "upper".toList, dl)
    else none

def normalizeMac (value targetCase delimiter : Str) (raise : Bool) : Res :=
  match macOptions targetCase delimiter with
  | none => .valueError
  | some (upper, dl) =>
    match parseMac value with
    | none => malformed raise value
    | some bs => .ok (fmtMac upper dl bs)

/-! ### IPv6, relative to glibc's `inet_pton` / `inet_ntop` -/

/-- `socket.inet_pton(AF_INET6, ·)` (`none` = `OSError`, and also the `ValueError` of an
embedded NUL / unencodable string, which every caller treats the same after repair D16) and
`socket.inet_ntop(AF_INET6, ·)`. -/
structure Inet where
  pton6 : Str → Option (List UInt8)
  ntop6 : List UInt8 → Str

/-- what the theorems assume about glibc: parsing a printed address gives the address back;
parsed addresses have 16 bytes; the textual form of an IPv6 address contains a colon and no
slash. -/
structure InetLaw extends Inet where
  roundtrip : ∀ b : List UInt8, b.length = 16 → pton6 (ntop6 b) = some b
  length16 : ∀ s b, pton6 s = some b → b.length = 16
  shape : ∀ s b, pton6 s = some b → ':' ∈ s ∧ '/' ∉ s

/-- the mask gate of the repaired `_str_to_addr_bytes_and_mask`:
`mask.isascii() and mask.isdigit()`, then `int(mask)` in `0 … 128` -/
def parseMask6 (m : Str) : Option Nat :=
  if m ≠ [] ∧ m.all Char.isDigit then
    match pyInt m with
    | some k => if k > 128 then none else some k
    | none => none
  else none

/-- `_str_to_addr_bytes_and_mask` of ipv6_address.py -/
def parse6 (I : Inet) (s : Str) : Option (List UInt8 × Option Nat) :=
  match I.pton6 (splitSlash s).1 with
  | none => none
  | some b =>
    match (splitSlash s).2 with
    | none => some (b, none)
    | some m =>
      match parseMask6 m with
      | none => none
      | some k => some (b, some k)

def normalize6 (I : Inet) (value : Str) (raise : Bool) : Res :=
  match parse6 I value with
  | none => malformed raise value
  | some (b, m) => .ok (I.ntop6 b ++ fmtMask m)

/-- big-endian value of the address bytes -/
def bytesToNat (b : List UInt8) : Nat := b.foldl (fun acc x => acc * 256 + x.toNat) 0

/-- `addr_bytes[i] = (addr_as_int >> (8*(n-1-i))) & 255` for `i < n` -/
def natToBytes : Nat → Nat → List UInt8
  | 0, _ => []
  | n + 1, v => UInt8.ofNat ((v >>> (8 * n)) &&& 255) :: natToBytes n v

def netAddress6 (I : Inet) (value : Str) (raise : Bool) : Res :=
  match parse6 I value with
  | none => malformed raise value
  | some (_, none) => malformed raise value
  | some (b, some m) =>
    .ok (I.ntop6 (natToBytes b.length (bytesToNat b &&& netMaskInt 128 m)) ++ '/' :: dec m)

def stripMask6 (I : Inet) (value : Str) (raise : Bool) : Res :=
  match parse6 I value with
  | none => malformed raise value
  | some _ => .ok (splitSlash value).1

/-! ### generic transforms (ip_address.py) -/

def mappedPrefix : List UInt8 := [0, 0, 0, 0, 0, 0, 0, 0, 0, 0, 0xff, 0xff]

/-- `socket.inet_ntop(AF_INET, b)` for four bytes (glibc: `"%u.%u.%u.%u"`) -/
def ntop4 : List UInt8 → Str
  | [a, b, c, d] => fmtQuad a.toNat b.toNat c.toNat d.toNat
  | _ => []

/-- `ipv6_address_unwrap` -/
def unwrap (I : Inet) (s : Str) : Str :=
  match I.pton6 s with
  | none => s
  | some b => if b.take 12 = mappedPrefix then ntop4 (b.drop (b.length - 4)) else s

/-- `_IPV4_REGEXP.fullmatch(value)` of ip_address.py (the same literal as in ipv4_address.py,
see `Lemmas/Addr.lean`) -/
def isV4Shaped (s : Str) : Bool := (matchV4 s).isSome

def normalizeIp (I : Inet) (value : Str) (raise : Bool) : Res :=
  let v := unwrap I value
  if isV4Shaped v then normalize4 v raise else normalize6 I v raise

def netAddressIp (I : Inet) (value : Str) (raise : Bool) : Res :=
  if isV4Shaped value then netAddress4 value raise else netAddress6 I value raise

def stripMaskIp (I : Inet) (value : Str) (raise : Bool) : Res :=
  if isV4Shaped value then stripMask4 value raise else stripMask6 I value raise

/-! ### a concrete full-form instance (shows `InetLaw` is satisfiable) -/
namespace Full

def hex2 (x : UInt8) : Str := fmt02 false x.toNat

/-- `hhhh:hhhh:…` two bytes per group -/
def print : List UInt8 → Str
  | [] => []
  | [a] => hex2 a
  | [a, b] => hex2 a ++ hex2 b
  | a :: b :: c :: r => hex2 a ++ (hex2 b ++ ':' :: print (c :: r))

def byteOf (h l : Char) : Option UInt8 :=
  if isHex h ∧ isHex l then some (UInt8.ofNat (16 * hexVal h + hexVal l)) else none

def parse : Str → Option (List UInt8)
  | [h0, h1, h2, h3] =>
    match byteOf h0 h1, byteOf h2 h3 with
    | some x, some y => some [x, y]
    | _, _ => none
  | h0 :: h1 :: h2 :: h3 :: c :: r =>
    if c = ':' then
      match byteOf h0 h1, byteOf h2 h3, parse r with
      | some x, some y, some t => some (x :: y :: t)
      | _, _, _ => none
    else none
  | _ => none

/-- accepts exactly the strings `print b` with 16 bytes `b` -/
def pton6 (s : Str) : Option (List UInt8) :=
  match parse s with
  | none => none
  | some b => if b.length = 16 ∧ print b = s then some b else none

def inet : Inet := ⟨pton6, print⟩

end Full

/-! ### glibc's `inet_pton(AF_INET6)` / `inet_ntop(AF_INET6)` ported (used by the driver) -/
namespace Glibc

/-- `inet_pton4`: exactly four decimal octets ≤ 255 without leading zeros -/
def octet (ds : Str) : Option UInt8 :=
  match ds with
  | [] => none
  | c :: cs =>
    if (c :: cs).all Char.isDigit ∧ (c :: cs).length ≤ 3 ∧ (c ≠ '0' ∨ cs = []) then
      let v := Nat.ofDigitChars 10 (c :: cs) 0
      if v ≤ 255 then some (UInt8.ofNat v) else none
    else none

def splitOnChar (sep : Char) : Str → List Str
  | [] => [[]]
  | c :: cs =>
    if c = sep then [] :: splitOnChar sep cs
    else match splitOnChar sep cs with
      | [] => [[c]]
      | h :: t => (c :: h) :: t

def pton4 (s : Str) : Option (List UInt8) :=
  match splitOnChar '.' s with
  | [a, b, c, d] =>
    match octet a, octet b, octet c, octet d with
    | some a, some b, some c, some d => some [a, b, c, d]
    | _, _, _, _ => none
  | _ => none

structure St where
  /-- bytes written so far (`tmp[0 .. tp)`) -/
  out : List UInt8
  /-- `colonp - tmp` -/
  colonp : Option Nat
  /-- the text from the start of the current token -/
  curtok : Str
  xdigits : Nat
  val : Nat

def push (st : St) : St :=
  { st with out := st.out ++ [UInt8.ofNat (st.val >>> 8 &&& 255), UInt8.ofNat (st.val &&& 255)],
            xdigits := 0, val := 0 }

/-- the main loop of `inet_pton6`; `none` = `return 0` -/
def loop : Str → St → Option St
  | [], st => some st
  | ch :: src, st =>
    if isHex ch then
      if st.xdigits = 4 then none
      else
        let v := st.val * 16 + hexVal ch
        if v > 0xffff then none else loop src { st with val := v, xdigits := st.xdigits + 1 }
    else if ch = ':' then
      if st.xdigits = 0 then
        match st.colonp with
        | some _ => none
        | none => loop src { st with colonp := some st.out.length, curtok := src }
      else if src = [] then none
      else if st.out.length + 2 > 16 then none
      else loop src { push st with curtok := src }
    else if ch = '.' then
      if st.out.length + 4 ≤ 16 then
        match pton4 st.curtok with
        | some q => some { st with out := st.out ++ q, xdigits := 0, curtok := [] }
        | none => none
      else none
    else none

def finish (st : St) : Option (List UInt8) :=
  let st? : Option St :=
    if st.xdigits > 0 then (if st.out.length + 2 > 16 then none else some (push st)) else some st
  match st? with
  | none => none
  | some st =>
    match st.colonp with
    | some k =>
      if st.out.length = 16 then none
      else some (st.out.take k ++ List.replicate (16 - st.out.length) 0 ++ st.out.drop k)
    | none => if st.out.length = 16 then some st.out else none

def pton6 (s : Str) : Option (List UInt8) :=
  match s with
  | [] => none
  | c :: r =>
    let start : Option Str :=
      if c = ':' then
        match r with
        | ':' :: _ => some r
        | _ => none
      else some s
    match start with
    | none => none
    | some src =>
      match loop src ⟨[], none, src, 0, 0⟩ with
      | none => none
      | some st => finish st

/-- the sixteen bytes as eight 16-bit words -/
def words : List UInt8 → List Nat
  | a :: b :: r => (a.toNat * 256 + b.toNat) :: words r
  | _ => []

/-- glibc keeps the current run if it is strictly longer than the best one so far -/
def better (cur best : Option (Nat × Nat)) : Option (Nat × Nat) :=
  match cur, best with
  | some c, none => some c
  | some c, some b => if c.2 > b.2 then some c else some b
  | none, b => b

/-- the scan over the words: `i` = index of the head of the list, `cur` = the run that ends
just before `i` (if any), `best` = the best run that ended earlier -/
def scanRuns (i : Nat) (l : List Nat) (cur best : Option (Nat × Nat)) : Option (Nat × Nat) :=
  match l with
  | [] => better cur best
  | w :: r =>
    if w = 0 then
      match cur with
      | none => scanRuns (i + 1) r (some (i, 1)) best
      | some c => scanRuns (i + 1) r (some (c.1, c.2 + 1)) best
    else scanRuns (i + 1) r none (better cur best)

/-- `(base, len)` of the first longest run of zero words, scanning like glibc -/
def bestRun (ws : List Nat) : Option (Nat × Nat) :=
  match scanRuns 0 ws none none with
  | some (b, l) => if l < 2 then none else some (b, l)
  | none => none

/-- `"%x"` -/
def hexStr (n : Nat) : Str := Nat.toDigits 16 n

/-- "is this address an encapsulated IPv4?": the best run starts at word 0 and has length 6
(`::a.b.c.d`) or length 5 followed by `ffff` (`::ffff:a.b.c.d`) -/
def v4Embedded (ws : List Nat) (bb bl : Nat) : Bool :=
  bb = 0 ∧ (bl = 6 ∨ (bl = 5 ∧ ws.getD 5 0 = 0xffff))

/-- the printing loop of `inet_ntop6` from word `i` on (`l` = the words from `i`) -/
def ntopGo (b : List UInt8) (ws : List Nat) (best : Option (Nat × Nat)) (i : Nat) (l : List Nat) : Str :=
  match l with
  | [] => []
  | w :: r =>
    match best with
    | some (bb, bl) =>
      if bb ≤ i ∧ i < bb + bl then
        (if i = bb then [':'] else []) ++ ntopGo b ws best (i + 1) r
      else
        let sep : Str := if i ≠ 0 then [':'] else []
        if i = 6 ∧ v4Embedded ws bb bl = true then
          sep ++ ntop4 (b.drop 12)
        else sep ++ hexStr w ++ ntopGo b ws best (i + 1) r
    | none =>
      let sep : Str := if i ≠ 0 then [':'] else []
      sep ++ hexStr w ++ ntopGo b ws best (i + 1) r

def ntop6 (b : List UInt8) : Str :=
  let ws := words b
  let best := bestRun ws
  let body := ntopGo b ws best 0 ws
  match best with
  | some (bb, bl) => if bb + bl = 8 then body ++ [':'] else body
  | none => body

def inet : Inet := ⟨pton6, ntop6⟩

end Glibc

end Vinegar.Addr
