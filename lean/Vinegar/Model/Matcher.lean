import Vinegar.Generated.Consts
/-
Model of `vinegar.utils.system_matcher` (C18): the recursive-descent parser of
`_parser/base.py`, `_parser/compound_expr.py`, `_parser/simple_expr.py`, character by
character over `List Char`, the evaluator, and the expression cache of `__init__.py`.

Mirrors (Python name → Lean name):
  ParserBase._accept                       dropPrefix?
  CompoundExpressionParser._peek_keyword   keywordAt / findKeyword / peekKeyword
  ._accept_keyword                         acceptKeyword
  ._accept_whitespace                      skipWs
  ._expect_generic_compound_expression     generic / loop
  ._expect_unary_expression                unary (parenBody, unaryRest)
  ._expect_simple_expression               simpleExpr
  .parse                                   parse
  SimpleExpressionParser._accept_data_expression / _accept_id_expression / parse   simple
  ._expect_glob_pattern_or_re              expectPattern (quoted / unquoted)
  ._expect_key                             expectKey
  _expression_from_string_cached           Cache.get (LRU memo of `compile`)

The parser state is the pair (last consumed character, remaining input): the only use the
code makes of the absolute position is the look-behind `self._input_str[self._position-1]`
of `_peek_keyword` and the test `self._position > 0`.

`_peek_keyword` cuts the look-ahead to `max_keyword_len + 1` characters; since every keyword
is shorter than that window, "candidate starts with kw" and "candidate has exactly len(kw)
characters" are the same facts about the uncut remaining input, which is what `keywordAt`
tests.

Literal tables (keywords, follow/precede characters, reserved characters, quotes, escape,
the prefix chains, option letter, cache size, the `str.isspace` table) come from
`Vinegar.Generated`; the keyword each grammar level is called with ("or", "and", the
comparison `keyword == "not"`) and the parentheses of `_accept("(")`/`_expect(")")` are
written here as in the code.

Termination: `unary` recurses structurally on a fuel counter that `parse` initialises to
`length + 1`; each loop of `generic` gets the length of the input still to be read plus one.
`Vinegar.C18.parse_total` proves that the fuel is never exhausted.
-/
namespace Vinegar.Matcher

abbrev Str := List Char

/-- `c.isspace()` -/
def isSpace (c : Char) : Bool := Generated.PY_ISSPACE_CODEPOINTS.contains c.toNat

def keywords : List Str := Generated.MATCHER_KEYWORDS.map String.toList
def kwFollow : List Str := [Generated.MATCHER_KEYWORD_FOLLOW.toList]
def kwPrecede : List Str := Generated.MATCHER_KEYWORD_PRECEDE.map String.toList
def reservedPattern : List Str := Generated.MATCHER_RESERVED_PATTERN.map String.toList
def reservedKey : List Str := Generated.MATCHER_RESERVED_KEY.map String.toList
def quoteStrs : List Str := Generated.MATCHER_QUOTES.map String.toList
def escapeStr : Str := Generated.MATCHER_ESCAPE.toList
def optionI : Str := Generated.MATCHER_OPTION_I.toList
def dataOptEnd : Str := Generated.MATCHER_DATA_OPT_END.toList
def idOptEnd : Str := Generated.MATCHER_ID_OPT_END.toList
def keyEnd : Str := Generated.MATCHER_KEY_END.toList
def unsupportedStart : Str := Generated.MATCHER_UNSUPPORTED_START.toList

def kwAnd : Str := ['a', 'n', 'd']
def kwOr : Str := ['o', 'r']
def kwNot : Str := ['n', 'o', 't']

inductive Kind
  | glob | literal | re
  deriving DecidableEq, Repr, Inhabited

def Kind.ofName (s : String) : Option Kind :=
  if s = "glob" then some .glob else if s = "literal" then some .literal else if s = "re" then some .re else none

/-- one term: `key = none` for the `@id_…` terms (and the shorthand), `some key` for `@data_…` -/
structure Atom where
  key : Option Str
  kind : Kind
  pattern : Str
  caseSensitive : Bool
  deriving DecidableEq, Repr, Inhabited

inductive Expr
  | atom (a : Atom)
  | not (e : Expr)
  | and (l r : Expr)
  | or (l r : Expr)
  deriving DecidableEq, Repr, Inhabited

def Expr.atoms : Expr → List Atom
  | .atom a => [a]
  | .not e => e.atoms
  | .and l r => l.atoms ++ r.atoms
  | .or l r => l.atoms ++ r.atoms

/-- documented semantics; `am a sys` says whether term `a` matches the system `sys` -/
def eval {σ : Type} (am : Atom → σ → Bool) : Expr → σ → Bool
  | .atom a, s => am a s
  | .not e, s => !(eval am e s)
  | .and l r, s => eval am l s && eval am r s
  | .or l r, s => eval am l s || eval am r s

inductive ParseError
  | expected (what : String)     -- `_expect` / `_expect_any_of` did not find its string
  | prematureEnd                 -- `_expect_any_char` at end-of-string
  | emptyPattern                 -- "Expected pattern expression but found …"
  | emptyKey                     -- empty quoted or unquoted key
  | unsupportedType              -- "@" that starts none of the supported prefixes
  | keywordMisplaced             -- `and`/`or` where a unary expression must start
  | missingWhitespace            -- keyword not preceded by whitespace or a parenthesis
  | trailingInput                -- "Expected any of the keywords ['and', 'or'] or end-of-string"
  | badRegex                     -- `re.compile` refused the pattern
  | fuel                         -- never produced (C18.parse_total)
  deriving DecidableEq, Repr, Inhabited

/-- `_accept(p)` on the remaining input: the input after `p`, if it starts with `p` -/
def dropPrefix? : Str → Str → Option Str
  | [], r => some r
  | _ :: _, [] => none
  | p :: ps, c :: cs => if p = c then dropPrefix? ps cs else none

/-! ### simple expressions (`simple_expr.py`) -/

def isQuote (c : Char) : Bool := quoteStrs.contains [c]
def isEscape (c : Char) : Bool := escapeStr == [c]
def isStopPattern (c : Char) : Bool := isSpace c || reservedPattern.contains [c]
def isStopKey (c : Char) : Bool := isSpace c || reservedKey.contains [c]

/-- `pattern += c` on a successful rest -/
def consFst (c : Char) : Except ParseError (Str × Str) → Except ParseError (Str × Str)
  | .ok (s, r) => .ok (c :: s, r)
  | .error e => .error e

/-- inside quotes `q`: the text up to the closing quote with `\q` and `\\` unescaped, and the input after it -/
def quoted (q : Char) : Str → Except ParseError (Str × Str)
  | [] => .error (.expected "closing quote")
  | c :: cs =>
    if isEscape c then
      match cs with
      | [] => .error (.expected "quote or escape character")
      | d :: ds =>
        if d = q ∨ isEscape d then consFst d (quoted q ds)
        else .error (.expected "quote or escape character")
    else if c = q then .ok ([], cs)
    else consFst c (quoted q cs)

/-- the unquoted text up to the first stop character, and the input from there -/
def unquoted (isStop : Char → Bool) : Str → Str × Str
  | [] => ([], [])
  | c :: cs =>
    if isStop c then ([], c :: cs)
    else
      let t := unquoted isStop cs
      (c :: t.1, t.2)

/-- `_expect_glob_pattern_or_re` -/
def expectPattern : Str → Except ParseError (Str × Str)
  | [] => .error .emptyPattern
  | c :: cs =>
    if isQuote c then quoted c cs
    else
      match unquoted isStopPattern (c :: cs) with
      | ([], _) => .error .emptyPattern
      | (p, r) => .ok (p, r)

/-- `_expect_key` -/
def expectKey : Str → Except ParseError (Str × Str)
  | [] => .error .prematureEnd
  | c :: cs =>
    if isQuote c then
      match cs with
      | [] => .error (.expected "closing quote")
      | d :: ds => if d = c then .error .emptyKey else quoted c (d :: ds)
    else
      match unquoted isStopKey (c :: cs) with
      | ([], _) => .error .emptyKey
      | (p, r) => .ok (p, r)

/-- the if/elif chains of `_accept_data_expression` / `_accept_id_expression`:
    (prefix, have_options, expr_type) in source order -/
def mkTable (ps os ks : List String) : List (Str × Bool × Kind) :=
  (ps.zip (os.zip ks)).filterMap (fun (p, o, k) =>
    match Kind.ofName k with
    | some kind => some (p.toList, o == "1", kind)
    | none => none)

def dataTable : List (Str × Bool × Kind) :=
  mkTable Generated.MATCHER_DATA_PREFIXES Generated.MATCHER_DATA_PREFIX_OPTS Generated.MATCHER_DATA_PREFIX_KINDS
def idTable : List (Str × Bool × Kind) :=
  mkTable Generated.MATCHER_ID_PREFIXES Generated.MATCHER_ID_PREFIX_OPTS Generated.MATCHER_ID_PREFIX_KINDS

def acceptPrefix : List (Str × Bool × Kind) → Str → Option (Bool × Kind × Str)
  | [], _ => none
  | (p, o, k) :: t, r =>
    match dropPrefix? p r with
    | some r' => some (o, k, r')
    | none => acceptPrefix t r

/-- `if have_options: if self._accept("i"): case_sensitive = False; self._expect(<end>)`:
    (case_sensitive, remaining input) -/
def options (haveOptions : Bool) (optEnd : Str) (r : Str) : Except ParseError (Bool × Str) :=
  if haveOptions then
    match dropPrefix? optionI r with
    | some r1 =>
      match dropPrefix? optEnd r1 with
      | some r2 => .ok (false, r2)
      | none => .error (.expected "end of options")
    | none =>
      match dropPrefix? optEnd r with
      | some r2 => .ok (true, r2)
      | none => .error (.expected "end of options")
  else .ok (true, r)

/-- `SimpleExpressionParser(...).parse(ignore_extra_input=True)`: the term and the input left -/
def simple (r : Str) : Except ParseError (Atom × Str) :=
  match acceptPrefix dataTable r with
  | some (o, kind, r1) =>
    match options o dataOptEnd r1 with
    | .error e => .error e
    | .ok (cs, r2) =>
      match expectKey r2 with
      | .error e => .error e
      | .ok (key, r3) =>
        match dropPrefix? keyEnd r3 with
        | none => .error (.expected "@")
        | some r4 =>
          match expectPattern r4 with
          | .error e => .error e
          | .ok (pat, r5) => .ok (⟨some key, kind, pat, cs⟩, r5)
  | none =>
    match acceptPrefix idTable r with
    | some (o, kind, r1) =>
      match options o idOptEnd r1 with
      | .error e => .error e
      | .ok (cs, r2) =>
        match expectPattern r2 with
        | .error e => .error e
        | .ok (pat, r3) => .ok (⟨none, kind, pat, cs⟩, r3)
    | none =>
      match dropPrefix? unsupportedStart r with
      | some _ => .error .unsupportedType
      | none =>
        match expectPattern r with
        | .error e => .error e
        | .ok (pat, r1) => .ok (⟨none, .glob, pat, false⟩, r1)

/-! ### compound expressions (`compound_expr.py`) -/

structure St where
  prev : Option Char
  rest : Str
  deriving DecidableEq, Repr

abbrev Res := Except ParseError (Expr × St)

def lastOr (d : Option Char) (l : Str) : Option Char :=
  match l.getLast? with
  | some c => some c
  | none => d

/-- `_skip(n)` -/
def consume (n : Nat) (st : St) : St := ⟨lastOr st.prev (st.rest.take n), st.rest.drop n⟩

def skipWsAux (prev : Option Char) : Str → St
  | [] => ⟨prev, []⟩
  | c :: cs => if isSpace c then skipWsAux (some c) cs else ⟨prev, c :: cs⟩

/-- `_accept_whitespace` -/
def skipWs (st : St) : St := skipWsAux st.prev st.rest

/-- the look-ahead half of `_peek_keyword` for one keyword -/
def keywordAt (kw : Str) (rest : Str) : Bool :=
  match dropPrefix? kw rest with
  | none => false
  | some [] => true
  | some (c :: _) => kwFollow.contains [c] || isSpace c

def findKeyword (kws : List Str) (rest : Str) : Option Str := kws.find? (fun kw => keywordAt kw rest)

/-- `_peek_keyword` -/
def peekKeyword (kws : List Str) (st : St) : Except ParseError (Option Str) :=
  match findKeyword kws st.rest with
  | none => .ok none
  | some kw =>
    match st.prev with
    | none => .ok (some kw)
    | some p => if isSpace p || kwPrecede.contains [p] then .ok (some kw) else .error .missingWhitespace

/-- `_accept_keyword`: the state after the keyword, if one is present -/
def acceptKeyword (kws : List Str) (st : St) : Except ParseError (Option St) :=
  match peekKeyword kws st with
  | .error e => .error e
  | .ok none => .ok none
  | .ok (some kw) => .ok (some (consume kw.length st))

/-- the `while not self.end_of_string` loop of `_expect_generic_compound_expression` -/
def loop (kw : Str) (sub : St → Res) (mk : Expr → Expr → Expr) : Nat → Expr → St → Res
  | 0, _, _ => .error .fuel
  | f + 1, left, st =>
    if st.rest.isEmpty then .ok (left, st)
    else
      match acceptKeyword [kw] st with
      | .error e => .error e
      | .ok none => .ok (left, st)
      | .ok (some st1) =>
        match sub (skipWs st1) with
        | .error e => .error e
        | .ok (right, st2) => loop kw sub mk f (mk left right) (skipWs st2)

/-- `_expect_generic_compound_expression` -/
def generic (kw : Str) (sub : St → Res) (mk : Expr → Expr → Expr) (st : St) : Res :=
  match sub (skipWs st) with
  | .error e => .error e
  | .ok (left, st1) => loop kw sub mk ((skipWs st1).rest.length + 1) left (skipWs st1)

/-- `_expect_compound_and_expression` over a given unary parser -/
def andLevel (u : St → Res) : St → Res := generic kwAnd u Expr.and
/-- `_expect_compound_or_expression` -/
def orLevel (u : St → Res) : St → Res := generic kwOr (andLevel u) Expr.or

/-- `_expect_simple_expression` -/
def simpleExpr (st : St) : Res :=
  match simple st.rest with
  | .error e => .error e
  | .ok (a, r) => .ok (.atom a, consume (st.rest.length - r.length) st)

/-- after `_accept("(")`: compound expression, then `_expect(")")` -/
def parenBody (orL : St → Res) (r : Str) : Res :=
  match orL ⟨some '(', r⟩ with
  | .error e => .error e
  | .ok (e, st1) =>
    match st1.rest with
    | [] => .error (.expected ")")
    | c :: r1 => if c = ')' then .ok (e, ⟨some ')', r1⟩) else .error (.expected ")")

/-- `_expect_unary_expression` once `_accept("(")` has failed -/
def unaryRest (self : St → Res) (st : St) : Res :=
  match peekKeyword keywords st with
  | .error e => .error e
  | .ok (some kw) =>
    if kw = kwNot then
      match self (skipWs (consume kw.length st)) with
      | .error e => .error e
      | .ok (e, st1) => .ok (.not e, st1)
    else .error .keywordMisplaced
  | .ok none => simpleExpr st

/-- `_expect_unary_expression` -/
def unary : Nat → St → Res
  | 0, _ => .error .fuel
  | n + 1, st =>
    match st.rest with
    | [] => unaryRest (unary n) st
    | c :: r => if c = '(' then parenBody (orLevel (unary n)) r else unaryRest (unary n) st

/-- `CompoundExpressionParser(s).parse()` -/
def parse (s : Str) : Except ParseError Expr :=
  match orLevel (unary (s.length + 1)) ⟨none, s⟩ with
  | .error e => .error e
  | .ok (e, st) => if st.rest.isEmpty then .ok e else .error .trailingInput

/-- parse, then `re.compile` of every term (`atomOk` is the harness's answer for the real `re`) -/
def compile (atomOk : Atom → Bool) (s : Str) : Except ParseError Expr :=
  match parse s with
  | .error e => .error e
  | .ok e => if e.atoms.all atomOk then .ok e else .error .badRegex

/-! ### observations of `match()` / `Matcher.matches()` -/

inductive Obs
  | result (b : Bool)
  | raised (cls : String)
  deriving DecidableEq, Repr

/-- what `match(s, system_id=…, system_data=…)` does according to the documentation -/
def matchObs {σ : Type} (atomOk : Atom → Bool) (am : Atom → σ → Bool) (s : Str) (sys : σ) : Obs :=
  match compile atomOk s with
  | .ok e => .result (eval am e sys)
  | .error _ => .raised "ValueError"

/-! ### the expression cache (`functools.lru_cache(maxsize=…)` around the parser) -/

structure Cache where
  entries : List (Str × Expr)     -- most recently used first
  deriving Repr

def Cache.empty : Cache := ⟨[]⟩

/-- `_expression_from_string_cached(s)`: result and new cache. A hit moves the entry to the
    front; a miss compiles, and stores only a successful result (exceptions are not cached),
    evicting the least recently used entry beyond `maxsize`. -/
def Cache.get (atomOk : Atom → Bool) (c : Cache) (s : Str) : Except ParseError Expr × Cache :=
  match c.entries.lookup s with
  | some e => (.ok e, ⟨(s, e) :: c.entries.filter (fun p => p.1 != s)⟩)
  | none =>
    match compile atomOk s with
    | .ok e => (.ok e, ⟨((s, e) :: c.entries).take Generated.MATCHER_CACHE_SIZE⟩)
    | .error err => (.error err, c)

/-- `match()` through the cache -/
def matchCached {σ : Type} (atomOk : Atom → Bool) (am : Atom → σ → Bool) (c : Cache) (s : Str) (sys : σ) :
    Obs × Cache :=
  match c.get atomOk s with
  | (.ok e, c') => (.result (eval am e sys), c')
  | (.error _, c') => (.raised "ValueError", c')

/-- a sequence of `match()` calls on one cache: the observations in order -/
def runCached {σ : Type} (atomOk : Atom → Bool) (am : Atom → σ → Bool) : Cache → List (Str × σ) → List Obs
  | _, [] => []
  | c, (s, sys) :: t =>
    (matchCached atomOk am c s sys).1 :: runCached atomOk am (matchCached atomOk am c s sys).2 t

end Vinegar.Matcher
