import Vinegar.Model.Basic
/-
Model of the SQLite state of vinegar (property C15):

* `vinegar/utils/sqlite_store.py`            `DataStore` (`open_data_store`)
* `vinegar/data_source/sqlite.py`            `SQLiteSource`
* `vinegar/request_handler/sqlite_update.py` `HttpSQLiteUpdateRequestHandler`

The persistent state is ONE map `(system id × key) ↦ JSON text` — the table
`system_data(system_id, key, value)` with primary key `(system_id, key)`. It is modelled as an
association list `Db` kept in the order of the primary key, which is the order every `ORDER BY`
of the code reduces to:

* `get_data`      `… WHERE system_id=? ORDER BY key`
* `find_systems`  `… WHERE key=? AND value=? ORDER BY system_id`
* `list_systems`  `SELECT DISTINCT system_id … ORDER BY system_id`

SQLite compares `TEXT` with the BINARY collation (`memcmp` of the UTF-8 encoding, shorter
first), which for strings of Unicode scalar values is the lexicographic order of the code
points: `ltStr`.

Every `DataStore`, `SQLiteSource` and update handler is a STATELESS VIEW: a configuration and
nothing else (connections use `isolation_level=None`, i.e. autocommit, one statement per
operation; the source "does not employ any caching"). A history is a list of `Step`s, each
naming the configuration of the view it goes through; `run` folds `step` over it.

Python `str` values are lists of code points (`Str`; lone surrogates can occur inside JSON
values and are what makes `sqlite3` raise `UnicodeEncodeError` when they occur in an id or a
key). JSON text is a `Str` of ASCII code points (`json.dumps` uses `ensure_ascii=True`).

No Mathlib import.
-/
namespace Vinegar.Sqlite

/-- a Python `str`: the list of its code points -/
abbrev Str := List Nat

/-- the code points of a (Lean) string literal -/
def lit (s : String) : Str := s.toList.map Char.toNat

/-! ## Values and `json.dumps` -/

/-- what can be a `dict` key in the generated values: `str` (the only kind the strict check
admits), the kinds `json.dumps` converts silently (`int`, `bool`, `None`, `float`), and any other
hashable (`tuple`, `bytes`, …: `TypeError` from `json.dumps`) -/
inductive PyKey where
  | str (s : Str)
  | int (i : Int)
  | bool (b : Bool)
  | none
  | float (repr : Str)
  | other
deriving Repr, DecidableEq

/-- the Python values of the model. The STRICT domain (accepted by `_check_value`) is
`none | bool | int | float | str | list | dict` with `str` keys, recursively. `float` carries
`float.__repr__` (finite floats only; NaN/±Infinity are outside the modelled domain, DESIGN §7).
`tuple` is what `json.dumps` silently turns into a list, `set`/`bytes` are not serialisable at
all, `cyclic` is a container that contains itself. -/
inductive PyVal where
  | none
  | bool (b : Bool)
  | int (i : Int)
  | float (repr : Str)
  | str (s : Str)
  | list (l : List PyVal)
  | dict (d : List (PyKey × PyVal))
  | tuple (l : List PyVal)
  | set
  | bytes
  | cyclic
deriving Repr

/-- exception classes that are observable results -/
inductive Err where
  | keyError
  | typeError
  | valueError
  | unicodeEncodeError
deriving Repr, DecidableEq

/-- `DataStore._check_value` (strict JSON check): what it REJECTS is
`tuple`, `set`, `bytes` (and every other non-JSON type) → `TypeError`;
a `dict` key that is not a `str` (`int`, `bool`, `None`, `float`, `tuple` …) → `TypeError`;
a container reachable from itself → `ValueError`. Traversal is depth first in iteration order, a
dict item's key is tested before its value; the first offence decides the class. -/
def checkKey : PyKey → Except Err Unit
  | .str _ => .ok ()
  | _ => .error .typeError

mutual
def checkValue : PyVal → Except Err Unit
  | .none => .ok ()
  | .bool _ => .ok ()
  | .int _ => .ok ()
  | .float _ => .ok ()
  | .str _ => .ok ()
  | .list l => checkList l
  | .dict d => checkItems d
  | .tuple _ => .error .typeError
  | .set => .error .typeError
  | .bytes => .error .typeError
  | .cyclic => .error .valueError
def checkList : List PyVal → Except Err Unit
  | [] => .ok ()
  | v :: vs => do checkValue v; checkList vs
def checkItems : List (PyKey × PyVal) → Except Err Unit
  | [] => .ok ()
  | (k, v) :: r => do checkKey k; checkValue v; checkItems r
end

def hexDigit (n : Nat) : Nat := if n < 10 then 48 + n else 87 + n

/-- `'{0:04x}'.format(n)` -/
def hex4 (n : Nat) : Str :=
  [hexDigit (n / 4096 % 16), hexDigit (n / 256 % 16), hexDigit (n / 16 % 16), hexDigit (n % 16)]

/-- `json.encoder.py_encode_basestring_ascii`, one character -/
def escChar (c : Nat) : Str :=
  if c = 34 then [92, 34]
  else if c = 92 then [92, 92]
  else if c = 10 then [92, 110]
  else if c = 13 then [92, 114]
  else if c = 9 then [92, 116]
  else if c = 8 then [92, 98]
  else if c = 12 then [92, 102]
  else if 32 ≤ c ∧ c ≤ 126 then [c]
  else if c < 65536 then 92 :: 117 :: hex4 c
  else
    let v := c - 65536
    92 :: 117 :: hex4 (55296 + v / 1024) ++ 92 :: 117 :: hex4 (56320 + v % 1024)

/-- JSON text of a `str` -/
def dumpsStr (s : Str) : Str := 34 :: s.flatMap escChar ++ [34]

def dumpsInt (i : Int) : Str := lit (toString i)

/-- `', '.join(parts)` -/
def joinComma : List Str → Str
  | [] => []
  | [a] => a
  | a :: b :: r => a ++ 44 :: 32 :: joinComma (b :: r)

/-- the text `json.dumps` writes for a dict key (`skipkeys=False`) -/
def dumpsKey : PyKey → Except Err Str
  | .str s => .ok (dumpsStr s)
  | .int i => .ok (34 :: dumpsInt i ++ [34])
  | .bool true => .ok (lit "\"true\"")
  | .bool false => .ok (lit "\"false\"")
  | .none => .ok (lit "\"null\"")
  | .float r => .ok (34 :: r ++ [34])
  | .other => .error .typeError

mutual
/-- `json.dumps(value)` with the default arguments (`ensure_ascii`, separators `", "` / `": "`,
`check_circular`). On the strict domain it never fails (`dumps_of_check`). -/
def dumps : PyVal → Except Err Str
  | .none => .ok (lit "null")
  | .bool true => .ok (lit "true")
  | .bool false => .ok (lit "false")
  | .int i => .ok (dumpsInt i)
  | .float r => .ok r
  | .str s => .ok (dumpsStr s)
  | .list l => do let ps ← dumpsList l; .ok (91 :: joinComma ps ++ [93])
  | .tuple l => do let ps ← dumpsList l; .ok (91 :: joinComma ps ++ [93])
  | .dict d => do let ps ← dumpsItems d; .ok (123 :: joinComma ps ++ [125])
  | .set => .error .typeError
  | .bytes => .error .typeError
  | .cyclic => .error .valueError
def dumpsList : List PyVal → Except Err (List Str)
  | [] => .ok []
  | v :: vs => do let a ← dumps v; let r ← dumpsList vs; .ok (a :: r)
def dumpsItems : List (PyKey × PyVal) → Except Err (List Str)
  | [] => .ok []
  | (k, v) :: r => do
    let a ← dumpsKey k
    let b ← dumps v
    let t ← dumpsItems r
    .ok ((a ++ 58 :: 32 :: b) :: t)
end

/-! ## The map -/

abbrev Key := Str × Str          -- (system id, key)
abbrev Db := List (Key × Str)    -- association list in primary-key order

/-- BINARY collation on `TEXT` = lexicographic order of the code points -/
def ltStr : Str → Str → Bool
  | [], [] => false
  | [], _ :: _ => true
  | _ :: _, [] => false
  | a :: as, b :: bs => a < b || (a == b && ltStr as bs)

/-- order of the primary key `(system_id, key)` -/
def ltKey (a b : Key) : Bool := ltStr a.1 b.1 || (a.1 == b.1 && ltStr a.2 b.2)

/-- the value stored under a key (first match; in a `Sorted` map the only one) -/
def lookup (k : Key) : Db → Option Str
  | [] => none
  | (k', t) :: r => if k' = k then some t else lookup k r

/-- `INSERT OR REPLACE INTO system_data VALUES (sid, key, text)` -/
def dbSet (k : Key) (t : Str) : Db → Db
  | [] => [(k, t)]
  | (k', t') :: r =>
    if k' = k then (k, t) :: r
    else if ltKey k k' then (k, t) :: (k', t') :: r
    else (k', t') :: dbSet k t r

/-- `DELETE FROM system_data WHERE system_id=? and key=?` -/
def dbDel (k : Key) (db : Db) : Db := db.filter (fun e => e.1 ≠ k)

/-- `DELETE FROM system_data WHERE system_id=?` -/
def dbDelSid (sid : Str) (db : Db) : Db := db.filter (fun e => e.1.1 ≠ sid)

/-- `SELECT key, value … WHERE system_id=? ORDER BY key` -/
def dbGetData (sid : Str) (db : Db) : List (Str × Str) :=
  (db.filter (fun e => e.1.1 = sid)).map (fun e => (e.1.2, e.2))

/-- `SELECT system_id … WHERE key=? AND value=? ORDER BY system_id` -/
def dbFind (key : Str) (t : Str) (db : Db) : List Str :=
  (db.filter (fun e => e.1.2 = key ∧ e.2 = t)).map (fun e => e.1.1)

/-- drop consecutive repetitions -/
def dedupAdj : List Str → List Str
  | [] => []
  | [a] => [a]
  | a :: b :: r => if a = b then dedupAdj (b :: r) else a :: dedupAdj (b :: r)

/-- `SELECT DISTINCT system_id … ORDER BY system_id` -/
def dbList (db : Db) : List Str := dedupAdj (db.map (fun e => e.1.1))

/-- `sqlite3` can bind a `str` parameter only if it can be encoded as UTF-8: no lone
surrogates (otherwise `UnicodeEncodeError`, before the statement runs) -/
def validText (s : Str) : Bool := s.all (fun c => c < 55296 || 57343 < c)

/-! ## Results -/

/-- the data tree returned by `SQLiteSource.get_data`: the rows of the system wrapped in one
`dict` per component of `key_prefix` -/
inductive Wrapped where
  | data (kvs : List (Str × Str))
  | node (name : Str) (inner : Wrapped)
deriving Repr, DecidableEq

inductive Res where
  /-- `None` returned by a write -/
  | unit
  | exc (e : Err)
  /-- `get_value`: the stored JSON text -/
  | text (t : Str)
  /-- `get_data`: `(key, JSON text)` in dict order -/
  | data (kvs : List (Str × Str))
  /-- `find_systems`, `list_systems` -/
  | systems (l : List Str)
  /-- `SQLiteSource.find_system` -/
  | optSystem (o : Option Str)
  /-- `SQLiteSource.get_data` -/
  | wrapped (w : Wrapped)
  /-- update handler: `can_handle` is false -/
  | noMatch
  /-- update handler: HTTP status of `handle` -/
  | status (code : Nat)
deriving Repr, DecidableEq

/-! ## `DataStore` -/

inductive StoreOp where
  | setValue (sid key : Str) (v : PyVal)
  | deleteValue (sid key : Str)
  | deleteData (sid : Str)
  | getValue (sid key : Str)
  | getData (sid : Str)
  | findSystems (key : Str) (v : PyVal)
  | listSystems
deriving Repr

/-- the three writes -/
def StoreOp.isWrite : StoreOp → Bool
  | .setValue _ _ _ => true
  | .deleteValue _ _ => true
  | .deleteData _ => true
  | _ => false

/-- what a step intends to do to the map (decided by the view's configuration and the
arguments alone — a view has no state) -/
inductive Intent where
  | nothing
  | set (k : Key) (t : Str)
  | del (k : Key)
  | delSid (sid : Str)
deriving Repr, DecidableEq

def applyIntent : Intent → Db → Db
  | .nothing, db => db
  | .set k t, db => dbSet k t db
  | .del k, db => dbDel k db
  | .delSid s, db => dbDelSid s db

/-- `set_value`: strict check (if configured), `json.dumps`, then the statement (binding the
parameters fails for un-encodable ids/keys). Either an exception and no change, or the text. -/
def setDecision (strict : Bool) (sid key : Str) (v : PyVal) : Except Err Str := do
  if strict then checkValue v
  let t ← dumps v
  if validText sid && validText key then .ok t else .error .unicodeEncodeError

/-- the write a `DataStore` operation performs -/
def storeIntent (strict : Bool) : StoreOp → Intent
  | .setValue sid key v =>
    match setDecision strict sid key v with
    | .ok t => .set (sid, key) t
    | .error _ => .nothing
  | .deleteValue sid key => if validText sid && validText key then .del (sid, key) else .nothing
  | .deleteData sid => if validText sid then .delSid sid else .nothing
  | _ => .nothing

/-- the result a `DataStore` operation returns on the map `db` -/
def storeResult (strict : Bool) (op : StoreOp) (db : Db) : Res :=
  match op with
  | .setValue sid key v =>
    match setDecision strict sid key v with
    | .ok _ => .unit
    | .error e => .exc e
  | .deleteValue sid key => if validText sid && validText key then .unit else .exc .unicodeEncodeError
  | .deleteData sid => if validText sid then .unit else .exc .unicodeEncodeError
  | .getValue sid key =>
    if validText sid && validText key then
      match lookup (sid, key) db with
      | some t => .text t
      | none => .exc .keyError
    else .exc .unicodeEncodeError
  | .getData sid => if validText sid then .data (dbGetData sid db) else .exc .unicodeEncodeError
  | .findSystems key v =>
    -- `json.dumps(value)` is evaluated (unchecked) while the parameter tuple is built
    match dumps v with
    | .error e => .exc e
    | .ok t => if validText key then .systems (dbFind key t db) else .exc .unicodeEncodeError
  | .listSystems => .systems (dbList db)

/-! ## `SQLiteSource` -/

structure SrcCfg where
  findEnabled : Bool
  /-- `key_prefix` (`""` = none) -/
  pfx : Str
deriving Repr, DecidableEq

inductive SrcOp where
  | getData (sid : Str)
  | findSystem (key : Str) (v : PyVal)
deriving Repr

/-- `str.split(":")` -/
def splitColon : Str → List Str
  | [] => [[]]
  | c :: cs =>
    if c = 58 then [] :: splitColon cs
    else
      match splitColon cs with
      | h :: t => (c :: h) :: t
      | [] => [[c]]

/-- one `dict` per component, the first component outermost -/
def wrap : List Str → Wrapped → Wrapped
  | [], w => w
  | c :: cs, w => .node c (wrap cs w)

/-- `get_data`: `{}`-wrapping only if the prefix is non-empty -/
def wrapData (pfx : Str) (kvs : List (Str × Str)) : Wrapped :=
  if pfx = [] then .data kvs else wrap (splitColon pfx) (.data kvs)

/-- `s.startswith(p)`, returning the remainder -/
def stripPrefix : Str → Str → Option Str
  | [], s => some s
  | _ :: _, [] => none
  | p :: ps, c :: cs => if p = c then stripPrefix ps cs else none

/-- `find_system`: the key that is looked up in the store (`none`: not this source's key) -/
def stripKey (pfx : Str) (lookupKey : Str) : Option Str :=
  if pfx = [] then some lookupKey else stripPrefix (pfx ++ [58]) lookupKey

/-- `systems[0] if len(systems) == 1 else None` -/
def onlyOne : List Str → Option Str
  | [s] => some s
  | _ => none

def srcResult (cfg : SrcCfg) (op : SrcOp) (db : Db) : Res :=
  match op with
  | .getData sid =>
    match storeResult true (.getData sid) db with
    | .data kvs => .wrapped (wrapData cfg.pfx kvs)
    | r => r
  | .findSystem key v =>
    if !cfg.findEnabled then .optSystem none
    else
      match stripKey cfg.pfx key with
      | none => .optSystem none
      | some k =>
        match storeResult true (.findSystems k v) db with
        | .systems l => .optSystem (onlyOne l)
        | r => r

/-- descend into the wrapped tree along dict keys -/
def descend : List Str → Wrapped → Option Wrapped
  | [], w => some w
  | c :: cs, .node n inner => if n = c then descend cs inner else none
  | _ :: _, .data _ => none

def kvLookup (k : Str) : List (Str × Str) → Option Str
  | [] => none
  | (k', t) :: r => if k' = k then some t else kvLookup k r

/-- JSON text of the tree (`json.dumps(data)`; the stored texts are spliced in verbatim) -/
def renderKvs (kvs : List (Str × Str)) : Str :=
  123 :: joinComma (kvs.map (fun kv => dumpsStr kv.1 ++ 58 :: 32 :: kv.2)) ++ [125]

def render : Wrapped → Str
  | .data kvs => renderKvs kvs
  | .node n inner => 123 :: dumpsStr n ++ 58 :: 32 :: render inner ++ [125]

/-! ## Decoding: `urllib.parse.unquote`, UTF-8, request bodies -/

def hexVal (c : Nat) : Option Nat :=
  if 48 ≤ c ∧ c ≤ 57 then some (c - 48)
  else if 97 ≤ c ∧ c ≤ 102 then some (c - 87)
  else if 65 ≤ c ∧ c ≤ 70 then some (c - 55)
  else none

/-- `urllib.parse._unquote_impl` on an ASCII run: `%XX` → byte, anything else unchanged -/
def unquoteBytes : List Nat → List Nat
  | [] => []
  | c :: rest =>
    if c = 37 then
      match rest with
      | a :: b :: r2 =>
        match hexVal a, hexVal b with
        | some x, some y => (x * 16 + y) :: unquoteBytes r2
        | _, _ => c :: unquoteBytes (a :: b :: r2)
      | [a] => [c, a]
      | [] => [c]
    else c :: unquoteBytes rest
termination_by l => l.length
decreasing_by all_goals (simp only [List.length_cons]; omega)

inductive Dec where
  | strict          -- bytes.decode()
  | surrogatepass   -- json.loads(bytes): decode(…, 'surrogatepass')
  | replace         -- unquote: decode('utf-8', 'replace')
deriving Repr, DecidableEq

def isCont (b : Nat) : Bool := 128 ≤ b && b < 192

/-- admissible second byte after the lead byte of a 3- or 4-byte sequence -/
def secondOk (lead b2 : Nat) (sp : Bool) : Bool :=
  if lead = 224 then 160 ≤ b2 && b2 < 192
  else if lead = 237 then 128 ≤ b2 && b2 < (if sp then 192 else 160)
  else if lead = 240 then 144 ≤ b2 && b2 < 192
  else if lead = 244 then 128 ≤ b2 && b2 < 144
  else isCont b2

/-- an undecodable (maximal) subsequence: U+FFFD in `replace` mode, failure otherwise -/
def onBad (m : Dec) (r : Option Str) : Option Str :=
  if m = .replace then r.map (65533 :: ·) else none

/-- CPython's UTF-8 decoder on a list of bytes (`Nat < 256`) -/
def decodeUtf8 (m : Dec) : List Nat → Option Str
  | [] => some []
  | b :: rest =>
    if b < 128 then (decodeUtf8 m rest).map (b :: ·)
    else if b < 194 || 245 ≤ b then onBad m (decodeUtf8 m rest)
    else if b < 224 then
      match rest with
      | [] => onBad m (some [])
      | b2 :: r2 =>
        if isCont b2 then (decodeUtf8 m r2).map (((b - 192) * 64 + (b2 - 128)) :: ·)
        else onBad m (decodeUtf8 m (b2 :: r2))
    else if b < 240 then
      match rest with
      | [] => onBad m (some [])
      | b2 :: r2 =>
        if secondOk b b2 (m = .surrogatepass) then
          match r2 with
          | [] => onBad m (some [])
          | b3 :: r3 =>
            if isCont b3 then
              (decodeUtf8 m r3).map (((b - 224) * 4096 + (b2 - 128) * 64 + (b3 - 128)) :: ·)
            else onBad m (decodeUtf8 m (b3 :: r3))
        else onBad m (decodeUtf8 m (b2 :: r2))
    else
      match rest with
      | [] => onBad m (some [])
      | b2 :: r2 =>
        if secondOk b b2 false then
          match r2 with
          | [] => onBad m (some [])
          | b3 :: r3 =>
            if isCont b3 then
              match r3 with
              | [] => onBad m (some [])
              | b4 :: r4 =>
                if isCont b4 then
                  (decodeUtf8 m r4).map
                    (((b - 240) * 262144 + (b2 - 128) * 4096 + (b3 - 128) * 64 + (b4 - 128)) :: ·)
                else onBad m (decodeUtf8 m (b4 :: r4))
            else onBad m (decodeUtf8 m (b3 :: r3))
        else onBad m (decodeUtf8 m (b2 :: r2))
termination_by l => l.length
decreasing_by all_goals (simp only [List.length_cons]; omega)

/-- `urllib.parse.unquote(path)`: every maximal ASCII run has its `%XX` escapes turned into
bytes and is decoded as UTF-8 with `errors='replace'`; non-ASCII characters are kept. `run` is
the current ASCII run, reversed. -/
def unquoteGo : List Nat → List Nat → Str
  | [], run => (decodeUtf8 .replace (unquoteBytes run.reverse)).getD []
  | c :: cs, run =>
    if c < 128 then unquoteGo cs (c :: run)
    else (decodeUtf8 .replace (unquoteBytes run.reverse)).getD [] ++ c :: unquoteGo cs []

def unquote (s : Str) : Str := unquoteGo s []

/-! ### JSON request bodies (`json.load`) -/

/-- outcome of decoding a request body as JSON -/
inductive JRes where
  | ok (v : PyVal) (rest : Str)
  /-- `ValueError` (`JSONDecodeError`, `UnicodeDecodeError`) → 400 -/
  | bad
  /-- accepted or treated specially by Python but outside the modelled grammar: `NaN`,
  `Infinity`, `-Infinity`, UTF-16/32 bodies -/
  | outside
deriving Repr

def isWs (c : Nat) : Bool := c = 32 || c = 9 || c = 10 || c = 13

def skipWs : Str → Str
  | [] => []
  | c :: cs => if isWs c then skipWs cs else c :: cs

def isDigit (c : Nat) : Bool := 48 ≤ c && c ≤ 57

def takeDigits : Str → Str × Str
  | [] => ([], [])
  | c :: cs => if isDigit c then let (d, r) := takeDigits cs; (c :: d, r) else ([], c :: cs)

def natOfDigits (ds : Str) : Nat := ds.foldl (fun a c => a * 10 + (c - 48)) 0

/-- the number grammar of the scanner, `-?(0|[1-9]\d*)(\.\d+)?([eE][-+]?\d+)?`, longest match.
Integers become `int`; a literal with fraction or exponent becomes a `float` whose `repr` is
taken to be the literal itself (the generator only writes floats as their `repr`). -/
def parseNumber (s : Str) : Option (PyVal × Str) :=
  let (neg, s1) := match s with
    | 45 :: r => (true, r)
    | _ => (false, s)
  let intPart : Option (Str × Str) :=
    match s1 with
    | 48 :: r => some ([48], r)
    | c :: _ => if isDigit c then some (takeDigits s1) else none
    | [] => none
  match intPart with
  | none => none
  | some (ds, s2) =>
    let (frac, s3) : Str × Str :=
      match s2 with
      | 46 :: r =>
        let (fd, r') := takeDigits r
        if fd = [] then ([], s2) else (46 :: fd, r')
      | _ => ([], s2)
    let (ex, s4) : Str × Str :=
      match s3 with
      | e :: r =>
        if e = 101 || e = 69 then
          let (sign, r1) : Str × Str := match r with
            | 43 :: q => ([43], q)
            | 45 :: q => ([45], q)
            | _ => ([], r)
          let (ed, r2) := takeDigits r1
          if ed = [] then ([], s3) else (e :: sign ++ ed, r2)
        else ([], s3)
      | [] => ([], s3)
    if frac = [] ∧ ex = [] then
      let n : Int := natOfDigits ds
      some (.int (if neg then -n else n), s4)
    else
      some (.float ((if neg then [45] else []) ++ ds ++ frac ++ ex), s4)

def hex4Val : Str → Option (Nat × Str)
  | a :: b :: c :: d :: r =>
    match hexVal a, hexVal b, hexVal c, hexVal d with
    | some w, some x, some y, some z => some (w * 4096 + x * 256 + y * 16 + z, r)
    | _, _, _, _ => none
  | _ => none

/-- body of a JSON string after the opening quote (`py_scanstring`, strict): result and rest
after the closing quote. `\uD8xx\uDCxx` escape pairs are joined. -/
def parseStringBody : Nat → Str → Option (Str × Str)
  | 0, _ => none
  | _ + 1, [] => none
  | f + 1, c :: cs =>
    if c = 34 then some ([], cs)
    else if c < 32 then none
    else if c = 92 then
      match cs with
      | [] => none
      | e :: r =>
        let simple (ch : Nat) : Option (Str × Str) := (parseStringBody f r).map (fun p => (ch :: p.1, p.2))
        if e = 34 then simple 34 else if e = 92 then simple 92 else if e = 47 then simple 47
        else if e = 98 then simple 8 else if e = 102 then simple 12 else if e = 110 then simple 10
        else if e = 114 then simple 13 else if e = 116 then simple 9
        else if e = 117 then
          match hex4Val r with
          | none => none
          | some (u, r1) =>
            let lone : Option (Str × Str) := (parseStringBody f r1).map (fun p => (u :: p.1, p.2))
            if 55296 ≤ u ∧ u ≤ 56319 then
              match r1 with
              | 92 :: 117 :: r2 =>
                match hex4Val r2 with
                | none => none
                | some (u2, r3) =>
                  if 56320 ≤ u2 ∧ u2 ≤ 57343 then
                    (parseStringBody f r3).map
                      (fun p => ((65536 + (u - 55296) * 1024 + (u2 - 56320)) :: p.1, p.2))
                  else lone
              | _ => lone
            else lone
        else none
    else (parseStringBody f cs).map (fun p => (c :: p.1, p.2))

/-- `dict` construction from the scanned pairs: a repeated key keeps its first position and
takes the last value -/
def dictPut (k : Str) (v : PyVal) : List (PyKey × PyVal) → List (PyKey × PyVal)
  | [] => [(.str k, v)]
  | (k', v') :: r => if k' = .str k then (k', v) :: r else (k', v') :: dictPut k v r

/-- `s.startswith(l)`, returning the rest -/
def stripLit (l : Str) (s : Str) : Option Str := stripPrefix l s

mutual
/-- `scan_once` at the first character of `s` (no leading whitespace); `fuel` bounds the
nesting + length (the caller passes the length of the text) -/
def parseValue : Nat → Str → JRes
  | 0, _ => .bad
  | f + 1, s =>
    match s with
    | [] => .bad
    | c :: cs =>
      if c = 34 then
        match parseStringBody (cs.length + 1) cs with
        | some (str, r) => .ok (.str str) r
        | none => .bad
      else if c = 123 then
        match skipWs cs with
        | 125 :: r => .ok (.dict []) r
        | r => parseMembers f r []
      else if c = 91 then
        match skipWs cs with
        | 93 :: r => .ok (.list []) r
        | r => parseElements f r []
      else if c = 110 then
        match stripLit [117, 108, 108] cs with | some r => .ok .none r | none => .bad
      else if c = 116 then
        match stripLit [114, 117, 101] cs with | some r => .ok (.bool true) r | none => .bad
      else if c = 102 then
        match stripLit [97, 108, 115, 101] cs with | some r => .ok (.bool false) r | none => .bad
      else if c = 78 then
        match stripLit [97, 78] cs with | some _ => .outside | none => .bad
      else if c = 73 then
        match stripLit [110, 102, 105, 110, 105, 116, 121] cs with | some _ => .outside | none => .bad
      else
        match parseNumber s with
        | some (v, r) => .ok v r
        | none =>
          if c = 45 then
            match stripLit [73, 110, 102, 105, 110, 105, 116, 121] cs with | some _ => .outside | none => .bad
          else .bad
/-- array elements; `s` starts at a value; `acc` reversed -/
def parseElements : Nat → Str → List PyVal → JRes
  | 0, _, _ => .bad
  | f + 1, s, acc =>
    match parseValue f s with
    | .ok v r =>
      match skipWs r with
      | 44 :: r2 => parseElements f (skipWs r2) (v :: acc)
      | 93 :: r2 => .ok (.list (v :: acc).reverse) r2
      | _ => .bad
    | .bad => .bad
    | .outside => .outside
/-- object members; `s` starts at the key's opening quote -/
def parseMembers : Nat → Str → List (PyKey × PyVal) → JRes
  | 0, _, _ => .bad
  | f + 1, s, acc =>
    match s with
    | 34 :: cs =>
      match parseStringBody (cs.length + 1) cs with
      | none => .bad
      | some (k, r) =>
        match skipWs r with
        | 58 :: r2 =>
          match parseValue f (skipWs r2) with
          | .ok v r3 =>
            match skipWs r3 with
            | 44 :: r4 => parseMembers f (skipWs r4) (dictPut k v acc)
            | 125 :: r4 => .ok (.dict (dictPut k v acc)) r4
            | _ => .bad
          | .bad => .bad
          | .outside => .outside
        | _ => .bad
    | _ => .bad
end

/-- `json.detect_encoding(b) == 'utf-8'` (no BOM, no NUL among the first two bytes) -/
def bodyIsUtf8 : List Nat → Bool
  | 0 :: _ => false
  | _ :: 0 :: _ => false
  | 255 :: 254 :: _ => false
  | 254 :: 255 :: _ => false
  | 239 :: 187 :: 191 :: _ => false
  | _ => true

/-- `json.load(io.BytesIO(raw))` -/
def decodeJsonBody (raw : List Nat) : JRes :=
  if !bodyIsUtf8 raw then .outside
  else
    match decodeUtf8 .surrogatepass raw with
    | none => .bad
    | some s =>
      match parseValue (s.length + 1) (skipWs s) with
      | .ok v r => if skipWs r = [] then .ok v [] else .bad
      | .bad => .bad
      | .outside => .outside

/-! ## The update handler -/

inductive Action where
  | deleteData
  | deleteValue
  | setValue
  | setJson   -- set_json_value_from_request_body
  | setText   -- set_text_value_from_request_body
deriving Repr, DecidableEq

/-- the configuration literal of an action -/
def Action.name : Action → String
  | .deleteData => "delete_data"
  | .deleteValue => "delete_value"
  | .setValue => "set_value"
  | .setJson => "set_json_value_from_request_body"
  | .setText => "set_text_value_from_request_body"

def Action.all : List Action := [.deleteData, .deleteValue, .setValue, .setJson, .setText]

/-- the actions whose configuration must name a `key` -/
def Action.needsKey : Action → Bool
  | .deleteData => false
  | _ => true

structure HCfg where
  /-- `request_path` as configured (starts with "/"; the constructor appends a "/" if missing) -/
  path : Str
  action : Action
  key : Str
  value : PyVal
  /-- `client_address_list` as plain addresses (`[]` = not configured). CIDR entries and
  `client_address_key` belong to C05. -/
  clients : List Str
deriving Repr

structure Req where
  method : Str
  uri : Str
  /-- value of the `Content-Length` header, if present -/
  contentLength : Option Str
  body : List Nat
  /-- the body stream raises `OSError` when read -/
  bodyFault : Bool
  client : Str
deriving Repr

def endsWithSlash : Str → Bool
  | [] => false
  | [c] => c = 47
  | _ :: c :: r => endsWithSlash (c :: r)

/-- `self._request_path` after the constructor -/
def normPath (p : Str) : Str := if endsWithSlash p then p else p ++ [47]

/-- `"%00" in uri` -/
def hasPct00 : Str → Bool
  | 37 :: 48 :: 48 :: _ => true
  | _ :: r => hasPct00 r
  | [] => false

def takeUntilQ : Str → Str
  | [] => []
  | c :: cs => if c = 63 then [] else c :: takeUntilQ cs

/-- `prepare_context` + `can_handle`: the system id, or `none` if the handler does not match -/
def prepareContext (cfg : HCfg) (uri : Str) : Option Str :=
  if uri.contains 0 || hasPct00 uri then none
  else
    match stripPrefix (normPath cfg.path) (unquote (takeUntilQ uri)) with
    | none => none
    | some [] => none
    | some sid => some sid

/-- `int(text)` for the header forms the generator produces: `[+-]?[0-9]+` -/
def parseInt (s : Str) : Option Int :=
  let (neg, r) : Bool × Str := match s with
    | 45 :: r => (true, r)
    | 43 :: r => (false, r)
    | _ => (false, s)
  if r ≠ [] ∧ r.all isDigit then
    let n : Int := natOfDigits r
    some (if neg then -n else n)
  else none

/-- `body.read(int(headers.get("Content-Length", "0")))`; `none` = `ValueError`/`OSError` -/
def readBody (rq : Req) : Option (List Nat) :=
  match parseInt (rq.contentLength.getD [48]) with
  | none => none
  | some n => if rq.bodyFault then none else if n < 0 then some rq.body else some (rq.body.take n.toNat)

def methodPOST : Str := [80, 79, 83, 84]

def allowed (cfg : HCfg) (client : Str) : Bool := cfg.clients.isEmpty || cfg.clients.contains client

/-- what `handle` decides for a matching request: a status without touching the store, or the
`DataStore` operation it performs (through its own strict store) -/
inductive Decision where
  | reply (code : Nat)
  | perform (op : StoreOp)
  /-- body outside the modelled JSON grammar -/
  | outside
deriving Repr

def decide' (cfg : HCfg) (sid : Str) (rq : Req) : Decision :=
  if rq.method ≠ methodPOST then .reply 405
  else if !allowed cfg rq.client then .reply 403
  else
    match cfg.action with
    | .deleteData => .perform (.deleteData sid)
    | .deleteValue => .perform (.deleteValue sid cfg.key)
    | .setValue => .perform (.setValue sid cfg.key cfg.value)
    | .setJson =>
      match readBody rq with
      | none => .reply 400
      | some raw =>
        match decodeJsonBody raw with
        | .ok v _ => .perform (.setValue sid cfg.key v)
        | .bad => .reply 400
        | .outside => .outside
    | .setText =>
      match readBody rq with
      | none => .reply 400
      | some raw =>
        match decodeUtf8 .strict raw with
        | some s => .perform (.setValue sid cfg.key (.str s))
        | none => .reply 400

/-- status the model reports for a body outside the modelled grammar (never compared with the
implementation; the checker accepts 200 and 400 for such a request) -/
def outsideStatus : Nat := 400

def handlerIntent (cfg : HCfg) (rq : Req) : Intent :=
  match prepareContext cfg rq.uri with
  | none => .nothing
  | some sid =>
    match decide' cfg sid rq with
    | .perform op => storeIntent true op
    | _ => .nothing

def handlerResult (cfg : HCfg) (rq : Req) (db : Db) : Res :=
  match prepareContext cfg rq.uri with
  | none => .noMatch
  | some sid =>
    match decide' cfg sid rq with
    | .reply code => .status code
    | .outside => .status outsideStatus
    | .perform op =>
      match storeResult true op db with
      | .unit => .status 200
      | r => r      -- an exception escaping `handle`

/-! ## Histories -/

inductive Step where
  | store (strict : Bool) (op : StoreOp)
  | source (cfg : SrcCfg) (op : SrcOp)
  | handler (cfg : HCfg) (rq : Req)
deriving Repr

def intent : Step → Intent
  | .store strict op => storeIntent strict op
  | .source _ _ => .nothing
  | .handler cfg rq => handlerIntent cfg rq

def result : Step → Db → Res
  | .store strict op, db => storeResult strict op db
  | .source cfg op, db => srcResult cfg op db
  | .handler cfg rq, db => handlerResult cfg rq db

/-- one operation through one view: its result and the map afterwards -/
def step (s : Step) (db : Db) : Res × Db := (result s db, applyIntent (intent s) db)

/-- a whole history: every step's result and the map after it, and the final map -/
def run : List Step → Db → List (Res × Db) × Db
  | [], db => ([], db)
  | s :: ss, db =>
    let (r, db') := step s db
    let (rs, fin) := run ss db'
    ((r, db') :: rs, fin)

end Vinegar.Sqlite
