import Vinegar.Model.Conc
import Vinegar.Model.Sqlite
import Vinegar.Model.TextFile
import Vinegar.Spec.Yaml
/-
The lock-protected components of C19 as sequential `step : State → Op → State × Res` functions
over the EXISTING models of their sequential behaviour (no second model of anything):

* `storeStep`  — `DataStore` (every public method is `with self._lock:` around one autocommit
                 statement) over `Vinegar.Sqlite` (the model C15 verifies against the code),
* `tfStep`     — `TextFileSource` (`get_data` / `find_system` are `with self._lock:` around
                 `_update_data` + the look-up) over `Vinegar.TextFile` (the model of C14), together with
                 the file-rewrite pseudo-operation `write k` of the scenarios.

* `yamlStep`   — `YamlTargetSource.get_data` over `Vinegar.Yaml` (the model of C11/C12: compile with
                 the three cache layers behind the LRU) with the scenario's change of ONE file. NOTE:
                 `get_data` of the real source is NOT one critical section (lock-wrapped cache, per-call
                 compiler, last-writer-wins update of the cache item), so for this component the
                 lock-granularity theorems describe an idealisation; what the step function is used for is
                 the DECISION whether an observed run is linearizable.

These are the `step` arguments at which the generic theorems of `Vinegar.C19` are instantiated and
at which the driver evaluates `Conc.linearizableP` on the results of the real threads.
-/
namespace Vinegar.Conc

/-! ### `DataStore` -/

/-- one `DataStore` method on the table: the model of C15 (`Sqlite.step` through a store view),
with the component order of `Conc` (state first). `strict` = `strict_value_checking`. -/
def storeStep (strict : Bool) (db : Sqlite.Db) (op : Sqlite.StoreOp) : Sqlite.Db × Sqlite.Res :=
  let r := Sqlite.step (.store strict op) db
  (r.2, r.1)

/-! ### `TextFileSource` next to a file that is rewritten during the run -/

/-- the file as the next `os.stat`/`open` finds it, and the attributes of the source object -/
structure TfWorld where
  file : TextFile.FileState
  src : TextFile.Src

inductive TfOp where
  /-- the pseudo-thread of the scenario: the file is atomically replaced by state `k` -/
  | write (k : Nat)
  /-- `get_data` / `find_system` -/
  | call (c : TextFile.Call)

/-- `none` for the rewrite (the pseudo-operation returns nothing) -/
abbrev TfRes := Option TextFile.Res

/-- `states` = the file states of the scenario (classified lines and the stat stamp the harness
gives the file when it writes that state). A rewrite does not touch the source object; a call is
`TextFile.call` (reload if the stat version changed, then the look-up) on the file as it is now. -/
def tfStep (ver : String → String) (statVer : Option Nat → String) (cfg : TextFile.Cfg)
    (states : List TextFile.FileState) (w : TfWorld) : TfOp → TfWorld × TfRes
  | .write k => ({ w with file := (states[k]?).getD w.file }, none)
  | .call c =>
    let r := TextFile.call ver statVer cfg w.file w.src c
    ({ w with src := r.1 }, some r.2)

/-- a new `TextFileSource` next to the initial file -/
def TfWorld.start (init : TextFile.FileState) : TfWorld := ⟨init, TextFile.Src.init⟩

end Vinegar.Conc

/-! ### `YamlTargetSource` -/

namespace Vinegar.Yaml

/-! the observation type of C12 (`Obs`: data with key order and version, or the exception class) has
decidable equality: the strict comparison `Val.beq` of the C11/C12 checkers decides `=` -/

mutual
theorem Val.eq_of_beq : ∀ (a b : Val), Val.beq a b = true → a = b
  | .null, b, h => by cases b <;> simp_all [Val.beq]
  | .bool _, b, h => by cases b <;> simp_all [Val.beq]
  | .int _, b, h => by cases b <;> simp_all [Val.beq]
  | .str _, b, h => by cases b <;> simp_all [Val.beq]
  | .float _, b, h => by cases b <;> simp_all [Val.beq]
  | .set _, b, h => by cases b <;> simp_all [Val.beq]
  | .opaque _, b, h => by cases b <;> simp_all [Val.beq]
  | .list xs, b, h => by
    cases b with
    | list ys => simp only [Val.beq] at h; rw [Val.eq_of_beqList xs ys h]
    | _ => simp [Val.beq] at h
  | .dict xs, b, h => by
    cases b with
    | dict ys => simp only [Val.beq] at h; rw [Val.eq_of_beqKvs xs ys h]
    | _ => simp [Val.beq] at h
theorem Val.eq_of_beqList : ∀ (a b : List Val), Val.beqList a b = true → a = b
  | [], b, h => by cases b <;> simp_all [Val.beqList]
  | x :: xs, b, h => by
    cases b with
    | nil => simp [Val.beqList] at h
    | cons y ys =>
      simp only [Val.beqList, Bool.and_eq_true] at h
      rw [Val.eq_of_beq x y h.1, Val.eq_of_beqList xs ys h.2]
theorem Val.eq_of_beqKvs : ∀ (a b : List (String × Val)), Val.beqKvs a b = true → a = b
  | [], b, h => by cases b <;> simp_all [Val.beqKvs]
  | (k, v) :: xs, b, h => by
    cases b with
    | nil => simp [Val.beqKvs] at h
    | cons y ys =>
      obtain ⟨k', w⟩ := y
      simp only [Val.beqKvs, Bool.and_eq_true, beq_iff_eq] at h
      rw [h.1.1, Val.eq_of_beq v w h.1.2, Val.eq_of_beqKvs xs ys h.2]
end

mutual
theorem Val.beq_self : ∀ v : Val, Val.beq v v = true
  | .null => by simp [Val.beq]
  | .bool _ => by simp [Val.beq]
  | .int _ => by simp [Val.beq]
  | .str _ => by simp [Val.beq]
  | .float _ => by simp [Val.beq]
  | .list xs => by simp [Val.beq, Val.beqList_self xs]
  | .dict kvs => by simp [Val.beq, Val.beqKvs_self kvs]
  | .set _ => by simp [Val.beq]
  | .opaque _ => by simp [Val.beq]
theorem Val.beqList_self : ∀ xs : List Val, Val.beqList xs xs = true
  | [] => by simp [Val.beqList]
  | x :: xs => by simp [Val.beqList, Val.beq_self x, Val.beqList_self xs]
theorem Val.beqKvs_self : ∀ kvs : List (String × Val), Val.beqKvs kvs kvs = true
  | [] => by simp [Val.beqKvs]
  | (k, v) :: rest => by simp [Val.beqKvs, Val.beq_self v, Val.beqKvs_self rest]
end

instance : DecidableEq Val := fun a b =>
  decidable_of_iff (Val.beq a b = true) ⟨Val.eq_of_beq a b, fun h => h ▸ Val.beq_self a⟩

deriving instance DecidableEq for Obs

end Vinegar.Yaml

namespace Vinegar.Conc

/-- the tree of template sources and the per-system LRU cache of the source object -/
structure YWorld where
  fs : Yaml.Fs
  cache : Yaml.Cache Yaml.Item

inductive YOp where
  /-- the pseudo-thread of the scenario: the edits of file state `k` are applied (ONE file) -/
  | write (k : Nat)
  /-- `get_data(id, {}, pdv)` -/
  | get (id : String)

/-- `none` for the file change -/
abbrev YRes := Option Yaml.Obs

/-- `states[k]` = the edits (`write` / `setTop` steps of the C12 histories) that turn the tree into
state `k`. A `get` is `Yaml.getData` (C12) on the tree as it is now; the exception is observed by
its class. `pdv` = the version of the (fixed, empty) preceding data of the scenarios. -/
def yamlStep (vf : Yaml.VerFns) (W : Yaml.World) (R : Yaml.Render) (cfg : Yaml.Cfg) (fuel : Nat) (pdv : String)
    (states : List (List Yaml.Step)) (w : YWorld) : YOp → YWorld × YRes
  | .write k => ({ w with fs := ((states[k]?).getD []).foldl Yaml.Fs.apply w.fs }, none)
  | .get id =>
    let r := Yaml.getData vf W cfg fuel w.cache (w.fs.call R id pdv)
    ({ w with cache := r.2.1 },
     some (match r.1 with
           | .ok (d, v) => .ok d v
           | .error e => .err e.cls))

end Vinegar.Conc
