import Vinegar.Model.Basic
import Vinegar.Generated.Consts
/-
C05 — executable model of the client-address restriction.

  vinegar/utils/socket.py       `_ip_address_in_subnet`  ↦ `inSubnet`
                                `_parse_ip_address`      ↦ `splitMask`, `parseAddr`
                                `_parse_ip_address_split_ipv4_ipv6` ↦ `splitClient`
                                `contains_ip_address`    ↦ `containsIp` (strings), `containsC` (typed entries)
  vinegar/utils/smart_dict.py   `_get_nested_value`, `SmartLookupDict.get` ↦ `stepKey`, `smartGet`
  vinegar/request_handler/file.py  `_handle` + the two `handle` wrappers ↦ `decideFile`
  vinegar/request_handler/sqlite_update.py `handle`                      ↦ `decideSqlite`

`socket.inet_pton` is not modelled: the two functions are parameters (`Pton`); the harness passes the
results the real `inet_pton` gave for exactly the strings the model asks about. The only facts the
theorems assume about them are the result lengths (`PtonLaw`).
-/
namespace Vinegar.Cidr
open Vinegar Vinegar.Generated

/-! ### `_ip_address_in_subnet` -/

/-- `byte_mask = 256 - (1 << (8 - remaining_bits))` -/
def byteMask (r : Nat) : Nat :=
  CIDR_SUBNET_MASK_BASE - (CIDR_SUBNET_MASK_ONE <<< (CIDR_SUBNET_BYTE_BITS - r))

/-- `_ip_address_in_subnet(ip, net, bits)`: the whole bytes first, then the masked partial byte.
The two `assert`s of the Python function (equal lengths, `bits ≤ 8·len`) hold at every call site
(see `Vinegar.C05.parse_mask_le`); outside them Python would raise, the model answers `false`. -/
def inSubnet (ip net : Bytes) (bits : Nat) : Bool :=
  let whole := bits / CIDR_SUBNET_BYTE_BITS
  if ip.take whole = net.take whole then
    let r := bits % CIDR_SUBNET_BYTE_BITS
    if r = 0 then true
    else
      match ip[whole]?, net[whole]? with
      | some a, some b => (a.toNat &&& byteMask r) == (b.toNat &&& byteMask r)
      | _, _ => false
  else false

/-! ### `_parse_ip_address` -/

/-- the two `socket.inet_pton` calls, supplied from outside -/
structure Pton where
  p4 : String → Option Bytes
  p6 : String → Option Bytes

/-- what the theorems assume about `inet_pton`: 4 resp. 16 result bytes -/
structure PtonLaw (P : Pton) : Prop where
  len4 : ∀ s b, P.p4 s = some b → b.length = 4
  len6 : ∀ s b, P.p6 s = some b → b.length = 16

inductive Fam | v4 | v6
  deriving DecidableEq, Repr

structure Parsed where
  fam : Fam
  bytes : Bytes
  mask : Nat
  deriving DecidableEq, Repr

/-- `s.rsplit("/", 1)` when `"/" in s`: (text before the last slash, text after it) -/
def rsplitSlash (s : List Char) : Option (List Char × List Char) :=
  let r := s.reverse
  match r.dropWhile (· != '/') with
  | [] => none
  | _ :: before => some (before.reverse, (r.takeWhile (· != '/')).reverse)

/-- hand-written recogniser of the generated regex `[0-9]+` under `fullmatch` -/
def isDigits (l : List Char) : Bool :=
  !l.isEmpty && l.all (fun c => '0' ≤ c && c ≤ '9')

/-- `int(text)` for a text accepted by `isDigits` -/
def decimalVal (l : List Char) : Nat :=
  l.foldl (fun a c => 10 * a + (c.toNat - 48)) 0

/-- the netmask handling at the top of `_parse_ip_address`: (address text handed to `inet_pton`,
netmask if one was recognised). A suffix that is not `[0-9]+` leaves the original text, slash
included, to `inet_pton` (which then rejects it). -/
def splitMask (allowMask : Bool) (s : String) : String × Option Nat :=
  if allowMask then
    match rsplitSlash s.toList with
    | some (a, m) => if isDigits m then (String.ofList a, some (decimalVal m)) else (s, none)
    | none => (s, none)
  else (s, none)

/-- `_parse_ip_address`; `none` = `ValueError` -/
def parseAddr (P : Pton) (allowMask : Bool) (s : String) : Option Parsed :=
  let am := splitMask allowMask s
  match P.p4 am.1 with
  | some b =>
    match am.2 with
    | none => some ⟨.v4, b, CIDR_NETMASK_DEFAULT_V4⟩
    | some m => if m > CIDR_NETMASK_MAX_V4 then none else some ⟨.v4, b, m⟩
  | none =>
    match P.p6 am.1 with
    | some b =>
      match am.2 with
      | none => some ⟨.v6, b, CIDR_NETMASK_DEFAULT_V6⟩
      | some m => if m > CIDR_NETMASK_MAX_V6 then none else some ⟨.v6, b, m⟩
    | none => none

/-! ### `_parse_ip_address_split_ipv4_ipv6`, `contains_ip_address` -/

def mappedPrefix : Bytes := CIDR_MAPPED_PREFIX.map UInt8.ofNat

/-- the client address as (IPv4 bytes if it has an IPv4 reading, IPv6 bytes) -/
def splitClient (P : Pton) (s : String) : Option (Option Bytes × Bytes) :=
  match parseAddr P false s with
  | none => none
  | some p =>
    match p.fam with
    | .v4 => some (some p.bytes, mappedPrefix ++ p.bytes)
    | .v6 =>
      if mappedPrefix.isPrefixOf p.bytes then
        some (some (p.bytes.drop (p.bytes.length - CIDR_MAPPED_V4_TAIL)), p.bytes)
      else some (none, p.bytes)

/-- one iteration of the candidate loop (entry is a `str`): `true` = `return True` -/
def candStep (P : Pton) (allowMask : Bool) (ip4 : Option Bytes) (ip6 : Bytes) (c : String) : Bool :=
  match parseAddr P allowMask c with
  | none => false
  | some p =>
    match p.fam with
    | .v4 =>
      match ip4 with
      | some b4 => !b4.isEmpty && inSubnet b4 p.bytes p.mask
      | none => false
    | .v6 => inSubnet ip6 p.bytes p.mask

/-- `contains_ip_address(cands, addr, allow_netmask)` on string entries -/
def containsIp (P : Pton) (allowMask : Bool) (cands : List String) (addr : String) : Bool :=
  match splitClient P addr with
  | none => false
  | some (ip4, ip6) => cands.any (candStep P allowMask ip4 ip6)

/-- an entry of an address collection as Python sees it: a `str`, or a value of another type
(`hashable`: may be a member of a `set`; `repr` only distinguishes entries) -/
inductive Cand
  | str (s : String)
  | bad (hashable : Bool) (repr : String)
  deriving DecidableEq, Repr

inductive CRes | allowed | denied | raised
  deriving DecidableEq, Repr

def containsLoop (P : Pton) (allowMask : Bool) (ip4 : Option Bytes) (ip6 : Bytes) : List Cand → CRes
  | [] => .denied
  | .bad _ _ :: _ => .raised          -- `"/" in 5`, `inet_pton(AF_INET, [...])` … raise TypeError/AttributeError
  | .str s :: t => if candStep P allowMask ip4 ip6 s then .allowed else containsLoop P allowMask ip4 ip6 t

/-- what the handler iterates over -/
inductive Expected
  | unrestricted                 -- `expected_client_addresses is None`
  | cands (l : List Cand)
  | nonIter                      -- a truthy non-iterable value (e.g. the int 5) stored under the key
  | raises                       -- building the collection raised (key path through a scalar, union with a bad value)
  deriving DecidableEq, Repr

/-- `contains_ip_address(expected, addr)` for typed entries: the client is parsed first (a malformed
client is rejected before the collection is touched) -/
def containsC (P : Pton) (e : List Cand) (addr : String) : CRes :=
  match splitClient P addr with
  | none => .denied
  | some (ip4, ip6) => containsLoop P true ip4 ip6 e

/-! ### `SmartLookupDict.get` as far as the key lookup needs it -/

inductive SeqKind | list | tuple | set
  deriving DecidableEq, Repr

/-- system data: JSON/YAML-like values -/
inductive Val where
  | str (s : String)
  | int (n : Int)
  | none
  | bool (b : Bool)
  | seq (kind : SeqKind) (items : List Val)
  | dict (kv : List (String × Val))

inductive Look
  | found (v : Val)
  | absent        -- KeyError → the default (None)
  | raises        -- TypeError (a key path through a scalar / string / set, non-numeric index)

def lookupKey (k : String) : List (String × Val) → Option Val
  | [] => Option.none
  | (k', v) :: t => if k' = k then some v else lookupKey k t

/-- `_get_nested_value(container, key)` -/
def stepKey (c : Val) (k : String) : Look :=
  match c with
  | .dict kv =>
    match lookupKey k kv with
    | some v => .found v
    | Option.none => .absent
  | .seq kind items =>
    if kind ≠ .set && isDigits k.toList then
      match items[decimalVal k.toList]? with
      | some v => .found v
      | Option.none => .absent
    else .raises
  | _ => .raises

def smartGetFrom (v : Val) : List String → Look
  | [] => .found v
  | k :: ks =>
    match stepKey v k with
    | .found v' => smartGetFrom v' ks
    | .absent => .absent
    | .raises => .raises

/-- `text.split(sep)` for a one-character separator -/
def splitOnChar (sep : Char) : List Char → List (List Char)
  | [] => [[]]
  | c :: t =>
    match splitOnChar sep t with
    | [] => [[]]
    | h :: r => if c = sep then [] :: h :: r else (c :: h) :: r

/-- `key.split(":")` -/
def splitColon (key : String) : List String :=
  (splitOnChar ':' key.toList).map String.ofList

/-- `SmartLookupDict(data).get(key, None)` -/
def smartGet (data : Val) (key : String) : Look :=
  smartGetFrom data (splitColon key)

def Val.truthy : Val → Bool
  | .str s => s ≠ ""
  | .int n => n ≠ 0
  | .none => false
  | .bool b => b
  | .seq _ items => !items.isEmpty
  | .dict kv => !kv.isEmpty

/-- how a value looks as a *member* of an address collection -/
def candOfVal : Val → Cand
  | .str s => .str s
  | .int n => .bad true s!"int:{n}"
  | .none => .bad true "None"
  | .bool b => .bad true s!"bool:{b}"
  | .seq .tuple _ => .bad true "tuple"
  | .seq .list _ => .bad false "list"
  | .seq .set _ => .bad false "set"
  | .dict _ => .bad false "dict"

/-- the value stored under `client_address_key`, as the handlers normalise it
(`isinstance(v, str)` → `[v]`; falsy → `[]`; otherwise used as is) -/
def expectedOfVal (v : Val) : Expected :=
  match v with
  | .str s => .cands [.str s]
  | .seq _ items => .cands (items.map candOfVal)      -- `[]` when empty (falsy)
  | .dict kv => .cands (kv.map (fun p => Cand.str p.1)) -- iterating a dict yields its keys
  | v => if v.truthy then .nonIter else .cands []

def dedup : List Cand → List Cand
  | [] => []
  | c :: t => if c ∈ t then dedup t else c :: dedup t

def Cand.hashable : Cand → Bool
  | .str _ => true
  | .bad h _ => h

/-- `self._client_address_set.union(expected)` / the set as is / the key's value as is.
`listCfg = []` means `client_address_list` is not configured (falsy). -/
def combine (listCfg : List Cand) (fromKey : Expected) : Expected :=
  if listCfg.isEmpty then fromKey
  else
    match fromKey with
    | .unrestricted => .cands (dedup listCfg)
    | .cands l => if l.all Cand.hashable then .cands (dedup (listCfg ++ l)) else .raises
    | .nonIter => .raises
    | .raises => .raises

/-! ### decision order of the handlers -/

inductive DsAction | error | ignore | warn
  deriving DecidableEq, Repr
inductive NoResult | continue_ | notFound
  deriving DecidableEq, Repr
inductive LookupMode | off | systemId | find
  deriving DecidableEq, Repr
inductive FindRes | found | notFound | raises
  deriving DecidableEq, Repr
/-- the file the request names: `noPath` = `_translate_path` gave `None`; `missing` = open/render
raised FileNotFoundError/IsADirectoryError -/
inductive FileState | present | missing | noPath
  deriving DecidableEq, Repr

structure FileCfg where
  lookup : LookupMode
  keyPath : Option String        -- `client_address_key` (none = not configured / falsy)
  listCfg : List Cand            -- iteration of `client_address_list` ([] = not configured)
  dsAction : DsAction
  noResult : NoResult
  template : Bool

/-- everything the decision may depend on besides configuration and client -/
structure World where
  find : FindRes                 -- what `find_system` does when called
  data : Option Val              -- what `get_data` returns (none = raises)
  file : FileState

inductive Outcome
  | served | notFound | forbidden | dsError | internalError
  | badRequest      -- update handler only: the request body could not be decoded (400)
  deriving DecidableEq, Repr

structure Effects where
  findCalled : Bool := false
  getDataCalled : Bool := false
  fileTouched : Bool := false    -- an `open` of the file was attempted (directly or by the template engine)
  rendered : Bool := false       -- the template engine was asked to render
  storeOps : Nat := 0
  deriving DecidableEq, Repr

def FileCfg.restricted (cfg : FileCfg) : Bool := cfg.keyPath.isSome || !cfg.listCfg.isEmpty

/-- is a system id available after the lookup phase (failures of `find_system` that are ignored
count as "no system") -/
def haveSysOf (cfg : FileCfg) (w : World) : Bool :=
  match cfg.lookup with
  | .off => false
  | .systemId => true
  | .find => w.find = .found

/-- is `get_data` called: a system id is known and the data is needed for the key or a template -/
def getDataCalledOf (cfg : FileCfg) (w : World) : Bool :=
  haveSysOf cfg w && (cfg.keyPath.isSome || cfg.template)

/-- the system data `_handle` works with (`None` when not fetched or when the failure is ignored) -/
def dataOf (cfg : FileCfg) (w : World) : Option Val :=
  if getDataCalledOf cfg w then w.data else none

/-- did the data source raise during the request -/
def dsFails (cfg : FileCfg) (w : World) : Bool :=
  (cfg.lookup = .find && w.find = .raises) || (getDataCalledOf cfg w && w.data.isNone)

/-- does `_handle` leave through a re-raised data-source exception (`data_source_error_action = error`) -/
def dsErrorExit (cfg : FileCfg) (w : World) : Bool :=
  cfg.dsAction = .error && dsFails cfg w

/-- the address collection the file handler checks against -/
def expectedFile (cfg : FileCfg) (haveSys : Bool) (data : Option Val) : Expected :=
  let fromKey : Expected :=
    match cfg.keyPath with
    | none => .unrestricted
    | some key =>
      match haveSys, data with
      | true, some d =>
        match smartGet d key with
        | .found v => expectedOfVal v
        | .absent => .cands []
        | .raises => .raises
      | _, _ => .cands []
  match fromKey with
  | .raises => .raises            -- `data.get` raised before the union is built
  | fk => combine cfg.listCfg fk

def worldExpected (cfg : FileCfg) (w : World) : Expected :=
  expectedFile cfg (haveSysOf cfg w) (dataOf cfg w)

/-- the permission check shared by the three handlers: `none` = passed -/
def permission (P : Pton) (ex : Expected) (client : String) : Option Outcome :=
  match ex with
  | .raises => some .internalError
  | .unrestricted => none
  | .nonIter =>
    match splitClient P client with
    | none => some .forbidden
    | some _ => some .internalError
  | .cands l =>
    match containsC P l client with
    | .allowed => none
    | .denied => some .forbidden
    | .raised => some .internalError

/-- the tail of `_handle` after the permission check -/
def serveFile (cfg : FileCfg) (w : World) (e : Effects) : Outcome × Effects :=
  if cfg.lookup ≠ .off && cfg.noResult = .notFound && !haveSysOf cfg w then (.notFound, e)
  else
    match w.file with
    | .noPath => (.notFound, e)
    | .missing => (.notFound, { e with fileTouched := true, rendered := cfg.template })
    | .present => (.served, { e with fileTouched := true, rendered := cfg.template })

/-- `_FileRequestHandlerBase._handle` seen through `HttpFileRequestHandler.handle` (GET/HEAD) and
`TftpFileRequestHandler.handle`: lookup, data, permission check, not-found decision, file. -/
def decideFile (P : Pton) (cfg : FileCfg) (w : World) (client : String) : Outcome × Effects :=
  let e1 : Effects := { findCalled := cfg.lookup = .find }
  if cfg.lookup = .find && w.find = .raises && cfg.dsAction = .error then (.dsError, e1)
  else
    let e2 : Effects := { e1 with getDataCalled := getDataCalledOf cfg w }
    if getDataCalledOf cfg w && w.data.isNone && cfg.dsAction = .error then (.dsError, e2)
    else
      match permission P (worldExpected cfg w) client with
      | some o => (o, e2)
      | none => serveFile cfg w e2

structure SqliteCfg where
  keyPath : Option String
  listCfg : List Cand

def SqliteCfg.restricted (cfg : SqliteCfg) : Bool := cfg.keyPath.isSome || !cfg.listCfg.isEmpty

/-- the address collection of the update handler; `data` is what `get_data` returned -/
def expectedSqlite (cfg : SqliteCfg) (data : Option Val) : Expected :=
  let fromKey : Expected :=
    match cfg.keyPath with
    | none => .unrestricted
    | some key =>
      match smartGet (data.getD .none) key with
      | .found v => expectedOfVal v
      | .absent => .cands []
      | .raises => .raises
  match fromKey with
  | .raises => .raises
  | fk => combine cfg.listCfg fk

/-- `HttpSQLiteUpdateRequestHandler.handle` (POST); `data = none`: `get_data` raises (and the
exception escapes: there is no `data_source_error_action` here); `bodyOk = false`: the action takes its
value from the request body and the body (or its Content-Length) cannot be decoded -/
def decideSqlite (P : Pton) (cfg : SqliteCfg) (data : Option Val) (client : String)
    (bodyOk : Bool := true) : Outcome × Effects :=
  let e : Effects := { getDataCalled := cfg.keyPath.isSome }
  if cfg.keyPath.isSome && data.isNone then (.dsError, e)
  else
    match permission P (expectedSqlite cfg data) client with
    | some o => (o, e)
    | none =>
      -- the body is read and decoded only now, after the access decision
      if bodyOk then (.served, { e with storeOps := 1 }) else (.badRequest, e)

end Vinegar.Cidr
