import Vinegar.Generated.Consts
/-
Model of `vinegar/template/jinja.py` (`JinjaEngine`) as far as property C17 speaks about it:

* files are `(content, stamp)`; the *stamp* abstracts what the up-to-date callbacks compare
  (`version_for_file_path` = hash of path/ctime/mtime/dev/ino/size for `_Loader`, `getmtime`
  for `jinja2.FileSystemLoader`),
* templates are a small abstract syntax (`Node`); the harness adapter prints the same syntax
  as real Jinja source, so "compiling" a file is the identity on `Tmpl`,
* the engine state is Jinja's template cache `name ↦ (compiled content, captured stamp)`,
* `getTemplate` is `Environment._load_template` with `auto_reload` on: a cached template is
  reused iff its loader's up-to-date callable says so, per loader kind (`_Loader` with/without
  cache, `FileSystemLoader`, `_NoCacheFileSystemLoader` — the latter in its REPAIRED form (D11):
  the callable takes no argument and returns `False`),
* `renderTemplate` evaluates include/import through `joinPath`
  (`_Environment.join_path` / `jinja2.Environment.join_path`) and `getTemplate`; an include with
  `ignore missing` swallows the `TemplateNotFound` of its own `get_template` call and nothing else
  (`onGetError`),
* `checkAccess`/`pyGet` are `_PythonHelper._check_access` / `__getitem__`.

What is modelled and not verified: Jinja2's own cache (unbounded here; the real LRU only evicts,
which causes additional reloads), `auto_reload`, its compiler, and the fact that an imported
template's module is evaluated on every import (real Jinja2 memoises it per compiled template;
see the finding recorded for C17).

Names are kept as the result of Python's `name.split("/")` (`Name`), so `"a/b"` is
`["a","b"]`, `"/a"` is `["","a"]` and `""` is `[""]`.
-/
namespace Vinegar.Jinja
open Vinegar

abbrev Str := List Char
/-- absolute, normalised file path: the segments below `/` -/
abbrev Path := List String
/-- a template name, split at `/` -/
abbrev Name := List String
/-- template context: the first binding of a key counts -/
abbrev Ctx := List (String × String)

inductive Node where
  /-- literal text -/
  | text (s : String)
  /-- `{{ x }}` -/
  | var (x : String)
  /-- `{% include "name" %}` -/
  | incl (n : Name)
  /-- `{% include "name" ignore missing %}`: as `incl`, except that a `TemplateNotFound` raised by
  *getting* that very template renders as the empty string -/
  | inclOpt (n : Name)
  /-- `{% import "name" as m %}{{ m }}` (the imported module's body, evaluated without context) -/
  | imp (n : Name)
  /-- `{{ python["key"] }}` -/
  | py (key : Str)
deriving Repr, DecidableEq

abbrev Tmpl := List Node

inductive Err where
  /-- `FileNotFoundError` (from `jinja2.TemplateNotFound`) -/
  | notFound
  /-- `NotADirectoryError` escaping `_Loader.get_source` -/
  | notADir
  /-- include depth exhausted (`RecursionError`) -/
  | recursion
  /-- `python` helper not configured: `UndefinedError` -/
  | undefined
  /-- key without a dot: `ValueError` -/
  | valueError
  /-- module not allowed: `RuntimeError` -/
  | runtimeError
  /-- `importlib.import_module` failed: `ModuleNotFoundError` -/
  | moduleNotFound
deriving Repr, DecidableEq

def Err.name : Err → String
  | .notFound => "FileNotFoundError"
  | .notADir => "NotADirectoryError"
  | .recursion => "RecursionError"
  | .undefined => "UndefinedError"
  | .valueError => "ValueError"
  | .runtimeError => "RuntimeError"
  | .moduleNotFound => "ModuleNotFoundError"

abbrev Outcome := Except Err String

/-! ### paths: `os.path.join`, `os.path.normpath`, `os.path.abspath` on split names -/

def parentSeg : String := Generated.JINJA_PARENT_SEG

/-- `name.startswith("/")` -/
def isAbs (n : Name) : Bool :=
  match n with
  | s :: _ :: _ => s == ""
  | _ => false

/-- one iteration of the `for comp in comps` loop of `posixpath.normpath`; `acc` is
`new_comps` reversed -/
def normStep (abs : Bool) (acc : List String) (comp : String) : List String :=
  if comp == "" || comp == "." then acc
  else if comp != ".." then comp :: acc
  else match acc with
    | [] => if abs then [] else [".."]
    | top :: rest => if top == ".." then ".." :: top :: rest else rest

def normSegs (abs : Bool) (comps : List String) : List String :=
  (comps.foldl (normStep abs) []).reverse

/-- `path.startswith("//") and not path.startswith("///")`: POSIX keeps exactly two leading
slashes -/
def doubleSlash (n : Name) : Bool :=
  match n with
  | a :: b :: rest =>
    a == "" && b == "" &&
      (match rest with
       | [] => false
       | [_] => true
       | c :: _ :: _ => c != "")
  | _ => false

/-- `os.path.normpath` -/
def normpath (n : Name) : Name :=
  let segs := normSegs (isAbs n) n
  if isAbs n then
    (if doubleSlash n then ["", ""] else [""]) ++ (if segs.isEmpty then [""] else segs)
  else if segs.isEmpty then ["."] else segs

/-- `os.path.join(a, b)` -/
def pyJoin (a b : Name) : Name :=
  if isAbs b then b
  else if a == [""] then b
  else if a.getLast? == some "" then a.dropLast ++ b
  else a ++ b

/-- `os.path.abspath(name)` with the process working directory `cwd`, as a `Path` -/
def absPath (cwd : Path) (n : Name) : Path :=
  normSegs true (if isAbs n then n else cwd ++ n)

/-- `_Environment.join_path` (relative_includes) resp. `jinja2.Environment.join_path` -/
def joinPath (relative : Bool) (template parent : Name) : Name :=
  if relative then normpath (pyJoin (pyJoin parent [parentSeg]) template) else template

/-! ### files, loaders, cache -/

abbrev FS := Path → Option (Tmpl × Nat)
abbrev Cache := Name → Option (Tmpl × Nat)

def FS.empty : FS := fun _ => none
def Cache.empty : Cache := fun _ => none

def FS.write (fs : FS) (p : Path) (t : Tmpl) (stamp : Nat) : FS :=
  fun q => if q = p then some (t, stamp) else fs q

def FS.delete (fs : FS) (p : Path) : FS :=
  fun q => if q = p then none else fs q

def Cache.set (c : Cache) (n : Name) (t : Tmpl) (stamp : Nat) : Cache :=
  fun m => if m = n then some (t, stamp) else c m

/-- some proper prefix of `p` is a regular file (`open` then fails with `ENOTDIR`) -/
def underFile (fs : FS) (p : Path) : Bool :=
  (List.range p.length).any (fun k => (fs (p.take k)).isSome)

structure Cfg where
  /-- `root_dir` (as the path of the directory); `none` selects `_Loader` -/
  root : Option Path
  /-- working directory of the process (only `_Loader` depends on it) -/
  cwd : Path
  cacheEnabled : Bool
  relative : Bool
  /-- the `context` option -/
  baseCtx : Ctx
  /-- normalised `provide_python_modules` (`[]` = helper absent) -/
  allow : List Str
  /-- importable modules with their (string) attributes -/
  modules : List (Str × List (Str × String))

inductive Res where
  | found (t : Tmpl) (stamp : Nat)
  | notFound
  | notADir

/-- `jinja2.loaders.split_template_path`: `none` = `TemplateNotFound` -/
def splitTemplatePath (n : Name) : Option (List String) :=
  if n.any (fun s => s == "..") then none
  else some (n.filter (fun s => !(s == "" || s == ".")))

/-- the file `jinja2.FileSystemLoader(root).get_source` reads (`os.path.isfile` must hold) -/
def rootPath (root : Path) (n : Name) : Option Path :=
  (splitTemplatePath n).map (root ++ ·)

/-- `FileSystemLoader.get_source` / `_NoCacheFileSystemLoader.get_source` -/
def rootGetSource (root : Path) (fs : FS) (n : Name) : Res :=
  match rootPath root n with
  | none => .notFound
  | some q =>
    match fs q with
    | some (t, s) => .found t s
    | none => .notFound

/-- `_Loader.get_source` -/
def plainGetSource (cwd : Path) (fs : FS) (n : Name) : Res :=
  match fs (absPath cwd n) with
  | some (t, s) => .found t s
  | none => if underFile fs (absPath cwd n) then .notADir else .notFound

def getSource (cfg : Cfg) (fs : FS) (n : Name) : Res :=
  match cfg.root with
  | some r => rootGetSource r fs n
  | none => plainGetSource cfg.cwd fs n

def stampAt (fs : FS) (p : Path) : Option Nat := (fs p).map (·.2)

/-- the up-to-date callable handed to Jinja by the configured loader, evaluated on the current
files; `captured` is the stamp taken when the template was loaded -/
def upToDate (cfg : Cfg) (fs : FS) (n : Name) (captured : Nat) : Bool :=
  match cfg.root, cfg.cacheEnabled with
  | none, true =>
    -- `up_to_date_with_cache`: version_for_file_path(template) == file_version
    stampAt fs (absPath cfg.cwd n) == some captured
  | none, false =>
    -- `up_to_date_no_cache`
    false
  | some r, true =>
    -- `FileSystemLoader.uptodate`: getmtime(filename) == mtime; OSError ⇒ False
    match rootPath r n with
    | some q => stampAt fs q == some captured
    | none => false
  | some _, false =>
    -- `_NoCacheFileSystemLoader` (repaired, D11): `lambda: False`
    false

def Res.toExcept : Res → Except Err Tmpl
  | .found t _ => .ok t
  | .notFound => .error .notFound
  | .notADir => .error .notADir

/-- `loader.load` + cache store of `Environment._load_template` -/
def loadTemplate (cfg : Cfg) (fs : FS) (c : Cache) (n : Name) : Except Err Tmpl × Cache :=
  match getSource cfg fs n with
  | .found t s => (.ok t, c.set n t s)
  | .notFound => (.error .notFound, c)
  | .notADir => (.error .notADir, c)

/-- `Environment._load_template` (`auto_reload` on) -/
def getTemplate (cfg : Cfg) (fs : FS) (c : Cache) (n : Name) : Except Err Tmpl × Cache :=
  match c n with
  | some (t, s) => if upToDate cfg fs n s then (.ok t, c) else loadTemplate cfg fs c n
  | none => loadTemplate cfg fs c n

/-! ### the `python` helper -/

def wildcardAll : Str := Generated.JINJA_WILDCARD_ALL.toList
def wildcardSuffix : Str := Generated.JINJA_WILDCARD_SUFFIX.toList

/-- one iteration of the loop in `_check_access` -/
def entryAllows (entry m : Str) : Bool :=
  if entry == wildcardAll then true
  else if wildcardSuffix.isSuffixOf entry then
    (entry.take (entry.length - Generated.JINJA_WILDCARD_STRIP)).isPrefixOf m
  else entry == m

/-- the uncached decision of `_check_access` -/
def scanAllow (allow : List Str) (m : Str) : Bool := allow.any (fun e => entryAllows e m)

structure Helper where
  allow : List Str
  /-- `self._cache`, most recent first -/
  cache : List (Str × Bool)

/-- `_check_access` with its decision cache: `true` = returns, `false` = raises `RuntimeError` -/
def checkAccess (h : Helper) (m : Str) : Bool × Helper :=
  match h.cache.lookup m with
  | some a => (a, h)
  | none =>
    let a := scanAllow h.allow m
    let kept := if h.cache.length ≥ Generated.JINJA_ALLOW_CACHE_BOUND then [] else h.cache
    (a, { h with cache := (m, a) :: kept })

def checkAccessSeq (h : Helper) : List Str → List Bool
  | [] => []
  | m :: rest => (checkAccess h m).1 :: checkAccessSeq (checkAccess h m).2 rest

/-- `key.rsplit(".", 1)` on the reversed key: `(module, attribute)` -/
def rsplitDotRev : Str → Str → Option (Str × Str)
  | [], _ => none
  | c :: rest, acc => if c == '.' then some (rest.reverse, acc) else rsplitDotRev rest (c :: acc)

def rsplitDot (key : Str) : Option (Str × Str) := rsplitDotRev key.reverse []

inductive AllowCfg where
  | none
  | str (s : Str)
  | list (l : List Str)

/-- `if allowed_python_modules:` + the `isinstance(…, str)` wrapping -/
def normAllow : AllowCfg → List Str
  | .none => []
  | .str s => if s.isEmpty then [] else [s]
  | .list l => l

/-- `{{ python[key] }}`; an attribute the module does not have renders as Jinja's `Undefined`,
i.e. the empty string -/
def pyGet (allow : List Str) (mods : List (Str × List (Str × String))) (key : Str) : Outcome :=
  if allow.isEmpty then .error .undefined
  else match rsplitDot key with
    | none => .error .valueError
    | some (m, a) =>
      if scanAllow allow m then
        match mods.lookup m with
        | none => .error .moduleNotFound
        | some attrs => .ok ((attrs.lookup a).getD "")
      else .error .runtimeError

/-! ### rendering -/

/-- `dict(context).update(base_context)` as far as lookups can tell -/
def mergeCtx (base caller : Ctx) : Ctx := base ++ caller

def lookupVar (ctx : Ctx) (x : String) : String := (ctx.lookup x).getD ""

/-- what the compiled include does with an exception of `environment.get_template`: with
`ignore missing` the code is `try: template = get_template(…) except TemplateNotFound: pass else:
<render it>`, so exactly the `TemplateNotFound` of that call is swallowed (nothing is written);
every other exception (`NotADirectoryError` escaping `_Loader.get_source`) and every exception of
the `else` branch (rendering the included template) propagates -/
def onGetError : Bool → Err → Outcome
  | true, .notFound => .ok ""
  | _, e => .error e

/-- body of a compiled template; `sub opt` is `environment.get_template(name, parent).render…`,
`opt` = inside the `try … except TemplateNotFound` of `ignore missing` -/
def renderNodes (cfg : Cfg) (sub : Bool → Name → Ctx → Cache → Outcome × Cache) (ctx : Ctx) :
    List Node → Cache → Outcome × Cache
  | [], c => (.ok "", c)
  | n :: rest, c =>
    let r : Outcome × Cache :=
      match n with
      | .text s => (.ok s, c)
      | .var x => (.ok (lookupVar ctx x), c)
      | .incl t => sub false t ctx c
      | .inclOpt t => sub true t ctx c
      | .imp t => sub false t [] c
      | .py key => (pyGet cfg.allow cfg.modules key, c)
    match r.1 with
    | .error e => (.error e, r.2)
    | .ok s =>
      let r2 := renderNodes cfg sub ctx rest r.2
      (r2.1.map (s ++ ·), r2.2)

/-- `environment.get_template(name)` followed by rendering with `ctx`; `fuel` bounds the
include depth; `opt` = the call comes from an `ignore missing` include (only the failure of THIS
`get_template` is affected by it: the nested includes carry their own flags) -/
def renderTemplate (cfg : Cfg) (fs : FS) : Nat → Bool → Name → Ctx → Cache → Outcome × Cache
  | 0, _, _, _, c => (.error .recursion, c)
  | fuel + 1, opt, name, ctx, c =>
    match getTemplate cfg fs c name with
    | (.error e, c') => (onGetError opt e, c')
    | (.ok t, c') =>
      renderNodes cfg
        (fun o t' ctx' c'' => renderTemplate cfg fs fuel o (joinPath cfg.relative t' name) ctx' c'')
        ctx t c'

/-- `JinjaEngine.render` -/
def engineRender (cfg : Cfg) (fuel : Nat) (fs : FS) (c : Cache) (name : Name) (caller : Ctx) :
    Outcome × Cache :=
  renderTemplate cfg fs fuel false name (mergeCtx cfg.baseCtx caller) c

/-! ### histories -/

inductive Op where
  /-- create or overwrite a file; the stamp is what `stat` will report afterwards -/
  | write (p : Path) (t : Tmpl) (stamp : Nat)
  | delete (p : Path)
  | render (name : Name) (caller : Ctx)

structure St where
  fs : FS
  cache : Cache

def step (cfg : Cfg) (fuel : Nat) (st : St) : Op → St × Option Outcome
  | .write p t s => ({ st with fs := st.fs.write p t s }, none)
  | .delete p => ({ st with fs := st.fs.delete p }, none)
  | .render name caller =>
    let r := engineRender cfg fuel st.fs st.cache name caller
    ({ st with cache := r.2 }, some r.1)

/-- outcomes of the `render` operations of a history, in order -/
def run (cfg : Cfg) (fuel : Nat) : St → List Op → List Outcome
  | _, [] => []
  | st, op :: rest =>
    match (step cfg fuel st op).2 with
    | some o => o :: run cfg fuel (step cfg fuel st op).1 rest
    | none => run cfg fuel (step cfg fuel st op).1 rest

/-- the same history where every `render` is done by a freshly constructed engine -/
def runFresh (cfg : Cfg) (fuel : Nat) : FS → List Op → List Outcome
  | _, [] => []
  | fs, .write p t s :: rest => runFresh cfg fuel (fs.write p t s) rest
  | fs, .delete p :: rest => runFresh cfg fuel (fs.delete p) rest
  | fs, .render name caller :: rest =>
    (engineRender cfg fuel fs Cache.empty name caller).1 :: runFresh cfg fuel fs rest

/-! ### Jinja2's actual import behaviour (not part of the verified model)

`jinja2.Template._get_default_module` memoises the module of an imported template per compiled
template object. The functions below replay that; they are used only to decide whether a stale
output observed on the implementation is *exactly* the recorded finding "import memo" and nothing
else. No theorem is about them. -/

abbrev MCache := Name → Option (Tmpl × Nat × Option String)

def MCache.empty : MCache := fun _ => none

def getTemplateM (cfg : Cfg) (fs : FS) (c : MCache) (n : Name) : Except Err Tmpl × MCache :=
  let load : Except Err Tmpl × MCache :=
    match getSource cfg fs n with
    | .found t s => (.ok t, fun m => if m = n then some (t, s, none) else c m)
    | .notFound => (.error .notFound, c)
    | .notADir => (.error .notADir, c)
  match c n with
  | some (t, s, _) => if upToDate cfg fs n s then (.ok t, c) else load
  | none => load

/-- `sub asImport opt` -/
def renderNodesM (cfg : Cfg) (sub : Bool → Bool → Name → Ctx → MCache → Outcome × MCache) (ctx : Ctx) :
    List Node → MCache → Outcome × MCache
  | [], c => (.ok "", c)
  | n :: rest, c =>
    let r : Outcome × MCache :=
      match n with
      | .text s => (.ok s, c)
      | .var x => (.ok (lookupVar ctx x), c)
      | .incl t => sub false false t ctx c
      | .inclOpt t => sub false true t ctx c
      | .imp t => sub true false t [] c
      | .py key => (pyGet cfg.allow cfg.modules key, c)
    match r.1 with
    | .error e => (.error e, r.2)
    | .ok s =>
      let r2 := renderNodesM cfg sub ctx rest r.2
      (r2.1.map (s ++ ·), r2.2)

def renderTemplateM (cfg : Cfg) (fs : FS) :
    Nat → Bool → Bool → Name → Ctx → MCache → Outcome × MCache
  | 0, _, _, _, _, c => (.error .recursion, c)
  | fuel + 1, asImport, opt, name, ctx, c =>
    match getTemplateM cfg fs c name with
    | (.error e, c') => (onGetError opt e, c')
    | (.ok t, c') =>
      match (if asImport then (c' name).bind (·.2.2) else none) with
      | some memo => (.ok memo, c')
      | none =>
        let r := renderNodesM cfg
          (fun i o t' ctx' c'' =>
            renderTemplateM cfg fs fuel i o (joinPath cfg.relative t' name) ctx' c'')
          ctx t c'
        if asImport then
          match r.1 with
          | .ok s =>
            (r.1, fun m => if m = name then (r.2 name).map (fun e => (e.1, e.2.1, some s)) else r.2 m)
          | .error _ => r
        else r

def runMemo (cfg : Cfg) (fuel : Nat) : FS → MCache → List Op → List Outcome
  | _, _, [] => []
  | fs, c, .write p t s :: rest => runMemo cfg fuel (fs.write p t s) c rest
  | fs, c, .delete p :: rest => runMemo cfg fuel (fs.delete p) c rest
  | fs, c, .render name caller :: rest =>
    let r := renderTemplateM cfg fs fuel false false name (mergeCtx cfg.baseCtx caller) c
    r.1 :: runMemo cfg fuel fs r.2 rest

end Vinegar.Jinja
