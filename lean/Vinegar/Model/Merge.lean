import Vinegar.Model.Basic
/-
Model of `vinegar/data_source/__init__.py` (`merge_data_trees`, `_merge_data_trees`,
`_CompositeDataSource.get_data` / `find_system`) and of
`vinegar/utils/version.py` (`aggregate_version`, `version_for_str`).      (property C13)

Value domain.  `Val` models the Python values the data trees are built from:
`None`, `bool`, `int`, `str`, `bytes`, `float` (carried as its `repr` string), `list`,
`tuple`, `set` (a list of its elements; the order of that list carries no meaning — the
harness sorts sets on both sides before comparing), and `dict` as an association list in
insertion order.  Dictionary keys are restricted to hashable *scalars* (`Key`): `None`,
`bool`, `int`, `str`, `bytes`, `float`; tuples / frozensets as keys are outside the model.
A Python `dict` has pairwise different keys; that representation invariant is `dictWf`
and appears as a hypothesis exactly where a theorem needs it.
Floats are restricted to finite, non-integral values, so that a float never equals an
`int`/`bool` and two floats are equal iff their `repr` is (no NaN, no `1.0 == 1`).
-/
namespace Vinegar.Merge

/-- hashable scalars that may be dictionary keys -/
inductive Key where
  | none
  | bool (b : Bool)
  | int (i : Int)
  | str (s : String)
  | bytes (b : Bytes)
  | float (repr : String)
  deriving DecidableEq, Repr, Inhabited

inductive Val where
  | none
  | bool (b : Bool)
  | int (i : Int)
  | str (s : String)
  | bytes (b : Bytes)
  | float (repr : String)
  | list (xs : List Val)
  | tuple (xs : List Val)
  | set (xs : List Val)
  | dict (kvs : List (Key × Val))
  deriving Repr, Inhabited

abbrev Dict := List (Key × Val)

/-! ### Python equality -/

/-- `True == 1`, `False == 0`: a key is looked up by its numeric normal form. -/
def Key.norm : Key → Key
  | .bool b => .int (if b then 1 else 0)
  | k => k

/-- `k1 == k2` (and equal hashes) for keys -/
def Key.pyEq (a b : Key) : Bool := a.norm == b.norm

/-- `tree[key]` / `key in tree`: the value stored under a key equal to `k` -/
def lookup (k : Key) : Dict → Option Val
  | [] => Option.none
  | (k', v) :: rest => if Key.pyEq k' k then some v else lookup k rest

def hasKey (k : Key) (d : Dict) : Bool := (lookup k d).isSome

def keysOf (d : Dict) : List Key := d.map (·.1)

mutual
/-- Python `==` on the modelled values (first argument = the left operand) -/
def pyEq : Val → Val → Bool
  | .none, .none => true
  | .bool a, .bool b => a == b
  | .bool a, .int i => (if a then 1 else 0) == i
  | .int i, .bool a => i == (if a then 1 else 0)
  | .int i, .int j => i == j
  | .str a, .str b => a == b
  | .bytes a, .bytes b => a == b
  | .float a, .float b => a == b
  | .list a, .list b => pyEqList a b
  | .tuple a, .tuple b => pyEqList a b
  | .set a, .set b => subsetBy a b && b.all (fun y => anyL a y)
  | .dict a, .dict b => a.length == b.length && dictSub a b
  | _, _ => false
termination_by structural x => x
/-- sequences compare element by element -/
def pyEqList : List Val → List Val → Bool
  | [], [] => true
  | x :: xs, y :: ys => pyEq x y && pyEqList xs ys
  | _, _ => false
termination_by structural x => x
/-- every element of the first list equals some element of the second -/
def subsetBy : List Val → List Val → Bool
  | [], _ => true
  | x :: xs, b => b.any (fun y => pyEq x y) && subsetBy xs b
termination_by structural x => x
/-- some element of the list equals `y` -/
def anyL : List Val → Val → Bool
  | [], _ => false
  | x :: xs, y => pyEq x y || anyL xs y
termination_by structural x => x
/-- every entry of the first dict has an equal value under an equal key in the second -/
def dictSub : Dict → Dict → Bool
  | [], _ => true
  | (k, v) :: rest, b =>
    (match lookup k b with
     | some v' => pyEq v v'
     | Option.none => false) && dictSub rest b
termination_by structural x => x
end

/-- `e in l` (`list.__contains__` compares `item == e` for the items in order) -/
def pyMem (e : Val) (l : List Val) : Bool := l.any (fun m => pyEq m e)

/-! ### structural equality (used by the spec checkers and for comparing observations) -/

mutual
def Val.beq : Val → Val → Bool
  | .none, .none => true
  | .bool a, .bool b => a == b
  | .int a, .int b => a == b
  | .str a, .str b => a == b
  | .bytes a, .bytes b => a == b
  | .float a, .float b => a == b
  | .list a, .list b => Val.beqList a b
  | .tuple a, .tuple b => Val.beqList a b
  | .set a, .set b => Val.beqList a b
  | .dict a, .dict b => Val.beqDict a b
  | _, _ => false
termination_by structural x => x
def Val.beqList : List Val → List Val → Bool
  | [], [] => true
  | x :: xs, y :: ys => Val.beq x y && Val.beqList xs ys
  | _, _ => false
termination_by structural x => x
def Val.beqDict : Dict → Dict → Bool
  | [], [] => true
  | (k, v) :: xs, (k', v') :: ys => k == k' && Val.beq v v' && Val.beqDict xs ys
  | _, _ => false
termination_by structural x => x
end

instance : BEq Val := ⟨Val.beq⟩

/-! ### kinds (the `isinstance` tests of `_merge_data_trees`) -/

/-- `Mapping` / `Sequence` that is not `str`/`bytes`/… / `Set` / anything else -/
inductive Kind where
  | mapping | seq | set | other
  deriving DecidableEq, Repr

def Val.kind : Val → Kind
  | .dict _ => .mapping
  | .list _ => .seq
  | .tuple _ => .seq
  | .set _ => .set
  | _ => .other

def Val.isMapping (v : Val) : Bool := v.kind == .mapping
def Val.isSeq (v : Val) : Bool := v.kind == .seq
def Val.isSet (v : Val) : Bool := v.kind == .set

/-- the elements of a list / tuple / set (`list(value)`, iteration) -/
def Val.elems : Val → List Val
  | .list xs => xs
  | .tuple xs => xs
  | .set xs => xs
  | _ => []

/-- the three `raise TypeError(...)` sites -/
inductive TypeError where
  | mapping | set | sequence
  deriving DecidableEq, Repr

/--
```
merged_list = list(value)
for element in override_value:
    if element not in merged_list:
        merged_list += [element]
```
Also `value | override_value` for sets: copy the left set, add every element of the right
one that is not yet present.
-/
def appendUnseen (merged : List Val) : List Val → List Val
  | [] => merged
  | e :: rest =>
    if pyMem e merged then appendUnseen merged rest else appendUnseen (merged ++ [e]) rest

/--
```
for key, value in tree2.items():
    if key not in merged:
        merged[key] = value
```
-/
def addNew (merged : Dict) : Dict → Dict
  | [] => merged
  | (k, v) :: rest =>
    if hasKey k merged then addNew merged rest else addNew (merged ++ [(k, v)]) rest

/-- the `elif` chain for a key present in both trees, when not both values are mappings -/
def mergeLeaf (ml ms : Bool) (v ov : Val) : Except TypeError Val :=
  if ml && v.isSeq && ov.isSeq then .ok (.list (appendUnseen v.elems ov.elems))
  else if ms && v.isSet && ov.isSet then .ok (.set (appendUnseen v.elems ov.elems))
  else if v.isMapping || ov.isMapping then .error .mapping
  else if ms && (v.isSet || ov.isSet) then .error .set
  else if ml && (v.isSeq || ov.isSeq) then .error .sequence
  else .ok ov

mutual
/-- the body of `if key in tree2:` — value for a key that both trees have; two mappings are
merged by the recursive call `_merge_data_trees(value, override_value, …)` (first loop
`mergeEntries`, second loop `addNew`) -/
def mergeVal (ml ms : Bool) : Val → Val → Except TypeError Val
  | .dict a, .dict b =>
    match mergeEntries ml ms a b with
    | .ok m => .ok (.dict (addNew m b))
    | .error e => .error e
  | v, ov => mergeLeaf ml ms v ov
termination_by structural x => x
/-- the first loop: `for key, value in tree1.items(): …` -/
def mergeEntries (ml ms : Bool) : Dict → Dict → Except TypeError Dict
  | [], _ => .ok []
  | (k, v) :: rest, b =>
    match lookup k b with
    | some ov =>
      match mergeVal ml ms v ov with
      | .error e => .error e
      | .ok r =>
        match mergeEntries ml ms rest b with
        | .ok m => .ok ((k, r) :: m)
        | .error e => .error e
    | Option.none =>
      match mergeEntries ml ms rest b with
      | .ok m => .ok ((k, v) :: m)
      | .error e => .error e
termination_by structural x => x
end

/-- `_merge_data_trees(tree1, tree2, merge_lists, merge_sets, _)`: first loop, second loop,
`return merged` -/
def mergeDict (ml ms : Bool) (a b : Dict) : Except TypeError Dict :=
  match mergeEntries ml ms a b with
  | .ok m => .ok (addNew m b)
  | .error e => .error e

/-- `merge_data_trees(tree1, tree2, merge_lists, merge_sets)` -/
def mergeDataTrees (ml ms : Bool) (a b : Dict) : Except TypeError Dict := mergeDict ml ms a b

/-! ### representation invariant of dictionaries -/

/-- no two keys of the association list are equal in Python's sense -/
def distinctKeys : Dict → Bool
  | [] => true
  | (k, _) :: rest => !hasKey k rest && distinctKeys rest

mutual
/-- every dictionary inside the value has pairwise different keys -/
def Val.wf : Val → Bool
  | .list xs => listWf xs
  | .tuple xs => listWf xs
  | .set xs => listWf xs
  | .dict d => distinctKeys d && dictWf d
  | _ => true
termination_by structural x => x
def listWf : List Val → Bool
  | [] => true
  | x :: xs => x.wf && listWf xs
termination_by structural x => x
/-- all values stored in the dictionary are well formed -/
def dictWf : Dict → Bool
  | [] => true
  | (_, v) :: rest => v.wf && dictWf rest
termination_by structural x => x
end

/-- a dictionary as Python can build it: distinct keys here and in every nested dict -/
def Dict.wf (d : Dict) : Bool := distinctKeys d && dictWf d

/-! ### version aggregation -/

/-- `"|".join(versions)` -/
def joinSep : List String → String
  | [] => ""
  | [v] => v
  | v :: rest => v ++ "|" ++ joinSep rest

/-- `aggregate_version(versions) = _hash_str("|".join(versions))`, `H` = `version_for_str` -/
def aggregateVersion (H : String → String) (vs : List String) : String := H (joinSep vs)

/-! ### composite data source -/

/-- what a composite can raise: the merge's `TypeError`, or whatever a source raised
(identified by the class name) -/
inductive CompErr where
  | typeError (e : TypeError)
  | raised (cls : String)
  deriving DecidableEq, Repr

/-- an abstract data source: `get_data(system_id, preceding_data, preceding_version)`
returns `(data, version)` or raises; `find_system(key, value)` returns an id, `None`, or
raises. -/
structure Source where
  getData : String → Dict → String → Except String (Dict × String)
  findSystem : String → Val → Except String (Option String)

/-- arguments one source was called with -/
structure GetCall where
  sid : String
  pd : Dict
  pv : String

/--
```
for data_source in self._data_sources:
    new_data, new_data_version = data_source.get_data(system_id, preceding_data, preceding_data_version)
    preceding_data = merge_data_trees(preceding_data, new_data, self._merge_lists, self._merge_sets)
    preceding_data_version = aggregate_version([preceding_data_version, new_data_version])
return preceding_data, preceding_data_version
```
Returns the log of `get_data` calls together with the outcome.
-/
def compositeRun (H : String → String) (ml ms : Bool) :
    List Source → String → Dict → String → List GetCall × Except CompErr (Dict × String)
  | [], _, pd, pv => ([], .ok (pd, pv))
  | s :: rest, sid, pd, pv =>
    match s.getData sid pd pv with
    | .error c => ([⟨sid, pd, pv⟩], .error (.raised c))
    | .ok (nd, nv) =>
      match mergeDict ml ms pd nd with
      | .error e => ([⟨sid, pd, pv⟩], .error (.typeError e))
      | .ok pd' =>
        let r := compositeRun H ml ms rest sid pd' (aggregateVersion H [pv, nv])
        (⟨sid, pd, pv⟩ :: r.1, r.2)

def compositeGet (H : String → String) (ml ms : Bool) (srcs : List Source) (sid : String)
    (pd : Dict) (pv : String) : Except CompErr (Dict × String) :=
  (compositeRun H ml ms srcs sid pd pv).2

def compositeLog (H : String → String) (ml ms : Bool) (srcs : List Source) (sid : String)
    (pd : Dict) (pv : String) : List GetCall :=
  (compositeRun H ml ms srcs sid pd pv).1

/--
```
for data_source in self._data_sources:
    result = data_source.find_system(lookup_key, lookup_value)
    if result is not None:
        return result
return None
```
Returns the number of sources that were asked together with the outcome.
-/
def compositeFindRun : List Source → String → Val → Nat × Except String (Option String)
  | [], _, _ => (0, .ok Option.none)
  | s :: rest, k, v =>
    match s.findSystem k v with
    | .ok Option.none =>
      let r := compositeFindRun rest k v
      (r.1 + 1, r.2)
    | r => (1, r)

def compositeFind (srcs : List Source) (k : String) (v : Val) : Except String (Option String) :=
  (compositeFindRun srcs k v).2

end Vinegar.Merge
