/-
Model of `vinegar/data_source/yaml_target.py` (`YamlTargetSource`, `_DataCompiler`, the
per-system cache item), of `vinegar/utils/cache.py` (`LRUCache`, `NullCache`) and of the
part of `merge_data_trees` that the YAML source uses (C11, C12; DESIGN.md §5).

What is modelled and what is shared with the implementation
* PyYAML and Jinja are NOT modelled. A file of the tree is, for one call, either a
  directory, a file whose rendering fails, or a rendered text; `parse` maps a rendered text
  to "parse error | not a mapping | ordered mapping". The harness obtains these facts with
  the real libraries and ships them to the driver.
* Names are lists of segments (`"a..b"` = `["a","","b"]`, the empty name = `[""]`); the
  driver splits the strings of the files at `.` exactly like `str.split(".")`. A path of the
  tree is the list of the non-empty segments; `p` stands for the file `p₁/…/pₙ.yaml`, so
  `p ++ ["init"]` is `p₁/…/pₙ/init.yaml`.
* Versions are strings. `ver` (the hash of a rendered text) and `agg` (`aggregate_version`)
  are parameters; that they are injective is a HYPOTHESIS of the C12 theorems.
* The model describes the REPAIRED behaviour for D14 (pre- and post-include pieces carry the
  versions `v ++ ":0"` / `v ++ ":1"`) and D15 (a file name already processed in this
  compile is reused, not rendered again) — DESIGN.md Appendix D.
-/
namespace Vinegar.Yaml

/-! ## Values and merge -/

/-- parsed YAML value (keys of mappings are strings: domain restriction of the model) -/
inductive Val where
  | null
  | bool (b : Bool)
  | int (i : Int)
  | str (s : String)
  | float (repr : String)
  | list (xs : List Val)
  | dict (kvs : List (String × Val))
  | set (xs : List String)          -- `!!set` of strings, kept sorted and duplicate-free
  | opaque (repr : String)          -- anything else (dates, binary …): replaced, never merged
  deriving Repr, Inhabited

abbrev Mapping := List (String × Val)

def lookup (k : String) : Mapping → Option Val
  | [] => none
  | (k', v) :: rest => if k' = k then some v else lookup k rest

def hasKey (k : String) (m : Mapping) : Bool := m.any (fun p => p.1 == k)

mutual
/-- structural equality that ignores the key order of mappings and identifies `True`/`1`,
`False`/`0` — Python's `==`, as used by `element not in merged_list` -/
def pyEq : Val → Val → Bool
  | .null, .null => true
  | .bool a, .bool b => a == b
  | .int a, .int b => a == b
  | .bool a, .int b => (if a then 1 else 0) == b
  | .int a, .bool b => a == (if b then 1 else 0)
  | .str a, .str b => a == b
  | .float a, .float b => a == b
  | .list a, .list b => pyEqList a b
  | .dict a, .dict b => a.length == b.length && pyEqDict a b
  | .set a, .set b => a == b
  | .opaque a, .opaque b => a == b
  | _, _ => false
def pyEqList : List Val → List Val → Bool
  | [], [] => true
  | x :: xs, y :: ys => pyEq x y && pyEqList xs ys
  | _, _ => false
/-- every entry of the first mapping has an equal entry in the second -/
def pyEqDict : List (String × Val) → List (String × Val) → Bool
  | [], _ => true
  | (k, v) :: rest, b => pyEqIn k v b && pyEqDict rest b
def pyEqIn (k : String) (v : Val) : List (String × Val) → Bool
  | [] => false
  | (k', w) :: rest => if k' = k then pyEq v w else pyEqIn k v rest
end

def insertSorted (x : String) : List String → List String
  | [] => [x]
  | y :: ys => if x < y then x :: y :: ys else if x = y then y :: ys else y :: insertSorted x ys

/-- `set1 | set2` on the sorted representation -/
def setUnion (a b : List String) : List String := b.foldl (fun acc x => insertSorted x acc) a

/-- the list branch: `list(value)` plus the elements of the override not yet present -/
def listUnion (a : List Val) : List Val → List Val
  | [] => a
  | x :: xs => if a.any (fun y => pyEq y x) then listUnion a xs else listUnion (a ++ [x]) xs

def Val.isMapping : Val → Bool | .dict _ => true | _ => false
def Val.isSeq : Val → Bool | .list _ => true | _ => false
def Val.isSet : Val → Bool | .set _ => true | _ => false

mutual
/-- the `elif` chain of `_merge_data_trees` for one key present in both trees; `none` =
`TypeError` -/
def mergeVal (ml ms : Bool) : Val → Val → Option Val
  | .dict a, .dict b =>
    match mergeEntries ml ms a b with
    | none => none
    | some m => some (.dict (m ++ b.filter (fun p => !hasKey p.1 a)))
  | .dict _, _ => none
  | v, w =>
    if w.isMapping then none
    else if ml && v.isSeq && w.isSeq then
      match v, w with
      | .list a, .list b => some (.list (listUnion a b))
      | _, _ => some w
    else if ms && v.isSet && w.isSet then
      match v, w with
      | .set a, .set b => some (.set (setUnion a b))
      | _, _ => some w
    else if ms && (v.isSet || w.isSet) then none
    else if ml && (v.isSeq || w.isSeq) then none
    else some w
/-- first loop of `_merge_data_trees`: the keys of `tree1` in order -/
def mergeEntries (ml ms : Bool) : List (String × Val) → List (String × Val) → Option (List (String × Val))
  | [], _ => some []
  | (k, v) :: rest, b =>
    match lookup k b with
    | none =>
      match mergeEntries ml ms rest b with
      | none => none
      | some r => some ((k, v) :: r)
    | some w =>
      match mergeVal ml ms v w with
      | none => none
      | some v' =>
        match mergeEntries ml ms rest b with
        | none => none
        | some r => some ((k, v') :: r)
end

/-- `merge_data_trees(a, b, merge_lists, merge_sets)`; `none` = `TypeError` -/
def merge (ml ms : Bool) (a b : Mapping) : Option Mapping :=
  match mergeEntries ml ms a b with
  | none => none
  | some m => some (m ++ b.filter (fun p => !hasKey p.1 a))

/-! ## Errors -/

inductive Err where
  | topMissing            -- FileNotFoundError: no top.yaml
  | topRender             -- RuntimeError("Error processing top file.")
  | topParse              -- same wrapper, raised by yaml.safe_load
  | topEmpty              -- TypeError: empty top file
  | topNotMapping         -- TypeError
  | topListNotSeq         -- TypeError: file list is not a sequence
  | topEmptyName          -- RuntimeError: "" in file list
  | matchErr (cls : String)  -- whatever the matcher raised for the expression
  | missing               -- FileNotFoundError
  | cycle                 -- RuntimeError: recursion loop
  | render                -- RuntimeError("Error processing data file …") from the render
  | parse                 -- … from yaml.safe_load
  | nonMapping            -- TypeError
  | emptyName             -- RuntimeError: empty include name
  | aboveRoot             -- RuntimeError: include leaves the tree
  | onlyDots              -- RuntimeError: include name consists of dots only
  | mergeType             -- TypeError raised by merge_data_trees
  | fuel                  -- RecursionError (Python's recursion limit)
  | unsupported (what : String)  -- input outside the modelled domain
  deriving Repr, DecidableEq, Inhabited

/-- the Python exception class -/
def Err.cls : Err → String
  | .topMissing | .missing => "FileNotFoundError"
  | .topRender | .topParse | .topEmptyName | .cycle | .render | .parse
  | .emptyName | .aboveRoot | .onlyDots => "RuntimeError"
  | .topEmpty | .topNotMapping | .topListNotSeq | .nonMapping | .mergeType => "TypeError"
  | .matchErr c => c
  | .fuel => "RecursionError"
  | .unsupported _ => "UNSUPPORTED"

def Err.kind : Err → String
  | .topMissing => "topMissing" | .topRender => "topRender" | .topParse => "topParse"
  | .topEmpty => "topEmpty" | .topNotMapping => "topNotMapping" | .topListNotSeq => "topListNotSeq"
  | .topEmptyName => "topEmptyName" | .matchErr _ => "matchErr" | .missing => "missing"
  | .cycle => "cycle" | .render => "render" | .parse => "parse" | .nonMapping => "nonMapping"
  | .emptyName => "emptyName" | .aboveRoot => "aboveRoot" | .onlyDots => "onlyDots"
  | .mergeType => "mergeType" | .fuel => "fuel" | .unsupported _ => "unsupported"

/-- `mapM` in `Except`, structural (first failure wins, left to right) -/
def mapE {α β ε : Type} (f : α → Except ε β) : List α → Except ε (List β)
  | [] => .ok []
  | a :: as =>
    match f a with
    | .error e => .error e
    | .ok b =>
      match mapE f as with
      | .error e => .error e
      | .ok bs => .ok (b :: bs)

/-- sequencing in `Except` (an exception propagates) -/
def bindE {α β ε : Type} (x : Except ε α) (k : α → Except ε β) : Except ε β :=
  match x with
  | .error e => .error e
  | .ok a => k a

/-- forget the error -/
def toOpt {ε α : Type} : Except ε α → Option α
  | .ok a => some a
  | .error _ => none

/-! ## Names, paths, the tree -/

abbrev Name := List String
abbrev Path := List String

def splitName (s : String) : Name := s.splitOn "."

/-- `root / seg₁ / seg₂ …` — joining an empty segment is the identity in `pathlib` -/
def pathOf (n : Name) : Path := n.filter (fun s => s ≠ "")

/-- result of `yaml.safe_load` on a rendered data file -/
inductive Parsed where
  | error
  | nonMapping
  | mapping (kvs : Mapping)
  deriving Repr, Inhabited

/-- a node of the tree as one call sees it (C11: already rendered and parsed) -/
inductive FileNode where
  | dir                 -- `p.yaml` is a directory
  | renderError         -- the template engine / `open` raises
  | file (p : Parsed)
  deriving Repr, Inhabited

abbrev Tree := Path → Option FileNode

/-- `_resolve_relative_include(include_file_name, parent_file_name, …)` on segment lists.
The `while` loop: one parent component is dropped for every leading empty segment. -/
def stripDots : Name → Name → Except Err (Name × Name)
  | "" :: rest, par =>
    match par with
    | [] => .error .aboveRoot
    | _ :: _ => stripDots rest par.dropLast
  | inc, par => .ok (inc, par)

def resolveRelative (inc : Name) (parentRes : Name) : Except Err Name :=
  if inc = [""] then .error .emptyName
  else match inc with
    | "" :: _ =>
      match stripDots inc parentRes with
      | .error e => .error e
      | .ok ([], _) => .error .onlyDots
      | .ok (i, p) => .ok (p ++ i)
    | _ => .ok inc

/-- the resolution loop of `_process_data_files` for one name: `name.yaml` if it exists and
is not a directory, else `name/init.yaml` if it exists; returns the name used for resolving
relative includes (`name` vs `name.init`) and the node -/
def resolveFile (tree : Tree) (name : Name) : Except Err (Name × FileNode) :=
  if pathOf name = [] then .error (.unsupported "name without a non-empty segment") else
  match tree (pathOf name) with
  | some (.file p) => .ok (name, .file p)
  | some .renderError => .ok (name, .renderError)
  | _ =>
    match tree (pathOf name ++ ["init"]) with
    | some node => .ok (name ++ ["init"], node)
    | none => .error .missing

def INCLUDE : String := "include"

/-- generic split of a mapping at its `include` key -/
def splitAtInclude : Mapping → Mapping × Option Val × Mapping
  | [] => ([], none, [])
  | (k, v) :: rest =>
    if k = INCLUDE then ([], some v, rest)
    else
      let r := splitAtInclude rest
      ((k, v) :: r.1, r.2.1, r.2.2)

/-- `_process_data_file_content`: the code's three-way case split (`None` = `[]`, both are
falsy and only truthiness is ever inspected) -/
def processContent (kvs : Mapping) : Mapping × Option Val × Mapping :=
  if !hasKey INCLUDE kvs then (kvs, none, [])
  else match kvs with
    | (k, v) :: rest =>
      if k = INCLUDE then ([], some v, rest)
      else splitAtInclude kvs
    | [] => ([], none, [])

/-- names listed under `include`; a falsy value means "no includes"; anything that is not a
list of strings is outside the modelled domain -/
def valStrs : List Val → Option (List String)
  | [] => some []
  | .str s :: rest => (valStrs rest).map (fun r => s :: r)
  | _ :: _ => none

def includeNames : Option Val → Except Err (List Name)
  | none => .ok []
  | some .null => .ok []
  | some (.bool false) => .ok []
  | some (.int i) => if i = 0 then .ok [] else .error (.unsupported "include value that is not a list")
  | some (.str "") => .ok []
  | some (.dict []) => .ok []
  | some (.list xs) =>
    match valStrs xs with
    | some ss => .ok (ss.map splitName)
    | none => .error (.unsupported "include list with a non-string element")
  | some _ => .error (.unsupported "include value that is not a list")

/-- the pieces contributed by one file: data before the include block (if any), the pieces
of the included files, data after the block (if any) -/
def piecesOf {α : Type} (pre : List α) (mid : List (List α)) (post : List α) : List (List α) :=
  (if pre.isEmpty then [] else [pre]) ++ mid ++ (if post.isEmpty then [] else [post])

/-! ## Cache-less compilation (C11) -/

/-- the resolution loop of `_process_data_files`: every name is resolved before the first
file is read -/
def resolveAll (tree : Tree) (names : List Name) : Except Err (List (Name × Name × FileNode)) :=
  mapE (fun n => bindE (resolveFile tree n) (fun r => .ok (n, r))) names

/-- the processing loop of `_process_data_files` -/
def expandAll (g : Name → Name → FileNode → Except Err (List Mapping))
    (rs : List (Name × Name × FileNode)) : Except Err (List Mapping) :=
  bindE (mapE (fun r => g r.1 r.2.1 r.2.2) rs) (fun pss => .ok pss.flatten)

/-- `_process_data_file` without caches. `fuel` = remaining recursion depth. -/
def expandFile : Nat → Tree → List Name → Name → Name → FileNode → Except Err (List Mapping)
  | 0, _, _, _, _, _ => .error .fuel
  | fuel + 1, tree, parents, name, resName, node =>
    if name ∈ parents then .error .cycle else
    match node with
    | .dir => .error .render
    | .renderError => .error .render
    | .file .error => .error .parse
    | .file .nonMapping => .error .nonMapping
    | .file (.mapping kvs) =>
      bindE (includeNames (processContent kvs).2.1) fun incs =>
      bindE (mapE (fun i => resolveRelative i resName) incs) fun names =>
      bindE (resolveAll tree names) fun rs =>
      bindE (expandAll (fun n r nd => expandFile fuel tree (parents ++ [name]) n r nd) rs) fun mid =>
      .ok (piecesOf (processContent kvs).1 mid (processContent kvs).2.2)

/-- `_process_data_files`: resolve every name first, then process the files in order -/
def expandList (fuel : Nat) (tree : Tree) (parents : List Name) (names : List Name) :
    Except Err (List Mapping) :=
  bindE (resolveAll tree names) fun rs =>
  expandAll (fun n r nd => expandFile fuel tree parents n r nd) rs

/-- outcome of evaluating one target expression -/
inductive MatchRes where
  | yes | no | error (cls : String)
  deriving Repr, Inhabited

/-- the value of one top-file entry -/
inductive TopList where
  | names (ns : List Name)   -- a list of strings
  | str                      -- a string: `"" in file_list` is true for every string
  | notSeq                   -- not a `Sequence`
  | unsupported              -- a list with non-string elements (outside the domain)
  deriving Repr, Inhabited

/-- the top file as one call sees it -/
inductive TopParsed where
  | error | null | nonMapping
  | entries (es : List (MatchRes × TopList))
  deriving Repr, Inhabited

inductive TopView where
  | missing | renderError
  | parsed (p : TopParsed)
  deriving Repr, Inhabited

/-- the loop over `top_data.items()` -/
def topNames : List (MatchRes × TopList) → Except Err (List Name)
  | [] => .ok []
  | (m, l) :: rest =>
    match l with
    | .notSeq => .error .topListNotSeq
    | .str => .error .topEmptyName
    | .unsupported => .error (.unsupported "top list with non-string elements")
    | .names ns =>
      if [""] ∈ ns then .error .topEmptyName else
      match m with
      | .error c => .error (.matchErr c)
      | .no => topNames rest
      | .yes =>
        match topNames rest with
        | .error e => .error e
        | .ok r => .ok (ns ++ r)

/-- the part of `_process_top` after `yaml.safe_load`; `none` = `None` (empty top allowed) -/
def topOutcome (allowEmpty : Bool) : TopParsed → Except Err (Option (List Name))
  | .error => .error .topParse
  | .null => if allowEmpty then .ok none else .error .topEmpty
  | .nonMapping => .error .topNotMapping
  | .entries es =>
    match topNames es with
    | .error e => .error e
    | .ok ns => .ok (some ns)

def processTop (allowEmpty : Bool) : TopView → Except Err (Option (List Name))
  | .missing => .error .topMissing
  | .renderError => .error .topRender
  | .parsed p => topOutcome allowEmpty p

structure Cfg where
  mergeLists : Bool := false
  mergeSets : Bool := true
  allowEmptyTop : Bool := false
  deriving Repr, Inhabited

/-- the merge loop of `compile_data` -/
def foldMerge (cfg : Cfg) : Mapping → List Mapping → Except Err Mapping
  | acc, [] => .ok acc
  | acc, p :: ps =>
    match merge cfg.mergeLists cfg.mergeSets acc p with
    | none => .error .mergeType
    | some acc' => foldMerge cfg acc' ps

def TOPFILE : Name := ["top file"]

def expandTop (fuel : Nat) (tree : Tree) : Option (List Name) → Except Err (List Mapping)
  | none => .ok []
  | some ns => expandList fuel tree [TOPFILE] ns

/-- `compile_data` with an empty cache: the data returned by `get_data`, or the error -/
def compile (cfg : Cfg) (fuel : Nat) (top : TopView) (tree : Tree) : Except Err Mapping :=
  bindE (processTop cfg.allowEmptyTop top) fun names =>
  bindE (expandTop fuel tree names) fun pieces =>
  foldMerge cfg [] pieces

/-! ## The three cache layers (C12) -/

/-- the hash functions: `version_for_str` and `aggregate_version` -/
structure VerFns where
  ver : String → String
  agg : List String → String

/-- a node of the tree as one call sees it, before parsing -/
inductive VNode where
  | dir | renderError
  | text (t : String)
  deriving Repr, Inhabited

abbrev VTree := Path → Option VNode

inductive VTop where
  | missing | renderError
  | text (t : String)
  deriving Repr, Inhabited

/-- what the shared libraries compute from rendered texts. `topParse` includes the
evaluation of the target expressions, which depends on the system id and on the preceding
data; the preceding data enters only through its version (the caller's contract of
`DataSource.get_data`: equal version ⇒ equal data). -/
structure World where
  parse : String → Parsed
  topParse : String → String → String → TopParsed     -- text, system id, preceding-data version

abbrev Parts := Mapping × Option Val × Mapping

/-- `_CachedData((preceding, include_files, following), file_version)` -/
structure CFile where
  parts : Parts
  ver : String
  deriving Repr, Inhabited

/-- the per-system cache item: `"top"`, `"data_file_" + name`, `"result"` -/
structure Item where
  top : Option (Option (List Name) × String) := none
  files : List (Name × CFile) := []
  result : Option (Mapping × String) := none
  deriving Repr, Inhabited

def Item.empty : Item := {}

def lookupFile (n : Name) : List (Name × CFile) → Option CFile
  | [] => none
  | (n', c) :: rest => if n' = n then some c else lookupFile n rest

/-- `resolveFile` on the unparsed view -/
def resolveFileV (tree : VTree) (name : Name) : Except Err (Name × VNode) :=
  if pathOf name = [] then .error (.unsupported "name without a non-empty segment") else
  match tree (pathOf name) with
  | some (.text t) => .ok (name, .text t)
  | some .renderError => .ok (name, .renderError)
  | _ =>
    match tree (pathOf name ++ ["init"]) with
    | some node => .ok (name ++ ["init"], node)
    | none => .error .missing

def TAG0 : String := ":0"
def TAG1 : String := ":1"

/-- versioned pieces of one file (D14 repaired: distinct versions before/after the block) -/
def vpiecesOf (pre : Mapping) (mid : List (Mapping × String)) (post : Mapping) (fv : String) :
    List (Mapping × String) :=
  (if pre.isEmpty then [] else [(pre, fv ++ TAG0)]) ++ mid ++
  (if post.isEmpty then [] else [(post, fv ++ TAG1)])

/-- compile state: the new cache's file entries and the log of rendered file names -/
structure CState where
  files : List (Name × CFile) := []
  reads : List Name := []
  deriving Repr, Inhabited

/-- sequential processing with the compile state threaded through -/
def mapAccE {α β σ ε : Type} (f : σ → α → Except ε (β × σ)) : σ → List α → Except ε (List β × σ)
  | s, [] => .ok ([], s)
  | s, a :: as =>
    match f s a with
    | .error e => .error e
    | .ok (b, s1) =>
      match mapAccE f s1 as with
      | .error e => .error e
      | .ok (bs, s2) => .ok (b :: bs, s2)

/-- what `_process_data_file` learns about the file: the parts and the version -/
def loadFile (vf : VerFns) (W : World) (old : List (Name × CFile)) (st : CState) (name : Name)
    (node : VNode) : Except Err (Parts × String × CState) :=
  match lookupFile name st.files with
  | some c =>
    -- D15 repaired: already processed in this compile, reuse without rendering
    .ok (c.parts, c.ver, st)
  | none =>
    match node with
    | .dir => .error .render
    | .renderError => .error .render
    | .text t =>
      let fv := vf.ver t
      let st1 : CState := { st with reads := st.reads ++ [name] }
      match lookupFile name old with
      | some c =>
        if c.ver = fv then .ok (c.parts, fv, { st1 with files := (name, c) :: st1.files })
        else
          match W.parse t with
          | .error => .error .parse
          | .nonMapping => .error .nonMapping
          | .mapping kvs =>
            .ok (processContent kvs, fv, { st1 with files := (name, ⟨processContent kvs, fv⟩) :: st1.files })
      | none =>
        match W.parse t with
        | .error => .error .parse
        | .nonMapping => .error .nonMapping
        | .mapping kvs =>
          .ok (processContent kvs, fv, { st1 with files := (name, ⟨processContent kvs, fv⟩) :: st1.files })

def resolveAllV (tree : VTree) (names : List Name) : Except Err (List (Name × Name × VNode)) :=
  mapE (fun n => bindE (resolveFileV tree n) (fun r => .ok (n, r))) names

/-- the processing loop of `_process_data_files` with the compile state threaded through -/
def expandAllC (g : CState → Name → Name → VNode → Except Err (List (Mapping × String) × CState))
    (st : CState) (rs : List (Name × Name × VNode)) : Except Err (List (Mapping × String) × CState) :=
  bindE (mapAccE (fun s r => g s r.1 r.2.1 r.2.2) st rs) (fun r => .ok (r.1.flatten, r.2))

/-- `_process_data_file` with `_old_cache` / `_new_cache` -/
def expandFileC (vf : VerFns) (W : World) (old : List (Name × CFile)) (tree : VTree) :
    Nat → List Name → CState → Name → Name → VNode → Except Err (List (Mapping × String) × CState)
  | 0, _, _, _, _, _ => .error .fuel
  | fuel + 1, parents, st, name, resName, node =>
    if name ∈ parents then .error .cycle else
    bindE (loadFile vf W old st name node) fun l =>
    bindE (includeNames l.1.2.1) fun incs =>
    bindE (mapE (fun i => resolveRelative i resName) incs) fun names =>
    bindE (resolveAllV tree names) fun rs =>
    bindE (expandAllC (fun s n r nd => expandFileC vf W old tree fuel (parents ++ [name]) s n r nd) l.2.2 rs) fun m =>
    .ok (vpiecesOf l.1.1 m.1 l.1.2.2 l.2.1, m.2)

def expandListC (vf : VerFns) (W : World) (old : List (Name × CFile)) (tree : VTree) (fuel : Nat)
    (parents : List Name) (st : CState) (names : List Name) :
    Except Err (List (Mapping × String) × CState) :=
  bindE (resolveAllV tree names) fun rs =>
  expandAllC (fun s n r nd => expandFileC vf W old tree fuel parents s n r nd) st rs

/-- `_process_top` with the cached top entry; returns the entry of the new cache -/
def processTopC (vf : VerFns) (W : World) (allowEmpty : Bool) (id pdv : String)
    (oldTop : Option (Option (List Name) × String)) : VTop → Except Err (Option (List Name) × String)
  | .missing => .error .topMissing
  | .renderError => .error .topRender
  | .text t =>
    match oldTop with
    | some (d, v) =>
      if v = vf.agg [vf.ver t, pdv] then .ok (d, v)
      else bindE (topOutcome allowEmpty (W.topParse t id pdv)) (fun d => .ok (d, vf.agg [vf.ver t, pdv]))
    | none => bindE (topOutcome allowEmpty (W.topParse t id pdv)) (fun d => .ok (d, vf.agg [vf.ver t, pdv]))

/-- result of one `compile_data`: data, version, the cache item to keep, whether that item
is a new object (`new_cache_item is not old_cache_item`), and the read log -/
structure Compiled where
  data : Mapping
  version : String
  item : Item
  changed : Bool
  reads : List Name
  deriving Repr, Inhabited

def expandTopC (vf : VerFns) (W : World) (old : List (Name × CFile)) (tree : VTree) (fuel : Nat) :
    Option (List Name) → Except Err (List (Mapping × String) × CState)
  | none => .ok ([], {})
  | some ns => expandListC vf W old tree fuel [TOPFILE] {} ns

/-- the merge loop and the `"result"` entry: reuse the cached result when the aggregate
version is unchanged -/
def finish (cfg : Cfg) (oldI : Item) (topEntry : Option (List Name) × String)
    (vps : List (Mapping × String)) (st : CState) (dv : String) : Except Err Compiled :=
  match oldI.result with
  | some (d, v) =>
    if v = dv then .ok ⟨d, v, oldI, false, st.reads⟩
    else bindE (foldMerge cfg [] (vps.map (fun p => p.1))) fun data =>
      .ok ⟨data, dv, ⟨some topEntry, st.files, some (data, dv)⟩, true, st.reads⟩
  | none =>
    bindE (foldMerge cfg [] (vps.map (fun p => p.1))) fun data =>
      .ok ⟨data, dv, ⟨some topEntry, st.files, some (data, dv)⟩, true, st.reads⟩

/-- `compile_data(system_id, preceding_data, preceding_data_version, old_cache)` -/
def compileC (vf : VerFns) (W : World) (cfg : Cfg) (fuel : Nat) (id pdv : String) (top : VTop)
    (tree : VTree) (old : Option Item) : Except Err Compiled :=
  bindE (processTopC vf W cfg.allowEmptyTop id pdv (old.getD Item.empty).top top) fun topEntry =>
  bindE (expandTopC vf W (old.getD Item.empty).files tree fuel topEntry.1) fun r =>
  finish cfg (old.getD Item.empty) topEntry r.1 r.2 (vf.agg (r.1.map (fun p => p.2)))

/-! ## `LRUCache` on an `OrderedDict`, `NullCache` -/

/-- `OrderedDict.__setitem__`: replace in place, else append -/
def odSet {V : Type} (k : String) (v : V) : List (String × V) → List (String × V)
  | [] => [(k, v)]
  | (k', v') :: rest => if k' = k then (k, v) :: rest else (k', v') :: odSet k v rest

def odGet {V : Type} (k : String) : List (String × V) → Option V
  | [] => none
  | (k', v) :: rest => if k' = k then some v else odGet k rest

/-- `OrderedDict.move_to_end(key)` for a present key -/
def odMoveToEnd {V : Type} (k : String) : List (String × V) → List (String × V)
  | [] => []
  | (k', v) :: rest => if k' = k then rest ++ [(k', v)] else (k', v) :: odMoveToEnd k rest

/-- the cache behind `YamlTargetSource._cache`: `size = 0` is the `NullCache`
(`cache_size <= 0`), otherwise `LRUCache(cache_size)` with `mark_on_update = True`;
`data` is the `OrderedDict`, least recently used first -/
structure Cache (V : Type) where
  size : Nat
  data : List (String × V) := []

/-- `cache.get(key, None)`: `__getitem__` moves a present key to the end -/
def Cache.get {V : Type} (c : Cache V) (k : String) : Option V × Cache V :=
  if c.size = 0 then (none, c) else
  match odGet k c.data with
  | none => (none, c)
  | some v => (some v, { c with data := odMoveToEnd k c.data })

/-- `cache[key] = value` -/
def Cache.set {V : Type} (c : Cache V) (k : String) (v : V) : Cache V :=
  if c.size = 0 then c else
  let d := odMoveToEnd k (odSet k v c.data)
  if d.length > c.size then { c with data := d.tail } else { c with data := d }

/-! ## The source over a history -/

/-- one `get_data` call as the model sees it: the context and the rendered view -/
structure Call where
  id : String
  pdv : String
  top : VTop
  tree : VTree

/-- `YamlTargetSource.get_data`: data and version, or the error; and the cache afterwards -/
def getData (vf : VerFns) (W : World) (cfg : Cfg) (fuel : Nat) (cache : Cache Item) (c : Call) :
    Except Err (Mapping × String) × Cache Item × List Name :=
  let (old, cache1) := cache.get c.id
  match compileC vf W cfg fuel c.id c.pdv c.top c.tree old with
  | .error e => (.error e, cache1, [])
  | .ok r => (.ok (r.data, r.version), if r.changed then cache1.set c.id r.item else cache1, r.reads)

/-- the tree of template sources and the steps of a history -/
inductive SNode where
  | dir
  | file (src : String)
  deriving Repr, Inhabited

structure Fs where
  top : Option SNode
  files : Path → Option SNode

/-- the template engine (or plain `open().read()`): source text, system id, preceding-data
version ↦ rendered text or failure -/
abbrev Render := String → String → String → Option String

def viewNode (R : Render) (id pdv : String) : SNode → VNode
  | .dir => .dir
  | .file s => match R s id pdv with | none => .renderError | some t => .text t

def viewTop (R : Render) (id pdv : String) : Option SNode → VTop
  | none => .missing
  | some .dir => .renderError
  | some (.file s) => match R s id pdv with | none => .renderError | some t => .text t

def Fs.call (R : Render) (fs : Fs) (id pdv : String) : Call :=
  ⟨id, pdv, viewTop R id pdv fs.top, fun p => (fs.files p).map (viewNode R id pdv)⟩

inductive Step where
  | write (p : Path) (src : String)    -- create or edit `p.yaml`
  | delete (p : Path)
  | mkdir (p : Path)                   -- `p.yaml` becomes a directory
  | swap (p : Path)                    -- `p.yaml` ↔ `p/init.yaml`
  | setTop (n : Option SNode)          -- edit / delete / create the top file
  | get (id pdv : String)              -- `get_data` (a changed `pdv` = changed preceding data)
  deriving Repr, Inhabited

def Fs.set (fs : Fs) (p : Path) (n : Option SNode) : Fs :=
  { fs with files := fun q => if q = p then n else fs.files q }

def Fs.apply (fs : Fs) : Step → Fs
  | .write p s => fs.set p (some (.file s))
  | .delete p => fs.set p none
  | .mkdir p => fs.set p (some .dir)
  | .swap p =>
    match fs.files p, fs.files (p ++ ["init"]) with
    | some n, none => (fs.set p none).set (p ++ ["init"]) (some n)
    | none, some n => (fs.set (p ++ ["init"]) none).set p (some n)
    | _, _ => fs
  | .setTop n => { fs with top := n }
  | .get _ _ => fs

/-- the long-lived source run over a history; one output per `get` -/
def runHistory (vf : VerFns) (W : World) (R : Render) (cfg : Cfg) (fuel : Nat) :
    Fs → Cache Item → List Step → List (Except Err (Mapping × String))
  | _, _, [] => []
  | fs, cache, .get id pdv :: rest =>
    let r := getData vf W cfg fuel cache (fs.call R id pdv)
    r.1 :: runHistory vf W R cfg fuel fs r.2.1 rest
  | fs, cache, .write p s :: rest => runHistory vf W R cfg fuel (fs.apply (.write p s)) cache rest
  | fs, cache, .delete p :: rest => runHistory vf W R cfg fuel (fs.apply (.delete p)) cache rest
  | fs, cache, .mkdir p :: rest => runHistory vf W R cfg fuel (fs.apply (.mkdir p)) cache rest
  | fs, cache, .swap p :: rest => runHistory vf W R cfg fuel (fs.apply (.swap p)) cache rest
  | fs, cache, .setTop n :: rest => runHistory vf W R cfg fuel (fs.apply (.setTop n)) cache rest

end Vinegar.Yaml
