import Vinegar.Model.Basic
import Vinegar.Generated.Consts
/-
Executable model of the file request handlers (vinegar/request_handler/file.py):
`_FileRequestHandlerBase.__init__` / `_init_request_path` (configured path → prefix
segments, in-segment placeholder prefix / suffix, suffix segments, the constructor's
rejections), `_prepare_context` / `_can_handle` (request matching, lookup-value
extraction, remaining path), `_handle` (transformation, system lookup, data retrieval,
access decision, path translation, open / render, outcome mapping),
`_translate_path`, `TftpFileRequestHandler._rewrite_filename_if_needed`, and the
`handle` wrappers of the HTTP and the TFTP class.

Strings are `List Char` (Unicode scalar values). The stdlib pieces the code calls are
modelled concretely and validated against the real functions by the harness on
exhaustive small scopes: `urllib.parse.unquote` (`unquote`: percent-decoding of the
maximal ASCII runs + CPython's UTF-8 decoder with `errors="replace"`), `str.split("/")`,
`"/".join`, `str.partition("?")`, `os.path.join`, `os.path.normpath` (POSIX) and `open`
on a tree of directories and regular files without symbolic links.

The model describes the REPAIRED behaviour for the two defects of the pinned tree
(DESIGN §6): D10 — only a leading "/" exempts a TFTP filename from getting one prepended;
D9 — `ENOTDIR` and `ENAMETOOLONG` on open are "not found", like `ENOENT` and `EISDIR`.
-/
namespace Vinegar.Paths
open Vinegar

abbrev Str := List Char

/-! ### `str` primitives -/

/-- `s.split(sep)` for a one-character separator: never empty, pieces are `sep`-free. -/
def splitOn (sep : Char) : Str → List Str
  | [] => [[]]
  | c :: cs =>
    if c = sep then [] :: splitOn sep cs
    else
      match splitOn sep cs with
      | [] => [[c]]
      | h :: t => (c :: h) :: t

/-- `sep.join(l)` -/
def joinWith (sep : Str) : List Str → Str
  | [] => []
  | [a] => a
  | a :: b :: t => a ++ sep ++ joinWith sep (b :: t)

/-- `p in s` (substring test) -/
def hasSub (p : Str) : Str → Bool
  | [] => p.isEmpty
  | c :: cs => p.isPrefixOf (c :: cs) || hasSub p cs

/-- first (leftmost) occurrence of `p`: `s.partition(p)` when `p` occurs, else `none` -/
def splitOnce (p : Str) : Str → Option (Str × Str)
  | [] => if p.isEmpty then some ([], []) else none
  | c :: cs =>
    if p.isPrefixOf (c :: cs) then some ([], (c :: cs).drop p.length)
    else (splitOnce p cs).map (fun ab => (c :: ab.1, ab.2))

/-- `uri.partition("?")[0]` -/
def cutQuery (uri : Str) : Str := uri.takeWhile (fun c => c != '?')

/-! ### `urllib.parse.unquote(s)` (encoding utf-8, errors "replace") -/

def hexVal? (c : Char) : Option Nat :=
  if '0' ≤ c ∧ c ≤ '9' then some (c.toNat - 48)
  else if 'a' ≤ c ∧ c ≤ 'f' then some (c.toNat - 87)
  else if 'A' ≤ c ∧ c ≤ 'F' then some (c.toNat - 55)
  else none

/-- `_unquote_impl` on an ASCII run: `%xy` with two hex digits becomes one byte, a `%`
    not followed by two hex digits stays. -/
def pctDecode : Str → Bytes
  | [] => []
  | c :: a :: b :: rest2 =>
    if c = '%' then
      match hexVal? a, hexVal? b with
      | some x, some y => UInt8.ofNat (16 * x + y) :: pctDecode rest2
      | _, _ => 37 :: pctDecode (a :: b :: rest2)
    else UInt8.ofNat c.toNat :: pctDecode (a :: b :: rest2)
  | c :: rest => UInt8.ofNat c.toNat :: pctDecode rest

def isCont (b : UInt8) : Bool := 0x80 ≤ b && b ≤ 0xBF

def replChar : Char := Char.ofNat 0xFFFD

def cp2 (b0 b1 : UInt8) : Char := Char.ofNat ((b0.toNat % 32) * 64 + b1.toNat % 64)
def cp3 (b0 b1 b2 : UInt8) : Char :=
  Char.ofNat ((b0.toNat % 16) * 4096 + (b1.toNat % 64) * 64 + b2.toNat % 64)
def cp4 (b0 b1 b2 b3 : UInt8) : Char :=
  Char.ofNat ((b0.toNat % 8) * 262144 + (b1.toNat % 64) * 4096 + (b2.toNat % 64) * 64 + b3.toNat % 64)

/-- CPython's UTF-8 decoder with `errors="replace"` (Objects/stringlib/codecs.h
    `utf8_decode` + `unicode_decode_utf8`): an invalid start byte, or a start byte plus
    the continuation bytes accepted so far when the next one is invalid, becomes one
    U+FFFD and decoding resumes at the offending byte; a sequence cut off by the end of
    the input becomes one U+FFFD. Overlong forms (C0, C1, E0 80–9F, F0 80–8F), surrogates
    (ED A0–BF) and code points above U+10FFFF (F4 90+, F5–FF) are invalid. -/
def decodeStep : Bytes → Option (Char × Nat)
  | [] => none
  | b0 :: r0 =>
    if b0 < 0x80 then some (Char.ofNat b0.toNat, 1)
    else if b0 < 0xC2 then some (replChar, 1)
    else if b0 < 0xE0 then
      match r0 with
      | [] => some (replChar, 1)
      | b1 :: _ => if isCont b1 then some (cp2 b0 b1, 2) else some (replChar, 1)
    else if b0 < 0xF0 then
      match r0 with
      | [] => some (replChar, 1)
      | b1 :: r1 =>
        if !isCont b1 || (if b1 < 0xA0 then b0 == 0xE0 else b0 == 0xED) then some (replChar, 1)
        else
          match r1 with
          | [] => some (replChar, 2)
          | b2 :: _ => if isCont b2 then some (cp3 b0 b1 b2, 3) else some (replChar, 2)
    else if b0 < 0xF5 then
      match r0 with
      | [] => some (replChar, 1)
      | b1 :: r1 =>
        if !isCont b1 || (if b1 < 0x90 then b0 == 0xF0 else b0 == 0xF4) then some (replChar, 1)
        else
          match r1 with
          | [] => some (replChar, 2)
          | b2 :: r2 =>
            if !isCont b2 then some (replChar, 2)
            else
              match r2 with
              | [] => some (replChar, 3)
              | b3 :: _ => if isCont b3 then some (cp4 b0 b1 b2 b3, 4) else some (replChar, 3)
    else some (replChar, 1)

/-- every step consumes at least one byte, so `fuel = length` is enough -/
def decodeFuel : Nat → Bytes → Str
  | 0, _ => []
  | n + 1, bs =>
    match decodeStep bs with
    | none => []
    | some (c, k) => c :: decodeFuel n (bs.drop k)

def decodeUtf8 (bs : Bytes) : Str := decodeFuel bs.length bs

/-- one maximal ASCII run (collected in reverse) is percent-decoded and UTF-8-decoded -/
def flushRun (acc : Str) : Str := decodeUtf8 (pctDecode acc.reverse)

/-- `_generate_unquoted_parts`: maximal runs of `[\x00-\x7f]` are decoded on their own,
    every other character is copied. -/
def unquoteGo : Str → Str → Str
  | acc, [] => flushRun acc
  | acc, c :: cs =>
    if c.toNat < 128 then unquoteGo (c :: acc) cs
    else flushRun acc ++ c :: unquoteGo [] cs

def unquote (s : Str) : Str :=
  if s.contains '%' then unquoteGo [] s else s

/-! ### `os.path.join`, `os.path.normpath` (posixpath) -/

def endsWithSlash (p : Str) : Bool := p.getLast? == some '/'

/-- one step of `posixpath.join` -/
def joinStep (path b : Str) : Str :=
  if b.head? == some '/' then b
  else if path.isEmpty || endsWithSlash path then path ++ b
  else path ++ '/' :: b

/-- `os.path.join(a, *p)` -/
def pathJoin (a : Str) (p : List Str) : Str := p.foldl joinStep a

/-- number of leading slashes `normpath` keeps: 0, 1, or 2 (exactly two are kept) -/
def initialSlashes : Str → Nat
  | '/' :: '/' :: '/' :: _ => 1
  | '/' :: '/' :: _ => 2
  | '/' :: _ => 1
  | _ => 0

def dot : Str := ['.']
def dotdot : Str := ['.', '.']

/-- the component loop of `normpath`; the stack is kept newest first -/
def normFold (absolute : Bool) : List Str → List Str → List Str
  | [], st => st
  | c :: cs, st =>
    if c = [] ∨ c = dot then normFold absolute cs st
    else if c ≠ dotdot then normFold absolute cs (c :: st)
    else
      match st with
      | [] => if absolute then normFold absolute cs [] else normFold absolute cs [c]
      | t :: st' => if t = dotdot then normFold absolute cs (c :: st) else normFold absolute cs st'

/-- `os.path.normpath(path)` on POSIX -/
def normpath (path : Str) : Str :=
  if path = [] then dot
  else
    let k := initialSlashes path
    let comps := (normFold (k != 0) (splitOn '/' path) []).reverse
    let r := List.replicate k '/' ++ joinWith ['/'] comps
    if r = [] then dot else r

/-! ### `_translate_path` -/

/-- `_translate_path(extra_path)` for `root_dir = root`, `file_suffix = sfx` on POSIX
    (`os.path.sep == "/"`, so the separator replacement is the identity). -/
def translatePath (root sfx e : Str) : Option Str :=
  if e.contains '\x00' then none
  else if e.isEmpty || endsWithSlash e then none
  else
    let segs := (splitOn '/' e).dropWhile (fun s => s.isEmpty)
    if segs.isEmpty then none
    else if segs.contains dot || segs.contains dotdot then none
    else
      let p := normpath (pathJoin root segs) ++ sfx
      if root.isPrefixOf p then some p else none

/-! ### file system: a tree of directories and regular files, no symbolic links -/

inductive Node where
  | file (content : Str)
  | dir (entries : List (Str × Node))

inductive OpenResult where
  | content (c : Str)
  | enoent | enotdir | eisdir | enametoolong
deriving DecidableEq, Repr

/-- number of bytes of the UTF-8 encoding of a character (file names are byte strings) -/
def utf8Len (c : Char) : Nat :=
  if c.toNat < 0x80 then 1 else if c.toNat < 0x800 then 2 else if c.toNat < 0x10000 then 3 else 4

def byteLen (s : Str) : Nat := (s.map utf8Len).sum

def NAME_MAX : Nat := 255
def PATH_MAX : Nat := 4096

def lookupEntry (name : Str) : List (Str × Node) → Option Node
  | [] => none
  | (n, x) :: rest => if n = name then some x else lookupEntry name rest

/-- walk the components (non-empty, no "." / "..": that is all `_translate_path` produces
    below a normalised root). Looking a name up in a regular file is ENOTDIR; an over-long
    component is ENAMETOOLONG when it is looked up; a missing name is ENOENT. -/
def walk : Node → List Str → OpenResult
  | .file c, [] => .content c
  | .dir _, [] => .eisdir
  | .file _, _ :: _ => .enotdir
  | .dir es, n :: rest =>
    if byteLen n > NAME_MAX then .enametoolong
    else
      match lookupEntry n es with
      | none => .enoent
      | some x => walk x rest

/-- `open(path, "rb")` of an absolute path on the tree rooted at `fs`
    (empty components and "." are skipped by the kernel; the paths the model opens contain no "..") -/
def openPath (fs : Node) (path : Str) : OpenResult :=
  if byteLen path ≥ PATH_MAX then .enametoolong
  else walk fs ((splitOn '/' path).filter (fun s => !s.isEmpty && s != dot))

/-! ### configuration and constructor -/

structure Cfg where
  /-- `TftpFileRequestHandler` (else `HttpFileRequestHandler`) -/
  tftp : Bool
  requestPath : Str
  /-- `none`: key absent (or `None`) -/
  file : Option Str
  rootDir : Option Str
  fileSuffix : Option Str
  lookupKey : Option Str
  placeholder : Str
  noResultAction : Str
  dsErrorAction : Str
  template : Bool
  clientAddressKey : Option Str
  clientAddressList : List Str

def truthy (o : Option Str) : Bool :=
  match o with
  | some s => !s.isEmpty
  | none => false

inductive CtorErr where
  | valueError | keyError
deriving DecidableEq, Repr

/-- what the constructor keeps of `request_path` -/
structure Handler where
  cfg : Cfg
  extract : Bool
  prefixSegs : List Str
  segPre : Str
  segSuf : Str
  suffixSegs : List Str

def Handler.fileMode (h : Handler) : Bool := truthy h.cfg.file
def Handler.dirMode (h : Handler) : Bool := truthy h.cfg.rootDir

def sysIdKey : Str := ":system_id:".toList

/-- index and value of the segments that contain the placeholder -/
def placeholderSegs (ph : Str) : List Str → Nat → List Nat
  | [], _ => []
  | s :: rest, i => if hasSub ph s then i :: placeholderSegs ph rest (i + 1) else placeholderSegs ph rest (i + 1)

/-- `_init_request_path`: the decomposition of the configured path, or `ValueError` -/
def initRequestPath (cfg : Cfg) : Except CtorErr Handler :=
  let rp := cfg.requestPath
  if rp.head? != some '/' then .error .valueError
  else
    let rp := if rp = ['/'] then [] else rp
    if endsWithSlash rp then .error .valueError
    else if truthy cfg.lookupKey then
      let segs := splitOn '/' rp
      match placeholderSegs cfg.placeholder segs 0 with
      | [i] =>
        let seg := segs.getD i []
        match splitOnce cfg.placeholder seg with
        | none => .error .valueError
        | some (pre, suf) =>
          -- `seg.split(placeholder)` has more than two parts iff the placeholder occurs again;
          -- an empty placeholder makes `str.split` raise ValueError
          if cfg.placeholder.isEmpty || hasSub cfg.placeholder suf then .error .valueError
          else .ok { cfg := cfg, extract := true, prefixSegs := segs.take i, segPre := pre, segSuf := suf,
                     suffixSegs := segs.drop (i + 1) }
      | _ => .error .valueError
    else
      .ok { cfg := cfg, extract := false, prefixSegs := splitOn '/' rp, segPre := [], segSuf := [],
            suffixSegs := [] }

def dsErrorActions : List Str := ["error".toList, "ignore".toList, "warn".toList]
def noResultActions : List Str := ["continue".toList, "not_found".toList]

/-- `_FileRequestHandlerBase.__init__` followed by the subclass constructor
    (the template engine and the HTTP content-type options are outside the model) -/
def initHandler (cfg : Cfg) : Except CtorErr Handler :=
  if !dsErrorActions.contains cfg.dsErrorAction then .error .valueError
  else if !noResultActions.contains cfg.noResultAction then .error .valueError
  else if cfg.file.isNone && cfg.rootDir.isNone then .error .keyError
  else if !truthy cfg.file && !truthy cfg.rootDir then .error .valueError
  else if truthy cfg.file && truthy cfg.rootDir then .error .valueError
  else if !truthy cfg.rootDir && truthy cfg.fileSuffix then .error .valueError
  else
    match initRequestPath cfg with
    | .error e => .error e
    | .ok h =>
      if truthy cfg.clientAddressKey && !truthy cfg.lookupKey then .error .valueError
      else if cfg.tftp && cfg.requestPath = ['/'] && truthy cfg.file then .error .valueError
      else .ok h

/-! ### `_prepare_context` / `_can_handle` -/

structure Ctx where
  isMatch : Bool
  rawValue : Option Str
  extraPath : Option Str
deriving DecidableEq, Repr

def noMatch : Ctx := { isMatch := false, rawValue := none, extraPath := none }

def nulEncoded : Str := "%00".toList

/-- the NUL test of `_prepare_context` on the undecoded request string -/
def hasNul (uri : Str) : Bool := uri.contains '\x00' || hasSub nulEncoded uri

/-- length test + `zip` comparison + slicing: `some rest` iff `segs = expected ++ rest` -/
def stripSegs : List Str → List Str → Option (List Str)
  | [], segs => some segs
  | _ :: _, [] => none
  | e :: es, s :: segs => if e = s then stripSegs es segs else none

/-- the tail of `_prepare_context`: what is left after prefix, value segment and suffix -/
def finish (h : Handler) (raw : Option Str) (rest : List Str) : Ctx :=
  if !rest.isEmpty then
    if h.fileMode then noMatch
    else { isMatch := true, rawValue := raw, extraPath := some (joinWith ['/'] ([] :: rest)) }
  else
    if h.dirMode then noMatch
    else { isMatch := true, rawValue := raw, extraPath := none }

/-- the segment-wise part of `_prepare_context` -/
def matchSegs (h : Handler) (segs : List Str) : Ctx :=
  match stripSegs h.prefixSegs segs with
  | none => noMatch
  | some rest =>
    if h.extract then
      match rest with
      | [] => noMatch
      | seg :: rest' =>
        if !(h.segPre.isPrefixOf seg && h.segSuf.isSuffixOf seg) then noMatch
        else
          match stripSegs h.suffixSegs rest' with
          | none => noMatch
          | some rest'' =>
            let raw0 := seg.drop h.segPre.length
            let raw := raw0.take (raw0.length - h.segSuf.length)
            if raw.isEmpty then noMatch else finish h (some raw) rest''
    else finish h none rest

def prepareContext (h : Handler) (uri : Str) : Ctx :=
  if hasNul uri then noMatch
  else
    let path := unquote (cutQuery uri)
    if path = ['/'] && h.prefixSegs = [[]] && !h.extract && h.fileMode then
      { isMatch := true, rawValue := none, extraPath := none }
    else matchSegs h (splitOn '/' path)

/-- `_rewrite_filename_if_needed` (repaired, D10): only a leading "/" is left alone -/
def tftpRewrite (f : Str) : Str := if f.head? == some '/' then f else '/' :: f

/-- `prepare_context` of the class selected by `cfg.tftp` -/
def prepare (h : Handler) (req : Str) : Ctx :=
  prepareContext h (if h.cfg.tftp then tftpRewrite req else req)

/-- `can_handle(req, prepare_context(req))` -/
def canHandle (h : Handler) (req : Str) : Bool := (prepare h req).isMatch

/-! ### `_handle` -/

/-- what the data source returns for a system: the part the template shows (`token`) and
    the addresses stored under `client_address_key` -/
structure SysData where
  token : Str
  addrs : List Str
deriving DecidableEq, Repr

/-- the data source as an oracle; `none` = the call raised -/
structure DataSource where
  findSystem : Str → Str → Option (Option Str)
  getData : Str → Option SysData

inductive Call where
  | findSystem (key value : Str)
  | getData (systemId : Str)
deriving DecidableEq, Repr

/-- template context entries the property speaks about -/
structure TplCtx where
  id : Option Str
  data : Option Str
deriving DecidableEq, Repr

inductive Outcome where
  /-- the file at `path` is served: raw (`ctx = none`) or rendered with `ctx` -/
  | served (path : Str) (content : Str) (ctx : Option TplCtx)
  | notFound
  | forbidden
  | methodNotAllowed
  /-- an exception other than the mapped ones escapes from `handle` -/
  | internalError
deriving DecidableEq, Repr

structure HandleObs where
  calls : List Call
  /-- every path given to `open` / to the template engine -/
  opens : List Str
  outcome : Outcome
deriving DecidableEq, Repr

structure Env where
  /-- `lookup_value_transform` as a function; `none` = the chain raised -/
  transform : Str → Option Str
  ds : DataSource
  fs : Node
  clientIp : Str

/-- result of the lookup part of `_handle` -/
structure Lookup where
  calls : List Call
  /-- `none`: an exception escapes (transform raised, or the data source raised and
      `data_source_error_action` is "error") -/
  result : Option (Option Str × Option SysData)

def actionError : Str := "error".toList

/-- lookup + data retrieval of `_handle` -/
def handleLookup (h : Handler) (env : Env) (ctx : Ctx) : Lookup :=
  if !h.extract then { calls := [], result := some (none, none) }
  else
    match env.transform (ctx.rawValue.getD []) with
    | none => { calls := [], result := none }
    | some v =>
      let key := h.cfg.lookupKey.getD []
      let found : List Call × Option (Option Str) :=
        if key = sysIdKey then ([], some (some v))
        else
          match env.ds.findSystem key v with
          | some r => ([.findSystem key v], some r)
          | none =>
            if h.cfg.dsErrorAction = actionError then ([.findSystem key v], none)
            else ([.findSystem key v], some none)
      match found with
      | (calls, none) => { calls := calls, result := none }
      | (calls, some none) => { calls := calls, result := some (none, none) }
      | (calls, some (some sid)) =>
        if !truthy h.cfg.clientAddressKey && !h.cfg.template then
          { calls := calls, result := some (some sid, none) }
        else
          match env.ds.getData sid with
          | some d => { calls := calls ++ [.getData sid], result := some (some sid, some d) }
          | none =>
            if h.cfg.dsErrorAction = actionError then { calls := calls ++ [.getData sid], result := none }
            else { calls := calls ++ [.getData sid], result := some (some sid, none) }

/-- the access decision of `_handle` for plain addresses (no masks: exact comparison;
    CIDR matching is the subject of C05) -/
def accessAllowed (h : Handler) (env : Env) (sid : Option Str) (data : Option SysData) : Bool :=
  let fromKey : Option (List Str) :=
    if truthy h.cfg.clientAddressKey then
      match sid, data with
      | some _, some d => some d.addrs
      | _, _ => some []
    else none
  let expected : Option (List Str) :=
    if !h.cfg.clientAddressList.isEmpty then some (h.cfg.clientAddressList ++ fromKey.getD [])
    else fromKey
  match expected with
  | none => true
  | some l => l.contains env.clientIp

def continueAction : Str := "continue".toList

/-- the file `_handle` is going to open: `_translate_path(extra_path)` or the configured file -/
def targetFile (h : Handler) (ctx : Ctx) : Option Str :=
  if h.dirMode then translatePath (h.cfg.rootDir.getD []) (h.cfg.fileSuffix.getD []) (ctx.extraPath.getD [])
  else h.cfg.file

/-- `_handle` (repaired, D9): every failed open of the modelled kinds is "not found" -/
def handleCore (h : Handler) (env : Env) (ctx : Ctx) : HandleObs :=
  let lk := handleLookup h env ctx
  match lk.result with
  | none => { calls := lk.calls, opens := [], outcome := .internalError }
  | some (sid, data) =>
    if !accessAllowed h env sid data then { calls := lk.calls, opens := [], outcome := .forbidden }
    else if h.extract && h.cfg.noResultAction != continueAction && sid.isNone then
      { calls := lk.calls, opens := [], outcome := .notFound }
    else
      match targetFile h ctx with
      | none => { calls := lk.calls, opens := [], outcome := .notFound }
      | some p =>
        match openPath env.fs p with
        | .content c =>
          let tctx : Option TplCtx :=
            if h.cfg.template then some { id := sid, data := data.map (·.token) } else none
          { calls := lk.calls, opens := [p], outcome := .served p c tctx }
        | _ => { calls := lk.calls, opens := [p], outcome := .notFound }

def httpMethods : List Str := ["GET".toList, "HEAD".toList]

/-- `handle` of the class selected by `cfg.tftp` (`method` is ignored for TFTP) -/
def handle (h : Handler) (env : Env) (method : Str) (ctx : Ctx) : HandleObs :=
  if !h.cfg.tftp && !httpMethods.contains method then
    { calls := [], opens := [], outcome := .methodNotAllowed }
  else handleCore h env ctx

/-- what is observed of one request: the `can_handle` answer, the calls received by the
    data source, every path opened / rendered, and the outcome of `handle` (`none`: not called) -/
structure Seen where
  accepted : Bool
  calls : List Call
  opens : List Str
  outcome : Option Outcome
deriving DecidableEq, Repr

/-- one request the way both servers drive a handler: `prepare_context`, `can_handle`,
    and `handle` only when accepted -/
structure RequestObs where
  ctx : Ctx
  handled : Option HandleObs

def requestOn (h : Handler) (env : Env) (method req : Str) : RequestObs :=
  let ctx := prepare h req
  { ctx := ctx, handled := if ctx.isMatch then some (handle h env method ctx) else none }

def RequestObs.seen (r : RequestObs) : Seen :=
  match r.handled with
  | some ho => { accepted := r.ctx.isMatch, calls := ho.calls, opens := ho.opens, outcome := some ho.outcome }
  | none => { accepted := r.ctx.isMatch, calls := [], opens := [], outcome := none }

/-- constructor + one request -/
def request (cfg : Cfg) (env : Env) (method req : Str) : Except CtorErr Seen :=
  match initHandler cfg with
  | .error e => .error e
  | .ok h => .ok (requestOn h env method req).seen

end Vinegar.Paths
