import Vinegar.Model.Basic
/-
Model of `_octet_reader_function` / `_netascii_reader_function`
(vinegar/tftp/server.py) and of the block loop of `_send_data` as far as it
concerns *which bytes* go into which block.

The handler's stream is `rest` (bytes not yet read) plus `caps`, the list of
short-read limits: the k-th call `file.read(n)` returns
`min n (max cap_k 1)` bytes (all of `n` once the list is exhausted), which covers
every way a stream may split its reads.
-/
namespace Vinegar

/-- whole-buffer reference conversion: CR LF kept, every other CR / LF becomes CR LF -/
def netasciiRef : Bytes → Bytes
  | [] => []
  | [c] => if c = CR then [CR, LF] else if c = LF then [CR, LF] else [c]
  | c :: d :: t =>
    if c = CR then (if d = LF then CR :: LF :: netasciiRef t else CR :: LF :: netasciiRef (d :: t))
    else if c = LF then CR :: LF :: netasciiRef (d :: t)
    else c :: netasciiRef (d :: t)

/-- one pass of the `while index < len(new_data)` loop over a read -/
def convBody : Bytes → Bytes × Bool
  | [] => ([], false)
  | [c] => if c = CR then ([CR, LF], true) else if c = LF then ([CR, LF], false) else ([c], false)
  | c :: d :: t =>
    if c = CR then
      (if d = LF then (CR :: LF :: (convBody t).1, (convBody t).2)
       else (CR :: LF :: (convBody (d :: t)).1, (convBody (d :: t)).2))
    else if c = LF then (CR :: LF :: (convBody (d :: t)).1, (convBody (d :: t)).2)
    else (c :: (convBody (d :: t)).1, (convBody (d :: t)).2)

/-- conversion of one non-empty read given `last_byte_was_cr` -/
def convChunk (lastCR : Bool) (chunk : Bytes) : Bytes × Bool :=
  match lastCR, chunk with
  | true, d :: t => if d = LF then convBody t else convBody (d :: t)
  | _, c => convBody c

/-- per-read conversion of the two reader functions -/
def conv (netascii : Bool) (lastCR : Bool) (chunk : Bytes) : Bytes × Bool :=
  if netascii then convChunk lastCR chunk else (chunk, false)

/-- what the remaining input will still contribute to the output -/
def refSkip (lastCR : Bool) (rest : Bytes) : Bytes :=
  match lastCR, rest with
  | true, d :: t => if d = LF then netasciiRef t else netasciiRef (d :: t)
  | _, r => netasciiRef r

/-- reader closure state: `data`, `last_byte_was_cr`, and the underlying stream -/
structure RState where
  buf : Bytes
  lastCR : Bool
  rest : Bytes
  caps : List Nat
deriving Repr, DecidableEq

/-- number of bytes the next `file.read(want)` returns at most -/
def readLen (want : Nat) (caps : List Nat) : Nat :=
  match caps with
  | [] => want
  | c :: _ => min want (max c 1)

/-- one non-empty read of `n` bytes absorbed into the reader state -/
def absorb (na : Bool) (st : RState) (n : Nat) : RState :=
  { buf := st.buf ++ (conv na st.lastCR (st.rest.take n)).1
    lastCR := (conv na st.lastCR (st.rest.take n)).2
    rest := st.rest.drop n
    caps := st.caps.tail }

/-- the `while size > len(data)` loop; `fuel` bounds the iterations (every iteration adds
at least one byte to `data`, except the one that only skips the LF after a read-final CR,
so `2 * size + 2` is never exhausted: `fill_done`) -/
def fill (na : Bool) (size : Nat) : Nat → RState → RState
  | 0, st => st
  | f + 1, st =>
    if size ≤ st.buf.length then st
    else if (st.rest.take (readLen (size - st.buf.length) st.caps)).isEmpty then
      { st with caps := st.caps.tail }
    else fill na size f (absorb na st (readLen (size - st.buf.length) st.caps))

/-- `read(size)` of the reader closure -/
def readBlock (na : Bool) (size : Nat) (st : RState) : Bytes × RState :=
  let st' := fill na size (2 * size + 2) st
  (st'.buf.take size, { st' with buf := st'.buf.drop size })

/-- the payloads `_send_data` produces, in order (`fuel` bounds the number of blocks) -/
def allBlocks (na : Bool) (size : Nat) : Nat → RState → List Bytes
  | 0, _ => []
  | f + 1, st =>
    let r := readBlock na size st
    if r.1.length = size then r.1 :: allBlocks na size f r.2 else [r.1]

def RState.init (content : Bytes) (caps : List Nat) : RState :=
  { buf := [], lastCR := false, rest := content, caps := caps }

/-- payload sequence of a transfer of `content` -/
def transferBlocks (na : Bool) (size : Nat) (content : Bytes) (caps : List Nat) : List Bytes :=
  allBlocks na size (2 * content.length + 2) (RState.init content caps)

/-- ideal splitting of an output byte string into blocks -/
def splitBlocks (size : Nat) : Nat → Bytes → List Bytes
  | 0, _ => []
  | f + 1, out =>
    if (out.take size).length = size then out.take size :: splitBlocks size f (out.drop size)
    else [out.take size]

/-- what the client must end up with -/
def expectedOutput (na : Bool) (content : Bytes) : Bytes :=
  if na then netasciiRef content else content

/-- framing rule shared by octet and netascii mode: at least one block, all but
the last exactly `size` bytes, the last fewer (possibly zero) -/
def framingOK (size : Nat) : List Bytes → Bool
  | [] => false
  | [b] => b.length < size
  | b :: rest => b.length == size && framingOK size rest

/-- C01/C08 observation checker: the payloads of the DATA blocks of a *completed*
transfer, in order of first transmission -/
def payloadsOK (na : Bool) (size : Nat) (content : Bytes) (blocks : List Bytes) : Bool :=
  framingOK size blocks && (blocks.flatten == expectedOutput na content)

end Vinegar
