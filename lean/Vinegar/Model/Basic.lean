/-
Shared basics of the executable models. No Mathlib import anywhere under `Model/`,
`Spec/` or `Driver/` (the driver is linked as a native executable).
-/
namespace Vinegar

abbrev Bytes := List UInt8

def CR : UInt8 := 13
def LF : UInt8 := 10

/-- `struct.pack("!H", n)` for `n < 65536` (the code only ever packs such values). -/
def be16 (n : Nat) : Bytes := [UInt8.ofNat (n / 256), UInt8.ofNat (n % 256)]

/-- `struct.unpack_from("!H", data, 0)` -/
def unbe16 (hi lo : UInt8) : Nat := hi.toNat * 256 + lo.toNat

theorem unbe16_be16 (n : Nat) (h : n < 65536) :
    unbe16 (UInt8.ofNat (n / 256)) (UInt8.ofNat (n % 256)) = n := by
  unfold unbe16
  have h1 : (UInt8.ofNat (n / 256)).toNat = n / 256 := by
    simp [UInt8.toNat_ofNat']; omega
  have h2 : (UInt8.ofNat (n % 256)).toNat = n % 256 := by
    simp [UInt8.toNat_ofNat']
  rw [h1, h2]; omega

theorem unbe16_lt (hi lo : UInt8) : unbe16 hi lo < 65536 := by
  unfold unbe16
  have := hi.toNat_lt; have := lo.toNat_lt; omega

end Vinegar
