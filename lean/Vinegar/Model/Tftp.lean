import Vinegar.Model.Reader
import Vinegar.Generated.Consts
/-
Executable model of the TFTP server (vinegar/tftp/server.py, vinegar/tftp/protocol.py):
packet codecs, option negotiation, the per-transfer state machine with its
deadline arithmetic, and the request port. One virtual clock in ticks of 2⁻¹⁰ s.

A transfer is driven by a *script* of events, one per receive opportunity:
`silence` (nothing arrives before the deadline) or `pkt delay cpu src data`
(a datagram from `src` — 0 is the requesting client, k > 0 a foreign address —
arrives `delay` ticks after the receive call started and handling it costs `cpu`
ticks). An exhausted script is silence for ever. The model returns the trace of
observable events (newest first internally, reversed by `runTransfer`).
-/
namespace Vinegar.Tftp
open Vinegar

/-! ### packets -/

def opRRQ : Nat := Generated.OPCODE_READ_REQUEST
def opWRQ : Nat := Generated.OPCODE_WRITE_REQUEST
def opDATA : Nat := Generated.OPCODE_DATA
def opACK : Nat := Generated.OPCODE_ACK
def opERROR : Nat := Generated.OPCODE_ERROR
def opOACK : Nat := Generated.OPCODE_OPTIONS_ACK

def asciiBytes (s : List Char) : Bytes := s.map (fun c => UInt8.ofNat c.toNat)

/-- `data_packet` -/
def dataPacket (n : Nat) (payload : Bytes) : Bytes := be16 opDATA ++ be16 n ++ payload

/-- `error_packet` (message as bytes) -/
def errorPacket (code : Nat) (msg : Bytes) : Bytes := be16 opERROR ++ be16 code ++ msg ++ [0]

/-- `options_ack_packet` -/
def oackPacket (opts : List (List Char × List Char)) : Bytes :=
  be16 opOACK ++ (opts.map (fun (p : List Char × List Char) => asciiBytes p.1 ++ [0] ++ asciiBytes p.2 ++ [0])).flatten

def ackPacket (n : Nat) : Bytes := be16 opACK ++ be16 n

/-- what `_receive_ack` makes of a datagram from the peer -/
inductive Cls where
  | ack (n : Nat)
  | invalid
  | peerError
deriving DecidableEq, Repr

def classify (data : Bytes) : Cls :=
  match data with
  | hi :: lo :: rest =>
    if unbe16 hi lo = opACK then
      (match rest with
       | [a, b] => .ack (unbe16 a b)
       | _ => .invalid)
    else if unbe16 hi lo = opERROR then .peerError
    else .invalid
  | _ => .invalid

/-! ### numerals of option values -/

def isDigitC (c : Char) : Bool := '0' ≤ c && c ≤ '9'

/-- `_REGEXP_POSITIVE_INT.fullmatch` for the generated pattern `[1-9][0-9]*` -/
def isPosInt : List Char → Bool
  | [] => false
  | c :: cs => ('1' ≤ c && c ≤ '9') && cs.all isDigitC

/-- `int(s)` for a string accepted by `isPosInt` -/
def parseNat (s : List Char) : Nat := Nat.ofDigitChars 10 s 0

/-- `str(n)` -/
def showNat (n : Nat) : List Char := Nat.toDigits 10 n

def lowerC (c : Char) : Char := if 'A' ≤ c && c ≤ 'Z' then Char.ofNat (c.toNat + 32) else c
def lower (s : List Char) : List Char := s.map lowerC

/-! ### Python dict semantics for the option mapping -/

abbrev Opts := List (List Char × List Char)

def dictInsert (d : Opts) (k v : List Char) : Opts :=
  match d with
  | [] => [(k, v)]
  | (k', v') :: rest => if k' = k then (k', v) :: rest else (k', v') :: dictInsert rest k v

def pyDict (raw : Opts) : Opts := raw.foldl (fun d (p : List Char × List Char) => dictInsert d p.1 p.2) []

def dictGet (d : Opts) (k : List Char) : Option (List Char) :=
  match d with
  | [] => none
  | (k', v') :: rest => if k' = k then some v' else dictGet rest k

/-- `{name.lower(): value for name, value in options.items()}` applied to the decoded mapping -/
def lowerDict (d : Opts) : Opts := pyDict (d.map (fun (p : List Char × List Char) => (lower p.1, p.2)))

/-! ### configuration -/

structure Cfg where
  /-- `default_timeout` in ticks -/
  defaultTimeout : Nat
  /-- `max_timeout` in seconds -/
  maxTimeout : Nat
  maxRetries : Nat
  maxBlockSize : Nat
  wrap : Option Nat
deriving Repr, DecidableEq

def ticksPerSecond : Nat := 1024

/-- `if x < lo: lo elif x > hi: hi else: x` -/
def clamp (lo hi x : Nat) : Nat := if x < lo then lo else if x > hi then hi else x

/-- the silent range corrections of `TftpServer.__init__` -/
def clampCfg (defaultTimeoutTicks : Nat) (maxTimeout : Nat) (maxRetries : Int) (maxBlockSize : Nat)
    (wrap : Option Nat) : Cfg :=
  let mt := clamp Generated.MIN_TIMEOUT Generated.MAX_TIMEOUT maxTimeout
  { defaultTimeout := clamp (Generated.MIN_TIMEOUT * ticksPerSecond) (mt * ticksPerSecond) defaultTimeoutTicks
    maxTimeout := mt
    maxRetries := if maxRetries < 1 then 1 else maxRetries.toNat
    maxBlockSize := clamp Generated.DEFAULT_BLOCK_SIZE Generated.MAX_BLOCK_SIZE maxBlockSize
    wrap := wrap }

/-! ### option negotiation (`_TftpReadRequest.__init__`, `_process_transfer_size_option`) -/

def optBlksize : List Char := Generated.OPTION_BLOCK_SIZE.toList
def optTimeout : List Char := Generated.OPTION_TIMEOUT.toList
def optTsize : List Char := Generated.OPTION_TRANSFER_SIZE.toList

/-- accepted block size, if the client's `blksize` is acceptable -/
def negBlksize (cfg : Cfg) (d : Opts) : Option Nat :=
  match dictGet d optBlksize with
  | some v =>
    if isPosInt v && decide (Generated.MIN_BLOCK_SIZE ≤ parseNat v) then some (min (parseNat v) cfg.maxBlockSize)
    else none
  | none => none

/-- accepted timeout in seconds -/
def negTimeout (cfg : Cfg) (d : Opts) : Option Nat :=
  match dictGet d optTimeout with
  | some v =>
    if isPosInt v && decide (Generated.MIN_TIMEOUT ≤ parseNat v) && decide (parseNat v ≤ cfg.maxTimeout) then
      some (parseNat v)
    else none
  | none => none

/-- `tsize` is acknowledged with the number of bytes that will be read -/
def negTsize (d : Opts) (netascii : Bool) (size : Option Nat) : Option Nat :=
  match dictGet d optTsize with
  | some v => if v = ['0'] && !netascii then size else none
  | none => none

structure Negotiated where
  /-- options of the OACK, in wire order; empty = no OACK -/
  oack : Opts
  blockSize : Nat
  /-- retransmission interval in ticks -/
  timeout : Nat
deriving Repr, DecidableEq

def optEntry (name : List Char) (v : Option Nat) : Opts :=
  match v with
  | some n => [(name, showNat n)]
  | none => []

/-- `raw`: the options as decoded from the request, `size`: remaining bytes if the
server can determine them (BytesIO / regular file), `none` otherwise -/
def negotiate (cfg : Cfg) (raw : Opts) (netascii : Bool) (size : Option Nat) : Negotiated :=
  let d := lowerDict (pyDict raw)
  { oack := optEntry optBlksize (negBlksize cfg d) ++ optEntry optTimeout (negTimeout cfg d)
              ++ optEntry optTsize (negTsize d netascii size)
    blockSize := (negBlksize cfg d).getD Generated.DEFAULT_BLOCK_SIZE
    timeout := match negTimeout cfg d with
      | some t => t * ticksPerSecond
      | none => cfg.defaultTimeout }

/-! ### transfer state machine -/

inductive Ev where
  | silence
  | pkt (delay cpu src : Nat) (data : Bytes)
deriving Repr, DecidableEq

inductive Obs where
  | send (t dst : Nat) (data : Bytes)
  /-- a datagram handed to the server at `t`; the server is busy with it until `done` -/
  | recv (t done src : Nat) (data : Bytes)
  | timeout (t : Nat)
  | closeSocket
  | closeFile
  | logException
deriving Repr, DecidableEq

structure Env where
  /-- retransmission interval in ticks -/
  timeout : Nat
  maxRetries : Nat
  wrap : Option Nat
deriving Repr

/-- ERROR 5 sent to foreign peers (message text is not part of the model) -/
def err5 : Bytes := errorPacket Generated.ERROR_UNKNOWN_TRANSFER_ID []

def maxReq : Nat := Generated.MAX_REQUEST_PACKET_SIZE

/-- `_set_socket_timeout`: time left until the deadline, never less than one tick -/
def remaining (limit now : Nat) : Nat := if limit > now then limit - now else 1

/-- result of a protocol phase: outcome, clock, unconsumed script, events produced (chronological) -/
structure Res (α : Type) where
  out : α
  now : Nat
  rest : List Ev
  obs : List Obs
deriving Repr

def Res.pre {α : Type} (os : List Obs) (r : Res α) : Res α := { r with obs := os ++ r.obs }

inductive Await where
  | acked | timedOut | invalid | peerError
deriving DecidableEq, Repr

/-- `while not ack_received: _receive_ack()` for one try -/
def awaitAck (expect limit : Nat) : Nat → List Ev → Res Await
  | now, [] => ⟨.timedOut, now + remaining limit now, [], [.timeout (now + remaining limit now)]⟩
  | now, .silence :: s =>
      ⟨.timedOut, now + remaining limit now, s, [.timeout (now + remaining limit now)]⟩
  | now, .pkt d cpu src data :: s =>
      if d < remaining limit now then
        if src = 0 then
          match classify (data.take maxReq) with
          | .ack n =>
            if n = expect then ⟨.acked, now + d + cpu, s, [.recv (now + d) (now + d + cpu) src (data.take maxReq)]⟩
            else (awaitAck expect limit (now + d + cpu) s).pre [.recv (now + d) (now + d + cpu) src (data.take maxReq)]
          | .invalid => ⟨.invalid, now + d + cpu, s, [.recv (now + d) (now + d + cpu) src (data.take maxReq)]⟩
          | .peerError => ⟨.peerError, now + d + cpu, s, [.recv (now + d) (now + d + cpu) src (data.take maxReq)]⟩
        else (awaitAck expect limit (now + d + cpu) s).pre
               [.recv (now + d) (now + d + cpu) src (data.take maxReq), .send (now + d + cpu) src err5]
      else ⟨.timedOut, now + remaining limit now, .pkt (d - remaining limit now) cpu src data :: s,
            [.timeout (now + remaining limit now)]⟩

inductive Outcome where
  | acked | gaveUp | invalid | peerError
deriving DecidableEq, Repr

/-- `_send_data_block` / `_send_options_ack`: at most `tries` transmissions, a new one only after a timeout -/
def sendWithRetry (env : Env) (packet : Bytes) (expect : Nat) : Nat → Nat → List Ev → Res Outcome
  | 0, now, s => ⟨.gaveUp, now, s, []⟩
  | k + 1, now, s =>
      let r := awaitAck expect (now + env.timeout) now s
      match r.out with
      | .acked => ⟨.acked, r.now, r.rest, Obs.send now 0 packet :: r.obs⟩
      | .invalid => ⟨.invalid, r.now, r.rest, Obs.send now 0 packet :: r.obs⟩
      | .peerError => ⟨.peerError, r.now, r.rest, Obs.send now 0 packet :: r.obs⟩
      | .timedOut => (sendWithRetry env packet expect k r.now r.rest).pre (Obs.send now 0 packet :: r.obs)

/-- `_calc_next_block_number` (`none` = `_BlockCounterOverflow`) -/
def nextBlock (wrap : Option Nat) (n : Nat) : Option Nat :=
  if n = Generated.MAX_BLOCK_NUMBER then wrap else some (n + 1)

inductive End where
  | completed | gaveUp | invalid | peerError | overflow | readFault
deriving DecidableEq, Repr

/-- `_send_data` over the block reads (`none` = the stream's `read` raised) -/
def sendData (env : Env) : List (Option Bytes) → Nat → Nat → List Ev → Res End
  | [], _, now, s => ⟨.completed, now, s, []⟩
  | none :: _, _, now, s => ⟨.readFault, now, s, []⟩
  | some b :: bs, prev, now, s =>
    match nextBlock env.wrap prev with
    | none => ⟨.overflow, now, s, []⟩
    | some n =>
      let r := sendWithRetry env (dataPacket n b) n (env.maxRetries + 1) now s
      match r.out with
      | .acked => (sendData env bs n r.now r.rest).pre r.obs
      | .gaveUp => ⟨.gaveUp, r.now, r.rest, r.obs⟩
      | .invalid => ⟨.invalid, r.now, r.rest, r.obs⟩
      | .peerError => ⟨.peerError, r.now, r.rest, r.obs⟩

/-- generic ERROR 0 (message text not modelled) -/
def err0 : Bytes := errorPacket Generated.ERROR_NOT_DEFINED []

/-- the `except` clauses of `_process_request` -/
def finish (e : End) (now : Nat) : List Obs :=
  match e with
  | .completed => []
  | .gaveUp => []
  | .peerError => []
  | .invalid => [Obs.send now 0 err0]
  | .overflow => [Obs.send now 0 err0]
  | .readFault => [Obs.logException, Obs.send now 0 err0]

/-- `_process_request`: OACK phase (if any option was accepted) then the data phase -/
def processRequest (env : Env) (oack : Opts) (blocks : List (Option Bytes)) (now : Nat) (s : List Ev) :
    Res End :=
  if oack.isEmpty then sendData env blocks 0 now s
  else
    let r := sendWithRetry env (oackPacket oack) 0 (env.maxRetries + 1) now s
    match r.out with
    | .acked => (sendData env blocks 0 r.now r.rest).pre r.obs
    | .gaveUp => ⟨.gaveUp, r.now, r.rest, r.obs⟩
    | .invalid => ⟨.invalid, r.now, r.rest, r.obs⟩
    | .peerError => ⟨.peerError, r.now, r.rest, r.obs⟩

/-- what `handler.handle` did -/
inductive HandlerResult where
  /-- a stream: remaining content, short-read pattern, whether its size can be determined,
  and after how many bytes `read` raises (if at all; octet mode only) -/
  | stream (content : Bytes) (caps : List Nat) (sizeKnown : Bool) (faultAt : Option Nat)
  | tftpError (code : Nat)
  | raised
deriving Repr

structure Rrq where
  netascii : Bool
  options : Opts
deriving Repr

/-- `faultAt = some n`: the stream raises once `n` bytes have been handed out (and never
hands out more); a fault beyond the end of the content never happens -/
def blockReads (na : Bool) (bs : Nat) (content : Bytes) (caps : List Nat) (faultAt : Option Nat) :
    List (Option Bytes) :=
  let bl := (transferBlocks na bs content caps).map some
  match faultAt with
  | none => bl
  | some n => if n ≤ content.length then bl.take (n / bs) ++ [none] else bl

/-- what the server can find out about the stream's size -/
def sizeInfo : HandlerResult → Option Nat
  | .stream content _ sizeKnown _ => if sizeKnown then some content.length else none
  | _ => none

/-- outcome of the negotiation for a request and what the handler returned -/
def negOf (cfg : Cfg) (rrq : Rrq) (h : HandlerResult) : Negotiated :=
  negotiate cfg rrq.options rrq.netascii (sizeInfo h)

def envOf (cfg : Cfg) (rrq : Rrq) (h : HandlerResult) : Env :=
  { timeout := (negOf cfg rrq h).timeout, maxRetries := cfg.maxRetries, wrap := cfg.wrap }

/-- `_TftpReadRequest._run` -/
def runTransfer (cfg : Cfg) (rrq : Rrq) (h : HandlerResult) (script : List Ev) : List Obs :=
  match h with
  | .tftpError code => [Obs.send 0 0 (errorPacket code []), Obs.closeSocket]
  | .raised => [Obs.logException, Obs.send 0 0 err0, Obs.closeSocket]
  | .stream content caps _ faultAt =>
    let neg := negOf cfg rrq h
    let r := processRequest (envOf cfg rrq h) neg.oack
      (blockReads rrq.netascii neg.blockSize content caps faultAt) 0 script
    r.obs ++ finish r.out r.now ++ [Obs.closeFile, Obs.closeSocket]

/-! ### request port -/

/-- `bytes.split(b"\0")` -/
def splitNul : Bytes → List Bytes
  | [] => [[]]
  | b :: rest =>
    if b = 0 then [] :: splitNul rest
    else match splitNul rest with
      | [] => [[b]]
      | p :: ps => (b :: p) :: ps

/-- `.decode("ascii", "ignore")` -/
def asciiIgnore (b : Bytes) : List Char := (b.filter (fun x => x.toNat < 128)).map (fun x => Char.ofNat x.toNat)

inductive Mode where
  | netascii | octet | mail
deriving DecidableEq, Repr

def modeOf (s : List Char) : Option Mode :=
  if lower s = Generated.MODE_NETASCII.toList then some .netascii
  else if lower s = Generated.MODE_OCTET.toList then some .octet
  else if lower s = Generated.MODE_MAIL.toList then some .mail
  else none

def pairUp : List Bytes → Option Opts
  | [] => some []
  | [_] => none
  | n :: v :: rest => (pairUp rest).map (fun o => (asciiIgnore n, asciiIgnore v) :: o)

structure DecodedRrq where
  filename : List Char
  mode : Mode
  options : Opts
deriving Repr, DecidableEq

/-- `decode_read_request` after the opcode: NUL-terminated fields, an even number ≥ 2 of them -/
def decodeFields (body : Bytes) : Option DecodedRrq :=
  let parts := splitNul body
  match parts.getLast? with
  | some [] =>
    match parts.dropLast with
    | f :: m :: rest =>
      match modeOf (asciiIgnore m), pairUp rest with
      | some mode, some opts => some { filename := asciiIgnore f, mode := mode, options := opts }
      | _, _ => none
    | _ => none
  | _ => none

inductive ReqResult where
  | ignored
  | error (code : Nat)
  | transfer (rrq : DecodedRrq) (handler : Nat)
deriving Repr, DecidableEq

/-- index of the first handler that accepts -/
def firstAccept : List Bool → Option Nat
  | [] => none
  | true :: _ => some 0
  | false :: rest => (firstAccept rest).map (· + 1)

inductive Call where
  | prepare (h : Nat) | canHandle (h : Nat) | handle (h : Nat)
deriving Repr, DecidableEq

/-- the handler methods `_process_read_request` invokes, in order -/
def dispatchCalls : Nat → List Bool → List Call
  | _, [] => []
  | i, true :: _ => [.prepare i, .canHandle i, .handle i]
  | i, false :: rest => .prepare i :: .canHandle i :: dispatchCalls (i + 1) rest

/-- `TftpServer._process_request`; `accepts f` = per handler, does `can_handle(f, prepare_context(f))` hold -/
def processDatagram (accepts : List Char → List Bool) (data : Bytes) : ReqResult :=
  match data.take maxReq with
  | hi :: lo :: body =>
    let op := unbe16 hi lo
    if op = opRRQ then
      match decodeFields body with
      | none => .error Generated.ERROR_ILLEGAL_OPERATION
      | some rrq =>
        if rrq.mode = .mail then .error Generated.ERROR_ILLEGAL_OPERATION
        else match firstAccept (accepts rrq.filename) with
          | some i => .transfer rrq i
          | none => .error Generated.ERROR_FILE_NOT_FOUND
    else if op = opWRQ then .error Generated.ERROR_ACCESS_VIOLATION
    else if op = opDATA ∨ op = opACK ∨ op = opERROR ∨ op = opOACK then .error Generated.ERROR_ILLEGAL_OPERATION
    else .ignored
  | _ => .ignored

/-! ### handlers that raise while being asked (`prepare_context` / `can_handle`)

`TftpServer._run` catches whatever escapes the processing of a datagram, logs it ("Request processing
failed.") and receives the next datagram: nothing is sent to the client, no transfer is started, the
request port keeps serving. -/

/-- what asking one handler about a file name leads to -/
inductive Ans where
  | yes | no
  /-- `prepare_context` raised -/
  | raisePrepare
  /-- `can_handle` raised -/
  | raiseCanHandle
deriving Repr, DecidableEq

def Ans.toBool : Ans → Bool
  | .yes => true
  | _ => false

def Ans.raises : Ans → Bool
  | .raisePrepare => true
  | .raiseCanHandle => true
  | _ => false

/-- index of the handler that raises before any handler has accepted -/
def failingHandler : Nat → List Ans → Option Nat
  | _, [] => none
  | _, .yes :: _ => none
  | i, .no :: rest => failingHandler (i + 1) rest
  | i, .raisePrepare :: _ => some i
  | i, .raiseCanHandle :: _ => some i

/-- the handler methods invoked when handlers may raise -/
def dispatchCallsF : Nat → List Ans → List Call
  | _, [] => []
  | i, .yes :: _ => [.prepare i, .canHandle i, .handle i]
  | i, .no :: rest => .prepare i :: .canHandle i :: dispatchCallsF (i + 1) rest
  | i, .raisePrepare :: _ => [.prepare i]
  | i, .raiseCanHandle :: _ => [.prepare i, .canHandle i]

/-- the file name the handlers are asked about, if the datagram gets that far -/
def reachesHandlers (data : Bytes) : Option (List Char) :=
  match data.take maxReq with
  | hi :: lo :: body =>
    if unbe16 hi lo = opRRQ then
      match decodeFields body with
      | none => none
      | some rrq => if rrq.mode = .mail then none else some rrq.filename
    else none
  | _ => none

inductive ReqResultF where
  | ok (r : ReqResult)
  /-- handler `h` raised while being asked: logged, no reply, no transfer -/
  | handlerFailed (h : Nat)
deriving Repr, DecidableEq

/-- `TftpServer._process_request` with handlers that may raise while being asked -/
def processDatagramF (answers : List Char → List Ans) (data : Bytes) : ReqResultF :=
  match (reachesHandlers data).bind (fun f => failingHandler 0 (answers f)) with
  | some i => .handlerFailed i
  | none => .ok (processDatagram (fun f => (answers f).map Ans.toBool) data)

/-! ### the server address handed to the handler (`TftpServer._run`) -/

structure SockAddr where
  host : List Char
  port : Nat
  flow : Nat
  scope : Nat
deriving Repr, DecidableEq

/-- with `IPV6_PKTINFO` the host part of the socket name is replaced by the datagram's destination
address; port, flow info and scope id are those of the socket on which the request arrived -/
def serverAddr (pktinfoDst : Option (List Char)) (sockname : SockAddr) : SockAddr :=
  match pktinfoDst with
  | some d => { sockname with host := d }
  | none => sockname

end Vinegar.Tftp
