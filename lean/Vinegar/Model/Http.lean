import Vinegar.Model.Basic
/-
HTTP model (C03; HTTP halves of C09, C10, C20).

Mirrors `vinegar/http/server.py`:

* `gate`, `dispatch`, `respond`        — `_DelegatingRequestHandler._delegate_request`
* `sendResponse`, `sendError`, `emit`  — what `send_response` / `send_header` / `end_headers` /
                                         `shutil.copyfileobj(body, wfile)` / `send_error` of
                                         `http.server.BaseHTTPRequestHandler` put on the wire
                                         (the stdlib part is *modelled*, see DESIGN §4)
* `parseResponse`                      — an independent STRICT HTTP/1.x response parser
* `Lifecycle`                          — `HttpServer.start` / `stop` / `_run` with `_running_lock`

The model describes the REPAIRED behaviour (DESIGN §6): D7 — the header block is always
terminated by the empty line, also for `headers is None`; D8 — `stop()` = `shutdown()` +
`server_close()` + join of the main thread.  The pinned behaviour is kept next to it
(`emitPinned`, `Lifecycle.stopPinnedBody`) only so that the spec checkers can be shown to
reject it.

Facts about the code that the model states explicitly:

* `protocol_version` is never changed, so every response is `HTTP/1.0`, the connection is
  closed after ONE response (also for an `HTTP/1.1` request with `Connection: keep-alive`),
  and the body is framed by connection close.  A `Content-Length` header is present only in
  `send_error` responses or when the handler supplies one.
* HEAD is treated exactly like GET by `_delegate_request` (`do_HEAD = _delegate_request`): a
  body returned by the handler IS copied to the client.  Only `send_error` omits its page for
  HEAD (while still announcing its `Content-Length`).
* bare error: `status >= 400 and not headers and body is None` — `headers` may be `None` or
  an empty mapping — goes through `send_error(status)`.
-/
namespace Vinegar.Http

/-- ASCII / latin-1 literal -/
def lit (s : String) : Bytes := s.toList.map (fun c => c.toNat.toUInt8)

def SP : UInt8 := 32
def COLON : UInt8 := 58
def NUL : UInt8 := 0
def SLASH : UInt8 := 47
def crlf : Bytes := [CR, LF]

abbrev Header := Bytes × Bytes

/-! ### decimal numerals (`"%d"`, `str(len(body))`) -/

def charByte (c : Char) : UInt8 := c.toNat.toUInt8

/-- `str(n).encode()` -/
def toDec (n : Nat) : Bytes := (Nat.toDigits 10 n).map charByte

def isDigitByte (b : UInt8) : Bool := 48 ≤ b.toNat && b.toNat ≤ 57

def decValue (bs : Bytes) : Nat := bs.foldl (fun acc b => 10 * acc + (b.toNat - 48)) 0

/-- strict: one or more ASCII digits, nothing else -/
def parseDec (bs : Bytes) : Option Nat :=
  if !bs.isEmpty && bs.all isDigitByte then some (decValue bs) else none

/-! ### environment: the stdlib tables and the two header values the property does not constrain -/

/-- `server` / `date`: values of the `Server` and `Date` headers (`version_string()`,
`date_time_string()`); `reason`: `http.HTTPStatus(code).phrase`; `errPage`: the stdlib's
`DEFAULT_ERROR_MESSAGE` rendered for the code (UTF-8) = `ERRPAGE(code)`. -/
structure Env where
  server : Bytes
  date : Bytes
  reason : Nat → Bytes
  errPage : Nat → Bytes

/-! ### handler results -/

/-- what `handler.handle(...)` did: returned `(status, headers, body)` or raised -/
inductive Result where
  | ret (status : Nat) (headers : Option (List Header)) (body : Option Bytes)
  | raised
  deriving Repr, BEq, DecidableEq

/-- `(status.value >= 400) and (not headers) and (body is None)` -/
def isBare (status : Nat) (headers : Option (List Header)) (body : Option Bytes) : Bool :=
  decide (400 ≤ status) && (headers.getD []).isEmpty && body.isNone

/-! ### emission -/

def statusLine (env : Env) (code : Nat) : Bytes :=
  lit "HTTP/1.0 " ++ toDec code ++ [SP] ++ env.reason code ++ crlf

def headerLine (h : Header) : Bytes := h.1 ++ [COLON, SP] ++ h.2 ++ crlf

def headerLines (hs : List Header) : Bytes := hs.flatMap headerLine

/-- the two headers `send_response` always adds -/
def stdHeaders (env : Env) : List Header := [(lit "Server", env.server), (lit "Date", env.date)]

/-- `send_response(code)`: status line + `Server` + `Date` (buffered) -/
def sendResponse (env : Env) (code : Nat) : Bytes :=
  statusLine env code ++ headerLines (stdHeaders env)

/-- `send_error` sends a page unless `code < 200` or `code ∈ {204, 205, 304}` -/
def errHasPage (code : Nat) : Bool := decide (200 ≤ code) && code != 204 && code != 205 && code != 304

/-- the headers `send_error` adds after the standard ones -/
def errHeaders (env : Env) (code : Nat) : List Header :=
  (lit "Connection", lit "close") ::
    (if errHasPage code then
      [(lit "Content-Type", lit "text/html;charset=utf-8"),
       (lit "Content-Length", toDec (env.errPage code).length)]
     else [])

/-- `send_error(code)`; `isHead`: `self.command == 'HEAD'` -/
def sendError (env : Env) (isHead : Bool) (code : Nat) : Bytes :=
  sendResponse env code ++ headerLines (errHeaders env code) ++ crlf ++
    (if isHead || !errHasPage code then [] else env.errPage code)

/-- the bytes `_delegate_request` writes for a handler result (repaired: D7) -/
def emit (env : Env) (isHead : Bool) : Result → Bytes
  | .raised => sendError env isHead 500
  | .ret status headers body =>
    if isBare status headers body then sendError env isHead status
    else sendResponse env status ++ headerLines (headers.getD []) ++ crlf ++ body.getD []

/-- PINNED behaviour (D7): `end_headers()` only under `if headers is not None`; without it the
header buffer is never flushed, so only the body copy reaches the socket. Used only to show that
the checkers reject it. -/
def emitPinned (env : Env) (isHead : Bool) : Result → Bytes
  | .raised => sendError env isHead 500
  | .ret status headers body =>
    if isBare status headers body then sendError env isHead status
    else match headers with
      | some hs => sendResponse env status ++ headerLines hs ++ crlf ++ body.getD []
      | none => body.getD []

/-! ### strict response parser -/

structure Response where
  status : Nat
  headers : List Header
  body : Bytes
  deriving Repr, BEq, DecidableEq

/-- bytes up to the first CR LF; a bare CR or bare LF or a missing terminator is an error -/
def takeLine : Bytes → Option (Bytes × Bytes)
  | [] => none
  | b :: rest =>
    if b = CR then
      match rest with
      | c :: rest' => if c = LF then some ([], rest') else none
      | [] => none
    else if b = LF then none
    else match takeLine rest with
      | some (l, r) => some (b :: l, r)
      | none => none

/-- split at the first occurrence of `sep` (which is dropped) -/
def splitAt1 (sep : UInt8) : Bytes → Option (Bytes × Bytes)
  | [] => none
  | b :: rest =>
    if b = sep then some ([], rest)
    else match splitAt1 sep rest with
      | some (l, r) => some (b :: l, r)
      | none => none

def startsWith : Bytes → Bytes → Option Bytes
  | [], rest => some rest
  | _ :: _, [] => none
  | p :: ps, b :: bs => if p = b then startsWith ps bs else none

/-- `HTTP/1.x SP 3DIGIT SP reason` (the line terminator already removed) -/
def parseStatusLine (line : Bytes) : Option Nat :=
  match startsWith (lit "HTTP/1.") line with
  | none => none
  | some rest =>
    match rest with
    | v :: sp :: rest2 =>
      if (v = 48 || v = 49) && sp = SP then
        match splitAt1 SP rest2 with
        | some (code, _reason) => if code.length = 3 then parseDec code else none
        | none => none
      else none
    | _ => none

/-- header-name byte: visible ASCII without the colon -/
def nameByte (b : UInt8) : Bool := decide (33 ≤ b.toNat) && decide (b.toNat ≤ 126) && b != COLON

/-- `name ":" SP value` as the server writes it; the name is a non-empty token -/
def parseHeaderLine (line : Bytes) : Option Header :=
  match splitAt1 COLON line with
  | none => none
  | some (name, rest) =>
    if !name.isEmpty && name.all nameByte then
      match rest with
      | s :: value => if s = SP then some (name, value) else none
      | [] => none
    else none

/-- header lines up to and including the empty line; `fuel` bounds the number of lines
(every line consumes at least two bytes, so `bs.length` is always enough) -/
def parseHeaders : Nat → Bytes → Option (List Header × Bytes)
  | 0, _ => none
  | fuel + 1, bs =>
    match takeLine bs with
    | none => none
    | some (line, rest) =>
      if line.isEmpty then some ([], rest)
      else match parseHeaderLine line with
        | none => none
        | some h =>
          match parseHeaders fuel rest with
          | some (hs, rest') => some (h :: hs, rest')
          | none => none

def lowerByte (b : UInt8) : UInt8 := if 65 ≤ b.toNat ∧ b.toNat ≤ 90 then b + 32 else b
def lower (bs : Bytes) : Bytes := bs.map lowerByte

/-- value of the first `Content-Length` header (name compared case-insensitively) -/
def findCL : List Header → Option Bytes
  | [] => none
  | (n, v) :: rest => if lower n = lit "content-length" then some v else findCL rest

/-- Strict parser of ONE response as this server frames it. Returns the response and whatever
follows it on the connection (must be empty for a well-formed exchange).

Body framing: with a `Content-Length: n` header (and a non-HEAD request) exactly `n` bytes must
be there and form the body, the rest is trailing garbage; a malformed `Content-Length` is an
error. Without the header, or for HEAD (where the header describes the entity that a GET would
return), the body is everything up to connection close. -/
def parseResponse (isHead : Bool) (bs : Bytes) : Option (Response × Bytes) :=
  match takeLine bs with
  | none => none
  | some (sl, rest) =>
    match parseStatusLine sl with
    | none => none
    | some status =>
      match parseHeaders (rest.length + 1) rest with
      | none => none
      | some (hs, rest2) =>
        match findCL hs with
        | none => some (⟨status, hs, rest2⟩, [])
        | some v =>
          match parseDec v with
          | none => none
          | some n =>
            if isHead then some (⟨status, hs, rest2⟩, [])
            else if n ≤ rest2.length then some (⟨status, hs, rest2.take n⟩, rest2.drop n)
            else none

/-- the response a client must see for a handler result (reference for `parse_emit`) -/
def expected (env : Env) (isHead : Bool) : Result → Response
  | .raised => ⟨500, stdHeaders env ++ errHeaders env 500,
      if isHead || !errHasPage 500 then [] else env.errPage 500⟩
  | .ret status headers body =>
    if isBare status headers body then
      ⟨status, stdHeaders env ++ errHeaders env status,
        if isHead || !errHasPage status then [] else env.errPage status⟩
    else ⟨status, stdHeaders env ++ headers.getD [], body.getD []⟩

/-- response of `send_error(code)` as the client must see it -/
def expectedError (env : Env) (isHead : Bool) (code : Nat) : Response :=
  ⟨code, stdHeaders env ++ errHeaders env code,
    if isHead || !errHasPage code then [] else env.errPage code⟩

/-! ### request gate and dispatch -/

/-- `http.server.parse_request` (3.12): a path starting with `//` is reduced to one slash
(modelled stdlib behaviour; this is the `self.path` that `_delegate_request` sees) -/
def stdlibPath : Bytes → Bytes
  | a :: b :: rest =>
    if a = SLASH ∧ b = SLASH then SLASH :: rest.dropWhile (· = SLASH) else a :: b :: rest
  | p => p

/-- `not ((not path.startswith("/")) or ("\0" in path))` -/
def gate (path : Bytes) : Bool :=
  (match path with
   | b :: _ => b == SLASH
   | [] => false) && !path.contains NUL

/-- scripted behaviour of one configured handler for the request at hand -/
inductive Accept where
  | yes            -- can_handle(uri, own context) is true
  | no
  | raisePrepare   -- prepare_context raises
  | raiseCanHandle -- can_handle raises
  deriving Repr, BEq, DecidableEq

structure Handler where
  accept : Accept
  result : Result
  deriving Repr

inductive Call where
  | prepare (i : Nat)
  | canHandle (i : Nat)
  | handle (i : Nat)
  deriving Repr, BEq, DecidableEq

inductive Outcome where
  | badRequest                      -- the gate refused: `send_error(400)`, no handler called
  | notFound                        -- no handler accepted: `send_error(404)`
  | failed                          -- prepare_context / can_handle raised: outer `except`, 500
  | handled (i : Nat) (r : Result)  -- handler `i` was used and did `r`
  deriving Repr, BEq, DecidableEq

/-- the `for handler in real_request_handlers` loop; `i` = index of the head of the list -/
def dispatchFrom (i : Nat) : List Handler → List Call × Outcome
  | [] => ([], .notFound)
  | h :: rest =>
    match h.accept with
    | .raisePrepare => ([.prepare i], .failed)
    | .raiseCanHandle => ([.prepare i, .canHandle i], .failed)
    | .yes => ([.prepare i, .canHandle i, .handle i], .handled i h.result)
    | .no =>
      let (calls, out) := dispatchFrom (i + 1) rest
      (.prepare i :: .canHandle i :: calls, out)

def dispatch (hs : List Handler) : List Call × Outcome := dispatchFrom 0 hs

/-- bytes written for an outcome -/
def emitOutcome (env : Env) (isHead : Bool) : Outcome → Bytes
  | .badRequest => sendError env isHead 400
  | .notFound => sendError env isHead 404
  | .failed => sendError env isHead 500
  | .handled _ r => emit env isHead r

def expectedOutcome (env : Env) (isHead : Bool) : Outcome → Response
  | .badRequest => expectedError env isHead 400
  | .notFound => expectedError env isHead 404
  | .failed => expectedError env isHead 500
  | .handled _ r => expected env isHead r

/-- whether `logger.exception` is called (a log record carrying exc_info) -/
def Outcome.logsException : Outcome → Bool
  | .failed => true
  | .handled _ .raised => true
  | _ => false

structure Exchange where
  calls : List Call
  outcome : Outcome
  bytes : Bytes

/-- `_delegate_request` for the path the stdlib parsed (`rawPath` is the request-target on the
wire) -/
def respond (env : Env) (isHead : Bool) (rawPath : Bytes) (hs : List Handler) : Exchange :=
  let path := stdlibPath rawPath
  if gate path then
    let (calls, out) := dispatch hs
    ⟨calls, out, emitOutcome env isHead out⟩
  else ⟨[], .badRequest, emitOutcome env isHead .badRequest⟩

/-! ### lifecycle of `HttpServer` -/
namespace Lifecycle

/-- observable lifecycle state of one `HttpServer` object.
`serverObj`: `_server is not None`; `listening`: that object's socket is bound and open;
`threadRef`: `_main_thread is not None`; `threadAlive`: the thread last started by `start()`
is still alive (it runs `serve_forever`; after `shutdown()` it is on its way out and `join`
waits for it). -/
structure State where
  running : Bool := false
  serverObj : Bool := false
  listening : Bool := false
  threadRef : Bool := false
  threadAlive : Bool := false
  deriving Repr, BEq, DecidableEq

def init : State := {}

def fullyRunning (s : State) : Bool :=
  s.running && s.serverObj && s.listening && s.threadRef && s.threadAlive

def fullyStopped (s : State) : Bool :=
  !s.running && !s.listening && !s.threadRef && !s.threadAlive

def consistent (s : State) : Bool := fullyRunning s || fullyStopped s

/-- a lifecycle call; `start bindOk`: whether the OS lets the new server socket bind (`false`:
the port is held by somebody else — the constructor of the embedded server raises `OSError`) -/
inductive Op where
  | start (bindOk : Bool)
  | stop
  deriving Repr, BEq, DecidableEq

/-- program counter of the thread that holds `_running_lock` (everything in `start`/`stop`
happens inside `with self._running_lock`) -/
inductive Pc where
  | startCheck (bindOk : Bool)   -- `if self._running: return`
  | startBind (bindOk : Bool)    -- `self._server = _ThreadingHTTPServer(...)` (bind + listen)
  | startThread                  -- `Thread(target=self._run).start()`
  | startFlag                    -- `self._running = True`
  | stopCheck                    -- `if not self._running: return`
  | stopShutdown                 -- `self._server.shutdown()` (serve_forever loop left)
  | stopClose                    -- `self._server.server_close()`
  | stopJoin                     -- `self._main_thread.join(); self._main_thread = None`
  | stopFlag                     -- `self._running = False`
  deriving Repr, BEq, DecidableEq

def Pc.first : Op → Pc
  | .start b => .startCheck b
  | .stop => .stopCheck

/-- one statement of the lock holder; `none` as next pc = the `with` block is left (lock
released; a raising bind also leaves it). Second component: the call raised. -/
def micro (s : State) : Pc → State × Option Pc × Bool
  | .startCheck b => if s.running then (s, none, false) else (s, some (.startBind b), false)
  | .startBind b =>
    if b then ({ s with serverObj := true, listening := true }, some .startThread, false)
    else (s, none, true)
  | .startThread => ({ s with threadRef := true, threadAlive := true }, some .startFlag, false)
  | .startFlag => ({ s with running := true }, none, false)
  | .stopCheck => if s.running then (s, some .stopShutdown, false) else (s, none, false)
  | .stopShutdown => (s, some .stopClose, false)
  | .stopClose => ({ s with listening := false }, some .stopJoin, false)
  | .stopJoin => ({ s with threadRef := false, threadAlive := false }, some .stopFlag, false)
  | .stopFlag => ({ s with running := false }, none, false)

/-- run the lock holder to the end of its `with` block (`fuel` ≥ 5 suffices) -/
def runBody : Nat → State → Pc → State × Bool
  | 0, s, _ => (s, false)
  | fuel + 1, s, pc =>
    match micro s pc with
    | (s', none, raised) => (s', raised)
    | (s', some pc', _) => runBody fuel s' pc'

/-- a whole call executed without interference (sequential semantics) -/
def call (s : State) (op : Op) : State × Bool := runBody 8 s (Pc.first op)

def run (s : State) : List Op → State
  | [] => s
  | op :: rest => run (call s op).1 rest

/-- PINNED `stop()` (D8): `shutdown()` and the flag only. -/
def stopPinned (s : State) : State :=
  if s.running then { s with running := false, threadAlive := false } else s

/-! concurrent semantics at lock granularity: any number of threads, each with a list of
lifecycle calls still to make; `_running_lock` is owned by at most one of them. A schedule is
a list of thread ids; scheduling a thread that is blocked on the lock or has nothing to do is
a no-op (stuttering), so every interleaving is a schedule. -/
structure Sys where
  st : State
  lock : Option (Nat × Pc)      -- owner thread and its position inside the `with` block
  todo : Nat → List Op          -- calls not yet begun, per thread
  raised : Nat                  -- number of calls that raised so far

def Sys.setTodo (y : Sys) (t : Nat) (l : List Op) : Nat → List Op :=
  fun u => if u = t then l else y.todo u

def step (y : Sys) (t : Nat) : Sys :=
  match y.lock with
  | none =>
    match y.todo t with
    | [] => y
    | op :: rest => { y with lock := some (t, Pc.first op), todo := y.setTodo t rest }
  | some (owner, pc) =>
    if owner = t then
      match micro y.st pc with
      | (s', none, r) => { y with st := s', lock := none, raised := y.raised + (if r then 1 else 0) }
      | (s', some pc', _) => { y with st := s', lock := some (owner, pc') }
    else y

def exec (y : Sys) : List Nat → Sys
  | [] => y
  | t :: rest => exec (step y t) rest

/-- every call of every thread has returned -/
def Sys.allReturned (y : Sys) : Prop := y.lock = none ∧ ∀ t, y.todo t = []

/-! what a client / prober can see in a state -/
def serves (s : State) : Bool := s.listening && s.threadAlive
def connectRefused (s : State) : Bool := !s.listening
def rebindPossible (s : State) : Bool := !s.listening
def mainThreadEnded (s : State) : Bool := !s.threadAlive

end Lifecycle

end Vinegar.Http
