/-
Model of `vinegar/data_source/text_file.py` (`TextFileSource`), of the string
transformations of `vinegar/transform/string.py` as far as they are reachable through
`vinegar.transform.get_transformation_chain`, and of the stat-version protocol of
`vinegar/utils/version.py` (`version_for_file_path`, `version_for_str`).

What is NOT modelled but delivered by the adapter: the regular-expression engine. Every
line travels pre-classified by the real `re` (ignored | mismatch | the group values of the
full match). Exceptions are represented by their Python class names.
-/
namespace Vinegar.TextFile

/-- Python exception class name -/
abbrev Err := String

/-! ## Values and nested mappings -/

/-- values that the modelled transformation chains can produce -/
inductive Val
  | none
  | str (s : String)
  | list (l : List String)
  deriving DecidableEq, Repr, Inhabited

/-- `hash(value)` succeeds (everything except a list) -/
def Val.hashable : Val → Bool
  | .list _ => false
  | _ => true

mutual
/-- a data tree: a leaf value or a `dict` with insertion-ordered keys -/
inductive Tree
  | leaf (v : Val)
  | node (kids : Kids)
/-- the items of a `dict`, in insertion order -/
inductive Kids
  | nil
  | cons (k : String) (t : Tree) (rest : Kids)
end

mutual
def Tree.beq : Tree → Tree → Bool
  | .leaf a, .leaf b => a == b
  | .node a, .node b => Kids.beq a b
  | _, _ => false
def Kids.beq : Kids → Kids → Bool
  | .nil, .nil => true
  | .cons k t r, .cons k' t' r' => k == k' && Tree.beq t t' && Kids.beq r r'
  | _, _ => false
end

mutual
theorem Tree.beq_eq : ∀ a b : Tree, Tree.beq a b = true ↔ a = b
  | .leaf a, .leaf b => by simp [Tree.beq]
  | .node a, .node b => by simp [Tree.beq, Kids.beq_eq a b]
  | .leaf _, .node _ => by simp [Tree.beq]
  | .node _, .leaf _ => by simp [Tree.beq]
theorem Kids.beq_eq : ∀ a b : Kids, Kids.beq a b = true ↔ a = b
  | .nil, .nil => by simp [Kids.beq]
  | .cons k t r, .cons k' t' r' => by
      simp [Kids.beq, Tree.beq_eq t t', Kids.beq_eq r r', and_assoc]
  | .nil, .cons .. => by simp [Kids.beq]
  | .cons .., .nil => by simp [Kids.beq]
end

instance : DecidableEq Kids := fun a b => decidable_of_iff _ (Kids.beq_eq a b)
instance : DecidableEq Tree := fun a b => decidable_of_iff _ (Tree.beq_eq a b)
instance : Inhabited Kids := ⟨.nil⟩

/-- `d.get(k)` -/
def Kids.get (key : String) : Kids → Option Tree
  | .nil => none
  | .cons k t r => if k = key then some t else Kids.get key r

/-- `d[k] = t`: an existing key keeps its position, a new key goes to the end -/
def Kids.set (key : String) (t : Tree) : Kids → Kids
  | .nil => .cons key t .nil
  | .cons k t' r => if k = key then .cons k t r else .cons k t' (Kids.set key t r)

/-- the loop
```
target_dict = data
for key_component in key_components[:-1]:
    target_dict = target_dict.setdefault(key_component, {})
target_dict[key_components[-1]] = value
```
on an insertion-ordered mapping. A component that already holds a non-dict value makes the
next operation on it fail: `.setdefault` ⇒ `AttributeError`, item assignment ⇒ `TypeError`. -/
def setPath : List String → String → Val → Kids → Except Err Kids
  | [], last, v, d => .ok (d.set last (.leaf v))
  | c :: cs, last, v, d =>
    match d.get c with
    | none =>
      match setPath cs last v .nil with
      | .ok sub => .ok (d.set c (.node sub))
      | .error e => .error e
    | some (.node sub) =>
      match setPath cs last v sub with
      | .ok sub' => .ok (d.set c (.node sub'))
      | .error e => .error e
    | some (.leaf _) => .error (if cs = [] then "TypeError" else "AttributeError")

/-! ## Strings (ASCII subset of `str`) -/

def lowerChar (c : Char) : Char :=
  if 65 ≤ c.toNat ∧ c.toNat ≤ 90 then Char.ofNat (c.toNat + 32) else c

def upperChar (c : Char) : Char :=
  if 97 ≤ c.toNat ∧ c.toNat ≤ 122 then Char.ofNat (c.toNat - 32) else c

/-- `str.isspace()` for a single ASCII character -/
def isWs (c : Char) : Bool :=
  (9 ≤ c.toNat && c.toNat ≤ 13) || (28 ≤ c.toNat && c.toNat ≤ 32)

/-- `a.startswith(p)` on character lists -/
def startsWith : List Char → List Char → Bool
  | _, [] => true
  | [], _ :: _ => false
  | a :: as, p :: ps => a == p && startsWith as ps

/-- remaining split budget: `none` = unlimited (`maxsplit < 0`) -/
def splitBudget (maxsplit : Int) : Option Nat :=
  if maxsplit < 0 then none else some maxsplit.toNat

def budgetDec : Option Nat → Option Nat
  | none => none
  | some n => some (n - 1)

/-- `s.split(sep, maxsplit)` for a non-empty `sep`; `skip` characters of a separator that was
just recognised are still to be dropped -/
def splitSepAux (sep : List Char) : List Char → Nat → Option Nat → List Char → List (List Char)
  | [], _, _, cur => [cur.reverse]
  | _ :: rest, skip + 1, left, cur => splitSepAux sep rest skip left cur
  | c :: rest, 0, left, cur =>
    if left != some 0 && startsWith (c :: rest) sep then
      cur.reverse :: splitSepAux sep rest (sep.length - 1) (budgetDec left) []
    else splitSepAux sep rest 0 left (c :: cur)

/-- `s.split(None, maxsplit)`: runs of whitespace separate, no empty strings; when the
budget is used up the rest (leading whitespace removed) is the last element -/
def splitWsAux : List Char → Option Nat → List Char → Bool → List (List Char)
  | [], _, cur, inWord => if inWord then [cur.reverse] else []
  | c :: rest, left, cur, true =>
    if isWs c then cur.reverse :: splitWsAux rest left [] false
    else splitWsAux rest left (c :: cur) true
  | c :: rest, left, _, false =>
    if isWs c then splitWsAux rest left [] false
    else if left == some 0 then [c :: rest]
    else splitWsAux rest (budgetDec left) [c] true

def hexDigitLower (n : Nat) : Char :=
  if n < 10 then Char.ofNat (48 + n) else Char.ofNat (87 + n)

/-- `repr(s)` of a `str` whose non-ASCII characters are printable -/
def pyReprStr (s : String) : String :=
  let cs := s.toList
  let q : Char := if cs.contains '\'' && !cs.contains '"' then '"' else '\''
  let esc (c : Char) : List Char :=
    if c = '\\' then ['\\', '\\']
    else if c = q then ['\\', q]
    else if c = '\n' then ['\\', 'n']
    else if c = '\r' then ['\\', 'r']
    else if c = '\t' then ['\\', 't']
    else if c.toNat < 32 ∨ c.toNat = 127 then
      ['\\', 'x', hexDigitLower (c.toNat / 16), hexDigitLower (c.toNat % 16)]
    else [c]
  String.ofList ([q] ++ cs.flatMap esc ++ [q])

/-- `repr(l)` of a list of `str` -/
def pyReprList (l : List String) : String :=
  "[" ++ ", ".intercalate (l.map pyReprStr) ++ "]"

/-! ## Transformation chains (`vinegar.transform.string`) -/

/-- one entry of a transformation chain -/
inductive Tr
  | toLower
  | toUpper
  | toStr
  | addPrefix (p : String)
  | addSuffix (s : String)
  | split (sep : Option String) (maxsplit : Int)
  deriving DecidableEq, Repr

/-- one transformation function applied to a value -/
def applyTr : Tr → Val → Except Err Val
  | .toLower, .str s => .ok (.str (String.ofList (s.toList.map lowerChar)))
  | .toLower, _ => .error "AttributeError"
  | .toUpper, .str s => .ok (.str (String.ofList (s.toList.map upperChar)))
  | .toUpper, _ => .error "AttributeError"
  | .toStr, .str s => .ok (.str s)
  | .toStr, .none => .ok (.str "None")
  | .toStr, .list l => .ok (.str (pyReprList l))
  | .addPrefix p, .str s => .ok (.str (p ++ s))
  | .addPrefix _, _ => .error "TypeError"
  | .addSuffix x, .str s => .ok (.str (s ++ x))
  | .addSuffix _, _ => .error "TypeError"
  | .split none m, .str s =>
    .ok (.list ((splitWsAux s.toList (splitBudget m) [] false).map String.ofList))
  | .split (some sep) m, .str s =>
    if sep = "" then .error "ValueError"
    else .ok (.list ((splitSepAux sep.toList s.toList 0 (splitBudget m) []).map String.ofList))
  | .split _ _, _ => .error "AttributeError"

/-- `chain_func` of `get_transformation_chain`: the functions in sequence -/
def applyChain : List Tr → Val → Except Err Val
  | [], v => .ok v
  | t :: ts, v =>
    match applyTr t v with
    | .ok v' => applyChain ts v'
    | .error e => .error e

/-! ## Configuration and lines -/

/-- the `source` of a variable: group name or group index -/
inductive Source
  | name (n : String)
  | idx (i : Nat)
  deriving DecidableEq, Repr

/-- configuration of `system_id` and of one entry of `variables` -/
structure VarCfg where
  source : Source
  chain : List Tr
  transformNone : Bool
  useNone : Bool
  deriving Repr

/-- `mismatch_action` / `duplicate_system_id_action` -/
inductive Action
  | ignore
  | warn
  | error
  deriving DecidableEq, Repr

structure Cfg where
  mismatch : Action
  duplicate : Action
  findFirst : Bool
  cacheEnabled : Bool
  sysId : VarCfg
  vars : List (String × VarCfg)

/-- what `regular_expression.fullmatch(line)` delivered: the named groups and the numbered
groups (index 0 = whole match); an optional group that did not take part is `none` -/
structure Groups where
  named : List (String × Option String)
  numbered : List (Option String)
  deriving Repr

inductive LineClass
  | ignored
  | mismatch
  | groups (g : Groups)

/-- one line of the file (end-of-line characters removed) with its classification -/
structure Line where
  text : String
  cls : LineClass

/-- `match.group(source)`; outer `none` = `IndexError: no such group` -/
def groupOf (g : Groups) : Source → Option (Option String)
  | .name n => g.named.lookup n
  | .idx i => g.numbered[i]?

def Val.ofOpt : Option String → Val
  | Option.none => Val.none
  | Option.some s => Val.str s

/-- `_process_variable` -/
def processVariable (vc : VarCfg) (g : Groups) (optional : Bool) : Except Err Val :=
  match groupOf g vc.source with
  | none => .error "IndexError"
  | some raw =>
    if raw = none ∧ !optional ∧ !vc.transformNone then .error "ValueError"
    else if raw = none ∧ !vc.transformNone then .ok .none
    else
      match applyChain vc.chain (Val.ofOpt raw) with
      | .error e => .error e
      | .ok v => if v = .none ∧ !optional then .error "ValueError" else .ok v

/-! ## Line splitting: text mode with `newline=""`, then the strip loop -/

/-- iteration over a text file opened with `newline=""`: lines end after "\n", "\r" or
"\r\n" and keep their terminator -/
def rawLinesAux : List Char → List Char → List (List Char)
  | [], cur => if cur.isEmpty then [] else [cur.reverse]
  | '\n' :: rest, cur => ('\n' :: cur).reverse :: rawLinesAux rest []
  | '\r' :: '\n' :: rest, cur => ('\n' :: '\r' :: cur).reverse :: rawLinesAux rest []
  | '\r' :: rest, cur => ('\r' :: cur).reverse :: rawLinesAux rest []
  | c :: rest, cur => rawLinesAux rest (c :: cur)

/-- `while line.endswith("\r") or line.endswith("\n"): line = line[:-1]` -/
def stripEol (l : List Char) : List Char :=
  (l.reverse.dropWhile (fun c => c = '\r' ∨ c = '\n')).reverse

/-- the line texts `_update_data` matches against the regular expressions -/
def splitLines (content : String) : List String :=
  (rawLinesAux content.toList []).map (fun l => String.ofList (stripEol l))

/-! ## `dict`s as association lists -/

/-- `d.get(k)` -/
def dget {κ α : Type} [DecidableEq κ] (k : κ) : List (κ × α) → Option α
  | [] => none
  | (k', v) :: r => if k' = k then some v else dget k r

/-- `d[k] = v` (existing key keeps its position, new key is appended) -/
def dset {κ α : Type} [DecidableEq κ] (k : κ) (v : α) : List (κ × α) → List (κ × α)
  | [] => [(k, v)]
  | (k', v') :: r => if k' = k then (k', v) :: r else (k', v') :: dset k v r

/-- the four containers rebuilt by `_update_data` -/
structure Tables where
  /-- `_system_data` -/
  data : List (String × Kids)
  /-- `_system_version` -/
  vers : List (String × String)
  /-- `_key_value_index`: `(key, value) ↦ [system_id, …]` for hashable values -/
  idx : List ((String × Val) × List String)
  /-- `_key_value_not_hashable_index`: `key ↦ [(system_id, value), …]` -/
  nh : List (String × List (String × Val))

def Tables.empty : Tables := ⟨[], [], [], []⟩

/-- `key.split(":")` (never empty) -/
def splitColon (key : String) : List String :=
  (splitSepAux [':'] key.toList 0 none []).map String.ofList

/-- `d.setdefault(k, []).append(x)` -/
def dappend {κ α : Type} [DecidableEq κ] (k : κ) (x : α) (d : List (κ × List α)) : List (κ × List α) :=
  dset k ((dget k d).getD [] ++ [x]) d

/-- the `for key, var_config in self._variables_config.items()` loop for one line: builds
the system's `data` and extends both indexes; the first exception ends it -/
def processVars (g : Groups) (sid : String) :
    List (String × VarCfg) → Kids → List ((String × Val) × List String) →
    List (String × List (String × Val)) →
    Except Err (Kids × List ((String × Val) × List String) × List (String × List (String × Val)))
  | [], d, idx, nh => .ok (d, idx, nh)
  | (key, vc) :: rest, d, idx, nh =>
    match processVariable vc g true with
    | .error e => .error e
    | .ok v =>
      if v = .none ∧ !vc.useNone then processVars g sid rest d idx nh
      else
        let comps := splitColon key
        match setPath comps.dropLast (comps.getLastD "") v d with
        | .error e => .error e
        | .ok d' =>
          if v.hashable then processVars g sid rest d' (dappend (key, v) sid idx) nh
          else processVars g sid rest d' idx (dappend key (sid, v) nh)

/-- the system ID of a matching line: `_process_variable(self._system_id_config, match,
optional=False)`, the `None` test, and the hashing done by `system_id in self._system_data` -/
def systemId (cfg : Cfg) (g : Groups) : Except Err String :=
  match processVariable cfg.sysId g false with
  | .error e => .error e
  | .ok .none => .error "ValueError"
  | .ok (.list _) => .error "TypeError"
  | .ok (.str sid) => .ok sid

/-- the body of `for line in file` for one line -/
def step (ver : String → String) (cfg : Cfg) (t : Tables) (l : Line) : Except Err Tables :=
  match l.cls with
  | .ignored => .ok t
  | .mismatch => if cfg.mismatch = .error then .error "ValueError" else .ok t
  | .groups g =>
    match systemId cfg g with
    | .error e => .error e
    | .ok sid =>
      if (dget sid t.data).isSome then
        (if cfg.duplicate = .error then .error "ValueError" else .ok t)
      else
        match processVars g sid cfg.vars .nil t.idx t.nh with
        | .error e => .error e
        | .ok (d, idx, nh) =>
          .ok { data := dset sid d t.data, vers := dset sid (ver l.text) t.vers, idx := idx, nh := nh }

/-- the `for line in file` loop: the tables reached and the exception that ended it, if any.
(After an exception the real object additionally keeps index entries of the failing line;
like the rest of the partial tables they are unobservable, see `C14.reload_refines`.) -/
def parseLines (ver : String → String) (cfg : Cfg) : List Line → Tables → Tables × Option Err
  | [], t => (t, none)
  | l :: ls, t =>
    match step ver cfg t l with
    | .ok t' => parseLines ver cfg ls t'
    | .error e => (t, some e)

/-- parse of a whole file starting from cleared containers -/
def parseFile (ver : String → String) (cfg : Cfg) (lines : List Line) : Tables × Option Err :=
  parseLines ver cfg lines Tables.empty

/-! ## The file, the cache and the calls -/

/-- state of the path `config["file"]`; `stamp` stands for the `os.stat` fields that
`version_for_file_path` hashes (ctime, mtime, dev, ino, size) -/
inductive FileState
  | missing
  | garbage (stamp : Nat)                       -- exists, not decodable as UTF-8
  | text (stamp : Nat) (lines : List Line)

def FileState.stamp : FileState → Option Nat
  | .missing => none
  | .garbage s => some s
  | .text s _ => some s

/-- the mutable attributes of a `TextFileSource` -/
structure Src where
  fileVersion : String
  tables : Tables

def Src.init : Src := ⟨"", Tables.empty⟩

/-- the part of `_update_data` after the early return: clear, open, parse, and store the
version only after success. `cur` is `current_file_version`. Returns the new attributes and
the exception raised, if any. -/
def reparse (ver : String → String) (cfg : Cfg) (fs : FileState) (cur : String) : Src × Option Err :=
  match fs with
  | .missing => (⟨"", Tables.empty⟩, some "FileNotFoundError")
  | .garbage _ => (⟨"", Tables.empty⟩, some "UnicodeDecodeError")
  | .text _ lines =>
    match parseFile ver cfg lines with
    | (t, some e) => (⟨"", t⟩, some e)
    | (t, none) => (⟨if cfg.cacheEnabled then cur else "", t⟩, none)

/-- `_update_data`. `statVer` is `version_for_file_path` as a function of the stat fields
(`none` = `os.stat` raised). -/
def updateData (ver : String → String) (statVer : Option Nat → String) (cfg : Cfg)
    (fs : FileState) (s : Src) : Src × Option Err :=
  let cur := if cfg.cacheEnabled then statVer fs.stamp else ""
  if cfg.cacheEnabled ∧ cur = s.fileVersion then (s, none)
  else reparse ver cfg fs cur

/-- result of one call -/
inductive Res
  | data (d : Kids) (version : String)
  | found (sid : Option String)
  | raised (e : Err)
  deriving DecidableEq

/-- the tail of `find_system`: zero, one or several candidates -/
def pick (findFirst : Bool) : List String → Option String
  | [] => none
  | [s] => some s
  | s :: _ :: _ => if findFirst then some s else none

/-- the candidate list `find_system` takes from the indexes -/
def candidates (t : Tables) (key : String) (val : Val) : List String :=
  if val.hashable then (dget (key, val) t.idx).getD []
  else ((dget key t.nh).getD []).filterMap (fun p => if p.2 = val then some p.1 else none)

def lookupData (t : Tables) (sid : String) : Res :=
  .data ((dget sid t.data).getD .nil) ((dget sid t.vers).getD "")

def lookupSystem (cfg : Cfg) (t : Tables) (key : String) (val : Val) : Res :=
  .found (pick cfg.findFirst (candidates t key val))

/-- a call on the source -/
inductive Call
  | get (sid : String)
  | find (key : String) (val : Val)

def answer (cfg : Cfg) (t : Tables) : Call → Res
  | .get sid => lookupData t sid
  | .find k v => lookupSystem cfg t k v

/-- `get_data` / `find_system`: `_update_data`, then the look-up -/
def call (ver : String → String) (statVer : Option Nat → String) (cfg : Cfg)
    (fs : FileState) (s : Src) (c : Call) : Src × Res :=
  let r := updateData ver statVer cfg fs s
  (r.1, match r.2 with
        | some e => .raised e
        | none => answer cfg r.1.tables c)

def getData (ver : String → String) (statVer : Option Nat → String) (cfg : Cfg)
    (fs : FileState) (s : Src) (sid : String) : Src × Res :=
  call ver statVer cfg fs s (.get sid)

def findSystem (ver : String → String) (statVer : Option Nat → String) (cfg : Cfg)
    (fs : FileState) (s : Src) (key : String) (val : Val) : Src × Res :=
  call ver statVer cfg fs s (.find key val)

/-! ## Histories -/

/-- what the file is replaced with (a fresh stat stamp is attached by `runStep`) -/
inductive Content
  | garbage
  | text (lines : List Line)

inductive Step
  | write (c : Content)
  | delete
  | call (c : Call)

/-- file, the counter that makes every edit's stat fields new, and the source object -/
structure World where
  file : FileState
  next : Nat
  src : Src

def Content.toFile (stamp : Nat) : Content → FileState
  | .garbage => .garbage stamp
  | .text lines => .text stamp lines

def runStep (ver : String → String) (statVer : Option Nat → String) (cfg : Cfg)
    (w : World) : Step → World × Option Res
  | .write c => ({ w with file := c.toFile w.next, next := w.next + 1 }, none)
  | .delete => ({ w with file := .missing }, none)
  | .call c =>
    let r := call ver statVer cfg w.file w.src c
    ({ w with src := r.1 }, some r.2)

/-- the results of the calls of a history, in order -/
def run (ver : String → String) (statVer : Option Nat → String) (cfg : Cfg) :
    World → List Step → List Res
  | _, [] => []
  | w, s :: ss =>
    match runStep ver statVer cfg w s with
    | (w', some r) => r :: run ver statVer cfg w' ss
    | (w', none) => run ver statVer cfg w' ss

/-- a new source object next to a file that is missing or was written once -/
def World.start (init : Option Content) : World :=
  match init with
  | none => ⟨.missing, 0, Src.init⟩
  | some c => ⟨c.toFile 0, 1, Src.init⟩

end Vinegar.TextFile
