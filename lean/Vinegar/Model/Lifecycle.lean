/-
Lifecycle of `TftpServer` (vinegar/tftp/server.py: `start`, `stop`, `_run`) as a small-step
concurrent model at lock granularity.

Shared state: `running`, `shutdownRequested`, whether the request-port thread is alive and whether
the listening socket is open. Any number of caller threads execute `start()` / `stop()`; each
critical section (`with self._running_lock:`) is one atomic step:

* `start`: one step — if `running` nothing, else open + bind the socket, start the thread, set `running`.
* `stop`:  step 1 — if `not running or shutdownRequested` return, else set `shutdownRequested`;
           step 2 — `join()` the request-port thread (enabled only once that thread has ended);
           step 3 — clear `running` and `shutdownRequested`.
* request-port thread: a step that observes `shutdownRequested` ends the thread and closes the socket
  (`finally: self._socket.close()`).
-/
namespace Vinegar.Lifecycle

structure Shared where
  running : Bool
  shutdownReq : Bool
  threadAlive : Bool
  socketOpen : Bool
deriving Repr, DecidableEq

/-- program counter of a caller thread -/
inductive Pc where
  | startCall      -- about to execute start()
  | stopCall       -- about to execute stop()
  | stopJoin       -- stop(): flag set, waiting for the request-port thread to end
  | stopFinish     -- stop(): joined, about to clear the flags
  | done
deriving Repr, DecidableEq

structure Config where
  sh : Shared
  pcs : List Pc
deriving Repr, DecidableEq

def Shared.init : Shared := ⟨false, false, false, false⟩

/-- one atomic step of caller thread with program counter `pc`; `none` = not enabled -/
def stepPc (sh : Shared) (pc : Pc) : Option (Shared × Pc) :=
  match pc with
  | .startCall =>
    if sh.running then some (sh, .done)
    else some ({ sh with running := true, threadAlive := true, socketOpen := true }, .done)
  | .stopCall =>
    if !sh.running || sh.shutdownReq then some (sh, .done)
    else some ({ sh with shutdownReq := true }, .stopJoin)
  | .stopJoin => if sh.threadAlive then none else some (sh, .stopFinish)
  | .stopFinish => some ({ sh with running := false, shutdownReq := false }, .done)
  | .done => none

/-- the request-port thread notices the shutdown request, leaves its loop and closes the socket -/
def stepServer (sh : Shared) : Option Shared :=
  if sh.threadAlive && sh.shutdownReq then some { sh with threadAlive := false, socketOpen := false } else none

/-- scheduler choice: `some i` = caller thread `i` takes a step, `none` = the request-port thread does -/
def step (c : Config) (who : Option Nat) : Option Config :=
  match who with
  | none => (stepServer c.sh).map (fun sh => { c with sh := sh })
  | some i =>
    match c.pcs[i]? with
    | none => none
    | some pc => (stepPc c.sh pc).map (fun r => { sh := r.1, pcs := c.pcs.set i r.2 })

/-- run a schedule; steps that are not enabled are skipped (the scheduler may only pick enabled ones) -/
def run (c : Config) : List (Option Nat) → Config
  | [] => c
  | w :: ws =>
    match step c w with
    | some c' => run c' ws
    | none => run c ws

/-- fully running or fully stopped -/
def consistent (sh : Shared) : Bool :=
  (sh.running && sh.threadAlive && sh.socketOpen && !sh.shutdownReq) ||
  (!sh.running && !sh.threadAlive && !sh.socketOpen && !sh.shutdownReq)

def allDone (c : Config) : Bool := c.pcs.all (· == .done)

/-! ### sequential use: start / stop / request on one server object -/

inductive Op where
  | start | stop | request
deriving Repr, DecidableEq

/-- a sequential `stop()` runs all three steps, with the request-port thread ending in between -/
def seqOp (sh : Shared) : Op → Shared × Bool
  | .start => (if sh.running then sh else { sh with running := true, threadAlive := true, socketOpen := true }, true)
  | .stop => (if !sh.running || sh.shutdownReq then sh else ⟨false, false, false, false⟩, true)
  | .request => (sh, sh.running && sh.threadAlive && sh.socketOpen)   -- served iff fully running

def seqRun (sh : Shared) : List Op → List (Shared × Bool)
  | [] => []
  | o :: os => seqOp sh o :: seqRun (seqOp sh o).1 os

end Vinegar.Lifecycle
