import Vinegar.Lemmas.PathsSpec
/-
C06 — request-path matching and system lookup are exact and equal for HTTP and TFTP.

All theorems are about the executable model `Vinegar.Paths` of
vinegar/request_handler/file.py and quantify over every configuration the constructor
accepts and every request string. `Spec.Accepts` is the first sentence of the property
("no NUL byte, raw or percent-encoded, and the path, after cutting the query string and
percent-decoding once, equals the configured request_path with the placeholder replaced by a
non-empty slash-free string, followed in directory mode only by a non-empty remaining
path"), written without reference to the handler's segment bookkeeping.
-/
namespace Vinegar.C06
open Vinegar Vinegar.Paths Vinegar.Paths.Spec

/-- the placeholder the statement speaks of: present iff a lookup key is configured -/
def phOf (cfg : Cfg) : Option Str := if truthy cfg.lookupKey then some cfg.placeholder else none

/-- **Acceptance is exactly the documented rule.** For every configuration the constructor
    accepts and every request string, `_prepare_context` reports a match iff the request has
    no raw or encoded NUL and there are a value `v` (non-empty and slash-free when a placeholder
    is configured) and a remaining path `extra` such that the once-decoded, query-free path
    equals `request_path[placeholder := v] ++ extra`, where `extra` is empty in file mode and
    starts with "/" (so is non-empty) in directory mode. (`request_path = "/"` is the empty
    prefix; in file mode it matches "/" itself.) -/
theorem matches_iff (cfg : Cfg) (h : Handler) (hinit : initHandler cfg = .ok h) (uri : Str) :
    (prepareContext h uri).isMatch = true ↔ Accepts cfg.requestPath (phOf cfg) (truthy cfg.file) uri := by
  obtain ⟨dec, hmode, _⟩ := initHandler_ok cfg h hinit
  unfold Accepts
  cases hn : hasNul uri with
  | true =>
    constructor
    · intro hm; unfold prepareContext at hm; simp [hn, noMatch] at hm
    · rintro ⟨n1, n2, _⟩
      have := (hasNul_false_iff uri).mpr ⟨n1, n2⟩
      rw [hn] at this; exact absurd this (by simp)
  | false =>
    obtain ⟨n1, n2⟩ := (hasNul_false_iff uri).mp hn
    simp only [n1, n2, not_false_eq_true, true_and]
    rw [decodedPath_eq]
    cases hlk : truthy cfg.lookupKey with
    | false =>
      obtain ⟨hex, hP⟩ := dec.plain hlk
      have hph : phOf cfg = none := by unfold phOf; rw [hlk]; rfl
      rw [hph]
      have hspec : (∃ v extra t, valueOK none v = true ∧ pattern cfg.requestPath none v = some t ∧
            unquote (cutQuery uri) = t ++ extra ∧ modeOK (truthy cfg.file) cfg.requestPath extra = true) ↔
          ∃ extra, unquote (cutQuery uri) = effPath cfg.requestPath ++ extra ∧
            modeOK (truthy cfg.file) cfg.requestPath extra = true := by
        constructor
        · rintro ⟨v, extra, t, _, ht, h1, h2⟩
          simp only [pattern, Option.some.injEq] at ht
          subst ht
          exact ⟨extra, h1, h2⟩
        · rintro ⟨extra, h1, h2⟩
          exact ⟨[], extra, _, by simp [valueOK], rfl, h1, h2⟩
      rw [hspec, ← plain_iff cfg h dec hmode hlk]
      unfold prepareContext
      simp only [hn, Bool.false_eq_true, if_false, hex, Bool.not_false, Bool.and_true]
      by_cases hsp : (unquote (cutQuery uri) = ['/'] ∧ h.prefixSegs = [[]] ∧ h.fileMode = true)
      · have : (decide (unquote (cutQuery uri) = ['/']) && decide (h.prefixSegs = [[]]) && h.fileMode) = true := by
          simp [hsp.1, hsp.2.1, hsp.2.2]
        simp only [this, if_true, true_iff]
        exact Or.inl hsp
      · have : (decide (unquote (cutQuery uri) = ['/']) && decide (h.prefixSegs = [[]]) && h.fileMode) = false := by
          cases hd1 : decide (unquote (cutQuery uri) = ['/']) <;> cases hd2 : decide (h.prefixSegs = [[]]) <;>
            cases hd3 : h.fileMode <;> simp_all
        simp only [this, Bool.false_eq_true, if_false]
        rw [(matchSegs_plain h _ hex).1]
        constructor
        · exact Or.inr
        · rintro (hc | hc)
          · exact absurd hc hsp
          · exact hc
    | true =>
      obtain ⟨hex, _, _, _, _⟩ := dec.lookup hlk
      have hph : phOf cfg = some cfg.placeholder := by unfold phOf; rw [hlk]; rfl
      rw [hph]
      unfold prepareContext
      simp only [hn, Bool.false_eq_true, if_false, hex, Bool.not_true, Bool.and_false, Bool.false_and]
      rw [(matchSegs_lookup h _ hex).1]
      obtain ⟨_, hpre, hsuf, _, _, _⟩ := lookup_facts cfg h dec hlk
      constructor
      · rintro ⟨v, R, hv, hsplit, hr⟩
        have hvs : '/' ∉ v := by
          have := mem_splitOn_no_sep '/' (unquote (cutQuery uri)) (h.segPre ++ v ++ h.segSuf)
            (by rw [hsplit]; simp)
          simp only [List.mem_append, not_or] at this
          exact this.1.2
        obtain ⟨t, ht, extra, h1, h2⟩ := (lookup_iff cfg h dec hmode hlk _ v hvs).mp ⟨R, hsplit, hr⟩
        refine ⟨v, extra, t, ?_, ht, h1, h2⟩
        have : v.isEmpty = false := by cases v <;> simp_all
        simp [valueOK, this, hvs]
      · rintro ⟨v, extra, t, hv, ht, h1, h2⟩
        simp only [valueOK, Bool.and_eq_true, Bool.not_eq_true', List.isEmpty_eq_false_iff,
          List.contains_eq_mem, decide_eq_false_iff_not] at hv
        obtain ⟨R, hsplit, hr⟩ := (lookup_iff cfg h dec hmode hlk _ v hv.2).mpr ⟨t, ht, extra, h1, h2⟩
        exact ⟨v, R, hv.1, hsplit, hr⟩

/-- `v` (with some remaining path) witnesses that the request matches -/
def IsWitness (cfg : Cfg) (uri v : Str) : Prop :=
  ∃ extra t, valueOK (phOf cfg) v = true ∧ pattern cfg.requestPath (phOf cfg) v = some t ∧
    decodedPath uri = t ++ extra ∧ modeOK (truthy cfg.file) cfg.requestPath extra = true

/-- **The extracted lookup value is that `v`, and it is unique.** When a lookup key is
    configured and the request is accepted, the context carries a value `v` that witnesses the
    match, and every witness equals it: the request determines the looked-up string. -/
theorem lookup_value_spec (cfg : Cfg) (h : Handler) (hinit : initHandler cfg = .ok h) (uri : Str)
    (hlk : truthy cfg.lookupKey = true) (hm : (prepareContext h uri).isMatch = true) :
    ∃ v, (prepareContext h uri).rawValue = some v ∧ IsWitness cfg uri v ∧
      ∀ v', IsWitness cfg uri v' → v' = v := by
  obtain ⟨dec, hmode, _⟩ := initHandler_ok cfg h hinit
  obtain ⟨hex, _, _, _, _⟩ := dec.lookup hlk
  have hph : phOf cfg = some cfg.placeholder := by unfold phOf; rw [hlk]; rfl
  have hn : hasNul uri = false := by
    cases hn : hasNul uri with
    | false => rfl
    | true => unfold prepareContext at hm; simp [hn, noMatch] at hm
  have hpc : prepareContext h uri = matchSegs h (splitOn '/' (unquote (cutQuery uri))) := by
    unfold prepareContext
    simp only [hn, Bool.false_eq_true, if_false, hex, Bool.not_true, Bool.and_false, Bool.false_and]
  rw [hpc] at hm ⊢
  obtain ⟨v, R, hv, hsplit, hr⟩ := (matchSegs_lookup h _ hex).1.mp hm
  have hvs : '/' ∉ v := by
    have := mem_splitOn_no_sep '/' (unquote (cutQuery uri)) (h.segPre ++ v ++ h.segSuf) (by rw [hsplit]; simp)
    simp only [List.mem_append, not_or] at this
    exact this.1.2
  refine ⟨v, ((matchSegs_lookup h _ hex).2 v R hv hsplit hr).1, ?_, ?_⟩
  · obtain ⟨t, ht, extra, h1, h2⟩ := (lookup_iff cfg h dec hmode hlk _ v hvs).mp ⟨R, hsplit, hr⟩
    refine ⟨extra, t, ?_, by rw [hph]; exact ht, h1, h2⟩
    have : v.isEmpty = false := by cases v <;> simp_all
    rw [hph]; simp [valueOK, this, hvs]
  · rintro v' ⟨extra, t, hv', ht, h1, h2⟩
    rw [hph] at hv' ht
    simp only [valueOK, Bool.and_eq_true, Bool.not_eq_true', List.isEmpty_eq_false_iff,
      List.contains_eq_mem, decide_eq_false_iff_not] at hv'
    obtain ⟨R', hsplit', _⟩ := (lookup_iff cfg h dec hmode hlk _ v' hv'.2).mpr ⟨t, ht, extra, h1, h2⟩
    rw [decodedPath_eq] at hsplit'
    rw [hsplit] at hsplit'
    have := List.append_cancel_left hsplit'
    simp only [List.cons.injEq] at this
    have h3 := List.append_cancel_right this.1
    exact (List.append_cancel_left h3).symm

/-- the system a transformed value identifies: the value itself for ":system_id:", else what
    `find_system(lookup_key, value)` answers (`none`: the call raised) -/
def systemFor (h : Handler) (env : Env) (w : Str) : Option (Option Str) :=
  if h.cfg.lookupKey.getD [] = sysIdKey then some (some w) else env.ds.findSystem (h.cfg.lookupKey.getD []) w

@[simp] theorem isFind_find (k v : Str) : isFind (.findSystem k v) = true := rfl
@[simp] theorem isFind_data (i : Str) : isFind (.getData i) = false := rfl
@[simp] theorem isData_find (k v : Str) : isData (.findSystem k v) = false := rfl
@[simp] theorem isData_data (i : Str) : isData (.getData i) = true := rfl

/-- **Exactly the transformed value is looked up.** For an accepted request whose extracted
    value is `v`: if the transformation chain raises nothing is called; otherwise, with
    `w = transform v`, `find_system` is called exactly once, with `(lookup_key, w)` — or not at
    all when the key is ":system_id:", in which case `w` itself is the system id —, `get_data`
    is called at most once and only for the system so identified, and the (id, data) pair the
    rest of `_handle` works with belongs to precisely that system. -/
theorem lookup_call_spec (h : Handler) (env : Env) (ctx : Ctx) (v : Str)
    (hex : h.extract = true) (hraw : ctx.rawValue = some v) :
    (env.transform v = none →
      (handleLookup h env ctx).calls = [] ∧ (handleLookup h env ctx).result = none) ∧
    (∀ w, env.transform v = some w →
      (handleLookup h env ctx).calls.filter isFind
        = (if h.cfg.lookupKey.getD [] = sysIdKey then [] else [.findSystem (h.cfg.lookupKey.getD []) w]) ∧
      (∀ c ∈ (handleLookup h env ctx).calls.filter isData,
        ∃ sid, systemFor h env w = some (some sid) ∧ c = .getData sid) ∧
      ((handleLookup h env ctx).calls.filter isData).length ≤ 1 ∧
      (∀ sid d, (handleLookup h env ctx).result = some (sid, d) →
        (systemFor h env w = some sid ∨ (systemFor h env w = none ∧ sid = none ∧ h.cfg.dsErrorAction ≠ actionError)) ∧
        (∀ x, d = some x → ∃ i, sid = some i ∧ env.ds.getData i = some x))) := by
  constructor
  · intro htr
    unfold handleLookup
    simp [hex, hraw, htr]
  · intro w htr
    unfold handleLookup systemFor
    simp only [hex, hraw, htr, Bool.not_true, Bool.false_eq_true, if_false, Option.getD_some]
    by_cases hk : h.cfg.lookupKey.getD [] = sysIdKey
    · simp only [hk, if_true]
      by_cases hnd : (!truthy h.cfg.clientAddressKey && !h.cfg.template) = true
      · simp [hnd, List.filter]
      · simp only [hnd, Bool.false_eq_true, if_false]
        cases hd : env.ds.getData w with
        | some d => simp [List.filter, hd]
        | none =>
          by_cases ha : h.cfg.dsErrorAction = actionError <;> simp [ha, List.filter]
    · simp only [hk, if_false]
      cases hf : env.ds.findSystem (h.cfg.lookupKey.getD []) w with
      | none =>
        by_cases ha : h.cfg.dsErrorAction = actionError <;> simp [ha, List.filter]
      | some r =>
        cases r with
        | none => simp [List.filter]
        | some sid =>
          simp only
          by_cases hnd : (!truthy h.cfg.clientAddressKey && !h.cfg.template) = true
          · simp [hnd, List.filter]
          · simp only [hnd, Bool.false_eq_true, if_false]
            cases hd : env.ds.getData sid with
            | some d => simp [List.filter, hd]
            | none =>
              by_cases ha : h.cfg.dsErrorAction = actionError <;> simp [ha, List.filter]

/-- data is never present without a system id -/
theorem lookup_data_needs_id (h : Handler) (env : Env) (ctx : Ctx) (d : Option SysData)
    (hr : (handleLookup h env ctx).result = some (none, d)) : d = none := by
  unfold handleLookup at hr
  by_cases hex : h.extract = true
  · simp only [hex, Bool.not_true, Bool.false_eq_true, if_false] at hr
    cases htr : env.transform (ctx.rawValue.getD []) with
    | none => simp [htr] at hr
    | some w =>
      simp only [htr] at hr
      by_cases hk : h.cfg.lookupKey.getD [] = sysIdKey
      · simp only [hk, if_true] at hr
        by_cases hnd : (!truthy h.cfg.clientAddressKey && !h.cfg.template) = true
        · simp [hnd] at hr
        · simp only [hnd, Bool.false_eq_true, if_false] at hr
          cases hd : env.ds.getData w <;> by_cases ha : h.cfg.dsErrorAction = actionError <;> simp [hd, ha] at hr
      · simp only [hk, if_false] at hr
        cases hf : env.ds.findSystem (h.cfg.lookupKey.getD []) w with
        | none =>
          by_cases ha : h.cfg.dsErrorAction = actionError <;> simp [hf, ha] at hr
          exact hr.symm
        | some r =>
          cases r with
          | none => simp [hf] at hr; exact hr.symm
          | some sid =>
            simp only [hf] at hr
            by_cases hnd : (!truthy h.cfg.clientAddressKey && !h.cfg.template) = true
            · simp [hnd] at hr
            · simp only [hnd, Bool.false_eq_true, if_false] at hr
              cases hd : env.ds.getData sid <;> by_cases ha : h.cfg.dsErrorAction = actionError <;> simp [hd, ha] at hr
  · simp [hex] at hr
    exact hr.symm

/-- **The template sees the id and data of precisely that system, or neither.** Whenever a
    file is served, the (id, data) pair is the one `lookup_call_spec` characterises; with a
    template engine the context holds exactly that id and the data of that system (each
    present iff it exists), without one there is no context; data is never present without an
    id; and a request served without an id under a configured lookup means that
    `lookup_no_result_action` is "continue". -/
theorem template_context_spec (h : Handler) (env : Env) (ctx : Ctx) (p c : Str) (tc : Option TplCtx)
    (hs : (handleCore h env ctx).outcome = .served p c tc) :
    ∃ sid data, (handleLookup h env ctx).result = some (sid, data) ∧
      tc = (if h.cfg.template then some { id := sid, data := data.map (·.token) } else none) ∧
      (sid = none → data = none) ∧
      (sid = none → h.extract = true → h.cfg.noResultAction = continueAction) := by
  unfold handleCore at hs
  cases hr : (handleLookup h env ctx).result with
  | none => simp [hr] at hs
  | some sd =>
    obtain ⟨sid, data⟩ := sd
    simp only [hr] at hs
    refine ⟨sid, data, rfl, ?_, ?_, ?_⟩
    · split at hs
      · simp at hs
      · split at hs
        · simp at hs
        · split at hs
          · simp at hs
          · split at hs
            · simp only [Outcome.served.injEq] at hs
              exact hs.2.2.symm
            · simp at hs
    · intro hsid; subst hsid; exact lookup_data_needs_id h env ctx data hr
    · intro hsid hex
      split at hs
      · simp at hs
      · split at hs
        · simp at hs
        · rename_i hcond
          subst hsid
          simp [hex] at hcond
          exact hcond

/-- the same handler as the other protocol's class -/
def asTftp (h : Handler) (b : Bool) : Handler := { h with cfg := { h.cfg with tftp := b } }

/-- **TFTP = HTTP ∘ slash.** For every handler state, environment and name `f`, the whole
    observation of the TFTP class (context, `can_handle` answer, data-source calls, opened
    paths, outcome) equals that of the HTTP class with the same configuration for a GET of
    `f` if `f` starts with "/" and of `"/" ++ f` otherwise. -/
theorem tftp_parity (h : Handler) (env : Env) (method f : Str) :
    requestOn (asTftp h true) env method f
      = requestOn (asTftp h false) env "GET".toList (if f.head? = some '/' then f else '/' :: f) := by
  have hrw : tftpRewrite f = (if f.head? = some '/' then f else '/' :: f) := by
    unfold tftpRewrite
    by_cases hf : f.head? = some '/' <;> simp [hf]
  have hget : httpMethods.contains "GET".toList = true := by decide
  unfold requestOn prepare handle
  simp only [asTftp, if_true, Bool.false_eq_true, if_false, hrw, Bool.not_true, Bool.false_and,
    Bool.not_false, Bool.true_and, hget]
  rfl

end Vinegar.C06
