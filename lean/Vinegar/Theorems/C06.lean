import Vinegar.Lemmas.PathsSpec
import Vinegar.Lemmas.PathsCheck
import Vinegar.Lemmas.PathsHandle
import Vinegar.Lemmas.PathsConsts
import Vinegar.Lemmas.PathsCtor
/-
C06 — request-path matching and system lookup are exact and equal for HTTP and TFTP.

All theorems are about the executable model `Vinegar.Paths` of
vinegar/request_handler/file.py and quantify over every configuration the constructor
accepts and every request string. `Spec.Accepts` is the first sentence of the property
("no NUL byte, raw or percent-encoded, and the path, after cutting the query string and
percent-decoding once, equals the configured request_path with the placeholder replaced by a
non-empty slash-free string, followed in directory mode only by a non-empty remaining
path"), written without reference to the handler's segment bookkeeping.
-/
namespace Vinegar.C06
open Vinegar Vinegar.Paths Vinegar.Paths.Spec

/-- the placeholder the statement speaks of: present iff a lookup key is configured -/
def phOf (cfg : Cfg) : Option Str := if truthy cfg.lookupKey then some cfg.placeholder else none

/-- **Acceptance is exactly the documented rule.** For every configuration the constructor
    accepts and every request string, `_prepare_context` reports a match iff the request has
    no raw or encoded NUL and there are a value `v` (non-empty and slash-free when a placeholder
    is configured) and a remaining path `extra` such that the once-decoded, query-free path
    equals `request_path[placeholder := v] ++ extra`, where `extra` is empty in file mode and
    starts with "/" (so is non-empty) in directory mode. (`request_path = "/"` is the empty
    prefix; in file mode it matches "/" itself.) -/
theorem matches_iff (cfg : Cfg) (h : Handler) (hinit : initHandler cfg = .ok h) (uri : Str) :
    (prepareContext h uri).isMatch = true ↔ Accepts cfg.requestPath (phOf cfg) (truthy cfg.file) uri := by
  obtain ⟨dec, hmode, _⟩ := initHandler_ok cfg h hinit
  unfold Accepts
  cases hn : hasNul uri with
  | true =>
    constructor
    · intro hm; unfold prepareContext at hm; simp [hn, noMatch] at hm
    · rintro ⟨n1, n2, _⟩
      have := (hasNul_false_iff uri).mpr ⟨n1, n2⟩
      rw [hn] at this; exact absurd this (by simp)
  | false =>
    obtain ⟨n1, n2⟩ := (hasNul_false_iff uri).mp hn
    simp only [n1, n2, not_false_eq_true, true_and]
    rw [decodedPath_eq]
    cases hlk : truthy cfg.lookupKey with
    | false =>
      obtain ⟨hex, hP⟩ := dec.plain hlk
      have hph : phOf cfg = none := by unfold phOf; rw [hlk]; rfl
      rw [hph]
      have hspec : (∃ v extra t, valueOK none v = true ∧ pattern cfg.requestPath none v = some t ∧
            unquote (cutQuery uri) = t ++ extra ∧ modeOK (truthy cfg.file) cfg.requestPath extra = true) ↔
          ∃ extra, unquote (cutQuery uri) = effPath cfg.requestPath ++ extra ∧
            modeOK (truthy cfg.file) cfg.requestPath extra = true := by
        constructor
        · rintro ⟨v, extra, t, _, ht, h1, h2⟩
          simp only [pattern, Option.some.injEq] at ht
          subst ht
          exact ⟨extra, h1, h2⟩
        · rintro ⟨extra, h1, h2⟩
          exact ⟨[], extra, _, by simp [valueOK], rfl, h1, h2⟩
      rw [hspec, ← plain_iff cfg h dec hmode hlk]
      unfold prepareContext
      simp only [hn, Bool.false_eq_true, if_false, hex, Bool.not_false, Bool.and_true]
      by_cases hsp : (unquote (cutQuery uri) = ['/'] ∧ h.prefixSegs = [[]] ∧ h.fileMode = true)
      · have : (decide (unquote (cutQuery uri) = ['/']) && decide (h.prefixSegs = [[]]) && h.fileMode) = true := by
          simp [hsp.1, hsp.2.1, hsp.2.2]
        simp only [this, if_true, true_iff]
        exact Or.inl hsp
      · have : (decide (unquote (cutQuery uri) = ['/']) && decide (h.prefixSegs = [[]]) && h.fileMode) = false := by
          cases hd1 : decide (unquote (cutQuery uri) = ['/']) <;> cases hd2 : decide (h.prefixSegs = [[]]) <;>
            cases hd3 : h.fileMode <;> simp_all
        simp only [this, Bool.false_eq_true, if_false]
        rw [(matchSegs_plain h _ hex).1]
        constructor
        · exact Or.inr
        · rintro (hc | hc)
          · exact absurd hc hsp
          · exact hc
    | true =>
      obtain ⟨hex, _, _, _, _⟩ := dec.lookup hlk
      have hph : phOf cfg = some cfg.placeholder := by unfold phOf; rw [hlk]; rfl
      rw [hph]
      unfold prepareContext
      simp only [hn, Bool.false_eq_true, if_false, hex, Bool.not_true, Bool.and_false, Bool.false_and]
      rw [(matchSegs_lookup h _ hex).1]
      obtain ⟨_, hpre, hsuf, _, _, _⟩ := lookup_facts cfg h dec hlk
      constructor
      · rintro ⟨v, R, hv, hsplit, hr⟩
        have hvs : '/' ∉ v := by
          have := mem_splitOn_no_sep '/' (unquote (cutQuery uri)) (h.segPre ++ v ++ h.segSuf)
            (by rw [hsplit]; simp)
          simp only [List.mem_append, not_or] at this
          exact this.1.2
        obtain ⟨t, ht, extra, h1, h2⟩ := (lookup_iff cfg h dec hmode hlk _ v hvs).mp ⟨R, hsplit, hr⟩
        refine ⟨v, extra, t, ?_, ht, h1, h2⟩
        have : v.isEmpty = false := by cases v <;> simp_all
        simp [valueOK, this, hvs]
      · rintro ⟨v, extra, t, hv, ht, h1, h2⟩
        simp only [valueOK, Bool.and_eq_true, Bool.not_eq_true', List.isEmpty_eq_false_iff,
          List.contains_eq_mem, decide_eq_false_iff_not] at hv
        obtain ⟨R, hsplit, hr⟩ := (lookup_iff cfg h dec hmode hlk _ v hv.2).mpr ⟨t, ht, extra, h1, h2⟩
        exact ⟨v, R, hv.1, hsplit, hr⟩

/-- `v` (with some remaining path) witnesses that the request matches -/
def IsWitness (cfg : Cfg) (uri v : Str) : Prop :=
  ∃ extra t, valueOK (phOf cfg) v = true ∧ pattern cfg.requestPath (phOf cfg) v = some t ∧
    decodedPath uri = t ++ extra ∧ modeOK (truthy cfg.file) cfg.requestPath extra = true

/-- **The extracted lookup value is that `v`, and it is unique.** When a lookup key is
    configured and the request is accepted, the context carries a value `v` that witnesses the
    match, and every witness equals it: the request determines the looked-up string. -/
theorem lookup_value_spec (cfg : Cfg) (h : Handler) (hinit : initHandler cfg = .ok h) (uri : Str)
    (hlk : truthy cfg.lookupKey = true) (hm : (prepareContext h uri).isMatch = true) :
    ∃ v, (prepareContext h uri).rawValue = some v ∧ IsWitness cfg uri v ∧
      ∀ v', IsWitness cfg uri v' → v' = v := by
  obtain ⟨dec, hmode, _⟩ := initHandler_ok cfg h hinit
  obtain ⟨hex, _, _, _, _⟩ := dec.lookup hlk
  have hph : phOf cfg = some cfg.placeholder := by unfold phOf; rw [hlk]; rfl
  have hn : hasNul uri = false := by
    cases hn : hasNul uri with
    | false => rfl
    | true => unfold prepareContext at hm; simp [hn, noMatch] at hm
  have hpc : prepareContext h uri = matchSegs h (splitOn '/' (unquote (cutQuery uri))) := by
    unfold prepareContext
    simp only [hn, Bool.false_eq_true, if_false, hex, Bool.not_true, Bool.and_false, Bool.false_and]
  rw [hpc] at hm ⊢
  obtain ⟨v, R, hv, hsplit, hr⟩ := (matchSegs_lookup h _ hex).1.mp hm
  have hvs : '/' ∉ v := by
    have := mem_splitOn_no_sep '/' (unquote (cutQuery uri)) (h.segPre ++ v ++ h.segSuf) (by rw [hsplit]; simp)
    simp only [List.mem_append, not_or] at this
    exact this.1.2
  refine ⟨v, ((matchSegs_lookup h _ hex).2 v R hv hsplit hr).1, ?_, ?_⟩
  · obtain ⟨t, ht, extra, h1, h2⟩ := (lookup_iff cfg h dec hmode hlk _ v hvs).mp ⟨R, hsplit, hr⟩
    refine ⟨extra, t, ?_, by rw [hph]; exact ht, h1, h2⟩
    have : v.isEmpty = false := by cases v <;> simp_all
    rw [hph]; simp [valueOK, this, hvs]
  · rintro v' ⟨extra, t, hv', ht, h1, h2⟩
    rw [hph] at hv' ht
    simp only [valueOK, Bool.and_eq_true, Bool.not_eq_true', List.isEmpty_eq_false_iff,
      List.contains_eq_mem, decide_eq_false_iff_not] at hv'
    obtain ⟨R', hsplit', _⟩ := (lookup_iff cfg h dec hmode hlk _ v' hv'.2).mpr ⟨t, ht, extra, h1, h2⟩
    rw [decodedPath_eq] at hsplit'
    rw [hsplit] at hsplit'
    have := List.append_cancel_left hsplit'
    simp only [List.cons.injEq] at this
    have h3 := List.append_cancel_right this.1
    exact (List.append_cancel_left h3).symm

@[simp] theorem isFind_find (k v : Str) : isFind (.findSystem k v) = true := rfl
@[simp] theorem isFind_data (i : Str) : isFind (.getData i) = false := rfl
@[simp] theorem isData_find (k v : Str) : isData (.findSystem k v) = false := rfl
@[simp] theorem isData_data (i : Str) : isData (.getData i) = true := rfl

/-- **Exactly the transformed value is looked up.** For an accepted request whose extracted
    value is `v`: if the transformation chain raises nothing is called; otherwise, with
    `w = transform v`, `find_system` is called exactly once, with `(lookup_key, w)` — or not at
    all when the key is ":system_id:", in which case `w` itself is the system id —, `get_data`
    is called at most once and only for the system so identified, and the (id, data) pair the
    rest of `_handle` works with belongs to precisely that system. -/
theorem lookup_call_spec (h : Handler) (env : Env) (ctx : Ctx) (v : Str)
    (hex : h.extract = true) (hraw : ctx.rawValue = some v) :
    (env.transform v = none →
      (handleLookup h env ctx).calls = [] ∧ (handleLookup h env ctx).result = none) ∧
    (∀ w, env.transform v = some w →
      (handleLookup h env ctx).calls.filter isFind
        = (if h.cfg.lookupKey.getD [] = sysIdKey then [] else [.findSystem (h.cfg.lookupKey.getD []) w]) ∧
      (∀ c ∈ (handleLookup h env ctx).calls.filter isData,
        ∃ sid, systemFor h env w = some (some sid) ∧ c = .getData sid) ∧
      ((handleLookup h env ctx).calls.filter isData).length ≤ 1 ∧
      (∀ sid d, (handleLookup h env ctx).result = some (sid, d) →
        (systemFor h env w = some sid ∨ (systemFor h env w = none ∧ sid = none ∧ h.cfg.dsErrorAction ≠ actionError)) ∧
        (∀ x, d = some x → ∃ i, sid = some i ∧ env.ds.getData i = some x))) := by
  constructor
  · intro htr
    unfold handleLookup
    simp [hex, hraw, htr]
  · intro w htr
    unfold handleLookup systemFor
    simp only [hex, hraw, htr, Bool.not_true, Bool.false_eq_true, if_false, Option.getD_some]
    by_cases hk : h.cfg.lookupKey.getD [] = sysIdKey
    · simp only [hk, if_true]
      by_cases hnd : (!truthy h.cfg.clientAddressKey && !h.cfg.template) = true
      · simp [hnd, List.filter]
      · simp only [hnd, Bool.false_eq_true, if_false]
        cases hd : env.ds.getData w with
        | some d => simp [List.filter, hd]
        | none =>
          by_cases ha : h.cfg.dsErrorAction = actionError <;> simp [ha, List.filter]
    · simp only [hk, if_false]
      cases hf : env.ds.findSystem (h.cfg.lookupKey.getD []) w with
      | none =>
        by_cases ha : h.cfg.dsErrorAction = actionError <;> simp [ha, List.filter]
      | some r =>
        cases r with
        | none => simp [List.filter]
        | some sid =>
          simp only
          by_cases hnd : (!truthy h.cfg.clientAddressKey && !h.cfg.template) = true
          · simp [hnd, List.filter]
          · simp only [hnd, Bool.false_eq_true, if_false]
            cases hd : env.ds.getData sid with
            | some d => simp [List.filter, hd]
            | none =>
              by_cases ha : h.cfg.dsErrorAction = actionError <;> simp [ha, List.filter]

/-- data is never present without a system id -/
theorem lookup_data_needs_id (h : Handler) (env : Env) (ctx : Ctx) (d : Option SysData)
    (hr : (handleLookup h env ctx).result = some (none, d)) : d = none := by
  unfold handleLookup at hr
  by_cases hex : h.extract = true
  · simp only [hex, Bool.not_true, Bool.false_eq_true, if_false] at hr
    cases htr : env.transform (ctx.rawValue.getD []) with
    | none => simp [htr] at hr
    | some w =>
      simp only [htr] at hr
      by_cases hk : h.cfg.lookupKey.getD [] = sysIdKey
      · simp only [hk, if_true] at hr
        by_cases hnd : (!truthy h.cfg.clientAddressKey && !h.cfg.template) = true
        · simp [hnd] at hr
        · simp only [hnd, Bool.false_eq_true, if_false] at hr
          cases hd : env.ds.getData w <;> by_cases ha : h.cfg.dsErrorAction = actionError <;> simp [hd, ha] at hr
      · simp only [hk, if_false] at hr
        cases hf : env.ds.findSystem (h.cfg.lookupKey.getD []) w with
        | none =>
          by_cases ha : h.cfg.dsErrorAction = actionError <;> simp [hf, ha] at hr
          exact hr.symm
        | some r =>
          cases r with
          | none => simp [hf] at hr; exact hr.symm
          | some sid =>
            simp only [hf] at hr
            by_cases hnd : (!truthy h.cfg.clientAddressKey && !h.cfg.template) = true
            · simp [hnd] at hr
            · simp only [hnd, Bool.false_eq_true, if_false] at hr
              cases hd : env.ds.getData sid <;> by_cases ha : h.cfg.dsErrorAction = actionError <;> simp [hd, ha] at hr
  · simp [hex] at hr
    exact hr.symm

/-- **The template sees the id and data of precisely that system, or neither.** Whenever a
    file is served, the (id, data) pair is the one `lookup_call_spec` characterises; with a
    template engine the context holds exactly that id and the data of that system (each
    present iff it exists), without one there is no context; data is never present without an
    id; and a request served without an id under a configured lookup means that
    `lookup_no_result_action` is "continue". -/
theorem template_context_spec (h : Handler) (env : Env) (ctx : Ctx) (p c : Str) (tc : Option TplCtx)
    (hs : (handleCore h env ctx).outcome = .served p c tc) :
    ∃ sid data, (handleLookup h env ctx).result = some (sid, data) ∧
      tc = (if h.cfg.template then some { id := sid, data := data.map (·.token) } else none) ∧
      (sid = none → data = none) ∧
      (sid = none → h.extract = true → h.cfg.noResultAction = continueAction) := by
  unfold handleCore at hs
  cases hr : (handleLookup h env ctx).result with
  | none => simp [hr] at hs
  | some sd =>
    obtain ⟨sid, data⟩ := sd
    simp only [hr] at hs
    refine ⟨sid, data, rfl, ?_, ?_, ?_⟩
    · split at hs
      · simp at hs
      · split at hs
        · simp at hs
        · split at hs
          · simp at hs
          · split at hs
            · simp only [Outcome.served.injEq] at hs
              exact hs.2.2.symm
            · simp at hs
    · intro hsid; subst hsid; exact lookup_data_needs_id h env ctx data hr
    · intro hsid hex
      split at hs
      · simp at hs
      · split at hs
        · simp at hs
        · rename_i hcond
          subst hsid
          simp [hex] at hcond
          exact hcond

/-- **TFTP = HTTP ∘ slash.** For every handler state, environment and name `f`, the whole
    observation of the TFTP class (context, `can_handle` answer, data-source calls, opened
    paths, outcome) equals that of the HTTP class with the same configuration for a GET of
    `f` if `f` starts with "/" and of `"/" ++ f` otherwise. -/
theorem tftp_parity (h : Handler) (env : Env) (method f : Str) :
    requestOn (asTftp h true) env method f
      = requestOn (asTftp h false) env "GET".toList (if f.head? = some '/' then f else '/' :: f) := by
  have hrw : tftpRewrite f = (if f.head? = some '/' then f else '/' :: f) := by
    unfold tftpRewrite
    by_cases hf : f.head? = some '/' <;> simp [hf]
  have hget : httpMethods.contains "GET".toList = true := by decide
  unfold requestOn prepare handle
  simp only [asTftp, if_true, Bool.false_eq_true, if_false, hrw, Bool.not_true, Bool.false_and,
    Bool.not_false, Bool.true_and, hget]
  rfl

/-- **TFTP = HTTP ∘ slash, from the configuration on.** Constructing the TFTP class from a
    configuration and asking it for `f` gives the same result — the same constructor verdict
    and, if constructed, the same observation — as constructing the HTTP class from the same
    options and asking it (GET) for the slash-prefixed name. The one exception is
    `request_path = "/"` in file mode, which only the TFTP constructor rejects. -/
theorem tftp_parity_cfg (cfg : Cfg) (env : Env) (method f : Str)
    (hroot : ¬ (cfg.requestPath = ['/'] ∧ truthy cfg.file = true)) :
    request { cfg with tftp := true } env method f
      = request { cfg with tftp := false } env "GET".toList (if f.head? = some '/' then f else '/' :: f) := by
  unfold request
  rw [initHandler_tftp cfg true hroot]
  cases hi : initHandler { cfg with tftp := false } with
  | error e => rfl
  | ok h =>
    have hf : asTftp h false = h := by
      have hc := (initHandler_ok _ h hi).1.cfg_eq
      cases h with
      | mk c e p a b s => simp only at hc; subst hc; rfl
    have := tftp_parity h env method f
    rw [hf] at this
    simp only [Except.map]
    rw [this]

/-! ### the checker of the specification accepts every observation of the model -/

theorem setup_request (h : Handler) (req : Str) :
    prepare h req = prepareContext h ((setupOf h).request req) := rfl

theorem systemOf_eq (h : Handler) (env : Env) (w : Str) :
    systemOf (setupOf h) env.ds w = systemFor h env w := rfl

/-- the lookup clause of the checker holds for what `_handle` does -/
theorem lookupClause_model (h : Handler) (env : Env) (ctx : Ctx) (v : Str) (acc : Bool)
    (hplain : h.extract = false → truthy h.cfg.lookupKey = false)
    (hlook : h.extract = true → truthy h.cfg.lookupKey = true ∧ ctx.rawValue = some v) :
    lookupClause (setupOf h) env.transform env.ds v
      { accepted := acc, calls := (handleCore h env ctx).calls, opens := (handleCore h env ctx).opens,
        outcome := some (handleCore h env ctx).outcome } = true := by
  have hcalls : (handleCore h env ctx).calls = (handleLookup h env ctx).calls := by
    rcases handleCore_cases h env ctx with ⟨_, hc⟩ | ⟨_, _, _, _, hc⟩ | ⟨_, _, _, _, _, hc⟩ |
      ⟨_, _, _, _, _, _, _, _, hc⟩ | ⟨_, _, _, _, _, _, _, _, _, hc⟩ <;> rw [hc]
  unfold lookupClause
  cases hex : h.extract with
  | false =>
    have hl := hplain hex
    simp only [setupOf, hl, Bool.false_eq_true, if_false, hcalls, handleLookup_plain h env ctx hex, List.isEmpty_nil]
  | true =>
    obtain ⟨hl, hraw⟩ := hlook hex
    simp only [setupOf, hl, if_true]
    cases htr : env.transform v with
    | none =>
      have hlk := handleLookup_raise h env ctx v hex hraw htr
      have hout : (handleCore h env ctx).outcome = .internalError := by
        rcases handleCore_cases h env ctx with ⟨_, hc⟩ | ⟨_, _, hr, _⟩ | ⟨_, _, hr, _⟩ |
          ⟨_, _, _, hr, _⟩ | ⟨_, _, _, _, hr, _⟩
        · rw [hc]
        all_goals (rw [hlk] at hr; simp at hr)
      simp only [hcalls, hlk, hout, List.isEmpty_nil, beq_self_eq_true, Bool.and_self]
    | some w =>
      have hlk := handleLookup_eq h env ctx v w hex hraw htr
      simp only [hcalls]
      simp only [systemOf]
      rw [show (if h.cfg.lookupKey.getD [] = sysIdKey then some (some w)
        else env.ds.findSystem (h.cfg.lookupKey.getD []) w) = systemFor h env w from rfl, hlk]
      unfold findCalls
      cases hs : systemFor h env w with
      | none =>
        by_cases hk : h.cfg.lookupKey.getD [] = sysIdKey <;> simp [hk, List.filter]
      | some r =>
        cases r with
        | none => by_cases hk : h.cfg.lookupKey.getD [] = sysIdKey <;> simp [hk, List.filter]
        | some sid =>
          cases hn : needsData h <;> cases hd : env.ds.getData sid <;>
            by_cases hk : h.cfg.lookupKey.getD [] = sysIdKey <;> simp [hk, List.filter, hd]

/-- the template clause of the checker holds for what `_handle` does -/
theorem templateClause_model (h : Handler) (env : Env) (ctx : Ctx) (v : Str) (acc : Bool)
    (hplain : h.extract = false → truthy h.cfg.lookupKey = false)
    (hlook : h.extract = true → truthy h.cfg.lookupKey = true ∧ ctx.rawValue = some v) :
    templateClause (setupOf h) env.transform env.ds v
      { accepted := acc, calls := (handleCore h env ctx).calls, opens := (handleCore h env ctx).opens,
        outcome := some (handleCore h env ctx).outcome } = true := by
  rcases handleCore_cases h env ctx with ⟨_, hc⟩ | ⟨_, _, _, _, hc⟩ | ⟨_, _, _, _, _, hc⟩ |
    ⟨_, _, _, _, _, _, _, _, hc⟩ | ⟨sid, data, q, c, hr, _, hcond, _, _, hc⟩
  · rw [hc]; rfl
  · rw [hc]; rfl
  · rw [hc]; rfl
  · rw [hc]; rfl
  · rw [hc]
    unfold templateClause
    cases ht : h.cfg.template with
    | false => simp [setupOf, ht]
    | true =>
      simp only [if_true]
      cases hex : h.extract with
      | false =>
        have hl := hplain hex
        rw [handleLookup_plain h env ctx hex] at hr
        simp only [Option.some.injEq, Prod.mk.injEq] at hr
        obtain ⟨rfl, rfl⟩ := hr
        simp [setupOf, hl]
      | true =>
        obtain ⟨hl, hraw⟩ := hlook hex
        simp only [setupOf, hl, if_true]
        cases htr : env.transform v with
        | none =>
          rw [handleLookup_raise h env ctx v hex hraw htr] at hr
          simp at hr
        | some w =>
          rw [handleLookup_eq h env ctx v w hex hraw htr] at hr
          simp only [systemOf]
          rw [show (if h.cfg.lookupKey.getD [] = sysIdKey then some (some w)
            else env.ds.findSystem (h.cfg.lookupKey.getD []) w) = systemFor h env w from rfl]
          have hnd : needsData h = true := by simp [needsData, ht]
          simp only [hex, Bool.true_and] at hcond
          cases hs : systemFor h env w with
          | none =>
            rw [hs] at hr
            by_cases ha : h.cfg.dsErrorAction = actionError
            · simp [ha] at hr
            · simp only [ha, if_false, Option.some.injEq, Prod.mk.injEq] at hr
              obtain ⟨rfl, rfl⟩ := hr
              simp at hcond
              simp [hcond, ha]
          | some r =>
            cases r with
            | none =>
              rw [hs] at hr
              simp only [Option.some.injEq, Prod.mk.injEq] at hr
              obtain ⟨rfl, rfl⟩ := hr
              simp at hcond
              simp [hcond]
            | some s0 =>
              rw [hs] at hr
              simp only [hnd, Bool.true_eq_false, if_false] at hr
              cases hd : env.ds.getData s0 with
              | some d =>
                rw [hd] at hr
                simp only [Option.some.injEq, Prod.mk.injEq] at hr
                obtain ⟨rfl, rfl⟩ := hr
                simp [hd]
              | none =>
                rw [hd] at hr
                by_cases ha : h.cfg.dsErrorAction = actionError
                · simp [ha] at hr
                · simp only [ha, if_false, Option.some.injEq, Prod.mk.injEq] at hr
                  obtain ⟨rfl, rfl⟩ := hr
                  simp [ha, hd]

theorem handleCore_not_405 (h : Handler) (env : Env) (ctx : Ctx) :
    (handleCore h env ctx).outcome ≠ .methodNotAllowed := by
  rcases handleCore_cases h env ctx with ⟨_, hc⟩ | ⟨_, _, _, _, hc⟩ | ⟨_, _, _, _, _, hc⟩ |
    ⟨_, _, _, _, _, _, _, _, hc⟩ | ⟨_, _, _, _, _, _, _, _, _, hc⟩ <;> rw [hc] <;> simp

/-- **The specification's checker accepts every observation of the model**: for every
    configuration the constructor accepts, every environment (transformation, data source,
    file system, client), method and request string, all three clauses of `c06Check` —
    acceptance as decided by `Spec.accepts`, the lookup calls, the template context — hold
    for what the model does. (This is the checker the driver evaluates on the real handlers.) -/
theorem c06Check_model (cfg : Cfg) (h : Handler) (hinit : initHandler cfg = .ok h)
    (env : Env) (method req : Str) :
    (c06Check (setupOf h) env.transform env.ds req (requestOn h env method req).seen).all = true := by
  obtain ⟨dec, hmode, _⟩ := initHandler_ok cfg h hinit
  have hcfg := dec.cfg_eq
  have hrp : (setupOf h).requestPath = cfg.requestPath := by simp [setupOf, hcfg]
  have hph : (setupOf h).placeholder = phOf cfg := by simp [setupOf, phOf, hcfg]
  have hfm : (setupOf h).fileMode = truthy cfg.file := by simp [setupOf, hcfg]
  have hacc : (prepare h req).isMatch
      = accepts cfg.requestPath (phOf cfg) (truthy cfg.file) ((setupOf h).request req) := by
    rw [setup_request, Bool.eq_iff_iff]
    exact (matches_iff cfg h hinit _).trans (accepts_iff _ _ _ _).symm
  have hplain : h.extract = false → truthy h.cfg.lookupKey = false := by
    intro hex
    cases hl : truthy cfg.lookupKey with
    | false => rw [hcfg]; exact hl
    | true => rw [(dec.lookup hl).1] at hex; exact absurd hex (by simp)
  have hlook0 : h.extract = true → truthy cfg.lookupKey = true := by
    intro hex
    cases hl : truthy cfg.lookupKey with
    | true => rfl
    | false => rw [(dec.plain hl).1] at hex; exact absurd hex (by simp)
  unfold c06Check
  simp only [hrp, hph, hfm]
  unfold accepts at hacc
  cases hws : witnesses cfg.requestPath (phOf cfg) (truthy cfg.file) ((setupOf h).request req) with
  | nil =>
    rw [hws] at hacc
    simp only [List.isEmpty_nil, Bool.not_true] at hacc
    unfold requestOn RequestObs.seen
    simp [hacc, C06Verdict.all]
  | cons v rest =>
    rw [hws] at hacc
    simp only [List.isEmpty_cons, Bool.not_false] at hacc
    have hv : v ∈ witnesses cfg.requestPath (phOf cfg) (truthy cfg.file) ((setupOf h).request req) := by
      rw [hws]; simp
    obtain ⟨_, hw⟩ := (mem_witnesses _ _ _ _ _).mp hv
    have hwit : IsWitness cfg ((setupOf h).request req) v := by
      obtain ⟨extra, t, h1, h2, h3, h4⟩ := (witnessOK_iff _ _ _ _ _).mp hw
      exact ⟨extra, t, h1, h2, h3, h4⟩
    have hlook : h.extract = true → truthy h.cfg.lookupKey = true ∧ (prepare h req).rawValue = some v := by
      intro hex
      have hl := hlook0 hex
      refine ⟨by rw [hcfg]; exact hl, ?_⟩
      rw [setup_request] at hacc ⊢
      obtain ⟨v0, hraw, _, huniq⟩ := lookup_value_spec cfg h hinit _ hl hacc
      rw [hraw, huniq v hwit]
    unfold requestOn RequestObs.seen
    simp only [hacc, if_true]
    unfold handle
    by_cases hmeth : (!h.cfg.tftp && !httpMethods.contains method) = true
    · simp only [hmeth, if_true]
      simp [C06Verdict.all]
    · simp only [hmeth, Bool.false_eq_true, if_false]
      have h405 : ((handleCore h env (prepare h req)).outcome == Outcome.methodNotAllowed) = false := by
        rw [beq_eq_false_iff_ne]; exact handleCore_not_405 h env _
      simp only [h405, Bool.false_eq_true, if_false, C06Verdict.all, Bool.and_eq_true]
      refine ⟨⟨by simp, ?_⟩, ?_⟩
      · exact lookupClause_model h env (prepare h req) v true hplain hlook
      · exact templateClause_model h env (prepare h req) v true hplain hlook

/-! ### sanity: the hypotheses are satisfiable, the known-bad behaviour is rejected -/

/-- a configuration the constructor accepts (directory mode, placeholder in the last segment) -/
def exampleCfg : Cfg :=
  { tftp := true, requestPath := "/p/...".toList, file := none, rootDir := some "/srv/root".toList,
    fileSuffix := none, lookupKey := some "net:mac".toList, placeholder := "...".toList,
    noResultAction := "not_found".toList, dsErrorAction := "error".toList, template := false,
    clientAddressKey := none, clientAddressList := [] }

example : ∃ h, initHandler exampleCfg = .ok h := ⟨_, rfl⟩

/-- the repaired rewrite: a name starting with "%2f" gets its slash like any other -/
example : tftpRewrite "%2fp/a.txt".toList = "/%2fp/a.txt".toList := by decide

/-- D10 is rejected by the specification: for `request_path = /p` (directory mode) the TFTP name
    "%2fp/a.txt" — i.e. the HTTP path "/%2fp/a.txt" — is not an accepted request, so an
    observation "accepted" fails the acceptance clause of the checker -/
example : accepts "/p".toList none false (slashed "%2fp/a.txt".toList) = false := by decide

example : accepts "/p".toList none false (slashed "p/a.txt".toList) = true := by decide

example : witnesses "/p/x-...".toList (some "...".toList) false "/p/x-%61b/f.txt?q".toList = ["ab".toList] := by
  decide

end Vinegar.C06
