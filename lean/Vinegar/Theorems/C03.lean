import Vinegar.Lemmas.Http
/-
C03 — HTTP responses carry exactly the handler's status, headers and body.

Everything is quantified over ALL handler results (status 100..999, any list of headers whose
names are tokens and whose values contain no CR/LF, any body bytes), all environments (values
of `Server`/`Date`, reason phrases, error pages) and both HEAD and non-HEAD requests.

The two hypotheses that are not mere well-formedness of the handler's output:
* `Framed hs body`: a `Content-Length` header supplied by the handler, if any, equals the length
  of the body it returns (the server copies both through verbatim; a handler lying about the
  length produces a response no client can frame — that is outside the handler contract);
* the status is a three-digit number (it is an `http.HTTPStatus`).
-/
namespace Vinegar.C03
open Vinegar Vinegar.Http Vinegar.Http.Spec

/-- well-formed handler output (the domain of the round trip) -/
structure ResultOk (r : Result) : Prop where
  status : ∀ st hs b, r = .ret st hs b → 100 ≤ st ∧ st ≤ 999
  headers : ∀ st hs b, r = .ret st hs b → ∀ h ∈ hs.getD [], headerOk h = true
  framed : ∀ st hs b, r = .ret st hs b → Framed (hs.getD []) (b.getD [])

/-- `send_error(code)`: the client parses exactly the standard error response — status `code`,
`Server`, `Date`, `Connection: close`, and (for codes that have a page) `Content-Type`,
`Content-Length` and the page itself (omitted for HEAD); nothing follows. -/
theorem parse_emit_error (env : Env) (henv : EnvOk env) (isHead : Bool) (code : Nat)
    (h1 : 100 ≤ code) (h2 : code ≤ 999) :
    parseResponse isHead (sendError env isHead code) = some (expectedError env isHead code, []) := by
  have hall : ∀ h ∈ stdHeaders env ++ errHeaders env code, headerOk h = true := by
    intro h hm
    rcases List.mem_append.mp hm with hm | hm
    · exact std_ok env henv h hm
    · exact errHeaders_ok env code h hm
  have e : sendError env isHead code
      = statusLine env code ++ headerLines (stdHeaders env ++ errHeaders env code) ++ crlf ++
        (if isHead || !errHasPage code then [] else env.errPage code) := by
    simp [sendError, sendResponse, headerLines, List.flatMap_append]
  rw [e, parse_frame env henv isHead code h1 h2 _ hall]
  unfold frameResult
  rw [findCL_append_of_none (findCL_std env), findCL_errHeaders]
  cases hp : errHasPage code
  · simp [expectedError, hp]
  · cases isHead
    · simp [expectedError, hp, parseDec_toDec]
    · simp [expectedError, hp, parseDec_toDec]

/-- **Round trip.** For every handler result `(status, headers, body)` that does not take the
bare-error path — headers `None`, `{}` or any clean list; body `None`, empty or any bytes — the
strict parser reads from the emitted bytes exactly one response with that status, the standard
headers followed by exactly the returned headers, and a body byte-identical to the returned
stream (empty when absent), and nothing follows it.  HEAD included (this server sends the body
for HEAD as well). -/
theorem parse_emit (env : Env) (henv : EnvOk env) (isHead : Bool) (status : Nat)
    (headers : Option (List Header)) (body : Option Bytes)
    (hr : ResultOk (.ret status headers body)) (hnb : isBare status headers body = false) :
    parseResponse isHead (emit env isHead (.ret status headers body))
      = some (⟨status, stdHeaders env ++ headers.getD [], body.getD []⟩, []) := by
  obtain ⟨h1, h2⟩ := hr.status _ _ _ rfl
  have hh := hr.headers _ _ _ rfl
  have hf := hr.framed _ _ _ rfl
  have hall : ∀ h ∈ stdHeaders env ++ headers.getD [], headerOk h = true := by
    intro h hm
    rcases List.mem_append.mp hm with hm | hm
    · exact std_ok env henv h hm
    · exact hh h hm
  have e : emit env isHead (.ret status headers body)
      = statusLine env status ++ headerLines (stdHeaders env ++ headers.getD []) ++ crlf ++ body.getD [] := by
    simp [emit, hnb, sendResponse, headerLines, List.flatMap_append]
  rw [e, parse_frame env henv isHead status h1 h2 _ hall]
  unfold frameResult
  rw [findCL_append_of_none (findCL_std env)]
  rcases hf with hnone | ⟨v, hv, hd⟩
  · simp [hnone]
  · cases isHead <;> simp [hv, hd]

/-- **Bare error.** `status ≥ 400` with no headers (`None` or `{}`) and no body: the client
receives the standard error page of that status (`ERRPAGE(status)` with its `Content-Length`;
for HEAD the page itself is omitted). -/
theorem bare_error_page (env : Env) (henv : EnvOk env) (isHead : Bool) (status : Nat)
    (headers : Option (List Header)) (h4 : 400 ≤ status) (h9 : status ≤ 999)
    (hh : headers = none ∨ headers = some []) :
    parseResponse isHead (emit env isHead (.ret status headers none))
      = some (⟨status, stdHeaders env ++ errHeaders env status,
               if isHead then [] else env.errPage status⟩, []) := by
  have hb : isBare status headers none = true := by
    rcases hh with rfl | rfl <;> simp [isBare, h4]
  have hp : errHasPage status = true := by
    simp only [errHasPage, Bool.and_eq_true, decide_eq_true_eq, bne_iff_ne, ne_eq]
    omega
  have := parse_emit_error env henv isHead status (by omega) h9
  simp only [emit, hb, ↓reduceIte]
  rw [this]
  simp [expectedError, hp]

/-- **Raising handler.** Whatever `handle` raises, the client receives a 500 response with the
standard error page. -/
theorem raise_gives_500 (env : Env) (henv : EnvOk env) (isHead : Bool) :
    parseResponse isHead (emit env isHead .raised)
      = some (⟨500, stdHeaders env ++ errHeaders env 500,
               if isHead then [] else env.errPage 500⟩, []) := by
  have := parse_emit_error env henv isHead 500 (by omega) (by omega)
  simp only [emit]
  rw [this]
  have hp : errHasPage 500 = true := by decide
  simp [expectedError, hp]

/-- `expected` is what the round-trip theorems say the client parses -/
theorem parse_emit_expected (env : Env) (henv : EnvOk env) (isHead : Bool) (r : Result) (hr : ResultOk r) :
    parseResponse isHead (emit env isHead r) = some (expected env isHead r, []) := by
  cases r with
  | raised =>
    have := parse_emit_error env henv isHead 500 (by omega) (by omega)
    simpa [emit, expected, expectedError] using this
  | ret st hs b =>
    cases hb : isBare st hs b
    · rw [parse_emit env henv isHead st hs b hr hb]; simp [expected, hb]
    · obtain ⟨h1, h2⟩ := hr.status _ _ _ rfl
      have := parse_emit_error env henv isHead st h1 h2
      simpa [emit, expected, expectedError, hb] using this

/-! ### dispatch -/

/-- every handler before index `k` declines (`can_handle` false, nothing raised) -/
def AllNo (hs : List Handler) : Prop := ∀ h ∈ hs, h.accept = .no

/-- log of the declined handlers `i, i+1, …` -/
def declinedCalls (i : Nat) : Nat → List Call
  | 0 => []
  | n + 1 => .prepare i :: .canHandle i :: declinedCalls (i + 1) n

theorem dispatchFrom_split (i : Nat) (pre : List Handler) (h : Handler) (post : List Handler)
    (hpre : AllNo pre) (hacc : h.accept ≠ .no) :
    dispatchFrom i (pre ++ h :: post) =
      (declinedCalls i pre.length ++ (dispatchFrom (i + pre.length) [h]).1,
       (dispatchFrom (i + pre.length) (h :: post)).2) := by
  induction pre generalizing i with
  | nil =>
    simp only [List.nil_append, List.length_nil, declinedCalls, Nat.add_zero]
    cases ha : h.accept <;> simp_all [dispatchFrom]
  | cons p pre ih =>
    have hp : p.accept = .no := hpre p (by simp)
    have := ih (i + 1) (fun x hx => hpre x (by simp [hx]))
    simp only [List.cons_append, dispatchFrom, hp, this, List.length_cons, declinedCalls]
    simp [Nat.add_assoc, Nat.add_comm 1]

/-- **First accepting handler wins.** Handler `k` is used iff it accepts its own context and every
handler before it declined; its result is what is emitted. -/
theorem dispatch_first (pre : List Handler) (h : Handler) (post : List Handler)
    (hpre : AllNo pre) (hyes : h.accept = .yes) :
    (dispatch (pre ++ h :: post)).2 = .handled pre.length h.result := by
  unfold dispatch
  rw [dispatchFrom_split 0 pre h post hpre (by simp [hyes])]
  simp [dispatchFrom, hyes]

/-- **Call log.** `prepare_context` and `can_handle` are called for exactly the handlers up to
the accepting one, in order, each `can_handle` right after its own `prepare_context`; `handle`
is called once, on the accepting handler; the handlers after it are never touched. -/
theorem dispatch_calls (pre : List Handler) (h : Handler) (post : List Handler)
    (hpre : AllNo pre) (hyes : h.accept = .yes) :
    (dispatch (pre ++ h :: post)).1 =
      declinedCalls 0 pre.length ++
        [.prepare pre.length, .canHandle pre.length, .handle pre.length] := by
  unfold dispatch
  rw [dispatchFrom_split 0 pre h post hpre (by simp [hyes])]
  simp [dispatchFrom, hyes]

/-- a raising `prepare_context` / `can_handle` stops the loop: outcome `failed` (500), no `handle` -/
theorem dispatch_raise (pre : List Handler) (h : Handler) (post : List Handler)
    (hpre : AllNo pre) (hr : h.accept = .raisePrepare ∨ h.accept = .raiseCanHandle) :
    (dispatch (pre ++ h :: post)).2 = .failed ∧
      ∀ j, Call.handle j ∉ (dispatch (pre ++ h :: post)).1 := by
  unfold dispatch
  have hno : ∀ i n j, Call.handle j ∉ declinedCalls i n := by
    intro i n j
    induction n generalizing i with
    | zero => simp [declinedCalls]
    | succ n ih => simp [declinedCalls, ih]
  rcases hr with hr | hr
  · rw [dispatchFrom_split 0 pre h post hpre (by simp [hr])]
    simp [dispatchFrom, hr, hno]
  · rw [dispatchFrom_split 0 pre h post hpre (by simp [hr])]
    simp [dispatchFrom, hr, hno]

theorem dispatchFrom_allNo (i : Nat) (hs : List Handler) (h : AllNo hs) :
    dispatchFrom i hs = (declinedCalls i hs.length, .notFound) := by
  induction hs generalizing i with
  | nil => simp [dispatchFrom, declinedCalls]
  | cons p hs ih =>
    have hp : p.accept = .no := h p (by simp)
    simp [dispatchFrom, hp, ih (i + 1) (fun x hx => h x (by simp [hx])), declinedCalls]

theorem dispatchFrom_notFound_iff (i : Nat) (hs : List Handler) :
    (dispatchFrom i hs).2 = .notFound ↔ AllNo hs := by
  induction hs generalizing i with
  | nil => simp [dispatchFrom, AllNo]
  | cons p hs ih =>
    cases hp : p.accept
    · simp [dispatchFrom, hp, AllNo]
    · simp only [dispatchFrom, hp]
      rw [ih (i + 1)]
      simp [AllNo, hp]
    · simp [dispatchFrom, hp, AllNo]
    · simp [dispatchFrom, hp, AllNo]

/-- **Nobody accepts ⇒ 404.** The outcome is `notFound` iff every handler declined; every handler
was asked exactly once, none handled, and the client parses the standard 404 response. -/
theorem none_404 (env : Env) (henv : EnvOk env) (isHead : Bool) (hs : List Handler) :
    ((dispatch hs).2 = .notFound ↔ AllNo hs) ∧
    (AllNo hs →
      (dispatch hs).1 = declinedCalls 0 hs.length ∧
      parseResponse isHead (emitOutcome env isHead (dispatch hs).2)
        = some (⟨404, stdHeaders env ++ errHeaders env 404, if isHead then [] else env.errPage 404⟩, [])) := by
  refine ⟨dispatchFrom_notFound_iff 0 hs, fun h => ?_⟩
  unfold dispatch
  rw [dispatchFrom_allNo 0 hs h]
  refine ⟨rfl, ?_⟩
  have := parse_emit_error env henv isHead 404 (by omega) (by omega)
  simp only [emitOutcome]
  rw [this]
  have hp : errHasPage 404 = true := by decide
  simp [expectedError, hp]

theorem dispatchFrom_ne_badRequest (i : Nat) (hs : List Handler) :
    (dispatchFrom i hs).2 ≠ .badRequest := by
  induction hs generalizing i with
  | nil => simp [dispatchFrom]
  | cons p hs ih =>
    cases hp : p.accept <;> simp [dispatchFrom, hp]
    exact ih (i + 1)

/-- the gate function is the documented rule -/
theorem gate_spec (p : Bytes) : gate p = true ↔ (∃ t, p = SLASH :: t) ∧ NUL ∉ p := by
  cases p with
  | nil => simp [gate]
  | cons b t =>
    have hc : ((b :: t).contains NUL = false) ↔ NUL ∉ (b :: t) := by
      rw [← List.contains_iff_mem (a := NUL) (as := b :: t)]; simp
    simp only [gate, Bool.and_eq_true, beq_iff_eq, Bool.not_eq_true', List.cons.injEq, exists_and_left,
      exists_eq', and_true, hc]

/-- **400 iff the gate refuses.** The request is answered by `send_error(400)` without calling any
handler exactly when the path (as `http.server` hands it over) does not start with `/` or contains
a NUL; in every other case the handler list decides. -/
theorem gate_400_iff (env : Env) (isHead : Bool) (rawPath : Bytes) (hs : List Handler) :
    ((respond env isHead rawPath hs).outcome = .badRequest ↔
      ¬ ((∃ t, stdlibPath rawPath = SLASH :: t) ∧ NUL ∉ stdlibPath rawPath)) ∧
    ((respond env isHead rawPath hs).outcome = .badRequest →
      (respond env isHead rawPath hs).calls = [] ∧
      (respond env isHead rawPath hs).bytes = sendError env isHead 400) := by
  rw [← gate_spec]
  cases hg : gate (stdlibPath rawPath)
  · simp [respond, hg, emitOutcome]
  · have := dispatchFrom_ne_badRequest 0 hs
    simp only [respond, hg, ↓reduceIte, dispatch]
    constructor
    · simp [this]
    · intro h; exact absurd h this

/-! ### the spec checker accepts every model output -/

def OutcomeOk : Outcome → Prop
  | .handled _ r => ResultOk r
  | _ => True

theorem parse_emitOutcome (env : Env) (henv : EnvOk env) (isHead : Bool) (out : Outcome)
    (ho : OutcomeOk out) :
    parseResponse isHead (emitOutcome env isHead out) = some (expectedOutcome env isHead out, []) := by
  cases out with
  | badRequest => exact parse_emit_error env henv isHead 400 (by omega) (by omega)
  | notFound => exact parse_emit_error env henv isHead 404 (by omega) (by omega)
  | failed => exact parse_emit_error env henv isHead 500 (by omega) (by omega)
  | handled i r => exact parse_emit_expected env henv isHead r ho

theorem headerValue_CL_errHeaders (env : Env) (code : Nat) (hp : errHasPage code = true) :
    headerValue (lit "Content-Length") (errHeaders env code) = some (toDec (env.errPage code).length) := by
  have a : (lit "Connection" == lit "Content-Length") = false := by decide
  have b : (lit "Content-Type" == lit "Content-Length") = false := by decide
  simp [errHeaders, hp, headerValue, a, b]

theorem errorPageClauses_expected (env : Env) (isHead : Bool) (code : Nat) :
    (errorPageClauses env isHead code (expectedError env isHead code)).all (·.2) = true := by
  have hstd : stdFirst (expectedError env isHead code) = true := by
    simp [stdFirst, expectedError, stdHeaders]
  have hdrop : (expectedError env isHead code).headers.drop 2 = errHeaders env code := by
    simp [expectedError, stdHeaders]
  simp only [errorPageClauses, List.all_cons, List.all_nil, Bool.and_true, hstd, hdrop]
  cases hp : errHasPage code
  · simp [expectedError, hp]
  · simp [expectedError, hp, headerValue_CL_errHeaders env code hp]

/-- **The checker that judges the implementation accepts everything the model emits**: for every
outcome of `_delegate_request` (400 / 404 / 500 / any well-formed handler result or a raising
handler) and every environment, `c03Check` holds on the emitted bytes. -/
theorem c03Check_emit (env : Env) (henv : EnvOk env) (isHead : Bool) (out : Outcome) (ho : OutcomeOk out) :
    c03Check env isHead out (emitOutcome env isHead out) = true := by
  unfold c03Check clauses
  rw [parse_emitOutcome env henv isHead out ho]
  simp only [List.all_cons, Bool.true_and]
  cases out with
  | badRequest => exact errorPageClauses_expected env isHead 400
  | notFound => exact errorPageClauses_expected env isHead 404
  | failed => exact errorPageClauses_expected env isHead 500
  | handled i r =>
    cases r with
    | raised => exact errorPageClauses_expected env isHead 500
    | ret st hs b =>
      simp only [outcomeClauses, resultClauses, expectedOutcome, expected]
      cases hb : isBare st hs b
      · simp [stdFirst, stdHeaders]
      · simpa [expectedError] using errorPageClauses_expected env isHead st

/-- what the clauses of a handler result say, read off an accepted response: the status is the
handler's, the header block is `Server`, `Date` and then EXACTLY the handler's headers in order —
nothing dropped, nothing added by the server — and the body is the handler's (empty when absent) -/
theorem resultClauses_exact (env : Env) (isHead : Bool) (st : Nat) (hs : Option (List Header)) (b : Option Bytes)
    (r : Response) (hnb : isBare st hs b = false)
    (h : (resultClauses env isHead (.ret st hs b) r).all (·.2) = true) :
    ∃ sv dv, r = ⟨st, (lit "Server", sv) :: (lit "Date", dv) :: hs.getD [], b.getD []⟩ := by
  obtain ⟨status, headers, body⟩ := r
  simp only [resultClauses, hnb, Bool.false_eq_true, ↓reduceIte, List.all_cons, List.all_nil, Bool.and_true,
    Bool.and_eq_true, beq_iff_eq] at h
  obtain ⟨hst, hstd, hh, hb⟩ := h
  match headers, hstd, hh with
  | (n1, v1) :: (n2, v2) :: rest, hstd, hh =>
    simp only [stdFirst, Bool.and_eq_true, beq_iff_eq] at hstd
    simp only [List.drop_succ_cons, List.drop_zero] at hh
    exact ⟨v1, v2, by rw [hst, hb, hstd.1, hstd.2, hh]⟩

/-- **Every exchange is well-formed.** For every request target and every handler list with
well-formed results, what `_delegate_request` writes parses as exactly one response — the one the
outcome demands — with nothing after it, and satisfies the C03 checker. -/
theorem respond_wellformed (env : Env) (henv : EnvOk env) (isHead : Bool) (rawPath : Bytes)
    (hs : List Handler) (hok : ∀ h ∈ hs, ResultOk h.result) :
    let ex := respond env isHead rawPath hs
    parseResponse isHead ex.bytes = some (expectedOutcome env isHead ex.outcome, []) ∧
    c03Check env isHead ex.outcome ex.bytes = true := by
  have key : ∀ (l : List Handler) (i : Nat), (∀ h ∈ l, ResultOk h.result) → OutcomeOk (dispatchFrom i l).2 := by
    intro l
    induction l with
    | nil => intro i _; simp [dispatchFrom, OutcomeOk]
    | cons p l ih =>
      intro i hl
      cases hp : p.accept
      · simpa [dispatchFrom, hp, OutcomeOk] using hl p (by simp)
      · simpa [dispatchFrom, hp] using ih (i + 1) (fun h hh => hl h (by simp [hh]))
      · simp [dispatchFrom, hp, OutcomeOk]
      · simp [dispatchFrom, hp, OutcomeOk]
  intro ex
  have hex : OutcomeOk ex.outcome ∧ ex.bytes = emitOutcome env isHead ex.outcome := by
    simp only [ex, respond]
    cases hg : gate (stdlibPath rawPath)
    · simp [OutcomeOk]
    · simpa [dispatch] using key hs 0 hok
  rw [hex.2]
  exact ⟨parse_emitOutcome env henv isHead _ hex.1, c03Check_emit env henv isHead _ hex.1⟩

/-! ### the hypotheses are satisfiable, and the pinned behaviour (D7) is rejected -/

def envEx : Env := ⟨lit "BaseHTTP/0.6", lit "Thu, 01 Jan 1970 00:00:00 GMT",
  fun c => if c = 200 then lit "OK" else lit "Not Found", fun _ => lit "<html>error</html>"⟩

theorem envEx_ok : EnvOk envEx := by
  refine ⟨by decide, by decide, fun c => ?_⟩
  simp only [envEx]
  split <;> decide

example : ResultOk (.ret 200 (some [(lit "Content-Length", lit "2"), (lit "X-A", lit "b: c")]) (some (lit "hi"))) :=
  ⟨by intro st hs b h; cases h; omega,
   by intro st hs b h; cases h; decide,
   by intro st hs b h; cases h; exact Or.inr ⟨lit "2", by decide, by decide⟩⟩

/-- D7: `(200, None, body)` — the pinned code puts the bare body on the wire; the checker rejects -/
example : c03Check envEx false (.handled 0 (.ret 200 none (some (lit "hi"))))
    (emitPinned envEx false (.ret 200 none (some (lit "hi")))) = false := by decide

/-- D7: `(200, None, None)` — the pinned code sends nothing; the checker rejects -/
example : c03Check envEx false (.handled 0 (.ret 200 none none))
    (emitPinned envEx false (.ret 200 none none)) = false := by decide

/-- … while the repaired emission of the same results is accepted (instances of `c03Check_emit`) -/
example : c03Check envEx false (.handled 0 (.ret 200 none (some (lit "hi"))))
    (emit envEx false (.ret 200 none (some (lit "hi")))) = true := by decide

/-- a body cut short by one byte / a dropped header / 404 instead of 500 are rejected -/
example : c03Check envEx false (.handled 0 (.ret 200 (some []) (some (lit "hi"))))
    (emit envEx false (.ret 200 (some []) (some (lit "h")))) = false := by decide
example : c03Check envEx false (.handled 0 (.ret 200 (some [(lit "X-A", lit "1")]) none))
    (emit envEx false (.ret 200 (some []) none)) = false := by decide
set_option maxRecDepth 8000 in
example : c03Check envEx false (.handled 0 .raised) (sendError envEx false 404) = false := by decide

/-! #### exactly the handler's headers: the server adds none of its own -/

/-- a HEAD-style result: the size of the resource as `Content-Length`, no body -/
def headResult : Result := .ret 200 (some [(lit "Content-Length", lit "45")]) none

/-- what a server sends that appends `Content-Length: 0` whenever the handler returned no body -/
def withExtraCL : Bytes :=
  sendResponse envEx 200 ++ headerLines [(lit "Content-Length", lit "45"), (lit "Content-Length", lit "0")] ++ crlf

/-- two conflicting `Content-Length` fields: the bytes parse as one response, every returned header
does occur in order (the old sublist clause), but the header block is not the handler's — rejected,
and `headers` is the clause that fails; the model's emission of the same result is accepted -/
example : c09ResponseOk true withExtraCL = true ∧
    [(lit "Content-Length", lit "45")].isSublist
      [(lit "Content-Length", lit "45"), (lit "Content-Length", lit "0")] = true ∧
    c03Check envEx true (.handled 0 headResult) withExtraCL = false ∧
    firstFailed (clauses envEx true (.handled 0 headResult) withExtraCL) = some "headers" ∧
    c03Check envEx true (.handled 0 headResult) (emit envEx true headResult) = true := by decide

/-- the same for a result without headers of its own (`(200, None, None)`, GET): a `Content-Length: 0`
that the handler did not return is rejected -/
example : c03Check envEx false (.handled 0 (.ret 200 none none))
      (sendResponse envEx 200 ++ headerLines [(lit "Content-Length", lit "0")] ++ crlf) = false ∧
    c03Check envEx false (.handled 0 (.ret 200 none none)) (emit envEx false (.ret 200 none none)) = true := by
  decide

end Vinegar.C03
