import Vinegar.Lemmas.Jinja
/-
C17 — Jinja engine: edits always show up; includes and python-module access confined.

Model: `Vinegar/Model/Jinja.lean` (engine = Jinja's template cache `name ↦ (compiled content,
captured stamp)` + the loaders' up-to-date callables + `join_path` + the `python` helper);
specification: `Vinegar/Spec/Jinja.lean` (`renderRef`, the cache-less render of the current files,
and the Bool checkers that the driver also evaluates on the real engine's observations).

All theorems are quantified over every configuration (root_dir or not, cache on/off, relative
includes on/off, any context, any allow-list), every include depth bound `fuel`, every file tree
and every history; none is about a sample.
-/
namespace Vinegar.C17
open Vinegar Vinegar.Jinja

/-! ### edits always show up -/

/-- "stamps change whenever content changes": every write of the history carries a stamp that no
file and no cache entry has carried before (`b` bounds the stamps seen so far). This is what the
code documents as its contract (`version_for_file_path`: a change that leaves ctime/mtime alone
cannot be detected) and what the harness enforces with `os.utime`. -/
def OpsFresh : Nat → List Op → Prop
  | _, [] => True
  | b, .write _ _ s :: rest => b ≤ s ∧ OpsFresh (s + 1) rest
  | b, .delete _ :: rest => OpsFresh b rest
  | b, .render _ _ :: rest => OpsFresh b rest

/-- cache-validity invariant of an engine state: every stamp is below `b`, and a cache entry whose
captured stamp equals the file's current stamp holds the file's current content -/
structure Valid (cfg : Cfg) (b : Nat) (st : St) : Prop where
  fsBelow : FsBelow b st.fs
  cacheBelow : CacheBelow b st.cache
  coh : Coh cfg st.fs st.cache

/-- a freshly constructed engine is valid for any files whose stamps are below `b` -/
theorem valid_fresh (cfg : Cfg) (b : Nat) (fs : FS) (h : FsBelow b fs) :
    Valid cfg b { fs := fs, cache := Cache.empty } :=
  ⟨h, by intro n t s hc; simp [Cache.empty] at hc, coh_empty cfg fs⟩

theorem valid_write (cfg : Cfg) (b : Nat) (st : St) (p : Path) (t : Tmpl) (s : Nat)
    (hv : Valid cfg b st) (hb : b ≤ s) :
    Valid cfg (s + 1) { st with fs := st.fs.write p t s } := by
  refine ⟨?_, ?_, ?_⟩
  · intro q t0 s0 hq
    simp only [FS.write] at hq
    by_cases hqp : q = p
    · simp only [hqp, if_true, Option.some.injEq, Prod.mk.injEq] at hq; omega
    · simp only [hqp, if_false] at hq
      have := hv.fsBelow q t0 s0 hq; omega
  · intro n t0 s0 hn
    have := hv.cacheBelow n t0 s0 hn; omega
  · intro n t0 s0 hn t' hsrc
    obtain ⟨q, hq1, hq2⟩ := (getSource_found_iff cfg _ n t' s0).1 hsrc
    simp only [FS.write] at hq2
    by_cases hqp : q = p
    · simp only [hqp, if_true, Option.some.injEq, Prod.mk.injEq] at hq2
      have := hv.cacheBelow n t0 s0 hn; omega
    · simp only [hqp, if_false] at hq2
      exact hv.coh n t0 s0 hn t' ((getSource_found_iff cfg st.fs n t' s0).2 ⟨q, hq1, hq2⟩)

theorem valid_delete (cfg : Cfg) (b : Nat) (st : St) (p : Path) (hv : Valid cfg b st) :
    Valid cfg b { st with fs := st.fs.delete p } := by
  refine ⟨?_, hv.cacheBelow, ?_⟩
  · intro q t0 s0 hq
    simp only [FS.delete] at hq
    by_cases hqp : q = p
    · simp [hqp] at hq
    · simp only [hqp, if_false] at hq
      exact hv.fsBelow q t0 s0 hq
  · intro n t0 s0 hn t' hsrc
    obtain ⟨q, hq1, hq2⟩ := (getSource_found_iff cfg _ n t' s0).1 hsrc
    simp only [FS.delete] at hq2
    by_cases hqp : q = p
    · simp [hqp] at hq2
    · simp only [hqp, if_false] at hq2
      exact hv.coh n t0 s0 hn t' ((getSource_found_iff cfg st.fs n t' s0).2 ⟨q, hq1, hq2⟩)

/-- one `render` of a valid engine equals the cache-less render, and leaves the engine valid -/
theorem render_valid (cfg : Cfg) (fuel b : Nat) (st : St) (name : Name) (caller : Ctx)
    (hv : Valid cfg b st) :
    (engineRender cfg fuel st.fs st.cache name caller).1 = renderRef cfg st.fs fuel false name cfg.baseCtx caller ∧
    Valid cfg b { st with cache := (engineRender cfg fuel st.fs st.cache name caller).2 } := by
  obtain ⟨e, hc, hb⟩ := renderTemplate_generic cfg st.fs _ (goodInv_valid cfg st.fs b hv.fsBelow) fuel false name
    cfg.baseCtx caller st.cache ⟨hv.coh, hv.cacheBelow⟩
  exact ⟨e, hv.fsBelow, hb, hc⟩

/-- **Every render of every history equals the cache-less render of the files as they are at that
moment** — for every configuration, provided stamps change whenever content changes. Induction
over the history with the cache-validity invariant. -/
theorem history_matches_ref (cfg : Cfg) (fuel : Nat) (ops : List Op) :
    ∀ (b : Nat) (st : St), Valid cfg b st → OpsFresh b ops →
      run cfg fuel st ops = runRef cfg fuel st.fs ops := by
  induction ops with
  | nil => intro b st _ _; rfl
  | cons op rest ih =>
    intro b st hv hf
    cases op with
    | write p t s =>
      simp only [run, step, runRef]
      exact ih (s + 1) _ (valid_write cfg b st p t s hv hf.1) hf.2
    | delete p =>
      simp only [run, step, runRef]
      exact ih b _ (valid_delete cfg b st p hv) hf
    | render name caller =>
      simp only [run, step, runRef]
      obtain ⟨e, hv'⟩ := render_valid cfg fuel b st name caller hv
      rw [e]
      congr 1
      exact ih b _ hv' hf

/-- a freshly constructed engine renders the cache-less reference (no hypothesis needed) -/
theorem runFresh_eq_ref (cfg : Cfg) (fuel : Nat) (ops : List Op) :
    ∀ fs : FS, runFresh cfg fuel fs ops = runRef cfg fuel fs ops := by
  induction ops with
  | nil => intro fs; rfl
  | cons op rest ih =>
    intro fs
    cases op with
    | write p t s => simp only [runFresh, runRef]; exact ih _
    | delete p => simp only [runFresh, runRef]; exact ih _
    | render name caller =>
      simp only [runFresh, runRef]
      rw [ih fs]
      congr 1
      exact (renderTemplate_generic cfg fs _ (goodInv_coh cfg fs) fuel false name cfg.baseCtx caller Cache.empty
        (coh_empty cfg fs)).1

/-- **C17, first sentence.** For every configuration and every history of
{edit template, edit included file, edit imported file, delete, render} in which stamps change
whenever content changes, the long-lived engine renders exactly what a freshly constructed engine
renders at the same moment: edits always show up. -/
theorem history_transparent (cfg : Cfg) (fuel : Nat) (ops : List Op) (b : Nat) (st : St)
    (hv : Valid cfg b st) (hf : OpsFresh b ops) :
    run cfg fuel st ops = runFresh cfg fuel st.fs ops := by
  rw [history_matches_ref cfg fuel ops b st hv hf, runFresh_eq_ref]

/-- the spec checker accepts the observation of every model history (the same checker is run on
the real engine's observation by the driver) -/
theorem historyCheck_run (cfg : Cfg) (fuel : Nat) (ops : List Op) (b : Nat) (st : St)
    (hv : Valid cfg b st) (hf : OpsFresh b ops) :
    historyCheck cfg fuel st.fs ops ((run cfg fuel st ops).map toObs) = true := by
  unfold historyCheck rendersMatchRef
  rw [history_matches_ref cfg fuel ops b st hv hf]
  exact beq_self_eq_true _

/-- the hypothesis of `history_transparent` is satisfiable: an empty tree, a fresh engine and any
history whose writes are stamped 0, 1, 2 … -/
example (cfg : Cfg) : Valid cfg 0 { fs := FS.empty, cache := Cache.empty } :=
  valid_fresh cfg 0 FS.empty (by intro p t s h; simp [FS.empty] at h)

example : OpsFresh 0 [.write ["a"] [.text "1"] 0, .render ["a"] [], .write ["a"] [.text "2"] 1, .render ["a"] []] := by
  simp [OpsFresh]

/-- …and it is needed: rewriting a file WITHOUT changing its stamp is not seen by a caching
engine (the documented limit of `version_for_file_path`), while a fresh engine sees it -/
example :
    let cfg : Cfg := { root := none, cwd := [], cacheEnabled := true, relative := true, baseCtx := [],
                       allow := [], modules := [] }
    let ops : List Op := [.write ["a"] [.text "1"] 0, .render ["a"] [], .write ["a"] [.text "2"] 0, .render ["a"] []]
    run cfg 3 { fs := FS.empty, cache := Cache.empty } ops = [.ok "1", .ok "1"] ∧
    runFresh cfg 3 FS.empty ops = [.ok "1", .ok "2"] := by
  intro cfg ops
  exact ⟨by rfl, by rfl⟩

/-! ### repeated rendering never fails because of the cache setting -/

/-- **With `cache_enabled = False` every render equals the cache-less render — for every loader
(with or without root_dir), every engine state and every history, with NO assumption on stamps.**
In particular the second and later renders cannot fail unless the files themselves are missing:
the only errors are those of the cache-less render. (The pinned `_NoCacheFileSystemLoader`
violates this: D11.) -/
theorem nocache_never_fails (cfg : Cfg) (fuel : Nat) (h : cfg.cacheEnabled = false) (ops : List Op) :
    ∀ st : St, run cfg fuel st ops = runRef cfg fuel st.fs ops := by
  induction ops with
  | nil => intro st; rfl
  | cons op rest ih =>
    intro st
    cases op with
    | write p t s => simp only [run, step, runRef]; exact ih _
    | delete p => simp only [run, step, runRef]; exact ih _
    | render name caller =>
      simp only [run, step, runRef]
      rw [ih _]
      congr 1
      exact (renderTemplate_generic cfg st.fs _ (goodInv_nocache cfg st.fs h) fuel false name cfg.baseCtx caller
        st.cache trivial).1

/-- the checker that the driver runs on the implementation accepts every no-cache history -/
theorem noCacheFailure_self (ref : List Outcome) : noCacheFailure ref (ref.map toObs) = true := by
  induction ref with
  | nil => rfl
  | cons r rest ih =>
    simp only [List.map_cons, noCacheFailure, ih, Bool.and_true]
    cases r with
    | error e => simp [toObs]
    | ok s => simp [toObs]

theorem noStale_self (ref : List Outcome) : noStale ref (ref.map toObs) = true := by
  induction ref with
  | nil => rfl
  | cons r rest ih =>
    simp only [List.map_cons, noStale, ih, Bool.and_true]
    cases r with
    | error e => simp [toObs]
    | ok s => simp [toObs]

/-- the two clauses together are exactly "every render equals the cache-less render" -/
theorem rendersMatchRef_iff (ref : List Outcome) :
    ∀ obs : List Obs, rendersMatchRef ref obs = (noCacheFailure ref obs && noStale ref obs) := by
  induction ref with
  | nil => intro obs; cases obs <;> rfl
  | cons r rest ih =>
    intro obs
    cases obs with
    | nil => rfl
    | cons o os =>
      have h := ih os
      unfold rendersMatchRef at h ⊢
      simp only [List.map_cons, List.cons_beq_cons, noCacheFailure, noStale, h]
      cases o with
      | ok b => simp [Bool.and_comm, Bool.and_assoc]
      | err c => simp [Bool.and_assoc]

/-- the pinned behaviour (D11: second render raises `TypeError`) is rejected by the checkers -/
example : noCacheFailure [.ok "A", .ok "A"] [.ok "A", .err "TypeError"] = false := by decide
example : failedClause [.ok "A", .ok "A"] [.ok "A", .err "TypeError"] [.ok "A", .ok "A"] = "cache_failure" := by
  decide
/-- a stale output is rejected as such -/
example : failedClause [.ok "1", .ok "2"] [.ok "1", .ok "1"] [.ok "1", .ok "2"] = "stale" := by decide

/-! The reference does not look at `cache_enabled` at all. -/

theorem refNodes_congr (cfg cfg' : Cfg) (sub sub' : Bool → Name → Ctx → Ctx → Outcome)
    (ha : cfg'.allow = cfg.allow) (hm : cfg'.modules = cfg.modules) (hs : ∀ o t b c, sub' o t b c = sub o t b c)
    (base caller : Ctx) (nodes : List Node) :
    refNodes cfg' sub' base caller nodes = refNodes cfg sub base caller nodes := by
  induction nodes with
  | nil => rfl
  | cons n rest ih =>
    cases n <;> simp only [refNodes, ih, hs, ha, hm]

theorem renderRef_cacheEnabled (cfg : Cfg) (e : Bool) (fs : FS) :
    ∀ (fuel : Nat) (opt : Bool) (name : Name) (base caller : Ctx),
      renderRef { cfg with cacheEnabled := e } fs fuel opt name base caller =
        renderRef cfg fs fuel opt name base caller := by
  intro fuel
  induction fuel with
  | zero => intro opt name base caller; rfl
  | succ fuel ih =>
    intro opt name base caller
    simp only [renderRef]
    have hs : getSource { cfg with cacheEnabled := e } fs name = getSource cfg fs name := rfl
    rw [hs]
    cases (getSource cfg fs name).toExcept with
    | error err => rfl
    | ok t =>
      show refNodes _ _ base caller t = refNodes _ _ base caller t
      exact refNodes_congr cfg { cfg with cacheEnabled := e } _ _ rfl rfl (fun o t' b c => ih o _ b c) base caller t

theorem runRef_cacheEnabled (cfg : Cfg) (e : Bool) (fuel : Nat) (ops : List Op) :
    ∀ fs : FS, runRef { cfg with cacheEnabled := e } fuel fs ops = runRef cfg fuel fs ops := by
  induction ops with
  | nil => intro fs; rfl
  | cons op rest ih =>
    intro fs
    cases op with
    | write p t s => simp only [runRef]; exact ih _
    | delete p => simp only [runRef]; exact ih _
    | render name caller =>
      simp only [runRef, ih fs]
      congr 1
      exact renderRef_cacheEnabled cfg e fs fuel false name cfg.baseCtx caller

/-- **The cache setting never changes an outcome**: under the stamp contract a history produces the
same outputs and the same errors whether `cache_enabled` is on or off. -/
theorem cache_setting_irrelevant (cfg : Cfg) (e : Bool) (fuel : Nat) (ops : List Op) (b : Nat) (st : St)
    (hv : Valid cfg b st) (hf : OpsFresh b ops) :
    run { cfg with cacheEnabled := e } fuel st ops = run cfg fuel st ops := by
  have hv' : Valid { cfg with cacheEnabled := e } b st := ⟨hv.fsBelow, hv.cacheBelow, hv.coh⟩
  rw [history_matches_ref _ fuel ops b st hv' hf, history_matches_ref cfg fuel ops b st hv hf,
    runRef_cacheEnabled]

/-! ### `{% include "name" ignore missing %}` -/

theorem map_empty_append (o : Outcome) : o.map (fun x => "" ++ x) = o := by
  cases o with
  | error e => rfl
  | ok s => simp [Except.map]

/-- only `TemplateNotFound` is swallowed, and only under `ignore missing` -/
theorem onGetError_spec (opt : Bool) (e : Err) :
    onGetError opt e = if opt = true ∧ e = .notFound then .ok "" else .error e := by
  cases opt <;> cases e <;> rfl

/-- **Meaning of `{% include "t" ignore missing %}` in the body of the template `parent`, for every
configuration, every engine state (cache) `c` and every file tree.** Let `g` be the engine's
`get_template` of the joined name.
(1) If `g` fails with `TemplateNotFound` the node writes nothing and the body goes on with the rest
    (the cache is what `get_template` left).
(2) In every other case — the template is there, or `get_template` fails differently
    (`NotADirectoryError`) — the node is exactly the plain `{% include "t" %}`: in particular every
    error raised while rendering the included template (a missing plain include inside it, …)
    propagates. -/
theorem inclOpt_meaning (cfg : Cfg) (fs : FS) (fuel : Nat) (parent t : Name) (ctx : Ctx) (c : Cache)
    (rest : List Node) :
    let sub := fun (o : Bool) (t' : Name) (ctx' : Ctx) (c'' : Cache) =>
      renderTemplate cfg fs (fuel + 1) o (joinPath cfg.relative t' parent) ctx' c''
    let g := getTemplate cfg fs c (joinPath cfg.relative t parent)
    (g.1 = .error .notFound →
      renderNodes cfg sub ctx (.inclOpt t :: rest) c = renderNodes cfg sub ctx rest g.2) ∧
    (g.1 ≠ .error .notFound →
      renderNodes cfg sub ctx (.inclOpt t :: rest) c = renderNodes cfg sub ctx (.incl t :: rest) c) := by
  intro sub g
  rcases hg : getTemplate cfg fs c (joinPath cfg.relative t parent) with ⟨r, c'⟩
  have hg' : g = (r, c') := hg
  rw [hg']
  constructor
  · intro h
    simp only at h
    subst h
    have hs : sub true t ctx c = (.ok "", c') := by
      simp only [sub, renderTemplate, hg, onGetError]
    simp only [renderNodes, hs, map_empty_append]
  · intro h
    have hs : sub true t ctx c = sub false t ctx c := by
      simp only [sub, renderTemplate, hg]
      cases r with
      | ok tm => rfl
      | error e =>
        cases e with
        | notFound => exact absurd rfl h
        | _ => rfl
    simp only [renderNodes, hs]

/-- the singleton form: the whole body is the optional include -/
theorem inclOpt_alone (cfg : Cfg) (fs : FS) (fuel : Nat) (parent t : Name) (ctx : Ctx) (c : Cache) :
    let sub := fun (o : Bool) (t' : Name) (ctx' : Ctx) (c'' : Cache) =>
      renderTemplate cfg fs (fuel + 1) o (joinPath cfg.relative t' parent) ctx' c''
    let g := getTemplate cfg fs c (joinPath cfg.relative t parent)
    (g.1 = .error .notFound → renderNodes cfg sub ctx [.inclOpt t] c = (.ok "", g.2)) ∧
    (g.1 ≠ .error .notFound → renderNodes cfg sub ctx [.inclOpt t] c = renderNodes cfg sub ctx [.incl t] c) := by
  intro sub g
  exact ⟨fun h => by rw [(inclOpt_meaning cfg fs fuel parent t ctx c []).1 h]; rfl,
    (inclOpt_meaning cfg fs fuel parent t ctx c []).2⟩

/-- the same on the specification side, where there is no engine state: what decides is whether the
FILE the joined name denotes is there now. Together with `history_transparent` this is what a
long-lived engine shows at every point of every history: the optional include of a file that has
been deleted in the meantime renders as nothing, of a file that has been (re-)created as that file. -/
theorem inclOpt_ref (cfg : Cfg) (fs : FS) (fuel : Nat) (parent t : Name) (base caller : Ctx) (rest : List Node) :
    let sub := fun (o : Bool) (t' : Name) (b cl : Ctx) =>
      renderRef cfg fs (fuel + 1) o (joinPath cfg.relative t' parent) b cl
    let src := getSource cfg fs (joinPath cfg.relative t parent)
    (src = .notFound →
      refNodes cfg sub base caller (.inclOpt t :: rest) = refNodes cfg sub base caller rest) ∧
    (src ≠ .notFound →
      refNodes cfg sub base caller (.inclOpt t :: rest) = refNodes cfg sub base caller (.incl t :: rest)) := by
  intro sub src
  constructor
  · intro h
    have hs : sub true t base caller = .ok "" := by
      simp only [sub, renderRef]
      rw [show getSource cfg fs (joinPath cfg.relative t parent) = .notFound from h]
      rfl
    simp only [refNodes, hs, map_empty_append]
  · intro h
    have hs : sub true t base caller = sub false t base caller := by
      simp only [sub, renderRef]
      cases hsrc : getSource cfg fs (joinPath cfg.relative t parent) with
      | found tm st => rfl
      | notFound => exact absurd hsrc h
      | notADir => rfl
    simp only [refNodes, hs]

/-- the situations the harness generates, on the model: the optionally included file is there, is
deleted between two renders of the same engine, is created again (all four loader kinds) -/
example :
    let cfg : Option Path → Bool → Cfg := fun root ce =>
      { root := root, cwd := ["r"], cacheEnabled := ce, relative := true, baseCtx := [], allow := [], modules := [] }
    let ops : List Op := [.write ["r", "a"] [.text "A", .inclOpt ["o"], .text "Z"] 0, .render ["a"] [],
      .write ["r", "o"] [.text "1"] 1, .render ["a"] [], .delete ["r", "o"], .render ["a"] [],
      .write ["r", "o"] [.text "2"] 2, .render ["a"] []]
    let expected : List Obs := [.ok "AZ", .ok "A1Z", .ok "AZ", .ok "A2Z"]
    (run (cfg none true) 3 { fs := FS.empty, cache := Cache.empty } ops).map toObs = expected ∧
    (run (cfg none false) 3 { fs := FS.empty, cache := Cache.empty } ops).map toObs = expected ∧
    (run (cfg (some ["r"]) true) 3 { fs := FS.empty, cache := Cache.empty } ops).map toObs = expected ∧
    (run (cfg (some ["r"]) false) 3 { fs := FS.empty, cache := Cache.empty } ops).map toObs = expected := by
  decide +kernel

/-- what is NOT swallowed: a missing plain include inside the optionally included file, and (without
root_dir) a name below a regular file; with root_dir the latter is a `TemplateNotFound` of
`FileSystemLoader` (`os.path.isfile` is false) and is swallowed -/
example :
    let cfg : Cfg := { root := none, cwd := ["r"], cacheEnabled := true, relative := true, baseCtx := [],
                       allow := [], modules := [] }
    let ops : List Op := [.write ["r", "a"] [.text "A", .inclOpt ["o"]] 0,
      .write ["r", "o"] [.text "O", .incl ["nothere"]] 1, .render ["a"] [],
      .write ["r", "b"] [.text "B", .inclOpt ["a", "x"]] 2, .render ["b"] []]
    (run cfg 3 { fs := FS.empty, cache := Cache.empty } ops).map toObs =
      [.err "FileNotFoundError", .err "NotADirectoryError"] ∧
    (run { cfg with root := some ["r"] } 3 { fs := FS.empty, cache := Cache.empty } ops).map toObs =
      [.err "FileNotFoundError", .ok "B"] := by
  decide +kernel

/-! ### includes resolve relative to the including template; root_dir confines -/

/-- **With `relative_includes` on, an include/import `(../)^k rest` written in the template
`dir/file` resolves to `dir` minus its last `k` directories, followed by `rest`** — i.e. relative to
the including template, not to the loader root or the working directory. (`dir`, `file`, `rest`
are ordinary segments; the parent is a relative name or, second part, an absolute one.) -/
theorem join_relative (ds ss : List String) (f : String) (k : Nat)
    (hds : ∀ x ∈ ds, Proper x) (hf : Proper f) (hss : ∀ x ∈ ss, Proper x) (hk : k ≤ ds.length)
    (hne : ds.take (ds.length - k) ++ ss ≠ []) :
    joinPath true (List.replicate k ".." ++ ss) (ds ++ [f]) = ds.take (ds.length - k) ++ ss ∧
    joinPath true (List.replicate k ".." ++ ss) ("" :: ds ++ [f]) = "" :: (ds.take (ds.length - k) ++ ss) := by
  have htRel : isAbs (List.replicate k ".." ++ ss) = false := by
    cases k with
    | zero =>
      cases ss with
      | nil => rfl
      | cons x rest =>
        have := (hss x (by simp)).1
        cases rest <;> simp [isAbs, this]
    | succ k =>
      simp only [List.replicate_succ, List.cons_append, isAbs]
      split
      · rename_i h; simp only [List.cons.injEq] at h; rw [← h.1]; decide
      · rfl
  have hup : isAbs [parentSeg] = false := rfl
  have hf1 : f ≠ "" := hf.1
  have hdd : (".." : String) ≠ "" := by decide
  constructor
  · -- relative parent
    have hpar : pyJoin (ds ++ [f]) [parentSeg] = ds ++ [f] ++ [".."] := by
      rw [pyJoin_plain _ _ hup (by simp [hf1]), parentSeg_eq]
    have hjoin : pyJoin (ds ++ [f] ++ [".."]) (List.replicate k ".." ++ ss) =
        ds ++ [f] ++ [".."] ++ List.replicate k ".." ++ ss := by
      rw [pyJoin_plain _ _ htRel (by simp [hdd])]
      simp
    have hrel : isAbs (ds ++ [f] ++ [".."] ++ List.replicate k ".." ++ ss) = false := by
      cases ds with
      | nil => simp [isAbs, hf1]
      | cons d rest =>
        have := (hds d (by simp)).1
        cases rest <;> simp [isAbs, this]
    unfold joinPath
    simp only [if_true]
    rw [hpar, hjoin]
    unfold normpath
    simp only [hrel, normSegs_relative false ds ss f k hds hf hss hk]
    simp [hne]
  · -- absolute parent
    have hl1 : ("" :: ds ++ [f]).getLast? ≠ some "" := getLast?_snoc_ne ("" :: ds) f hf1
    have hl2 : ("" :: ds ++ [f] ++ [".."]).getLast? ≠ some "" := getLast?_snoc_ne ("" :: ds ++ [f]) ".." hdd
    have hpar : pyJoin ("" :: ds ++ [f]) [parentSeg] = "" :: ds ++ [f] ++ [".."] := by
      rw [pyJoin_plain _ _ hup hl1, parentSeg_eq]
    have hjoin : pyJoin ("" :: ds ++ [f] ++ [".."]) (List.replicate k ".." ++ ss) =
        "" :: (ds ++ [f] ++ [".."] ++ List.replicate k ".." ++ ss) := by
      rw [pyJoin_plain _ _ htRel hl2]
      simp
    have habs : isAbs ("" :: (ds ++ [f] ++ [".."] ++ List.replicate k ".." ++ ss)) = true := by
      cases ds <;> simp [isAbs]
    have hdbl : doubleSlash ("" :: (ds ++ [f] ++ [".."] ++ List.replicate k ".." ++ ss)) = false := by
      cases ds with
      | nil => simp [doubleSlash, hf1]
      | cons d rest =>
        have := (hds d (by simp)).1
        simp [doubleSlash, this]
    have hsegs : normSegs true ("" :: (ds ++ [f] ++ [".."] ++ List.replicate k ".." ++ ss)) =
        ds.take (ds.length - k) ++ ss := by
      have := normSegs_relative true ds ss f k hds hf hss hk
      unfold normSegs at this ⊢
      simp only [List.foldl_cons, normStep_empty]
      exact this
    unfold joinPath
    simp only [if_true]
    rw [hpar, hjoin]
    unfold normpath
    simp only [habs, hdbl, hsegs]
    simp [hne]

/-- with `relative_includes` off the name is used as written (relative to the loader root) -/
theorem join_root (t parent : Name) : joinPath false t parent = t := rfl

/-- **root_dir confines**: whatever name reaches the `root_dir` loader (after any joining), the
file it reads lies below the root: `root ++ pieces` with ordinary segments only (no `..`). -/
theorem root_confined (cfg : Cfg) (r : Path) (fs : FS) (n : Name) (t : Tmpl) (s : Nat)
    (hr : cfg.root = some r) (h : getSource cfg fs n = .found t s) :
    ∃ pieces, fs (r ++ pieces) = some (t, s) ∧ ∀ x ∈ pieces, Proper x := by
  obtain ⟨q, hq, hfs⟩ := (getSource_found_iff cfg fs n t s).1 h
  simp only [pathOf, hr, rootPath] at hq
  cases hsp : splitTemplatePath n with
  | none => simp [hsp] at hq
  | some pieces =>
    simp only [hsp, Option.map_some, Option.some.injEq] at hq
    subst hq
    exact ⟨pieces, hfs, splitTemplatePath_some n pieces hsp⟩

/-- an include that climbs above the root is refused by the `root_dir` loader -/
example : splitTemplatePath (joinPath true ["..", "x"] ["a.j2"]) = none := by decide
example : joinPath true ["inc.j2"] ["sub", "b.j2"] = ["sub", "inc.j2"] := by decide
example : joinPath false ["inc.j2"] ["sub", "b.j2"] = ["inc.j2"] := by decide

/-! ### configuration-supplied context overrides the caller's -/

/-- **A variable configured through `context` has the configured value whatever the caller
passes; only unconfigured variables come from the caller (undefined ones render empty).** -/
theorem context_precedence (base caller : Ctx) (x : String) :
    lookupVar (mergeCtx base caller) x =
      match base.lookup x with
      | some v => v
      | none => lookupVar caller x := by
  rw [lookupVar_merge]
  unfold refLookup lookupVar
  cases base.lookup x with
  | some v => rfl
  | none => cases caller.lookup x <;> rfl

theorem refLookup_congr (base c1 c2 : Ctx) (h : ∀ x, base.lookup x = none → c1.lookup x = c2.lookup x)
    (x : String) : refLookup base c1 x = refLookup base c2 x := by
  unfold refLookup
  cases hb : base.lookup x with
  | some v => rfl
  | none => simp only [h x hb]

theorem refNodes_caller (cfg : Cfg) (sub : Bool → Name → Ctx → Ctx → Outcome) (base c1 c2 : Ctx)
    (h : ∀ x, base.lookup x = none → c1.lookup x = c2.lookup x)
    (hs : ∀ o t, sub o t base c1 = sub o t base c2) (nodes : List Node) :
    refNodes cfg sub base c1 nodes = refNodes cfg sub base c2 nodes := by
  induction nodes with
  | nil => rfl
  | cons n rest ih =>
    cases n <;> simp only [refNodes, ih, hs, refLookup_congr base c1 c2 h]

theorem renderRef_caller (cfg : Cfg) (fs : FS) :
    ∀ (fuel : Nat) (opt : Bool) (name : Name) (base c1 c2 : Ctx),
      (∀ x, base.lookup x = none → c1.lookup x = c2.lookup x) →
      renderRef cfg fs fuel opt name base c1 = renderRef cfg fs fuel opt name base c2 := by
  intro fuel
  induction fuel with
  | zero => intro opt name base c1 c2 _; rfl
  | succ fuel ih =>
    intro opt name base c1 c2 h
    simp only [renderRef]
    cases (getSource cfg fs name).toExcept with
    | error e => rfl
    | ok t => exact refNodes_caller cfg _ base c1 c2 h (fun o t' => ih o _ base c1 c2 h) t

/-- **Two callers that differ only on variables the configuration defines get the same output**
(whole-render form of the precedence rule, through any depth of includes and imports). -/
theorem caller_only_where_unconfigured (cfg : Cfg) (fuel : Nat) (fs : FS) (c : Cache) (name : Name)
    (c1 c2 : Ctx) (hc : Coh cfg fs c)
    (h : ∀ x, cfg.baseCtx.lookup x = none → c1.lookup x = c2.lookup x) :
    (engineRender cfg fuel fs c name c1).1 = (engineRender cfg fuel fs c name c2).1 := by
  unfold engineRender
  rw [(renderTemplate_generic cfg fs _ (goodInv_coh cfg fs) fuel false name cfg.baseCtx c1 c hc).1,
    (renderTemplate_generic cfg fs _ (goodInv_coh cfg fs) fuel false name cfg.baseCtx c2 c hc).1]
  exact renderRef_caller cfg fs fuel false name cfg.baseCtx c1 c2 h

example : lookupVar (mergeCtx [("x", "cfg")] [("x", "caller"), ("y", "c")]) "x" = "cfg" := by decide
example : lookupVar (mergeCtx [("x", "cfg")] [("x", "caller"), ("y", "c")]) "y" = "c" := by decide

/-! ### the python helper's allow-list -/

/-- **`_check_access` (uncached) allows module `m` iff some entry is `*`, is exactly `m`, or is
`pkg.*` with `m` starting with `pkg.`** — nothing else: `pkg.*` allows neither `pkg` itself nor
`pkgx`; an exact entry allows no sub-module and no longer name. -/
theorem allow_spec (allow : List Str) (m : Str) :
    scanAllow allow m = true ↔
      ∃ e ∈ allow, e = ['*'] ∨ e = m ∨ ∃ pkg rest, e = pkg ++ ['.', '*'] ∧ m = pkg ++ '.' :: rest := by
  unfold scanAllow
  simp only [List.any_eq_true, entryAllows_iff]

/-- the independently written documented rule of the spec has the same characterisation, hence
`allowCheck` compares the implementation with exactly the rule of `allow_spec` -/
theorem allowRef_spec (allow : List Str) (m : Str) :
    allowRef allow m = true ↔
      ∃ e ∈ allow, e = ['*'] ∨ e = m ∨ ∃ pkg rest, e = pkg ++ ['.', '*'] ∧ m = pkg ++ '.' :: rest := by
  unfold allowRef
  simp only [List.any_eq_true, entryRef_iff]

theorem scanAllow_eq_allowRef (allow : List Str) (m : Str) : scanAllow allow m = allowRef allow m := by
  rw [Bool.eq_iff_iff, allow_spec, allowRef_spec]

/-- **The decision cache of the helper (cleared at `JINJA_ALLOW_CACHE_BOUND` entries, whatever
that bound is) never changes a decision**: any sequence of queries on one helper object yields the
uncached rule for each. -/
theorem allow_cache_transparent (qs : List Str) :
    ∀ h : Helper, CacheOK h → checkAccessSeq h qs = qs.map (scanAllow h.allow) := by
  induction qs with
  | nil => intro h _; rfl
  | cons q rest ih =>
    intro h hc
    obtain ⟨e1, e2, e3⟩ := checkAccess_ok h hc q
    simp only [checkAccessSeq, List.map_cons, e1]
    rw [ih _ e2, e3]

/-- the spec checker accepts the decisions of a new helper for every query sequence -/
theorem allowCheck_model (allow : List Str) (qs : List Str) :
    allowCheck allow qs (checkAccessSeq { allow := allow, cache := [] } qs) = true := by
  unfold allowCheck
  rw [allow_cache_transparent qs _ (by intro m a h; simp at h)]
  have : qs.map (allowRef allow) = qs.map (scanAllow allow) := by
    apply List.map_congr_left; intro m _; exact (scanAllow_eq_allowRef allow m).symm
  rw [this]
  exact beq_self_eq_true _

/-- **`python[key]` yields a value only if the key is `module.attribute` and the module is allowed
by the rule of `allow_spec`.** -/
theorem pyGet_yields_only_allowed (allow : List Str) (mods : List (Str × List (Str × String)))
    (key : Str) (v : String) (h : pyGet allow mods key = .ok v) :
    ∃ m a, rsplitDot key = some (m, a) ∧
      ∃ e ∈ allow, e = ['*'] ∨ e = m ∨ ∃ pkg rest, e = pkg ++ ['.', '*'] ∧ m = pkg ++ '.' :: rest := by
  unfold pyGet at h
  split at h
  · cases h
  · split at h
    · cases h
    · rename_i m a hk
      split at h
      · rename_i hal
        exact ⟨m, a, hk, (allow_spec allow m).1 hal⟩
      · cases h

/-! confusable names (what the code does, stated): -/
section confusable
private def s (x : String) : Str := x.toList
example : scanAllow [s "os"] (s "os") = true := by decide
example : scanAllow [s "os"] (s "os.path") = false := by decide
example : scanAllow [s "os"] (s "ossaudiodev") = false := by decide
example : scanAllow [s "os.*"] (s "os.path") = true := by decide
example : scanAllow [s "os.*"] (s "os") = false := by decide
example : scanAllow [s "os.*"] (s "ossaudiodev") = false := by decide
example : scanAllow [s "os.path"] (s "os") = false := by decide
example : scanAllow [s "pkg.*"] (s "pkgx") = false := by decide
example : scanAllow [s "pkg.*"] (s "pkg") = false := by decide
example : scanAllow [s "pkg.*"] (s "pkg.") = true := by decide
example : scanAllow [s "pkg.*"] (s "pkg.sub.deep") = true := by decide
example : scanAllow [s "pkg.*"] (s "x.pkg.sub") = false := by decide
example : scanAllow [s "pkg*"] (s "pkgx") = false := by decide
example : scanAllow [s "*"] (s "anything.at.all") = true := by decide
example : scanAllow [s "**"] (s "os") = false := by decide
example : scanAllow [] (s "os") = false := by decide
end confusable

end Vinegar.C17
