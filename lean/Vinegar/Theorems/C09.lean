import Vinegar.Lemmas.TftpErrors
import Vinegar.Lemmas.TftpData
import Vinegar.Theorems.C01
import Vinegar.Lemmas.TftpForeign
/-
C09 — no client input stops a server or reaches its internal-error path; TIDs isolated (TFTP).

Totality is by type: every decoder of the model is a total function into an explicit result
type, and `runTransfer`/`processDatagram` are total, so there is no input on which the model
"raises". The theorems below state what is sent in response to hostile input.
-/
namespace Vinegar.C09
open Vinegar Vinegar.Tftp

/-- whatever the bytes: a datagram from the peer is an ACK with a 16-bit number, a peer ERROR, or invalid -/
theorem classify_total_cases (data : Bytes) :
    classify data = .invalid ∨ classify data = .peerError ∨ ∃ n, n < 65536 ∧ classify data = .ack n := by
  unfold classify
  split
  · split
    · split
      · right; right; exact ⟨_, unbe16_lt _ _, rfl⟩
      · left; rfl
    · split
      · right; left; rfl
      · left; rfl
  · left; rfl

/-- a peer ERROR packet — ANY error code 0..65535, ANY length ≥ 2, any message bytes — is a peer error
(the transfer then ends silently: `peer_error_silent`) -/
theorem peer_error_any_code_any_length (hi lo : UInt8) (rest : Bytes) (h : unbe16 hi lo = opERROR) :
    classify (hi :: lo :: rest) = .peerError := by
  simp [classify, h, opERROR_val, opACK_val]

/-! ### request port -/

/-- **at most one reply**: whatever the datagram and whatever the handlers accept, the request
port answers with nothing, with exactly one well-formed ERROR packet, or with a transfer -/
theorem requestPort_reply_le_one (accepts : List Char → List Bool) (data : Bytes) :
    requestPortOK (replyOf (processDatagram accepts data)) (transfersOf (processDatagram accepts data)) false
      = true := by
  cases h : processDatagram accepts data <;>
    simp [requestPortOK, replyOf, transfersOf, wellFormedError_errorPacket]

/-- datagrams shorter than two bytes and unknown opcodes are ignored; WRQ gets ACCESS_VIOLATION;
DATA/ACK/ERROR/OACK get ILLEGAL_OPERATION -/
theorem requestPort_non_rrq (accepts : List Char → List Bool) (hi lo : UInt8) (body : Bytes)
    (hlen : (hi :: lo :: body).length ≤ maxReq) (h : unbe16 hi lo ≠ opRRQ) :
    processDatagram accepts (hi :: lo :: body) =
      if unbe16 hi lo = opWRQ then .error Generated.ERROR_ACCESS_VIOLATION
      else if unbe16 hi lo = opDATA ∨ unbe16 hi lo = opACK ∨ unbe16 hi lo = opERROR ∨ unbe16 hi lo = opOACK
        then .error Generated.ERROR_ILLEGAL_OPERATION
      else .ignored := by
  unfold processDatagram
  rw [List.take_of_length_le hlen]
  simp [h]

/-! ### RRQ decoding: round trip -/

def nulFree (b : Bytes) : Bool := b.all (· != 0)
def sevenBit (b : Bytes) : Bool := b.all (fun x => x.toNat < 128)

theorem splitNul_field (a rest : Bytes) (h : nulFree a = true) :
    splitNul (a ++ 0 :: rest) = a :: splitNul rest := by
  induction a with
  | nil => simp [splitNul]
  | cons x xs ih =>
    simp only [nulFree, List.all_cons, Bool.and_eq_true, bne_iff_ne, ne_eq] at h
    have ih' := ih (by simpa [nulFree] using h.2)
    simp only [List.cons_append, splitNul, h.1, if_false, ih']

/-- wire encoding of NUL-terminated fields -/
def encodeFields (fields : List Bytes) : Bytes := (fields.map (· ++ [0])).flatten

theorem splitNul_encode (fields : List Bytes) (h : fields.all nulFree = true) :
    splitNul (encodeFields fields) = fields ++ [[]] := by
  induction fields with
  | nil => simp [encodeFields, splitNul]
  | cons f fs ih =>
    simp only [List.all_cons, Bool.and_eq_true] at h
    have := ih h.2
    simp only [encodeFields, List.map_cons, List.flatten_cons, List.append_assoc, List.cons_append,
      List.nil_append] at this ⊢
    rw [splitNul_field f _ h.1, this]

theorem asciiIgnore_sevenBit (b : Bytes) (h : sevenBit b = true) :
    asciiIgnore b = b.map (fun x => Char.ofNat x.toNat) := by
  unfold asciiIgnore
  congr 1
  rw [List.filter_eq_self]
  intro x hx
  have := List.all_eq_true.mp h x hx
  simpa using this

def optionFields : List (Bytes × Bytes) → List Bytes
  | [] => []
  | (n, v) :: rest => n :: v :: optionFields rest

theorem pairUp_optionFields (opts : List (Bytes × Bytes)) :
    pairUp (optionFields opts) = some (opts.map (fun p => (asciiIgnore p.1, asciiIgnore p.2))) := by
  induction opts with
  | nil => rfl
  | cons p ps ih => obtain ⟨n, v⟩ := p; simp [optionFields, pairUp, ih]

/-- **round trip**: a read request built as RFC 1350/2347 prescribe — opcode 1, then the file name,
the mode and any number of option name/value pairs, each terminated by NUL, all fields NUL-free — is
decoded to exactly those fields (7-bit parts of them, as `.decode("ascii", "ignore")` does) -/
theorem decodeFields_encode (f m : Bytes) (opts : List (Bytes × Bytes)) (mode : Mode)
    (hf : nulFree f = true) (hm : nulFree m = true)
    (ho : (optionFields opts).all nulFree = true) (hmode : modeOf (asciiIgnore m) = some mode) :
    decodeFields (encodeFields (f :: m :: optionFields opts)) =
      some { filename := asciiIgnore f, mode := mode,
             options := opts.map (fun p => (asciiIgnore p.1, asciiIgnore p.2)) } := by
  unfold decodeFields
  rw [splitNul_encode _ (by simp [hf, hm, ho])]
  simp only [List.getLast?_concat, List.dropLast_concat, hmode, pairUp_optionFields]

/-- the mode names are matched without regard to letter case -/
example : modeOf "OcTeT".toList = some .octet ∧ modeOf "NETASCII".toList = some .netascii
    ∧ modeOf "mail".toList = some .mail ∧ modeOf "binary".toList = none := by decide

/-- **soundness**: whatever is accepted as a read request has the RFC shape — the body is a
sequence of NUL-terminated, NUL-free fields, an even number ≥ 2 of them -/
theorem splitNul_nulFree : ∀ (b : Bytes), (splitNul b).all nulFree = true
  | [] => by simp [splitNul, nulFree]
  | x :: rest => by
    have ih := splitNul_nulFree rest
    unfold splitNul
    split
    · simpa [nulFree] using ih
    · rename_i hx
      split
      · simp [nulFree, hx]
      · rename_i p ps heq
        rw [heq] at ih
        simp only [List.all_cons, Bool.and_eq_true] at ih ⊢
        exact ⟨by simpa [nulFree, hx] using ih.1, ih.2⟩

theorem splitNul_ne_nil : ∀ (b : Bytes), splitNul b ≠ []
  | [] => by simp [splitNul]
  | x :: rest => by
    unfold splitNul
    split
    · simp
    · split <;> simp

/-- `b"\0".join(parts)` -/
def joinNul : List Bytes → Bytes
  | [] => []
  | [p] => p
  | p :: q :: r => p ++ 0 :: joinNul (q :: r)

theorem joinNul_cons_cons (x : UInt8) (p : Bytes) (ps : List Bytes) :
    joinNul ((x :: p) :: ps) = x :: joinNul (p :: ps) := by
  cases ps <;> simp [joinNul]

theorem joinNul_splitNul : ∀ (b : Bytes), joinNul (splitNul b) = b
  | [] => by simp [splitNul, joinNul]
  | x :: rest => by
    have ih := joinNul_splitNul rest
    have hne := splitNul_ne_nil rest
    unfold splitNul
    split
    · rename_i hx
      cases hs : splitNul rest with
      | nil => exact absurd hs hne
      | cons q r => rw [hs] at ih; simp [joinNul, ih, hx]
    · split
      · rename_i heq; exact absurd heq hne
      · rename_i p ps heq
        rw [heq] at ih
        rw [joinNul_cons_cons, ih]

theorem joinNul_concat_nil : ∀ (fields : List Bytes), joinNul (fields ++ [[]]) = encodeFields fields
  | [] => by simp [joinNul, encodeFields]
  | [f] => by simp [joinNul, encodeFields]
  | f :: g :: r => by
    have ih := joinNul_concat_nil (g :: r)
    simp only [List.cons_append, joinNul] at ih ⊢
    rw [ih]
    simp [encodeFields]

theorem pairUp_even : ∀ (l : List Bytes) (o : Opts), pairUp l = some o → l.length % 2 = 0
  | [], _, _ => rfl
  | [_], _, h => by simp [pairUp] at h
  | _ :: _ :: rest, o, h => by
    simp only [pairUp, Option.map_eq_some_iff] at h
    obtain ⟨o', ho', _⟩ := h
    have := pairUp_even rest o' ho'
    simp only [List.length_cons]; omega

/-- **soundness**: whatever is accepted as a read request has the RFC shape — the bytes after the
opcode are a sequence of NUL-terminated, NUL-free fields (file name, mode, option names and
values), an even number ≥ 2 of them, the second one a mode name -/
theorem decodeFields_sound (body : Bytes) (r : DecodedRrq) (h : decodeFields body = some r) :
    ∃ fields : List Bytes, body = encodeFields fields ∧ fields.all nulFree = true ∧
      2 ≤ fields.length ∧ fields.length % 2 = 0 ∧
      fields[0]?.map asciiIgnore = some r.filename ∧
      (fields[1]?.bind (fun m => modeOf (asciiIgnore m))) = some r.mode := by
  unfold decodeFields at h
  simp only at h
  have hj := joinNul_splitNul body
  have hnf := splitNul_nulFree body
  have hne := splitNul_ne_nil body
  generalize splitNul body = parts at h hj hnf hne
  have hsplit : parts = parts.dropLast ++ [parts.getLast hne] := (List.dropLast_concat_getLast hne).symm
  cases hl : parts.getLast? with
  | none => simp [hl] at h
  | some lst =>
    have hlast : parts.getLast hne = lst := by
      have := List.getLast?_eq_getLast hne
      rw [this] at hl; simpa using hl
    rw [hl] at h
    cases lst with
    | cons _ _ => simp at h
    | nil =>
      simp only at h
      rw [hlast] at hsplit
      cases hd : parts.dropLast with
      | nil => simp [hd] at h
      | cons f t =>
        cases t with
        | nil => simp [hd] at h
        | cons m rest =>
          simp only [hd] at h
          cases hm : modeOf (asciiIgnore m) with
          | none => simp [hm] at h
          | some mode =>
            cases hp : pairUp rest with
            | none => simp [hm, hp] at h
            | some opts =>
              simp only [hm, hp, Option.some.injEq] at h
              subst h
              refine ⟨f :: m :: rest, ?_, ?_, by simp, ?_, by simp, by simp [hm]⟩
              · rw [← joinNul_concat_nil, ← hd, ← hsplit, hj]
              · rw [hsplit, hd] at hnf
                have := hnf
                simp only [List.all_append, List.all_cons, List.all_nil, Bool.and_true, Bool.and_eq_true,
                  List.cons_append] at this ⊢
                exact ⟨this.1, this.2.1, this.2.2.1⟩
              · have := pairUp_even rest opts hp
                simp only [List.length_cons]; omega

/-! ### a transfer only for the RFC shape (stated on the bytes, independent of `splitNul`) -/

theorem encodeFields_cons (f : Bytes) (fs : List Bytes) :
    encodeFields (f :: fs) = f ++ 0 :: encodeFields fs := by
  simp [encodeFields]

theorem encodeFields_getLast : ∀ (fields : List Bytes), fields ≠ [] →
    (encodeFields fields).getLast? = some 0
  | [], h => absurd rfl h
  | [f], _ => by simp [encodeFields]
  | f :: g :: r, _ => by
    have ih := encodeFields_getLast (g :: r) (by simp)
    rw [encodeFields_cons, List.getLast?_append, List.getLast?_cons]
    simp [ih]

theorem count_zero_nulFree (f : Bytes) (h : nulFree f = true) : f.count 0 = 0 := by
  rw [List.count_eq_zero]
  intro hm
  have := List.all_eq_true.mp h 0 hm
  simp at this

theorem count_encodeFields : ∀ (fields : List Bytes), fields.all nulFree = true →
    (encodeFields fields).count 0 = fields.length
  | [], _ => by simp [encodeFields]
  | f :: fs, h => by
    simp only [List.all_cons, Bool.and_eq_true] at h
    rw [encodeFields_cons, List.count_append, count_zero_nulFree f h.1, List.count_cons_self,
      count_encodeFields fs h.2]
    simp

theorem takeWhile_field (f rest : Bytes) (h : nulFree f = true) :
    (f ++ 0 :: rest).takeWhile (· != 0) = f := by
  induction f with
  | nil => simp
  | cons x xs ih =>
    simp only [nulFree, List.all_cons, Bool.and_eq_true] at h
    simp only [List.cons_append, List.takeWhile_cons, h.1, if_true]
    rw [ih (by simpa [nulFree] using h.2)]

theorem dropWhile_field (f rest : Bytes) (h : nulFree f = true) :
    (f ++ 0 :: rest).dropWhile (· != 0) = 0 :: rest := by
  induction f with
  | nil => simp
  | cons x xs ih =>
    simp only [nulFree, List.all_cons, Bool.and_eq_true] at h
    simp only [List.cons_append, List.dropWhile_cons, h.1, if_true]
    rw [ih (by simpa [nulFree] using h.2)]

theorem fieldAt_encodeFields : ∀ (fields : List Bytes) (k : Nat) (f : Bytes), fields.all nulFree = true →
    fields[k]? = some f → fieldAt (encodeFields fields) k = f
  | [], _, _, _, h => by simp at h
  | g :: gs, 0, f, hn, h => by
    simp only [List.all_cons, Bool.and_eq_true] at hn
    simp only [List.getElem?_cons_zero, Option.some.injEq] at h
    subst h
    rw [encodeFields_cons, fieldAt, takeWhile_field _ _ hn.1]
  | g :: gs, k + 1, f, hn, h => by
    simp only [List.all_cons, Bool.and_eq_true] at hn
    simp only [List.getElem?_cons_succ] at h
    rw [encodeFields_cons, fieldAt, dropWhile_field _ _ hn.1]
    simpa using fieldAt_encodeFields gs k f hn.2 h

/-- whatever the decoder accepts has the RFC shape as stated on the bytes -/
theorem decodeFields_rfcShape (hi lo : UInt8) (body : Bytes) (r : DecodedRrq)
    (hop : unbe16 hi lo = opRRQ) (h : decodeFields body = some r) :
    rfcShape (hi :: lo :: body) = true := by
  obtain ⟨fields, hb, hn, h2, hev, _, hm⟩ := decodeFields_sound body r h
  have hne : fields ≠ [] := by intro h0; simp [h0] at h2
  cases h1 : fields[1]? with
  | none => simp [h1] at hm
  | some m =>
    simp only [h1, Option.bind_some] at hm
    subst hb
    simp [rfcShape, hop, encodeFields_getLast fields hne, count_encodeFields fields hn,
      fieldAt_encodeFields fields 1 m hn h1, hm, h2, hev]

/-- **a transfer only for an RFC read request**: whatever the datagram and whatever the handlers accept,
the request port answers with at most one well-formed ERROR packet or a transfer, and it starts a
transfer only when the delivered bytes are opcode 1 followed by an even number >= 2 of NUL-terminated
fields, the second a mode name, with nothing after the last terminator -/
theorem requestPort_transfer_only_rfc (accepts : List Char → List Bool) (data : Bytes) :
    requestPortOK2 data (replyOf (processDatagram accepts data)) (transfersOf (processDatagram accepts data))
      false = true := by
  unfold requestPortOK2
  rw [requestPort_reply_le_one]
  cases h : processDatagram accepts data with
  | ignored => simp [transfersOf]
  | error c => simp [transfersOf]
  | transfer rrq i =>
    simp only [transfersOf, Bool.true_and, Nat.reduceBEq, Bool.false_or]
    unfold processDatagram at h
    split at h
    · rename_i hi lo body heq
      rw [heq]
      simp only at h
      by_cases hop : unbe16 hi lo = opRRQ
      · cases hd : decodeFields body with
        | none => simp [hop, hd] at h
        | some r => exact decodeFields_rfcShape hi lo body r hop hd
      · simp only [hop, if_false] at h
        split at h
        · simp at h
        · split at h <;> simp at h
    · simp at h

/-- the RFC shape is met by a plain and by an option-carrying request, and missed by a request whose
last option has no value, one without terminator, and one with a byte behind the terminator -/
example : rfcShape [0, 1, 102, 0, 111, 99, 116, 101, 116, 0] = true
    ∧ rfcShape [0, 1, 102, 0, 111, 99, 116, 101, 116, 0, 98, 0, 56, 0] = true
    ∧ rfcShape [0, 1, 102, 0, 111, 99, 116, 101, 116, 0, 98, 0] = false
    ∧ rfcShape [0, 1, 102, 0, 111, 99, 116, 101, 116] = false
    ∧ rfcShape [0, 1, 102, 0, 111, 99, 116, 101, 116, 0, 7] = false := by decide

/-! ### inside a transfer -/

def allowLogOf : HandlerResult → Bool
  | .raised => true
  | .stream _ _ _ faultAt => faultAt.isSome
  | .tftpError _ => false

theorem blockReads_noFault (na : Bool) (bs : Nat) (content : Bytes) (caps : List Nat) :
    blockReads na bs content caps none = (transferBlocks na bs content caps).map some := rfl

/-- **C09 inside a transfer**, for every configuration, request, handler result and event script:
nothing is sent to the client after it sent an ERROR (any code, any length: the transfer ends
silently); at most one ERROR packet goes to the client, it is well-formed and nothing follows it;
every foreign peer gets a well-formed ERROR 5 and nothing else; no exception record is produced
unless the handler or its stream raised -/
theorem c09Check_runTransfer (cfg : Cfg) (hw : WrapOK cfg.wrap) (rrq : Rrq) (h : HandlerResult)
    (script : List Ev) :
    c09Check (allowLogOf h) (runTransfer cfg rrq h script) = true := by
  have hwf0 : wellFormedError err0 = true := wellFormedError_errorPacket _
  have hop0 : opcodeOf err0 = some opERROR := opcodeOf_errorPacket _ _
  unfold c09Check
  cases h with
  | tftpError code =>
    simp [runTransfer, runSteps, c09Step, opcodeOf_errorPacket, wellFormedError_errorPacket]
  | raised =>
    simp [runTransfer, runSteps, c09Step, allowLogOf, hwf0, hop0]
  | stream content caps sizeKnown faultAt =>
    simp only [runTransfer, allowLogOf]
    have h9 := processRequest_c09 faultAt.isSome (envOf cfg rrq (.stream content caps sizeKnown faultAt))
      (negOf cfg rrq (.stream content caps sizeKnown faultAt)).oack
      (blockReads rrq.netascii (negOf cfg rrq (.stream content caps sizeKnown faultAt)).blockSize content caps faultAt)
      0 script
    have hnf : faultAt = none → (processRequest (envOf cfg rrq (.stream content caps sizeKnown faultAt))
      (negOf cfg rrq (.stream content caps sizeKnown faultAt)).oack
      (blockReads rrq.netascii (negOf cfg rrq (.stream content caps sizeKnown faultAt)).blockSize content caps faultAt)
      0 script).out ≠ .readFault := by
      intro hf
      subst hf
      rw [blockReads_noFault]
      exact (C01.processRequest_data _ hw _ _ _).choose_spec.2.2
    generalize processRequest (envOf cfg rrq (.stream content caps sizeKnown faultAt))
      (negOf cfg rrq (.stream content caps sizeKnown faultAt)).oack
      (blockReads rrq.netascii (negOf cfg rrq (.stream content caps sizeKnown faultAt)).blockSize content caps faultAt)
      0 script = pr at h9 hnf
    rw [List.append_assoc, runSteps_append]
    have h9' : runSteps (c09Step faultAt.isSome) ⟨false, false⟩ pr.obs = some ⟨false, pr.out.isPeer⟩ := h9
    rw [h9', Option.bind_some]
    cases hout : pr.out with
    | completed => simp [finish, runSteps, c09Step]
    | gaveUp => simp [finish, runSteps, c09Step]
    | peerError => simp [finish, runSteps, c09Step]
    | invalid => simp [finish, runSteps, c09Step, End.isPeer, hwf0, hop0]
    | overflow => simp [finish, runSteps, c09Step, End.isPeer, hwf0, hop0]
    | readFault =>
      cases faultAt with
      | none => exact absurd hout (hnf rfl)
      | some k => simp [finish, runSteps, c09Step, End.isPeer, hwf0, hop0]

/-- after an ERROR packet from the client (any code, any length) the model sends nothing at all -/
theorem peer_error_silent (env : Env) (oack : Opts) (blocks : List (Option Bytes)) (script : List Ev)
    (h : (processRequest env oack blocks 0 script).out = .peerError) :
    finish (processRequest env oack blocks 0 script).out (processRequest env oack blocks 0 script).now = [] := by
  simp [h, finish]

/-- **an invalid packet** from the peer (too short, unknown opcode, RRQ/WRQ/DATA/OACK, malformed
ACK) ends only this transfer: it is the last datagram received, it is answered by exactly one
well-formed ERROR packet sent as soon as it was handled, and nothing is sent or awaited afterwards -/
theorem invalid_packet_one_error (cfg : Cfg) (rrq : Rrq) (h : HandlerResult) (script : List Ev) :
    invalidAnswered (runTransfer cfg rrq h script) = true := by
  have hwf0 : wellFormedError err0 = true := wellFormedError_errorPacket _
  cases h with
  | tftpError code => simp [runTransfer, invalidAnswered]
  | raised => simp [runTransfer, invalidAnswered]
  | stream content caps sizeKnown faultAt =>
    simp only [runTransfer]
    have hI := processRequest_inv (envOf cfg rrq (.stream content caps sizeKnown faultAt))
      (negOf cfg rrq (.stream content caps sizeKnown faultAt)).oack
      (blockReads rrq.netascii (negOf cfg rrq (.stream content caps sizeKnown faultAt)).blockSize content caps faultAt)
      0 script
    generalize processRequest (envOf cfg rrq (.stream content caps sizeKnown faultAt))
      (negOf cfg rrq (.stream content caps sizeKnown faultAt)).oack
      (blockReads rrq.netascii (negOf cfg rrq (.stream content caps sizeKnown faultAt)).blockSize content caps faultAt)
      0 script = pr at hI
    rw [List.append_assoc]
    unfold InvShape at hI
    cases hout : pr.out <;> simp only [hout, End.isInvalid, if_true, Bool.false_eq_true, if_false] at hI
    · rw [invalidAnswered_clean _ _ hI]; simp [finish, invalidAnswered]
    · rw [invalidAnswered_clean _ _ hI]; simp [finish, invalidAnswered]
    · obtain ⟨pre, t, data, h1, h2, h3⟩ := hI
      rw [h1, List.append_assoc, invalidAnswered_clean _ _ h3]
      simp [finish, invalidAnswered, h2, hwf0]
    · rw [invalidAnswered_clean _ _ hI]; simp [finish, invalidAnswered]
    · rw [invalidAnswered_clean _ _ hI]; simp [finish, invalidAnswered]
    · rw [invalidAnswered_clean _ _ hI]; simp [finish, invalidAnswered]

/-- foreign peers: every datagram that does not come from the requesting client is answered with
ERROR 5 to its sender, consumes no try and does not move the deadline (the try's `limit` is
unchanged in the recursive call) — by definition of `awaitAck`; its effect on timing is bounded by
`C02.c02Check_runTransfer` (the timeout still fires at the deadline set when the try started) -/
theorem foreign_gets_error5 (expect limit now d cpu src : Nat) (data : Bytes) (s : List Ev)
    (hsrc : src ≠ 0) (hd : d < Tftp.remaining limit now) :
    awaitAck expect limit now (.pkt d cpu src data :: s) =
      (awaitAck expect limit (now + d + cpu) s).pre
        [.recv (now + d) (now + d + cpu) src (data.take maxReq), .send (now + d + cpu) src err5] := by
  rw [awaitAck]; simp [hd, hsrc]

/-! ### foreign packets do not interfere (zero handling time, arriving before the deadline)

A datagram from a foreign address, handled in no time, changes nothing but the two events that
concern the foreign peer itself: the try ends with the same outcome, at the same time, having
consumed the same rest of the script, and every other event — in particular everything sent to the
client, with its time stamp — is identical to the run in which the foreign datagram never existed
and the next datagram simply arrives `d` ticks later. Three cases by what follows it. Because
`awaitAck` is the only place where events are consumed, this lifts to retries, blocks and whole
transfers. (A foreign datagram that arrives after the deadline is just carried into the next try
with its remaining delay and is then covered by the same three statements.) -/

theorem remaining_shift (limit now d : Nat) (hd : d < Tftp.remaining limit now) (d' : Nat) :
    (d' < Tftp.remaining limit (now + d)) = (d + d' < Tftp.remaining limit now) := by
  unfold Tftp.remaining at *
  split at hd
  · have h1 : limit > now + d := by omega
    simp only [h1, if_true, ↓reduceIte, eq_iff_iff]
    rename_i h0
    simp only [h0, ↓reduceIte]
    omega
  · have hd0 : d = 0 := by omega
    subst hd0
    simp

theorem foreign_then_pkt (expect limit now d src d' cpu' src' : Nat) (data data' : Bytes) (s : List Ev)
    (hsrc : src ≠ 0) (hd : d < Tftp.remaining limit now) :
    awaitAck expect limit now (.pkt d 0 src data :: .pkt d' cpu' src' data' :: s) =
      (awaitAck expect limit now (.pkt (d + d') cpu' src' data' :: s)).pre
        [.recv (now + d) (now + d) src (data.take maxReq), .send (now + d) src err5] ∨
    -- or the next datagram misses the deadline in both runs: same timeout, same carried-over delay
    (¬ (d + d' < Tftp.remaining limit now) ∧
      (awaitAck expect limit now (.pkt d 0 src data :: .pkt d' cpu' src' data' :: s)).now =
        (awaitAck expect limit now (.pkt (d + d') cpu' src' data' :: s)).now ∧
      (awaitAck expect limit now (.pkt d 0 src data :: .pkt d' cpu' src' data' :: s)).out =
        (awaitAck expect limit now (.pkt (d + d') cpu' src' data' :: s)).out ∧
      (awaitAck expect limit now (.pkt d 0 src data :: .pkt d' cpu' src' data' :: s)).rest =
        (awaitAck expect limit now (.pkt (d + d') cpu' src' data' :: s)).rest) := by
  have hshift := remaining_shift limit now d hd d'
  have hrem : now + d + Tftp.remaining limit (now + d) = now + Tftp.remaining limit now := by
    unfold Tftp.remaining at *
    split at hd <;> split <;> omega
  by_cases hin : d + d' < Tftp.remaining limit now
  · left
    have hin' : d' < Tftp.remaining limit (now + d) := by rw [hshift]; exact hin
    rw [foreign_gets_error5 expect limit now d 0 src data _ hsrc hd]
    simp only [Nat.add_zero]
    congr 1
    rw [awaitAck, awaitAck]
    simp only [hin, hin', if_true]
    have e1 : now + d + d' = now + (d + d') := by omega
    simp only [e1]
  · right
    have hin' : ¬ d' < Tftp.remaining limit (now + d) := by rw [hshift]; exact hin
    refine ⟨hin, ?_, ?_, ?_⟩ <;>
      (rw [foreign_gets_error5 expect limit now d 0 src data _ hsrc hd]
       simp only [Nat.add_zero, Res.pre_now, Res.pre_out, Res.pre_rest]
       rw [awaitAck, awaitAck]
       simp only [hin, hin', if_false])
    · exact hrem
    · congr 2
      unfold Tftp.remaining at *
      split at hd <;> split <;> omega

theorem foreign_then_silence (expect limit now d src : Nat) (data : Bytes) (s : List Ev)
    (hsrc : src ≠ 0) (hd : d < Tftp.remaining limit now) :
    (awaitAck expect limit now (.pkt d 0 src data :: .silence :: s)).out =
      (awaitAck expect limit now (.silence :: s)).out ∧
    (awaitAck expect limit now (.pkt d 0 src data :: .silence :: s)).now =
      (awaitAck expect limit now (.silence :: s)).now ∧
    (awaitAck expect limit now (.pkt d 0 src data :: .silence :: s)).rest =
      (awaitAck expect limit now (.silence :: s)).rest ∧
    (awaitAck expect limit now (.pkt d 0 src data :: .silence :: s)).obs =
      [.recv (now + d) (now + d) src (data.take maxReq), .send (now + d) src err5] ++
      (awaitAck expect limit now (.silence :: s)).obs := by
  have hrem : now + d + Tftp.remaining limit (now + d) = now + Tftp.remaining limit now := by
    unfold Tftp.remaining at *
    split at hd <;> split <;> omega
  rw [foreign_gets_error5 expect limit now d 0 src data _ hsrc hd]
  simp only [Nat.add_zero, Res.pre_now, Res.pre_out, Res.pre_rest, Res.pre_obs, awaitAck, hrem]
  simp

theorem foreign_then_end (expect limit now d src : Nat) (data : Bytes)
    (hsrc : src ≠ 0) (hd : d < Tftp.remaining limit now) :
    (awaitAck expect limit now [.pkt d 0 src data]).out = (awaitAck expect limit now []).out ∧
    (awaitAck expect limit now [.pkt d 0 src data]).now = (awaitAck expect limit now []).now ∧
    (awaitAck expect limit now [.pkt d 0 src data]).obs =
      [.recv (now + d) (now + d) src (data.take maxReq), .send (now + d) src err5] ++
      (awaitAck expect limit now []).obs := by
  have hrem : now + d + Tftp.remaining limit (now + d) = now + Tftp.remaining limit now := by
    unfold Tftp.remaining at *
    split at hd <;> split <;> omega
  rw [foreign_gets_error5 expect limit now d 0 src data _ hsrc hd]
  simp only [Nat.add_zero, Res.pre_now, Res.pre_out, Res.pre_obs, awaitAck, hrem]
  simp

/-! ### foreign packets do not interfere: whole transfers

The step lemmas lifted (`Lemmas/TftpForeign.lean`: one try `awaitAck_sim`, the retry loop, the
block loop, the request) to every configuration, request, handler result and event script with any
number of foreign datagrams anywhere, arriving before OR after the deadlines of the tries.

* `dropForeign script`: the script in which the foreign datagrams (src ≠ 0) never existed - each is
  removed, its delay added to the delay of the datagram that follows (nothing to add before
  `silence` or at the end);
* `clientView trace`: the trace without the events that concern a foreign peer (`recv` from and
  `send` to an address ≠ 0), order and time stamps kept;
* `foreignOK script`: every foreign datagram has cpu = 0 and, if its delay is not 0, what follows it
  after removing further foreign datagrams is not `silence`.

The statement first aimed at - only "cpu = 0" assumed -

    ∀ cfg rrq h script, foreignZeroCpu script = true →
      clientView (runTransfer cfg rrq h script) = clientView (runTransfer cfg rrq h (dropForeign script))

is FALSE (`foreign_noninterference_needs_side_condition`), for a reason that lies in the meaning of
the script event `silence`, not in the server: `silence` stands for "nothing arrives before the
deadline of the try that is current when the event is reached". A foreign datagram that misses a
deadline is carried into the next try, so in `[pkt 3000 0 7 _, silence, ACK]` (interval 2048) the
`silence` describes the SECOND try (2048..4096) and the ACK arrives at 4096, whereas in
`[silence, ACK]` it describes the first try and the ACK arrives at 2048: removing the datagram is
not a local operation on such a script. No `d < remaining` hypothesis is needed anywhere else:
a foreign datagram that misses a deadline and is followed by a datagram or by the end of the script
times the try out in both runs at the same tick and is carried over with the corresponding delay.
(`foreignOK` is sufficient, not tight: a delayed foreign datagram before `silence` that still arrives
within the try is harmless as well - `foreign_then_silence` - but that is a condition on the run,
not on the script.) `silence` itself is redundant (`awaitAck_silence_as_delay`: it is a datagram arriving a rest-of-try
later), so every arrival pattern has a script that satisfies `foreignOK` once its foreign datagrams
have cpu = 0. That cpu = 0 is needed is plain (`foreign_cpu_matters`): the model charges the
handling time of every datagram to the one thread of the transfer. -/

/-- the hypothesis of the unconditional statement: foreign datagrams are handled in no time -/
def foreignZeroCpu (script : List Ev) : Bool :=
  script.all (fun ev => match ev with
    | .pkt _ cpu src _ => src == 0 || cpu == 0
    | .silence => true)

theorem foreignOK_zeroCpu : ∀ (script : List Ev), foreignOK script = true → foreignZeroCpu script = true
  | [], _ => rfl
  | .silence :: s, h => by
    have := foreignOK_zeroCpu s (by simpa [foreignOK] using h)
    simpa [foreignZeroCpu] using this
  | .pkt d cpu src data :: s, h => by
    simp only [foreignOK, Bool.and_eq_true, Bool.or_eq_true, beq_iff_eq] at h
    have := foreignOK_zeroCpu s h.2
    simp only [foreignZeroCpu, List.all_cons, Bool.and_eq_true, Bool.or_eq_true, beq_iff_eq] at this ⊢
    exact ⟨h.1.imp id (fun x => x.1), this⟩

/-- **TID isolation, whole transfers**: for every configuration, request, handler result and event
script (any number of foreign datagrams, anywhere, before or after the deadlines), what the transfer
does apart from answering the foreign peers - every datagram to and from the client, every timeout,
the closing of file and socket, exception records, each with its time stamp and in order - is
exactly the run on the script in which the foreign datagrams never existed -/
theorem foreign_noninterference (cfg : Cfg) (rrq : Rrq) (h : HandlerResult) (script : List Ev)
    (hok : foreignOK script = true) :
    clientView (runTransfer cfg rrq h script) = runTransfer cfg rrq h (dropForeign script) := by
  cases h with
  | tftpError code => simp [runTransfer, clientView, isClientObs]
  | raised => simp [runTransfer, clientView, isClientObs]
  | stream content caps sizeKnown faultAt =>
    simp only [runTransfer]
    have hS := processRequest_sim (envOf cfg rrq (.stream content caps sizeKnown faultAt))
      (negOf cfg rrq (.stream content caps sizeKnown faultAt)).oack
      (blockReads rrq.netascii (negOf cfg rrq (.stream content caps sizeKnown faultAt)).blockSize content caps faultAt)
      0 script hok
    generalize processRequest (envOf cfg rrq (.stream content caps sizeKnown faultAt))
      (negOf cfg rrq (.stream content caps sizeKnown faultAt)).oack
      (blockReads rrq.netascii (negOf cfg rrq (.stream content caps sizeKnown faultAt)).blockSize content caps faultAt)
      0 script = A at hS
    generalize processRequest (envOf cfg rrq (.stream content caps sizeKnown faultAt))
      (negOf cfg rrq (.stream content caps sizeKnown faultAt)).oack
      (blockReads rrq.netascii (negOf cfg rrq (.stream content caps sizeKnown faultAt)).blockSize content caps faultAt)
      0 (dropForeign script) = B at hS
    rw [clientView_append, clientView_append, hS.obs, hS.out, hS.now, clientView_finish]
    simp [clientView, isClientObs]

/-- the same in the symmetric form: the client views of the two runs are equal (the run without
foreign datagrams has nothing to project away) -/
theorem foreign_noninterference_view (cfg : Cfg) (rrq : Rrq) (h : HandlerResult) (script : List Ev)
    (hok : foreignOK script = true) :
    clientView (runTransfer cfg rrq h script) = clientView (runTransfer cfg rrq h (dropForeign script)) := by
  rw [← foreign_noninterference cfg rrq h script hok, clientView_idem]

/-- outcome, clock and consumption of the script: the request ends the same way, at the same tick,
and leaves corresponding rests of the script -/
theorem foreign_noninterference_outcome (env : Env) (oack : Opts) (blocks : List (Option Bytes)) (now : Nat)
    (script : List Ev) (hok : foreignOK script = true) :
    (processRequest env oack blocks now script).out = (processRequest env oack blocks now (dropForeign script)).out ∧
    (processRequest env oack blocks now script).now = (processRequest env oack blocks now (dropForeign script)).now ∧
    dropForeign (processRequest env oack blocks now script).rest =
      (processRequest env oack blocks now (dropForeign script)).rest :=
  let hS := processRequest_sim env oack blocks now script hok
  ⟨hS.out, hS.now, hS.rest⟩

/-- the unconditional statement is false: a foreign datagram that misses a deadline, followed by
`silence` (see the section comment) -/
theorem foreign_noninterference_needs_side_condition :
    ¬ (∀ (cfg : Cfg) (rrq : Rrq) (h : HandlerResult) (script : List Ev), foreignZeroCpu script = true →
        clientView (runTransfer cfg rrq h script) = clientView (runTransfer cfg rrq h (dropForeign script))) := by
  intro H
  have := H ⟨2048, 30, 2, 65464, some 0⟩ ⟨false, []⟩ (.stream [1, 2, 3] [] true none)
    [.pkt 3000 0 7 [9], .silence, .pkt 0 0 0 (ackPacket 1)] (by decide)
  revert this
  decide

/-- … and the two client views of that script: the acknowledgement is received at 4096 in one and at
2048 in the other -/
example :
    clientView (runTransfer ⟨2048, 30, 2, 65464, some 0⟩ ⟨false, []⟩ (.stream [1, 2, 3] [] true none)
      [.pkt 3000 0 7 [9], .silence, .pkt 0 0 0 (ackPacket 1)]) =
      [.send 0 0 (dataPacket 1 [1, 2, 3]), .timeout 2048, .send 2048 0 (dataPacket 1 [1, 2, 3]), .timeout 4096,
       .send 4096 0 (dataPacket 1 [1, 2, 3]), .recv 4096 4096 0 (ackPacket 1), .closeFile, .closeSocket] ∧
    runTransfer ⟨2048, 30, 2, 65464, some 0⟩ ⟨false, []⟩ (.stream [1, 2, 3] [] true none)
      (dropForeign [.pkt 3000 0 7 [9], .silence, .pkt 0 0 0 (ackPacket 1)]) =
      [.send 0 0 (dataPacket 1 [1, 2, 3]), .timeout 2048, .send 2048 0 (dataPacket 1 [1, 2, 3]),
       .recv 2048 2048 0 (ackPacket 1), .closeFile, .closeSocket] := by decide

/-- the same datagram followed by a late ACK instead of `silence` + ACK (the same arrival times,
written with a delay) meets `foreignOK` -/
example : foreignOK [.pkt 3000 0 7 [9], .pkt 1096 0 0 (ackPacket 1)] = true := by decide

/-- a foreign datagram whose handling takes time does delay the transfer (one thread per transfer) -/
theorem foreign_cpu_matters :
    clientView (runTransfer ⟨2048, 30, 2, 65464, some 0⟩ ⟨false, []⟩ (.stream [1, 2, 3] [] true none)
      [.pkt 5 1 7 [9], .pkt 5 0 0 (ackPacket 1)]) ≠
    runTransfer ⟨2048, 30, 2, 65464, some 0⟩ ⟨false, []⟩ (.stream [1, 2, 3] [] true none)
      (dropForeign [.pkt 5 1 7 [9], .pkt 5 0 0 (ackPacket 1)]) := by decide

/-- **data and timing verdicts**: the trace with the foreign events erased is itself accepted by the
C02 automaton - lock-step, retransmission only at the deadline set when the try started, bounded - so
the timing the client sees is on schedule for a checker that knows nothing of the foreign packets;
and the verdicts on the two full traces agree (both are accepted, `C02.c02Check_runTransfer`) -/
theorem foreign_c02_agree (cfg : Cfg) (hw : WrapOK cfg.wrap) (rrq : Rrq) (h : HandlerResult)
    (script : List Ev) (hok : foreignOK script = true) :
    c02Check (negOf cfg rrq h).timeout cfg.maxRetries (clientView (runTransfer cfg rrq h script)) = true ∧
    c02Check (negOf cfg rrq h).timeout cfg.maxRetries (runTransfer cfg rrq h script) =
      c02Check (negOf cfg rrq h).timeout cfg.maxRetries (runTransfer cfg rrq h (dropForeign script)) := by
  rw [foreign_noninterference cfg rrq h script hok, C02.c02Check_runTransfer cfg hw rrq h script,
    C02.c02Check_runTransfer cfg hw rrq h (dropForeign script)]
  exact ⟨rfl, rfl⟩

/-- the same for the data checker: the DATA packets in the client view are the ideal sequence (a prefix
of it if the transfer was aborted), and the verdicts on the two full traces agree -/
theorem foreign_c01_agree (cfg : Cfg) (hw : WrapOK cfg.wrap) (rrq : Rrq) (content : Bytes)
    (caps : List Nat) (sizeKnown : Bool) (script : List Ev) (hok : foreignOK script = true) :
    c01Check rrq.netascii (negOf cfg rrq (.stream content caps sizeKnown none)).blockSize cfg.wrap
      (negOf cfg rrq (.stream content caps sizeKnown none)).timeout cfg.maxRetries content
      (clientView (runTransfer cfg rrq (.stream content caps sizeKnown none) script)) = true ∧
    c01Check rrq.netascii (negOf cfg rrq (.stream content caps sizeKnown none)).blockSize cfg.wrap
      (negOf cfg rrq (.stream content caps sizeKnown none)).timeout cfg.maxRetries content
      (runTransfer cfg rrq (.stream content caps sizeKnown none) script) =
    c01Check rrq.netascii (negOf cfg rrq (.stream content caps sizeKnown none)).blockSize cfg.wrap
      (negOf cfg rrq (.stream content caps sizeKnown none)).timeout cfg.maxRetries content
      (runTransfer cfg rrq (.stream content caps sizeKnown none) (dropForeign script)) := by
  rw [foreign_noninterference cfg rrq _ script hok, C01.c01Check_runTransfer cfg hw rrq content caps sizeKnown script,
    C01.c01Check_runTransfer cfg hw rrq content caps sizeKnown (dropForeign script)]
  exact ⟨rfl, rfl⟩

/-- a transfer of two blocks with an OACK (blksize 8) and three foreign datagrams in different phases:
a forged ACK 0 before the client's ACK 0; a stray between DATA 1 and its acknowledgement; one that
misses the deadline of the first try of DATA 1 and arrives during the retry -/
def demoForeign : List Ev :=
  [.pkt 3 0 7 (ackPacket 0), .pkt 2 1 0 (ackPacket 0),
   .pkt 1 0 8 [9], .pkt 2500 0 9 (ackPacket 1), .pkt 10 1 0 (ackPacket 1),
   .pkt 4 1 0 (ackPacket 2)]

/-- the hypothesis of `foreign_noninterference` is met by it; the three foreign datagrams are received
and answered (six events), there is a retry, and the client view is the run without them -/
example :
    foreignOK demoForeign = true ∧
    dropForeign demoForeign =
      [.pkt 5 1 0 (ackPacket 0), .pkt 2511 1 0 (ackPacket 1), .pkt 4 1 0 (ackPacket 2)] ∧
    ((runTransfer ⟨2048, 30, 1, 65464, some 0⟩ ⟨false, [("blksize".toList, "8".toList)]⟩
        (.stream [1, 2, 3, 4, 5, 6, 7, 8, 9] [] true none) demoForeign).filter (fun o => !isClientObs o)).length = 6 ∧
    clientView (runTransfer ⟨2048, 30, 1, 65464, some 0⟩ ⟨false, [("blksize".toList, "8".toList)]⟩
        (.stream [1, 2, 3, 4, 5, 6, 7, 8, 9] [] true none) demoForeign) =
      [.send 0 0 (oackPacket [("blksize".toList, "8".toList)]), .recv 5 6 0 (ackPacket 0),
       .send 6 0 (dataPacket 1 [1, 2, 3, 4, 5, 6, 7, 8]), .timeout 2054,
       .send 2054 0 (dataPacket 1 [1, 2, 3, 4, 5, 6, 7, 8]), .recv 2517 2518 0 (ackPacket 1),
       .send 2518 0 (dataPacket 2 [9]), .recv 2522 2523 0 (ackPacket 2), .closeFile, .closeSocket] ∧
    runTransfer ⟨2048, 30, 1, 65464, some 0⟩ ⟨false, [("blksize".toList, "8".toList)]⟩
        (.stream [1, 2, 3, 4, 5, 6, 7, 8, 9] [] true none) (dropForeign demoForeign) =
      clientView (runTransfer ⟨2048, 30, 1, 65464, some 0⟩ ⟨false, [("blksize".toList, "8".toList)]⟩
        (.stream [1, 2, 3, 4, 5, 6, 7, 8, 9] [] true none) demoForeign) := by decide

/-! ### non-vacuity -/

example : c09Check false [.send 0 0 (dataPacket 1 [1]), .recv 1 1 0 (errorPacket 255 [120]),
    .send 1 0 err0] = false := by decide   -- the pinned behaviour for an unknown error code

example : c09Check false (runTransfer ⟨2048, 30, 1, 65464, some 0⟩ ⟨false, []⟩ (.stream [1, 2, 3] [] true none)
    [.pkt 0 1 0 (errorPacket 255 [120]), .pkt 1 0 0 (ackPacket 1)]) = true := by decide

/-! ### handlers that raise while being asked -/

theorem failingHandler_none_of_noRaise (l : List Ans) (i : Nat) (h : ∀ a ∈ l, a.raises = false) :
    failingHandler i l = none := by
  induction l generalizing i with
  | nil => rfl
  | cons a rest ih =>
    have ha := h a (List.mem_cons_self ..)
    cases a with
    | yes => rfl
    | no => exact ih (i + 1) (fun b hb => h b (List.mem_cons_of_mem _ hb))
    | raisePrepare => simp [Ans.raises] at ha
    | raiseCanHandle => simp [Ans.raises] at ha

/-- **Handlers that do not raise: nothing changes.** The request port with possibly raising handlers
is the request port of the rest of this file whenever no handler raises. -/
theorem processDatagramF_noRaise (answers : List Char → List Ans) (data : Bytes)
    (h : ∀ f, ∀ a ∈ answers f, a.raises = false) :
    processDatagramF answers data = .ok (processDatagram (fun f => (answers f).map Ans.toBool) data) := by
  unfold processDatagramF
  cases hr : reachesHandlers data with
  | none => rfl
  | some f => simp [Option.bind, failingHandler_none_of_noRaise (answers f) 0 (h f)]

theorem dispatchCallsF_noRaise (l : List Ans) (i : Nat) (h : ∀ a ∈ l, a.raises = false) :
    dispatchCallsF i l = dispatchCalls i (l.map Ans.toBool) := by
  induction l generalizing i with
  | nil => rfl
  | cons a rest ih =>
    have ha := h a (List.mem_cons_self ..)
    cases a with
    | yes => rfl
    | no =>
      simp only [dispatchCallsF, List.map_cons, Ans.toBool, dispatchCalls]
      rw [ih (i + 1) (fun b hb => h b (List.mem_cons_of_mem _ hb))]
    | raisePrepare => simp [Ans.raises] at ha
    | raiseCanHandle => simp [Ans.raises] at ha

/-- **A raising handler costs the client this one request and nothing else**: the result is
`handlerFailed` only for a datagram that reached the handlers (an RFC-shaped read request that is not a
mail request), no reply and no transfer belong to it (`requestPortFaultOK` on the model's own output),
and — the request port being a function of the single datagram — every other datagram is answered as
if the failure had never happened. -/
theorem handlerFailed_only_when_asked (answers : List Char → List Ans) (data : Bytes) (i : Nat)
    (h : processDatagramF answers data = .handlerFailed i) :
    ∃ f, reachesHandlers data = some f ∧ failingHandler 0 (answers f) = some i := by
  unfold processDatagramF at h
  cases hr : reachesHandlers data with
  | none => simp [hr, Option.bind] at h
  | some f =>
    refine ⟨f, rfl, ?_⟩
    simp only [hr, Option.bind] at h
    cases hf : failingHandler 0 (answers f) with
    | none => simp [hf] at h
    | some k => simp [hf] at h; rw [h]

/-- the calls made before the failing handler raised end with that handler and contain no `handle` -/
theorem dispatchCallsF_failing_no_handle (l : List Ans) (i k : Nat) (h : failingHandler i l = some k) :
    ∀ c ∈ dispatchCallsF i l, ∀ j, c ≠ .handle j := by
  induction l generalizing i with
  | nil => simp [failingHandler] at h
  | cons a rest ih =>
    cases a with
    | yes => simp [failingHandler] at h
    | no =>
      simp only [failingHandler] at h
      intro c hc j
      simp only [dispatchCallsF, List.mem_cons] at hc
      rcases hc with rfl | rfl | hc
      · simp
      · simp
      · exact ih (i + 1) h c hc j
    | raisePrepare => intro c hc j; simp only [dispatchCallsF, List.mem_cons, List.mem_nil_iff, or_false] at hc; subst hc; simp
    | raiseCanHandle =>
      intro c hc j
      simp only [dispatchCallsF, List.mem_cons, List.mem_nil_iff, or_false] at hc
      rcases hc with rfl | rfl <;> simp

example : processDatagramF (fun _ => [.no, .raiseCanHandle, .yes]) (0 :: 1 :: [102, 0, 111, 99, 116, 101, 116, 0])
    = .handlerFailed 1 := by decide
example : processDatagramF (fun _ => [.yes, .raiseCanHandle]) (0 :: 1 :: [102, 0, 111, 99, 116, 101, 116, 0])
    = .ok (.transfer ⟨['f'], .octet, []⟩ 0) := by decide

end Vinegar.C09
