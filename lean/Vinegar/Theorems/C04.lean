import Vinegar.Lemmas.PathsFs
/-
C04 — file serving is confined to the configured root directory or file.

Theorems about the executable model `Vinegar.Paths` of `_translate_path` and `_handle`
(vinegar/request_handler/file.py), for every root directory in absolute normal form, every
file suffix, every remaining path, every file-system tree, data source and transformation.
-/
namespace Vinegar.C04
open Vinegar Vinegar.Paths Vinegar.Paths.Spec

/-- the non-empty components of a remaining path -/
def segsOf (e : Str) : List Str := (splitOn '/' e).filter ne

/-- when `_translate_path` refuses: NUL, trailing slash, no component, or a "." / ".." component -/
def Refused (e : Str) : Prop :=
  '\x00' ∈ e ∨ endsWithSlash e = true ∨ segsOf e = [] ∨ ∃ s ∈ segsOf e, s = dot ∨ s = dotdot

theorem translate_some (root sfx e : Str) (hroot : AbsNormal root) (hr : ¬ Refused e) :
    translatePath root sfx e = some (root ++ '/' :: joinWith ['/'] (segsOf e) ++ sfx) := by
  unfold Refused at hr
  simp only [not_or, not_exists, not_and] at hr
  obtain ⟨hnul, hend, hne, hdots⟩ := hr
  have hend' : endsWithSlash e = false := by simpa using hend
  have hnul' : e.contains '\x00' = false := by
    cases hc : e.contains '\x00' with
    | false => rfl
    | true => exact absurd (List.contains_iff_mem.mp hc) hnul
  have hee : e.isEmpty = false := by
    cases e with
    | nil => exact absurd (by simp [segsOf, splitOn, ne]) hne
    | cons c t => rfl
  have hdw : ((splitOn '/' e).dropWhile (fun s => s.isEmpty)).isEmpty = false := by
    cases hd : (splitOn '/' e).dropWhile (fun s => s.isEmpty) with
    | nil => exact absurd ((dw_nil_iff _).mp hd) hne
    | cons a t => rfl
  have hmem : ∀ x, x ≠ [] → x ∈ (splitOn '/' e).dropWhile (fun s => s.isEmpty) → x ∈ segsOf e := by
    intro x hx hm
    have := dw_mem _ x hm
    simp [segsOf, List.mem_filter, this, ne, List.isEmpty_iff, hx]
  have hnd : ((splitOn '/' e).dropWhile (fun s => s.isEmpty)).contains dot = false := by
    cases hc : ((splitOn '/' e).dropWhile (fun s => s.isEmpty)).contains dot with
    | false => rfl
    | true =>
      have := hmem dot (by decide) (List.contains_iff_mem.mp hc)
      exact absurd rfl (hdots dot this).1
  have hndd : ((splitOn '/' e).dropWhile (fun s => s.isEmpty)).contains dotdot = false := by
    cases hc : ((splitOn '/' e).dropWhile (fun s => s.isEmpty)).contains dotdot with
    | false => rfl
    | true =>
      have := hmem dotdot (by decide) (List.contains_iff_mem.mp hc)
      exact absurd rfl (hdots dotdot this).2
  have hjoin := normJoin_eq root ((splitOn '/' e).dropWhile (fun s => s.isEmpty)) hroot
    (fun b hb => mem_splitOn_no_sep '/' e b (dw_mem _ b hb))
    (fun b hb => by
      by_cases hbe : b = []
      · exact Or.inl hbe
      · have := hdots b (hmem b hbe hb)
        exact Or.inr this)
    (by rw [dw_filter]; exact hne)
  rw [dw_filter] at hjoin
  unfold translatePath
  simp only [hnul', Bool.false_eq_true, if_false, hee, hend', Bool.or_self, hdw, hnd, hndd, hjoin]
  have : root.isPrefixOf (root ++ '/' :: joinWith ['/'] (List.filter ne (splitOn '/' e)) ++ sfx) = true := by
    rw [List.isPrefixOf_iff_prefix, List.append_assoc]; exact List.prefix_append _ _
  simp only [this, if_true]
  rfl

theorem translate_none (root sfx e : Str) (hr : Refused e) : translatePath root sfx e = none := by
  unfold translatePath
  by_cases hnul : e.contains '\x00' = true
  · simp only [hnul, if_true]
  · by_cases hemp : (e.isEmpty || endsWithSlash e) = true
    · simp only [hnul, hemp, if_true, Bool.false_eq_true, if_false]
    · by_cases hdw : ((splitOn '/' e).dropWhile (fun s => s.isEmpty)).isEmpty = true
      · simp only [hnul, hemp, hdw, if_true, Bool.false_eq_true, if_false]
      · by_cases hd : (((splitOn '/' e).dropWhile (fun s => s.isEmpty)).contains dot ||
            ((splitOn '/' e).dropWhile (fun s => s.isEmpty)).contains dotdot) = true
        · simp only [hnul, hemp, hdw, hd, Bool.false_eq_true, if_false, if_true]
        · exfalso
          rcases hr with h | h | h | ⟨s, hs, h⟩
          · exact hnul (List.contains_iff_mem.mpr h)
          · apply hemp; simp [h]
          · apply hdw
            have := (dw_nil_iff (splitOn '/' e)).mpr h
            rw [this]; rfl
          · apply hd
            have hs' : s ∈ splitOn '/' e ∧ s ≠ [] := by
              simp only [segsOf, List.mem_filter, ne, Bool.not_eq_true', List.isEmpty_eq_false_iff] at hs
              exact hs
            have := dw_mem_of_ne _ s hs'.2 hs'.1
            rw [Bool.or_eq_true]
            rcases h with rfl | rfl
            · exact Or.inl (List.contains_iff_mem.mpr this)
            · exact Or.inr (List.contains_iff_mem.mpr this)

/-- **Confinement.** Below an absolute normalised root, whatever `_translate_path` returns is
    the root, one slash, the non-empty components of the remaining path joined by single
    slashes, and the suffix — and every component is a proper name: not empty, not "." or
    "..", free of NUL and "/". So no prefix of the returned path leaves the root under POSIX
    resolution without symbolic links. -/
theorem translate_confined (root sfx e p : Str) (hroot : AbsNormal root)
    (h : translatePath root sfx e = some p) :
    ∃ segs, segs = (splitOn '/' e).filter (fun s => !s.isEmpty) ∧ segs ≠ [] ∧
      (∀ s ∈ segs, safeSeg s = true) ∧ p = root ++ '/' :: joinWith ['/'] segs ++ sfx := by
  by_cases hr : Refused e
  · rw [translate_none root sfx e hr] at h; exact absurd h (by simp)
  · rw [translate_some root sfx e hroot hr] at h
    simp only [Option.some.injEq] at h
    unfold Refused at hr
    simp only [not_or, not_exists, not_and] at hr
    obtain ⟨hnul, _, hne, hdots⟩ := hr
    refine ⟨segsOf e, rfl, hne, ?_, h.symm⟩
    intro s hs
    have hs' : s ∈ splitOn '/' e ∧ s ≠ [] := by
      simp only [segsOf, List.mem_filter, ne, Bool.not_eq_true', List.isEmpty_eq_false_iff] at hs
      exact hs
    rw [safeSeg_iff]
    refine ⟨hs'.2, (hdots s hs).1, (hdots s hs).2, ?_, mem_splitOn_no_sep '/' e s hs'.1⟩
    intro hm; exact hnul (mem_splitOn_subset '/' e s hs'.1 _ hm)

/-- **It is *the* file the remaining path names.** Below an absolute normalised root
    `_translate_path` coincides with the reference resolution of the specification
    (`Spec.refTarget`: `root_dir/<remaining path><file_suffix>` with repeated slashes read as
    one separator; nothing for NUL, a trailing slash, no component, "." or ".."). -/
theorem translate_spec (root sfx e : Str) (hroot : AbsNormal root) :
    translatePath root sfx e = refTarget root sfx e := by
  have href : refTarget root sfx e =
      if (e.contains '\x00' || e.getLast? == some '/' || (segsOf e).isEmpty ||
          (segsOf e).any (fun s => s == dot || s == dotdot)) = true then none
      else some (root ++ '/' :: joinWith ['/'] (segsOf e) ++ sfx) := rfl
  rw [href]
  by_cases hr : Refused e
  · rw [translate_none root sfx e hr]
    have : (e.contains '\x00' || e.getLast? == some '/' || (segsOf e).isEmpty ||
        (segsOf e).any (fun s => s == dot || s == dotdot)) = true := by
      rcases hr with h | h | h | ⟨s, hs, h⟩
      · have hc := List.contains_iff_mem.mpr h
        simp only [hc, Bool.true_or]
      · unfold endsWithSlash at h; simp only [h, Bool.true_or, Bool.or_true]
      · simp only [h, List.isEmpty_nil, Bool.true_or, Bool.or_true]
      · have : (segsOf e).any (fun s => s == dot || s == dotdot) = true := by
          rw [List.any_eq_true]; exact ⟨s, hs, by rcases h with rfl | rfl <;> simp⟩
        simp only [this, Bool.or_true]
    rw [if_pos this]
  · rw [translate_some root sfx e hroot hr]
    have : (e.contains '\x00' || e.getLast? == some '/' || (segsOf e).isEmpty ||
        (segsOf e).any (fun s => s == dot || s == dotdot)) = false := by
      unfold Refused at hr
      simp only [not_or, not_exists, not_and] at hr
      obtain ⟨hnul, hend, hne, hdots⟩ := hr
      have h1 : e.contains '\x00' = false := by
        cases hc : e.contains '\x00' with
        | false => rfl
        | true => exact absurd (List.contains_iff_mem.mp hc) hnul
      have h2 : (e.getLast? == some '/') = false := by
        unfold endsWithSlash at hend; simpa using hend
      have h3 : (segsOf e).isEmpty = false := by cases hs : segsOf e <;> simp_all
      have h4 : (segsOf e).any (fun s => s == dot || s == dotdot) = false := by
        rw [Bool.eq_false_iff]; intro hany
        obtain ⟨s, hs, hsd⟩ := List.any_eq_true.mp hany
        simp only [Bool.or_eq_true, beq_iff_eq] at hsd
        rcases hsd with hsd | hsd
        · exact (hdots s hs).1 hsd
        · exact (hdots s hs).2 hsd
      rw [h1, h2, h3, h4]; rfl
    rw [if_neg (by rw [this]; exact Bool.false_ne_true)]

/-- `open` succeeds exactly on what the specification calls a regular file -/
theorem walk_content_iff (x : Node) (l : List Str) (c : Str) :
    walk x l = .content c ↔ regularAt x l = some c := by
  induction l generalizing x with
  | nil => cases x <;> simp [walk, regularAt]
  | cons n rest ih =>
    cases x with
    | file _ => simp [walk, regularAt]
    | dir es =>
      simp only [walk, regularAt]
      split
      · simp
      · cases lookupEntry n es with
        | none => simp
        | some y => exact ih y

theorem openPath_content_iff (fs : Node) (p c : Str) :
    openPath fs p = .content c ↔ regularFile fs p = some c := by
  unfold openPath regularFile
  split
  · simp
  · exact walk_content_iff _ _ _

/-- every way `_handle` can end, in closed form -/
theorem handleCore_cases (h : Handler) (env : Env) (ctx : Ctx) :
    ((handleLookup h env ctx).result = none ∧
      handleCore h env ctx = { calls := (handleLookup h env ctx).calls, opens := [], outcome := .internalError }) ∨
    (∃ sid data, (handleLookup h env ctx).result = some (sid, data) ∧ accessAllowed h env sid data = false ∧
      handleCore h env ctx = { calls := (handleLookup h env ctx).calls, opens := [], outcome := .forbidden }) ∨
    (∃ sid data, (handleLookup h env ctx).result = some (sid, data) ∧ accessAllowed h env sid data = true ∧
      (targetFile h ctx = none ∨ (h.extract && h.cfg.noResultAction != continueAction && sid.isNone) = true) ∧
      handleCore h env ctx = { calls := (handleLookup h env ctx).calls, opens := [], outcome := .notFound }) ∨
    (∃ sid data q, (handleLookup h env ctx).result = some (sid, data) ∧ accessAllowed h env sid data = true ∧
      targetFile h ctx = some q ∧ (∀ c, openPath env.fs q ≠ .content c) ∧
      handleCore h env ctx = { calls := (handleLookup h env ctx).calls, opens := [q], outcome := .notFound }) ∨
    (∃ sid data q c, (handleLookup h env ctx).result = some (sid, data) ∧ accessAllowed h env sid data = true ∧
      targetFile h ctx = some q ∧ openPath env.fs q = .content c ∧
      handleCore h env ctx = { calls := (handleLookup h env ctx).calls, opens := [q], outcome := (Outcome.served q c
        (if h.cfg.template then some { id := sid, data := data.map (·.token) } else none)) }) := by
  unfold handleCore
  simp only []
  cases hr : (handleLookup h env ctx).result with
  | none => left; exact ⟨rfl, rfl⟩
  | some sd =>
    obtain ⟨sid, data⟩ := sd
    right
    cases ha : accessAllowed h env sid data with
    | false => left; exact ⟨sid, data, rfl, ha, by simp [ha]⟩
    | true =>
      right
      by_cases hc : (h.extract && h.cfg.noResultAction != continueAction && sid.isNone) = true
      · left; exact ⟨sid, data, rfl, ha, Or.inr hc, by simp only [ha, hc]; rfl⟩
      · have hc' : (h.extract && h.cfg.noResultAction != continueAction && sid.isNone) = false := by
          exact Bool.eq_false_iff.mpr hc
        cases ht : targetFile h ctx with
        | none => left; exact ⟨sid, data, rfl, ha, Or.inl rfl, by simp only [ha, hc']; rfl⟩
        | some q =>
          right
          cases ho : openPath env.fs q with
          | content c =>
            right
            exact ⟨sid, data, q, c, rfl, ha, rfl, ho, by simp only [ha, hc', ho]; rfl⟩
          | enoent => left; exact ⟨sid, data, q, rfl, ha, rfl, by simp [ho], by simp only [ha, hc', ho]; rfl⟩
          | enotdir => left; exact ⟨sid, data, q, rfl, ha, rfl, by simp [ho], by simp only [ha, hc', ho]; rfl⟩
          | eisdir => left; exact ⟨sid, data, q, rfl, ha, rfl, by simp [ho], by simp only [ha, hc', ho]; rfl⟩
          | enametoolong => left; exact ⟨sid, data, q, rfl, ha, rfl, by simp [ho], by simp only [ha, hc', ho]; rfl⟩

/-- **Only the translated path is ever opened or rendered**: every path `_handle` gives to
    `open` / to the template engine is the one target of the request — `_translate_path` of the
    remaining path in directory mode, the configured file in file mode. -/
theorem opens_only_translated (h : Handler) (env : Env) (method : Str) (ctx : Ctx) :
    (∀ p ∈ (handle h env method ctx).opens, targetFile h ctx = some p) ∧
    (h.dirMode = true → targetFile h ctx
      = translatePath (h.cfg.rootDir.getD []) (h.cfg.fileSuffix.getD []) (ctx.extraPath.getD [])) ∧
    (h.dirMode = false → targetFile h ctx = h.cfg.file) := by
  refine ⟨?_, ?_, ?_⟩
  · intro p hp
    unfold handle at hp
    split at hp
    · simp at hp
    · rcases handleCore_cases h env ctx with ⟨_, hc⟩ | ⟨_, _, _, _, hc⟩ | ⟨_, _, _, _, _, hc⟩ |
        ⟨_, _, q, _, _, ht, _, hc⟩ | ⟨_, _, q, _, _, _, ht, _, hc⟩ <;> rw [hc] at hp <;> simp at hp
      · rw [ht, hp]
      · rw [ht, hp]
  · intro hd; simp [targetFile, hd]
  · intro hd; simp [targetFile, hd]

/-- **What is not a regular file is "not found", never an internal error.** Unless an
    exception of the data source or of the transformation chain escapes (which
    `data_source_error_action = "error"` asks for), `_handle` answers forbidden, not-found, or
    serves the request's one target, and it serves only if that path names a regular file of
    the tree: a missing name, a directory, a path that continues below a regular file and an
    over-long name all yield not-found. -/
theorem nonregular_not_found (h : Handler) (env : Env) (ctx : Ctx)
    (hl : (handleLookup h env ctx).result ≠ none) :
    (handleCore h env ctx).outcome = .forbidden ∨ (handleCore h env ctx).outcome = .notFound ∨
    ∃ p c tc, (handleCore h env ctx).outcome = .served p c tc ∧ targetFile h ctx = some p ∧
      regularFile env.fs p = some c ∧ (handleCore h env ctx).opens = [p] := by
  rcases handleCore_cases h env ctx with ⟨hr, _⟩ | ⟨_, _, _, _, hc⟩ | ⟨_, _, _, _, _, hc⟩ |
      ⟨_, _, q, _, _, ht, _, hc⟩ | ⟨_, _, q, c, _, _, ht, ho, hc⟩
  · exact absurd hr hl
  · left; rw [hc]
  · right; left; rw [hc]
  · right; left; rw [hc]
  · right; right
    exact ⟨q, c, _, by rw [hc], ht, (openPath_content_iff _ _ _).mp ho, by rw [hc]⟩

/-- **A request that is not accepted, not authorised or not permitted opens nothing.**
    Not accepted: `handle` is not called, no data-source call, no open. Access denied: the
    outcome is forbidden and nothing was opened. Method not allowed (HTTP): nothing was
    called or opened. -/
theorem unauthorised_or_unmatched_opens_nothing (h : Handler) (env : Env) (method req : Str) :
    ((requestOn h env method req).seen.accepted = false →
      (requestOn h env method req).seen.opens = [] ∧ (requestOn h env method req).seen.calls = [] ∧
      (requestOn h env method req).seen.outcome = none) ∧
    ((requestOn h env method req).seen.outcome = some .forbidden → (requestOn h env method req).seen.opens = []) ∧
    ((requestOn h env method req).seen.outcome = some .methodNotAllowed →
      (requestOn h env method req).seen.opens = [] ∧ (requestOn h env method req).seen.calls = []) ∧
    (∀ ctx sid data, (handleLookup h env ctx).result = some (sid, data) → accessAllowed h env sid data = false →
      (handleCore h env ctx).outcome = .forbidden ∧ (handleCore h env ctx).opens = []) := by
  have hcore : ∀ ctx, ((handleCore h env ctx).outcome = .forbidden → (handleCore h env ctx).opens = []) ∧
      (handleCore h env ctx).outcome ≠ .methodNotAllowed := by
    intro ctx
    rcases handleCore_cases h env ctx with ⟨_, hc⟩ | ⟨_, _, _, _, hc⟩ | ⟨_, _, _, _, _, hc⟩ |
      ⟨_, _, q, _, _, _, _, hc⟩ | ⟨_, _, q, c, _, _, _, _, hc⟩ <;> rw [hc] <;> simp
  refine ⟨?_, ?_, ?_, ?_⟩
  · intro ha
    unfold requestOn RequestObs.seen at ha ⊢
    by_cases hm : (prepare h req).isMatch = true
    · simp [hm] at ha
    · simp [hm]
  · intro ho
    unfold requestOn RequestObs.seen at ho ⊢
    by_cases hm : (prepare h req).isMatch = true
    · simp only [hm, if_true] at ho ⊢
      simp only [Option.some.injEq] at ho
      unfold handle at ho ⊢
      by_cases hmeth : (!h.cfg.tftp && !httpMethods.contains method) = true
      · simp only [hmeth, if_true] at ho ⊢
      · simp only [hmeth, Bool.false_eq_true, if_false] at ho ⊢
        exact (hcore _).1 ho
    · simp [hm] at ho
  · intro ho
    unfold requestOn RequestObs.seen at ho ⊢
    by_cases hm : (prepare h req).isMatch = true
    · simp only [hm, if_true] at ho ⊢
      simp only [Option.some.injEq] at ho
      unfold handle at ho ⊢
      by_cases hmeth : (!h.cfg.tftp && !httpMethods.contains method) = true
      · simp only [hmeth, if_true, and_self]
      · simp only [hmeth, Bool.false_eq_true, if_false] at ho ⊢
        exact absurd ho (hcore _).2
    · simp [hm] at ho
  · intro ctx sid data hr ha
    rcases handleCore_cases h env ctx with ⟨hr', _⟩ | ⟨_, _, _, _, hc⟩ | ⟨s', d', hr', ha', _⟩ |
      ⟨s', d', _, hr', ha', _⟩ | ⟨s', d', _, _, hr', ha', _⟩
    · rw [hr] at hr'; simp at hr'
    · rw [hc]; simp
    all_goals (rw [hr] at hr'; simp only [Option.some.injEq, Prod.mk.injEq] at hr'; obtain ⟨rfl, rfl⟩ := hr';
               rw [ha] at ha'; simp at ha')

end Vinegar.C04
