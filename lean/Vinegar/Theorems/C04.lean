import Vinegar.Lemmas.PathsFs
import Vinegar.Lemmas.PathsHandle
import Vinegar.Lemmas.PathsCheck
import Vinegar.Theorems.C06
/-
C04 — file serving is confined to the configured root directory or file.

Theorems about the executable model `Vinegar.Paths` of `_translate_path` and `_handle`
(vinegar/request_handler/file.py), for every root directory in absolute normal form, every
file suffix, every remaining path, every file-system tree, data source and transformation.
-/
namespace Vinegar.C04
open Vinegar Vinegar.Paths Vinegar.Paths.Spec

/-- the non-empty components of a remaining path -/
def segsOf (e : Str) : List Str := (splitOn '/' e).filter ne

/-- when `_translate_path` refuses: NUL, trailing slash, no component, or a "." / ".." component -/
def Refused (e : Str) : Prop :=
  '\x00' ∈ e ∨ endsWithSlash e = true ∨ segsOf e = [] ∨ ∃ s ∈ segsOf e, s = dot ∨ s = dotdot

theorem translate_some (root sfx e : Str) (hroot : AbsNormal root) (hr : ¬ Refused e) :
    translatePath root sfx e = some (root ++ '/' :: joinWith ['/'] (segsOf e) ++ sfx) := by
  unfold Refused at hr
  simp only [not_or, not_exists, not_and] at hr
  obtain ⟨hnul, hend, hne, hdots⟩ := hr
  have hend' : endsWithSlash e = false := by simpa using hend
  have hnul' : e.contains '\x00' = false := by
    cases hc : e.contains '\x00' with
    | false => rfl
    | true => exact absurd (List.contains_iff_mem.mp hc) hnul
  have hee : e.isEmpty = false := by
    cases e with
    | nil => exact absurd (by simp [segsOf, splitOn, ne]) hne
    | cons c t => rfl
  have hdw : ((splitOn '/' e).dropWhile (fun s => s.isEmpty)).isEmpty = false := by
    cases hd : (splitOn '/' e).dropWhile (fun s => s.isEmpty) with
    | nil => exact absurd ((dw_nil_iff _).mp hd) hne
    | cons a t => rfl
  have hmem : ∀ x, x ≠ [] → x ∈ (splitOn '/' e).dropWhile (fun s => s.isEmpty) → x ∈ segsOf e := by
    intro x hx hm
    have := dw_mem _ x hm
    simp [segsOf, List.mem_filter, this, ne, List.isEmpty_iff, hx]
  have hnd : ((splitOn '/' e).dropWhile (fun s => s.isEmpty)).contains dot = false := by
    cases hc : ((splitOn '/' e).dropWhile (fun s => s.isEmpty)).contains dot with
    | false => rfl
    | true =>
      have := hmem dot (by decide) (List.contains_iff_mem.mp hc)
      exact absurd rfl (hdots dot this).1
  have hndd : ((splitOn '/' e).dropWhile (fun s => s.isEmpty)).contains dotdot = false := by
    cases hc : ((splitOn '/' e).dropWhile (fun s => s.isEmpty)).contains dotdot with
    | false => rfl
    | true =>
      have := hmem dotdot (by decide) (List.contains_iff_mem.mp hc)
      exact absurd rfl (hdots dotdot this).2
  have hjoin := normJoin_eq root ((splitOn '/' e).dropWhile (fun s => s.isEmpty)) hroot
    (fun b hb => mem_splitOn_no_sep '/' e b (dw_mem _ b hb))
    (fun b hb => by
      by_cases hbe : b = []
      · exact Or.inl hbe
      · have := hdots b (hmem b hbe hb)
        exact Or.inr this)
    (by rw [dw_filter]; exact hne)
  rw [dw_filter] at hjoin
  unfold translatePath
  simp only [hnul', Bool.false_eq_true, if_false, hee, hend', Bool.or_self, hdw, hnd, hndd, hjoin]
  have : root.isPrefixOf (root ++ '/' :: joinWith ['/'] (List.filter ne (splitOn '/' e)) ++ sfx) = true := by
    rw [List.isPrefixOf_iff_prefix, List.append_assoc]; exact List.prefix_append _ _
  simp only [this, if_true]
  rfl

theorem translate_none (root sfx e : Str) (hr : Refused e) : translatePath root sfx e = none := by
  unfold translatePath
  by_cases hnul : e.contains '\x00' = true
  · simp only [hnul, if_true]
  · by_cases hemp : (e.isEmpty || endsWithSlash e) = true
    · simp only [hnul, hemp, if_true, Bool.false_eq_true, if_false]
    · by_cases hdw : ((splitOn '/' e).dropWhile (fun s => s.isEmpty)).isEmpty = true
      · simp only [hnul, hemp, hdw, if_true, Bool.false_eq_true, if_false]
      · by_cases hd : (((splitOn '/' e).dropWhile (fun s => s.isEmpty)).contains dot ||
            ((splitOn '/' e).dropWhile (fun s => s.isEmpty)).contains dotdot) = true
        · simp only [hnul, hemp, hdw, hd, Bool.false_eq_true, if_false, if_true]
        · exfalso
          rcases hr with h | h | h | ⟨s, hs, h⟩
          · exact hnul (List.contains_iff_mem.mpr h)
          · apply hemp; simp [h]
          · apply hdw
            have := (dw_nil_iff (splitOn '/' e)).mpr h
            rw [this]; rfl
          · apply hd
            have hs' : s ∈ splitOn '/' e ∧ s ≠ [] := by
              simp only [segsOf, List.mem_filter, ne, Bool.not_eq_true', List.isEmpty_eq_false_iff] at hs
              exact hs
            have := dw_mem_of_ne _ s hs'.2 hs'.1
            rw [Bool.or_eq_true]
            rcases h with rfl | rfl
            · exact Or.inl (List.contains_iff_mem.mpr this)
            · exact Or.inr (List.contains_iff_mem.mpr this)

/-- **Confinement.** Below an absolute normalised root, whatever `_translate_path` returns is
    the root, one slash, the non-empty components of the remaining path joined by single
    slashes, and the suffix — and every component is a proper name: not empty, not "." or
    "..", free of NUL and "/". So no prefix of the returned path leaves the root under POSIX
    resolution without symbolic links. -/
theorem translate_confined (root sfx e p : Str) (hroot : AbsNormal root)
    (h : translatePath root sfx e = some p) :
    ∃ segs, segs = (splitOn '/' e).filter (fun s => !s.isEmpty) ∧ segs ≠ [] ∧
      (∀ s ∈ segs, safeSeg s = true) ∧ p = root ++ '/' :: joinWith ['/'] segs ++ sfx := by
  by_cases hr : Refused e
  · rw [translate_none root sfx e hr] at h; exact absurd h (by simp)
  · rw [translate_some root sfx e hroot hr] at h
    simp only [Option.some.injEq] at h
    unfold Refused at hr
    simp only [not_or, not_exists, not_and] at hr
    obtain ⟨hnul, _, hne, hdots⟩ := hr
    refine ⟨segsOf e, rfl, hne, ?_, h.symm⟩
    intro s hs
    have hs' : s ∈ splitOn '/' e ∧ s ≠ [] := by
      simp only [segsOf, List.mem_filter, ne, Bool.not_eq_true', List.isEmpty_eq_false_iff] at hs
      exact hs
    rw [safeSeg_iff]
    refine ⟨hs'.2, (hdots s hs).1, (hdots s hs).2, ?_, mem_splitOn_no_sep '/' e s hs'.1⟩
    intro hm; exact hnul (mem_splitOn_subset '/' e s hs'.1 _ hm)

/-- **It is *the* file the remaining path names.** Below an absolute normalised root
    `_translate_path` coincides with the reference resolution of the specification
    (`Spec.refTarget`: `root_dir/<remaining path><file_suffix>` with repeated slashes read as
    one separator; nothing for NUL, a trailing slash, no component, "." or ".."). -/
theorem translate_spec (root sfx e : Str) (hroot : AbsNormal root) :
    translatePath root sfx e = refTarget root sfx e := by
  have href : refTarget root sfx e =
      if (e.contains '\x00' || e.getLast? == some '/' || (segsOf e).isEmpty ||
          (segsOf e).any (fun s => s == dot || s == dotdot)) = true then none
      else some (root ++ '/' :: joinWith ['/'] (segsOf e) ++ sfx) := rfl
  rw [href]
  by_cases hr : Refused e
  · rw [translate_none root sfx e hr]
    have : (e.contains '\x00' || e.getLast? == some '/' || (segsOf e).isEmpty ||
        (segsOf e).any (fun s => s == dot || s == dotdot)) = true := by
      rcases hr with h | h | h | ⟨s, hs, h⟩
      · have hc := List.contains_iff_mem.mpr h
        simp only [hc, Bool.true_or]
      · unfold endsWithSlash at h; simp only [h, Bool.true_or, Bool.or_true]
      · simp only [h, List.isEmpty_nil, Bool.true_or, Bool.or_true]
      · have : (segsOf e).any (fun s => s == dot || s == dotdot) = true := by
          rw [List.any_eq_true]; exact ⟨s, hs, by rcases h with rfl | rfl <;> simp⟩
        simp only [this, Bool.or_true]
    rw [if_pos this]
  · rw [translate_some root sfx e hroot hr]
    have : (e.contains '\x00' || e.getLast? == some '/' || (segsOf e).isEmpty ||
        (segsOf e).any (fun s => s == dot || s == dotdot)) = false := by
      unfold Refused at hr
      simp only [not_or, not_exists, not_and] at hr
      obtain ⟨hnul, hend, hne, hdots⟩ := hr
      have h1 : e.contains '\x00' = false := by
        cases hc : e.contains '\x00' with
        | false => rfl
        | true => exact absurd (List.contains_iff_mem.mp hc) hnul
      have h2 : (e.getLast? == some '/') = false := by
        unfold endsWithSlash at hend; simpa using hend
      have h3 : (segsOf e).isEmpty = false := by cases hs : segsOf e <;> simp_all
      have h4 : (segsOf e).any (fun s => s == dot || s == dotdot) = false := by
        rw [Bool.eq_false_iff]; intro hany
        obtain ⟨s, hs, hsd⟩ := List.any_eq_true.mp hany
        simp only [Bool.or_eq_true, beq_iff_eq] at hsd
        rcases hsd with hsd | hsd
        · exact (hdots s hs).1 hsd
        · exact (hdots s hs).2 hsd
      rw [h1, h2, h3, h4]; rfl
    rw [if_neg (by rw [this]; exact Bool.false_ne_true)]

/-- `open` succeeds exactly on what the specification calls a regular file -/
theorem walk_content_iff (x : Node) (l : List Str) (c : Str) :
    walk x l = .content c ↔ regularAt x l = some c := by
  induction l generalizing x with
  | nil => cases x <;> simp [walk, regularAt]
  | cons n rest ih =>
    cases x with
    | file _ => simp [walk, regularAt]
    | dir es =>
      simp only [walk, regularAt]
      split
      · simp
      · cases lookupEntry n es with
        | none => simp
        | some y => exact ih y

theorem openPath_content_iff (fs : Node) (p c : Str) :
    openPath fs p = .content c ↔ regularFile fs p = some c := by
  unfold openPath regularFile
  split
  · simp
  · exact walk_content_iff _ _ _

/-- **Only the translated path is ever opened or rendered**: every path `_handle` gives to
    `open` / to the template engine is the one target of the request — `_translate_path` of the
    remaining path in directory mode, the configured file in file mode. -/
theorem opens_only_translated (h : Handler) (env : Env) (method : Str) (ctx : Ctx) :
    (∀ p ∈ (handle h env method ctx).opens, targetFile h ctx = some p) ∧
    (h.dirMode = true → targetFile h ctx
      = translatePath (h.cfg.rootDir.getD []) (h.cfg.fileSuffix.getD []) (ctx.extraPath.getD [])) ∧
    (h.dirMode = false → targetFile h ctx = h.cfg.file) := by
  refine ⟨?_, ?_, ?_⟩
  · intro p hp
    unfold handle at hp
    split at hp
    · simp at hp
    · rcases handleCore_cases h env ctx with ⟨_, hc⟩ | ⟨_, _, _, _, hc⟩ | ⟨_, _, _, _, _, hc⟩ |
        ⟨_, _, q, _, _, _, ht, _, hc⟩ | ⟨_, _, q, _, _, _, _, ht, _, hc⟩ <;> rw [hc] at hp <;> simp at hp
      · rw [ht, hp]
      · rw [ht, hp]
  · intro hd; simp [targetFile, hd]
  · intro hd; simp [targetFile, hd]

/-- **What is not a regular file is "not found", never an internal error.** Unless an
    exception of the data source or of the transformation chain escapes (which
    `data_source_error_action = "error"` asks for), `_handle` answers forbidden, not-found, or
    serves the request's one target, and it serves only if that path names a regular file of
    the tree: a missing name, a directory, a path that continues below a regular file and an
    over-long name all yield not-found. -/
theorem nonregular_not_found (h : Handler) (env : Env) (ctx : Ctx)
    (hl : (handleLookup h env ctx).result ≠ none) :
    (handleCore h env ctx).outcome = .forbidden ∨ (handleCore h env ctx).outcome = .notFound ∨
    ∃ p c tc, (handleCore h env ctx).outcome = .served p c tc ∧ targetFile h ctx = some p ∧
      regularFile env.fs p = some c ∧ (handleCore h env ctx).opens = [p] := by
  rcases handleCore_cases h env ctx with ⟨hr, _⟩ | ⟨_, _, _, _, hc⟩ | ⟨_, _, _, _, _, hc⟩ |
      ⟨_, _, q, _, _, _, ht, _, hc⟩ | ⟨_, _, q, c, _, _, _, ht, ho, hc⟩
  · exact absurd hr hl
  · left; rw [hc]
  · right; left; rw [hc]
  · right; left; rw [hc]
  · right; right
    exact ⟨q, c, _, by rw [hc], ht, (openPath_content_iff _ _ _).mp ho, by rw [hc]⟩

/-- **A request that is not accepted, not authorised or not permitted opens nothing.**
    Not accepted: `handle` is not called, no data-source call, no open. Access denied: the
    outcome is forbidden and nothing was opened. Method not allowed (HTTP): nothing was
    called or opened. -/
theorem unauthorised_or_unmatched_opens_nothing (h : Handler) (env : Env) (method req : Str) :
    ((requestOn h env method req).seen.accepted = false →
      (requestOn h env method req).seen.opens = [] ∧ (requestOn h env method req).seen.calls = [] ∧
      (requestOn h env method req).seen.outcome = none) ∧
    ((requestOn h env method req).seen.outcome = some .forbidden → (requestOn h env method req).seen.opens = []) ∧
    ((requestOn h env method req).seen.outcome = some .methodNotAllowed →
      (requestOn h env method req).seen.opens = [] ∧ (requestOn h env method req).seen.calls = []) ∧
    (∀ ctx sid data, (handleLookup h env ctx).result = some (sid, data) → accessAllowed h env sid data = false →
      (handleCore h env ctx).outcome = .forbidden ∧ (handleCore h env ctx).opens = []) := by
  have hcore : ∀ ctx, ((handleCore h env ctx).outcome = .forbidden → (handleCore h env ctx).opens = []) ∧
      (handleCore h env ctx).outcome ≠ .methodNotAllowed := by
    intro ctx
    rcases handleCore_cases h env ctx with ⟨_, hc⟩ | ⟨_, _, _, _, hc⟩ | ⟨_, _, _, _, _, hc⟩ |
      ⟨_, _, q, _, _, _, _, _, hc⟩ | ⟨_, _, q, c, _, _, _, _, _, hc⟩ <;> rw [hc] <;> simp
  refine ⟨?_, ?_, ?_, ?_⟩
  · intro ha
    unfold requestOn RequestObs.seen at ha ⊢
    by_cases hm : (prepare h req).isMatch = true
    · simp [hm] at ha
    · simp [hm]
  · intro ho
    unfold requestOn RequestObs.seen at ho ⊢
    by_cases hm : (prepare h req).isMatch = true
    · simp only [hm, if_true] at ho ⊢
      simp only [Option.some.injEq] at ho
      unfold handle at ho ⊢
      by_cases hmeth : (!h.cfg.tftp && !httpMethods.contains method) = true
      · simp only [hmeth, if_true] at ho ⊢
      · simp only [hmeth, Bool.false_eq_true, if_false] at ho ⊢
        exact (hcore _).1 ho
    · simp [hm] at ho
  · intro ho
    unfold requestOn RequestObs.seen at ho ⊢
    by_cases hm : (prepare h req).isMatch = true
    · simp only [hm, if_true] at ho ⊢
      simp only [Option.some.injEq] at ho
      unfold handle at ho ⊢
      by_cases hmeth : (!h.cfg.tftp && !httpMethods.contains method) = true
      · simp only [hmeth, if_true, and_self]
      · simp only [hmeth, Bool.false_eq_true, if_false] at ho ⊢
        exact absurd ho (hcore _).2
    · simp [hm] at ho
  · intro ctx sid data hr ha
    rcases handleCore_cases h env ctx with ⟨hr', _⟩ | ⟨_, _, _, _, hc⟩ | ⟨s', d', hr', ha', _⟩ |
      ⟨s', d', _, hr', ha', _⟩ | ⟨s', d', _, _, hr', ha', _⟩
    · rw [hr] at hr'; simp at hr'
    · rw [hc]; simp
    all_goals (rw [hr] at hr'; simp only [Option.some.injEq, Prod.mk.injEq] at hr'; obtain ⟨rfl, rfl⟩ := hr';
               rw [ha] at ha'; simp at ha')

/-! ### the checker of the specification accepts every observation of the model -/

theorem setup_request_eq (h : Handler) (req : Str) :
    prepare h req = prepareContext h ((setupOf h).request req) := rfl

theorem safeSeg_append (a sfx : Str) (ha : safeSeg a = true) (h1 : '/' ∉ sfx) (h2 : '\x00' ∉ sfx) :
    safeSeg (a ++ sfx) = true := by
  rw [safeSeg_iff] at ha ⊢
  obtain ⟨hne, hd, hdd, hn, hs⟩ := ha
  refine ⟨by simp [hne], ?_, ?_, by simp [hn, h2], by simp [hs, h1]⟩
  · intro e
    cases a with
    | nil => exact hne rfl
    | cons c a' =>
      simp only [dot, List.cons_append, List.cons.injEq, List.append_eq_nil_iff] at e
      exact hd (by rw [e.1, e.2.1]; rfl)
  · intro e
    cases a with
    | nil => exact hne rfl
    | cons c a' =>
      simp only [dotdot, List.cons_append, List.cons.injEq] at e
      cases a' with
      | nil => exact hd (by rw [e.1]; rfl)
      | cons c' a'' =>
        simp only [List.cons_append, List.cons.injEq, List.append_eq_nil_iff] at e
        exact hdd (by rw [e.1, e.2.1, e.2.2.1]; rfl)

theorem all_safe_join_suffix (segs : List Str) (sfx : Str) (hne : segs ≠ [])
    (hs : ∀ s ∈ segs, safeSeg s = true) (h1 : '/' ∉ sfx) (h2 : '\x00' ∉ sfx) :
    ∀ x ∈ splitOn '/' (joinWith ['/'] segs ++ sfx), safeSeg x = true := by
  induction segs with
  | nil => exact absurd rfl hne
  | cons a rest ih =>
    have ha := hs a (by simp)
    cases rest with
    | nil =>
      simp only [joinWith]
      have hsl : '/' ∉ a ++ sfx := by
        simp only [List.mem_append, not_or]; exact ⟨((safeSeg_iff a).mp ha).2.2.2.2, h1⟩
      rw [splitOn_no_sep '/' _ hsl]
      intro x hx; simp at hx; subst hx
      exact safeSeg_append a sfx ha h1 h2
    | cons b t =>
      rw [joinWith_cons_cons]
      have : a ++ ['/'] ++ joinWith ['/'] (b :: t) ++ sfx = a ++ '/' :: (joinWith ['/'] (b :: t) ++ sfx) := by simp
      rw [this, splitOn_append_sep, splitOn_no_sep '/' a ((safeSeg_iff a).mp ha).2.2.2.2]
      intro x hx
      simp only [List.cons_append, List.nil_append, List.mem_cons] at hx
      rcases hx with rfl | hx
      · exact ha
      · exact ih (by simp) (fun s m => hs s (List.mem_cons_of_mem _ m)) x hx

/-- a translated path lies below the root in the sense of the checker -/
theorem below_of_translate (root sfx e p : Str) (hroot : AbsNormal root) (h1 : '/' ∉ sfx) (h2 : '\x00' ∉ sfx)
    (h : translatePath root sfx e = some p) : below root p = true := by
  obtain ⟨segs, _, hne, hsafe, rfl⟩ := translate_confined root sfx e p hroot h
  unfold below
  rw [Bool.and_eq_true]
  constructor
  · rw [List.isPrefixOf_iff_prefix]
    exact ⟨joinWith ['/'] segs ++ sfx, by simp⟩
  · have : (root ++ '/' :: joinWith ['/'] segs ++ sfx).drop (root.length + 1) = joinWith ['/'] segs ++ sfx := by
      have : root ++ '/' :: joinWith ['/'] segs ++ sfx = (root ++ ['/']) ++ (joinWith ['/'] segs ++ sfx) := by simp
      rw [this, List.drop_left' (by simp)]
    rw [this, List.all_eq_true]
    exact all_safe_join_suffix segs sfx hne hsafe h1 h2

/-- for an accepted request the one path the checker allows is the model's target -/
theorem allowedTarget_eq (cfg : Cfg) (h : Handler) (hinit : initHandler cfg = .ok h) (req v : Str) (rest : List Str)
    (hws : witnesses (setupOf h).requestPath (setupOf h).placeholder (setupOf h).fileMode ((setupOf h).request req)
      = v :: rest)
    (hroot : truthy cfg.file = false → AbsNormal (cfg.rootDir.getD [])) :
    allowedTarget (setupOf h) req = targetFile h (prepare h req) := by
  obtain ⟨dec, hmode, _⟩ := initHandler_ok cfg h hinit
  have hcfg := dec.cfg_eq
  have hv : v ∈ witnesses (setupOf h).requestPath (setupOf h).placeholder (setupOf h).fileMode
      ((setupOf h).request req) := by rw [hws]; simp
  obtain ⟨hnn, hw⟩ := (mem_witnesses _ _ _ _ _).mp hv
  obtain ⟨extra, t, h1, h2, h3, h4⟩ := (witnessOK_iff _ _ _ _ _).mp hw
  unfold allowedTarget
  rw [hws]
  simp only
  cases hf : truthy cfg.file with
  | true =>
    have hd : h.dirMode = false := by
      unfold Handler.dirMode; rw [hcfg]
      cases hr : truthy cfg.rootDir <;> simp_all
    have : (setupOf h).fileMode = true := by simp [setupOf, hcfg, hf]
    simp only [this, if_true, targetFile, hd, Bool.false_eq_true, if_false, setupOf, hcfg, hf]
    cases hfile : cfg.file with
    | none => rw [hfile] at hf; simp [truthy] at hf
    | some f => simp
  | false =>
    have hd : h.dirMode = true := by
      unfold Handler.dirMode; rw [hcfg]
      cases hr : truthy cfg.rootDir <;> simp_all
    have hfm : (setupOf h).fileMode = false := by simp [setupOf, hcfg, hf]
    have hn : hasNul ((setupOf h).request req) = false :=
      (hasNul_false_iff _).mpr ((noNul_iff _).mp hnn)
    rw [hfm] at h4
    have hrp : (setupOf h).requestPath = cfg.requestPath := by simp [setupOf, hcfg]
    rw [hrp] at h2 h4
    have hextra := extraPath_spec cfg h dec hmode ((setupOf h).request req) hn hf (setupOf h).placeholder
      (by simp [setupOf, hcfg]) v extra t h1 h2 (by rw [← decodedPath_eq]; exact h3) h4
    have hex : extraOf (setupOf h).requestPath (setupOf h).placeholder
        (decodedPath ((setupOf h).request req)) v = extra := by
      unfold extraOf
      rw [hrp, h2, h3]
      simp
    simp only [hfm, Bool.false_eq_true, if_false, hex, targetFile, hd, if_true]
    rw [setup_request_eq, hextra]
    simp only [Option.getD_some]
    have : (setupOf h).root = h.cfg.rootDir.getD [] := by simp [setupOf, hcfg, hf]
    rw [this, show (setupOf h).fileSuffix = h.cfg.fileSuffix.getD [] from rfl]
    rw [translate_spec _ _ _ (by rw [hcfg]; exact hroot hf)]

theorem confined_target (cfg : Cfg) (h : Handler) (hinit : initHandler cfg = .ok h) (ctx : Ctx) (q : Str)
    (hroot : truthy cfg.file = false → AbsNormal (cfg.rootDir.getD []))
    (hsfx : '/' ∉ cfg.fileSuffix.getD [] ∧ '\x00' ∉ cfg.fileSuffix.getD [])
    (ht : targetFile h ctx = some q) :
    (if (setupOf h).fileMode = true then q == (setupOf h).root else below (setupOf h).root q) = true := by
  obtain ⟨dec, hmode, _⟩ := initHandler_ok cfg h hinit
  have hcfg := dec.cfg_eq
  cases hf : truthy cfg.file with
  | true =>
    have hd : h.dirMode = false := by
      unfold Handler.dirMode; rw [hcfg]
      cases hr : truthy cfg.rootDir <;> simp_all
    simp only [targetFile, hd, Bool.false_eq_true, if_false] at ht
    simp [setupOf, hcfg, hf]
    rw [hcfg] at ht; rw [ht]; rfl
  | false =>
    have hd : h.dirMode = true := by
      unfold Handler.dirMode; rw [hcfg]
      cases hr : truthy cfg.rootDir <;> simp_all
    simp only [targetFile, hd, if_true] at ht
    have : (setupOf h).fileMode = false := by simp [setupOf, hcfg, hf]
    simp only [this, Bool.false_eq_true, if_false]
    have hr : (setupOf h).root = h.cfg.rootDir.getD [] := by simp [setupOf, hcfg, hf]
    rw [hr]
    rw [hcfg] at ht ⊢
    exact below_of_translate _ _ _ _ (hroot hf) hsfx.1 hsfx.2 ht

/-- **The confinement checker accepts every observation of the model**: for every
    configuration the constructor accepts whose `root_dir` is an absolute normalised path
    and whose `file_suffix` has no "/" or NUL, every environment, method and request, all four
    clauses of `c04Check` hold for what the model does — every opened path lies below the root
    (or is the configured file), it is the one target the specification computes from the
    request, a served file is that regular file, an internal error only occurs when an
    escaping data-source / transformation exception is configured, and unmatched,
    unauthorised and not-permitted requests open nothing. -/
theorem c04Check_model (cfg : Cfg) (h : Handler) (hinit : initHandler cfg = .ok h)
    (env : Env) (method req : Str) (errorsConfigured : Bool)
    (hroot : truthy cfg.file = false → AbsNormal (cfg.rootDir.getD []))
    (hsfx : '/' ∉ cfg.fileSuffix.getD [] ∧ '\x00' ∉ cfg.fileSuffix.getD [])
    (herr : (handleLookup h env (prepare h req)).result = none → errorsConfigured = true) :
    (c04Check (setupOf h) env.fs errorsConfigured req (requestOn h env method req).seen).all = true := by
  obtain ⟨dec, hmode, _⟩ := initHandler_ok cfg h hinit
  have hcfg := dec.cfg_eq
  have hrp : (setupOf h).requestPath = cfg.requestPath := by simp [setupOf, hcfg]
  have hph : (setupOf h).placeholder = Vinegar.C06.phOf cfg := by simp [setupOf, Vinegar.C06.phOf, hcfg]
  have hfm : (setupOf h).fileMode = truthy cfg.file := by simp [setupOf, hcfg]
  have hacc : (prepare h req).isMatch
      = accepts cfg.requestPath (Vinegar.C06.phOf cfg) (truthy cfg.file) ((setupOf h).request req) := by
    rw [setup_request_eq, Bool.eq_iff_iff]
    exact (Vinegar.C06.matches_iff cfg h hinit _).trans (accepts_iff _ _ _ _).symm
  unfold accepts at hacc
  cases hws : witnesses cfg.requestPath (Vinegar.C06.phOf cfg) (truthy cfg.file) ((setupOf h).request req) with
  | nil =>
    rw [hws] at hacc
    simp only [List.isEmpty_nil, Bool.not_true] at hacc
    unfold requestOn RequestObs.seen c04Check
    simp [hacc, C04Verdict.all]
  | cons v rest =>
    rw [hws] at hacc
    simp only [List.isEmpty_cons, Bool.not_false] at hacc
    have htgt := allowedTarget_eq cfg h hinit req v rest (by rw [hrp, hph, hfm]; exact hws) hroot
    unfold requestOn RequestObs.seen c04Check
    simp only [hacc, if_true, htgt]
    unfold handle
    by_cases hmeth : (!h.cfg.tftp && !httpMethods.contains method) = true
    · simp only [hmeth, if_true]
      simp [C04Verdict.all]
    · simp only [hmeth, Bool.false_eq_true, if_false]
      rcases handleCore_cases h env (prepare h req) with ⟨hr, hc⟩ | ⟨_, _, _, _, hc⟩ | ⟨_, _, _, _, _, hc⟩ |
        ⟨_, _, q, _, _, _, ht, _, hc⟩ | ⟨_, _, q, c, _, _, _, ht, ho, hc⟩
      · rw [hc]; simp [C04Verdict.all, herr hr]
      · rw [hc]; simp [C04Verdict.all]
      · rw [hc]; simp [C04Verdict.all]
      · rw [hc]
        have hconf := confined_target cfg h hinit _ q hroot hsfx ht
        simp [C04Verdict.all, ht, hconf]
      · rw [hc]
        have hconf := confined_target cfg h hinit _ q hroot hsfx ht
        have hreg := (openPath_content_iff _ _ _).mp ho
        simp [C04Verdict.all, ht, hconf, hreg]

/-! ### sanity: the hypotheses are satisfiable, the known-bad behaviour is rejected -/

example : AbsNormal "/srv/root".toList :=
  ⟨["srv".toList, "root".toList], by simp, by decide, by decide⟩

def exampleFs : Node :=
  .dir [("srv".toList, .dir [("next.txt".toList, .file "NEXT".toList),
    ("root".toList, .dir [("a.txt".toList, .file "A".toList)])])]

example : translatePath "/srv/root".toList [] "/a.txt".toList = some "/srv/root/a.txt".toList := by decide
example : translatePath "/srv/root".toList [] "/../next.txt".toList = none := by decide
example : translatePath "/srv/root".toList [] "/b//c".toList = some "/srv/root/b/c".toList := by decide

/-- D9: a path that continues below a regular file is ENOTDIR for `open`, and the (repaired)
    outcome mapping makes it not-found; the checker rejects an internal error here -/
example : openPath exampleFs "/srv/root/a.txt/more".toList = .enotdir := by decide
example : regularFile exampleFs "/srv/root/a.txt/more".toList = none := by decide
example : openPath exampleFs "/srv/root/a.txt".toList = .content "A".toList := by decide

end Vinegar.C04
