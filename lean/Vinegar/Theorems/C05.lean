import Vinegar.Lemmas.Cidr
/-
C05 — client-address restrictions fail closed, leak nothing, deny before any change.

Everything is about the model in `Vinegar.Model.Cidr` (tied to the code by the translator literals
pinned in `Vinegar.Lemmas.Cidr` and by the correspondence check); `inet_pton` is abstract (`PtonLaw`).
-/
namespace Vinegar.C05
open Vinegar Vinegar.Cidr Vinegar.Generated

/-! ## membership in one network -/

/-- The mask of the partial byte, `256 - (1 <<< (8 - r))`, keeps exactly the top `r` bits of a byte
and clears the other `8 - r` — for every byte and every `r < 8`. -/
theorem byteMask_keeps_top_bits (x : UInt8) (r : Nat) (hr : r < 8) :
    x.toNat &&& byteMask r = ofBits ((byteBits x).take r ++ List.replicate (8 - r) false) ∧
    (bitsOfNat (x.toNat &&& byteMask r)).take r = (byteBits x).take r := by
  rw [byteMask_eq, byteBits_eq]
  exact mask_facts r hr x.toNat x.toNat_lt

/-- **Bit-level meaning of `_ip_address_in_subnet`.** For every address length `n`, every two addresses
of `n` bytes and every prefix length `0 ≤ bits ≤ 8·n`: the byte loop (whole bytes, then the masked
partial byte) answers exactly "the top `bits` bits of the two addresses are equal". -/
theorem inSubnet_bits (ip net : Bytes) (bits : Nat) (hlen : ip.length = net.length)
    (hb : bits ≤ 8 * ip.length) : inSubnet ip net bits = topBitsEq ip net bits := by
  have hbits : bits = 8 * (bits / 8) + bits % 8 := by omega
  have hr : bits % 8 < 8 := by omega
  have hwl : bits / 8 ≤ ip.length := by omega
  have hwl' : bits / 8 ≤ net.length := by omega
  unfold inSubnet topBitsEq
  simp only [show CIDR_SUBNET_BYTE_BITS = 8 from rfl]
  generalize bits / 8 = w at *
  generalize bits % 8 = r at *
  subst hbits
  rw [take_bitsOf ip w r hwl, take_bitsOf net w r hwl']
  have hA : (bitsOf (ip.take w)).length = (bitsOf (net.take w)).length := by
    rw [bitsOf_length, bitsOf_length, List.length_take, List.length_take]; omega
  by_cases heq : ip.take w = net.take w
  · rw [if_pos heq, heq]
    by_cases hr0 : r = 0
    · subst hr0; simp
    · rw [if_neg hr0]
      have hw1 : w < ip.length := by omega
      have hw2 : w < net.length := by omega
      rw [List.getElem?_eq_getElem hw1, List.getElem?_eq_getElem hw2]
      rw [List.drop_eq_getElem_cons hw1, List.drop_eq_getElem_cons hw2, bitsOf_cons, bitsOf_cons]
      rw [List.take_append_of_le_length (by rw [byteBits_length]; omega),
        List.take_append_of_le_length (by rw [byteBits_length]; omega)]
      simp only [List.append_cancel_left_eq, Bool.beq_eq_decide_eq]
      have := partial_byte ip[w] net[w] r hr
      simp [this]
  · rw [if_neg heq]
    symm
    rw [beq_eq_false_iff_ne]
    intro h
    have := List.append_inj h hA
    exact heq (bitsOf_inj _ _ (by rw [List.length_take, List.length_take]; omega) this.1)

/-! ## which entries are well formed -/

/-- **What a successfully parsed text is.** `parseAddr` succeeds with family/bytes/prefix `p` iff, for
the address text `t` and optional decimal netmask `m` that `splitMask` separates (the text after the
last `/` when it is `[0-9]+`; otherwise no netmask and the whole text, slash included, is the address),
`inet_pton` of the first family that accepts `t` gives `p.bytes`, and the prefix is the family's full
length when there is no netmask and `m` itself when `m` does not exceed the family's bound. Everything
else — unparsable address, non-decimal or over-long netmask — is rejected (`none`). -/
theorem parse_wellformed (P : Pton) (allowMask : Bool) (s : String) (p : Parsed) :
    parseAddr P allowMask s = some p ↔
      ((p.fam = .v4 ∧ P.p4 (splitMask allowMask s).1 = some p.bytes ∧
          (((splitMask allowMask s).2 = none ∧ p.mask = 32) ∨
           ((splitMask allowMask s).2 = some p.mask ∧ p.mask ≤ 32))) ∨
       (p.fam = .v6 ∧ P.p4 (splitMask allowMask s).1 = none ∧ P.p6 (splitMask allowMask s).1 = some p.bytes ∧
          (((splitMask allowMask s).2 = none ∧ p.mask = 128) ∨
           ((splitMask allowMask s).2 = some p.mask ∧ p.mask ≤ 128)))) := by
  obtain ⟨fam, bytes, mask⟩ := p
  unfold parseAddr
  simp only [show CIDR_NETMASK_DEFAULT_V4 = 32 from rfl, show CIDR_NETMASK_DEFAULT_V6 = 128 from rfl,
    show CIDR_NETMASK_MAX_V4 = 32 from rfl, show CIDR_NETMASK_MAX_V6 = 128 from rfl]
  generalize (splitMask allowMask s).1 = t
  generalize (splitMask allowMask s).2 = m
  cases h4 : P.p4 t with
  | some b =>
    cases m with
    | none =>
      simp only [Option.some.injEq, Parsed.mk.injEq]
      constructor
      · rintro ⟨rfl, rfl, rfl⟩; simp
      · rintro (⟨rfl, h, h'⟩ | ⟨_, h, _⟩)
        · simp at h h'; simp [h, h']
        · simp at h
    | some m =>
      by_cases hm : m > 32
      · simp only [if_pos hm]
        constructor
        · intro h; simp at h
        · rintro (⟨_, _, h'⟩ | ⟨_, h, _⟩)
          · simp at h'; omega
          · simp at h
      · simp only [if_neg hm, Option.some.injEq, Parsed.mk.injEq]
        constructor
        · rintro ⟨rfl, rfl, rfl⟩; simp; omega
        · rintro (⟨rfl, h, h'⟩ | ⟨_, h, _⟩)
          · simp at h h'; simp [h, h'.1]
          · simp at h
  | none =>
    cases h6 : P.p6 t with
    | some b =>
      cases m with
      | none =>
        simp only [Option.some.injEq, Parsed.mk.injEq]
        constructor
        · rintro ⟨rfl, rfl, rfl⟩; simp
        · rintro (⟨_, h, _⟩ | ⟨rfl, _, h, h'⟩)
          · simp at h
          · simp at h h'; simp [h, h']
      | some m =>
        by_cases hm : m > 128
        · simp only [if_pos hm]
          constructor
          · intro h; simp at h
          · rintro (⟨_, h, _⟩ | ⟨_, _, _, h'⟩)
            · simp at h
            · simp at h'; omega
        · simp only [if_neg hm, Option.some.injEq, Parsed.mk.injEq]
          constructor
          · rintro ⟨rfl, rfl, rfl⟩; simp; omega
          · rintro (⟨_, h, _⟩ | ⟨rfl, _, h, h'⟩)
            · simp at h
            · simp at h h'; simp [h, h'.1]
    | none =>
      constructor
      · intro h; simp at h
      · rintro (⟨_, h, _⟩ | ⟨_, _, h, _⟩) <;> simp at h

/-- under the length law of `inet_pton` a parsed entry satisfies the two `assert`s of
`_ip_address_in_subnet`: 4 bytes and a prefix ≤ 32, or 16 bytes and a prefix ≤ 128 -/
theorem parse_mask_le {P : Pton} (law : PtonLaw P) {allowMask : Bool} {s : String} {p : Parsed}
    (h : parseAddr P allowMask s = some p) :
    (p.fam = .v4 → p.bytes.length = 4 ∧ p.mask ≤ 32) ∧ (p.fam = .v6 → p.bytes.length = 16 ∧ p.mask ≤ 128) := by
  rcases (parse_wellformed P allowMask s p).mp h with ⟨hf, hb, hm⟩ | ⟨hf, _, hb, hm⟩
  · refine ⟨fun _ => ⟨law.len4 _ _ hb, ?_⟩, fun h6 => ?_⟩
    · rcases hm with ⟨_, hm⟩ | ⟨_, hm⟩ <;> omega
    · rw [hf] at h6; cases h6
  · refine ⟨fun h4 => ?_, fun _ => ⟨law.len6 _ _ hb, ?_⟩⟩
    · rw [hf] at h4; cases h4
    · rcases hm with ⟨_, hm⟩ | ⟨_, hm⟩ <;> omega

/-! ## membership in a collection -/

theorem mappedPrefix_length : mappedPrefix.length = 12 := by decide

/-- one loop iteration of `contains_ip_address` decides exactly the bit-level reference -/
theorem candStep_eq_ref {P : Pton} (law : PtonLaw P) (allowMask : Bool) (client c : String)
    {ip4 : Option Bytes} {ip6 : Bytes} (hs : splitClient P client = some (ip4, ip6)) :
    candStep P allowMask ip4 ip6 c = refMatch P allowMask client c := by
  unfold splitClient at hs
  unfold candStep refMatch
  cases ha : parseAddr P false client with
  | none => rw [ha] at hs; cases hs
  | some a =>
    rw [ha] at hs
    have la := parse_mask_le law ha
    cases hn : parseAddr P allowMask c with
    | none => rfl
    | some n =>
      have ln := parse_mask_le law hn
      simp only
      unfold refAdmits
      cases hfa : a.fam with
      | v4 =>
        simp only [hfa] at hs
        injection hs with hs; injection hs with h4 h6
        subst h4; subst h6
        have la4 := la.1 hfa
        cases hfn : n.fam with
        | v4 =>
          have ln4 := ln.1 hfn
          simp only
          rw [inSubnet_bits _ _ _ (by omega) (by omega)]
          have : a.bytes.isEmpty = false := by
            cases hb : a.bytes with
            | nil => rw [hb] at la4; simp at la4
            | cons _ _ => rfl
          simp [this]
        | v6 =>
          have ln6 := ln.2 hfn
          simp only
          rw [inSubnet_bits _ _ _ (by rw [List.length_append, mappedPrefix_length]; omega)
            (by rw [List.length_append, mappedPrefix_length]; omega)]
      | v6 =>
        simp only [hfa] at hs
        have la6 := la.2 hfa
        by_cases hp : mappedPrefix.isPrefixOf a.bytes = true
        · rw [if_pos hp] at hs
          injection hs with hs; injection hs with h4 h6
          subst h4; subst h6
          have hd : (a.bytes.drop (a.bytes.length - CIDR_MAPPED_V4_TAIL)).length = 4 := by
            rw [List.length_drop, show CIDR_MAPPED_V4_TAIL = 4 from rfl]; omega
          cases hfn : n.fam with
          | v4 =>
            have ln4 := ln.1 hfn
            simp only
            rw [inSubnet_bits _ _ _ (by omega) (by omega)]
            have : (a.bytes.drop (a.bytes.length - CIDR_MAPPED_V4_TAIL)).isEmpty = false := by
              cases hb : a.bytes.drop (a.bytes.length - CIDR_MAPPED_V4_TAIL) with
              | nil => rw [hb] at hd; simp at hd
              | cons _ _ => rfl
            simp [this, hp]
          | v6 =>
            have ln6 := ln.2 hfn
            simp only
            rw [inSubnet_bits _ _ _ (by omega) (by omega)]
        · rw [if_neg hp] at hs
          injection hs with hs; injection hs with h4 h6
          subst h4; subst h6
          cases hfn : n.fam with
          | v4 => simp only; simp [hp]
          | v6 =>
            have ln6 := ln.2 hfn
            simp only
            rw [inSubnet_bits _ _ _ (by omega) (by omega)]

/-- `contains_ip_address` equals the bit-level reference over the well-formed entries -/
theorem contains_eq_ref {P : Pton} (law : PtonLaw P) (allowMask : Bool) (cands : List String) (client : String) :
    containsIp P allowMask cands client = refContains P allowMask cands client := by
  unfold containsIp refContains
  cases hs : splitClient P client with
  | none =>
    have hc : parseAddr P false client = none := by
      unfold splitClient at hs
      cases ha : parseAddr P false client with
      | none => rfl
      | some a =>
        rw [ha] at hs
        cases hf : a.fam <;> simp only [hf] at hs
        · cases hs
        · split at hs <;> cases hs
    symm
    rw [List.any_eq_false]
    intro c _
    unfold refMatch
    rw [hc]
    cases parseAddr P allowMask c <;> simp
  | some pr =>
    obtain ⟨ip4, ip6⟩ := pr
    simp only
    congr 1
    funext c
    exact candStep_eq_ref law allowMask client c hs

/-- **Allowed ⇔ some well-formed entry's network contains the client.** The client must itself be a
well-formed address (no netmask, no scope id). An IPv4 client is matched against IPv4 networks and —
as its IPv4-mapped address — against IPv6 networks; an IPv4-mapped IPv6 client against IPv6 networks
and — as the embedded IPv4 address — against IPv4 networks (`refAdmits`); membership is equality of the
top `mask` bits. -/
theorem contains_iff {P : Pton} (law : PtonLaw P) (allowMask : Bool) (cands : List String) (client : String) :
    containsIp P allowMask cands client = true ↔
      ∃ c ∈ cands, ∃ n a, parseAddr P allowMask c = some n ∧ parseAddr P false client = some a ∧
        refAdmits n a = true := by
  rw [contains_eq_ref law]
  unfold refContains
  rw [List.any_eq_true]
  constructor
  · rintro ⟨c, hc, hm⟩
    refine ⟨c, hc, ?_⟩
    unfold refMatch at hm
    cases hn : parseAddr P allowMask c with
    | none => rw [hn] at hm; simp at hm
    | some n =>
      cases ha : parseAddr P false client with
      | none => rw [hn, ha] at hm; simp at hm
      | some a => rw [hn, ha] at hm; exact ⟨n, a, rfl, rfl, hm⟩
  · rintro ⟨c, hc, n, a, hn, ha, hm⟩
    refine ⟨c, hc, ?_⟩
    unfold refMatch
    rw [hn, ha]; exact hm

/-- an entry that does not parse never makes the loop answer `True` -/
theorem candStep_true_parses {P : Pton} {allowMask : Bool} {ip4 : Option Bytes} {ip6 : Bytes} {c : String}
    (h : candStep P allowMask ip4 ip6 c = true) : (parseAddr P allowMask c).isSome = true := by
  unfold candStep at h
  cases hn : parseAddr P allowMask c with
  | none => rw [hn] at h; cases h
  | some n => rfl

/-- **Malformed entries never widen (or narrow) access.** The decision depends only on the sub-list of
well-formed entries: two collections with the same well-formed entries in the same order decide alike,
whatever malformed / unparsable texts are added, removed or moved. (No `PtonLaw` needed.) -/
theorem malformed_never_widens (P : Pton) (allowMask : Bool) (c₁ c₂ : List String) (client : String)
    (h : c₁.filter (fun c => (parseAddr P allowMask c).isSome) = c₂.filter (fun c => (parseAddr P allowMask c).isSome)) :
    containsIp P allowMask c₁ client = containsIp P allowMask c₂ client := by
  have key : ∀ (l : List String) (ip4 : Option Bytes) (ip6 : Bytes),
      l.any (candStep P allowMask ip4 ip6) =
        (l.filter (fun c => (parseAddr P allowMask c).isSome)).any (candStep P allowMask ip4 ip6) := by
    intro l ip4 ip6
    rw [List.any_filter]
    congr 1
    funext c
    cases hc : candStep P allowMask ip4 ip6 c with
    | false => simp
    | true => simp [candStep_true_parses hc]
  unfold containsIp
  cases splitClient P client with
  | none => rfl
  | some pr => simp only; rw [key c₁, key c₂, h]

/-- corollary: unparsable texts inserted anywhere change nothing -/
theorem malformed_append (P : Pton) (allowMask : Bool) (l₁ junk l₂ : List String) (client : String)
    (hj : ∀ c ∈ junk, parseAddr P allowMask c = none) :
    containsIp P allowMask (l₁ ++ junk ++ l₂) client = containsIp P allowMask (l₁ ++ l₂) client := by
  apply malformed_never_widens
  have : junk.filter (fun c => (parseAddr P allowMask c).isSome) = [] := by
    rw [List.filter_eq_nil_iff]
    intro c hc
    rw [hj c hc]; simp
  simp [List.filter_append, this]

/-- the typed loop: `allowed` only through a string entry that the reference admits; `denied` only
when no entry is wrongly typed and the reference admits nobody; `raised` only with a wrongly typed entry -/
theorem containsLoop_spec {P : Pton} (law : PtonLaw P) (client : String) {ip4 : Option Bytes} {ip6 : Bytes}
    (hs : splitClient P client = some (ip4, ip6)) (l : List Cand) :
    match containsLoop P true ip4 ip6 l with
    | .allowed => refContains P true (strsOf l) client = true
    | .denied => refContains P true (strsOf l) client = false ∧ l.any Cand.isBad = false
    | .raised => l.any Cand.isBad = true := by
  induction l with
  | nil => simp [containsLoop, strsOf, refContains]
  | cons c t ih =>
    cases c with
    | bad h r => simp [containsLoop, Cand.isBad]
    | str s =>
      unfold containsLoop
      have hstep := candStep_eq_ref law true client s hs
      by_cases hc : candStep P true ip4 ip6 s = true
      · rw [if_pos hc]
        simp only [strsOf, refContains, List.any_cons]
        rw [← hstep, hc]; rfl
      · rw [if_neg hc]
        have hc' : refMatch P true client s = false := by rw [← hstep]; simpa using hc
        revert ih
        cases containsLoop P true ip4 ip6 t with
        | allowed =>
          intro ih; simp only [strsOf, refContains, List.any_cons] at ih ⊢
          rw [hc']; simpa [refContains] using ih
        | denied =>
          intro ih; simp only [strsOf, refContains, List.any_cons, Cand.isBad] at ih ⊢
          rw [hc']; simpa [refContains] using ih
        | raised =>
          intro ih; simp only [List.any_cons, Cand.isBad] at ih ⊢
          simpa using ih

/-- **Wrongly typed entries never widen access.** Whatever non-string values sit in the collection,
`allowed` is answered only if a *string* entry admits the client by the bit-level reference. -/
theorem wrong_type_never_widens {P : Pton} (law : PtonLaw P) (l : List Cand) (client : String)
    (h : containsC P l client = .allowed) : refContains P true (strsOf l) client = true := by
  unfold containsC at h
  cases hs : splitClient P client with
  | none => rw [hs] at h; cases h
  | some pr =>
    obtain ⟨ip4, ip6⟩ := pr
    rw [hs] at h
    have := containsLoop_spec law client hs l
    simp only at h
    rw [h] at this
    exact this

/-! ## decision order of the handlers -/

/-- **The checked collection is the union.** When both `client_address_list` and the key's value are
present the handler checks exactly the listed entries together with the stored ones (no entry is lost
or invented by the `set.union`); with only one of them, exactly that one. -/
theorem combine_entries (listCfg : List Cand) (fromKey : Expected) (r : List Cand)
    (h : combine listCfg fromKey = .cands r) (c : Cand) :
    c ∈ r ↔ (c ∈ listCfg ∨ ∃ l, fromKey = .cands l ∧ c ∈ l) := by
  unfold combine at h
  by_cases he : listCfg.isEmpty = true
  · rw [if_pos he] at h
    have : listCfg = [] := by simpa using he
    subst this
    subst h
    simp
  · rw [if_neg he] at h
    cases fromKey with
    | unrestricted =>
      simp only at h
      injection h with h; subst h
      simp [mem_dedup]
    | cands l =>
      simp only at h
      by_cases ha : l.all Cand.hashable = true
      · rw [if_pos ha] at h
        injection h with h; subst h
        simp [mem_dedup]
      · rw [if_neg ha] at h; cases h
    | nonIter => simp only at h; cases h
    | raises => simp only at h; cases h

/-- **The permission check.** It lets a request pass only if the client is authorised by the bit-level
reference over the string entries; it answers `forbidden` only to clients that are not authorised;
`internalError` only when a wrongly typed value is involved; it never produces another outcome. -/
theorem permission_none_iff {P : Pton} (law : PtonLaw P) (ex : Expected) (client : String) :
    match permission P ex client with
    | none => authorisedBy P ex client = true
    | some .forbidden => authorisedBy P ex client = false
    | some .internalError => ex.hasBad = true
    | some _ => False := by
  unfold permission
  cases ex with
  | unrestricted => simp [authorisedBy]
  | raises => simp [Expected.hasBad]
  | nonIter =>
    simp only
    cases splitClient P client <;> simp [authorisedBy, Expected.hasBad]
  | cands l =>
    simp only
    unfold containsC
    cases hs : splitClient P client with
    | none =>
      simp only [authorisedBy]
      have hc : parseAddr P false client = none := by
        unfold splitClient at hs
        cases ha : parseAddr P false client with
        | none => rfl
        | some a =>
          rw [ha] at hs
          cases hf : a.fam <;> simp only [hf] at hs
          · cases hs
          · split at hs <;> cases hs
      unfold refContains
      rw [List.any_eq_false]
      intro c _
      unfold refMatch
      rw [hc]
      cases parseAddr P true c <;> simp
    | some pr =>
      obtain ⟨ip4, ip6⟩ := pr
      have := containsLoop_spec law client hs l
      simp only
      revert this
      cases containsLoop P true ip4 ip6 l with
      | allowed => intro h; simpa [authorisedBy] using h
      | denied => intro h; simpa [authorisedBy] using h.1
      | raised => intro h; simpa [Expected.hasBad] using h

/-- **Deny before any effect — file handlers (HTTP and TFTP).** For every configuration, world and
client: unless the client is authorised (bit-level, over listed ∪ stored string entries), the outcome
is `forbidden` — or a data-source error if the data source really failed, or an internal error if a
wrongly typed value is involved — and no file was opened, nothing rendered, no store touched. -/
theorem deny_before_effects {P : Pton} (law : PtonLaw P) (cfg : FileCfg) (w : World) (client : String) :
    effectsOK (authorisedBy P (worldExpected cfg w) client) (dsFails cfg w) (worldExpected cfg w).hasBad
      (decideFile P cfg w client).1 (decideFile P cfg w client).2 = true := by
  unfold decideFile
  simp only
  by_cases h1 : (cfg.lookup = .find && w.find = .raises && cfg.dsAction = .error) = true
  · rw [if_pos h1]
    have : dsFails cfg w = true := by
      unfold dsFails; simp only [Bool.and_eq_true, decide_eq_true_eq] at h1; simp [h1.1.1, h1.1.2]
    simp [effectsOK, this]
  · rw [if_neg h1]
    by_cases h2 : (getDataCalledOf cfg w && w.data.isNone && cfg.dsAction = .error) = true
    · rw [if_pos h2]
      have : dsFails cfg w = true := by
        unfold dsFails; simp only [Bool.and_eq_true] at h2; simp [h2.1.1, h2.1.2]
      simp [effectsOK, this]
    · rw [if_neg h2]
      have hp := permission_none_iff law (worldExpected cfg w) client
      revert hp
      cases permission P (worldExpected cfg w) client with
      | none => intro hp; simp only at hp; simp [effectsOK, hp]
      | some o =>
        cases o with
        | forbidden => intro _; simp [effectsOK]
        | internalError => intro hp; simp only at hp; simp [effectsOK, hp]
        | served => intro hp; exact absurd hp (by simp)
        | notFound => intro hp; exact absurd hp (by simp)
        | dsError => intro hp; exact absurd hp (by simp)
        | badRequest => intro hp; exact absurd hp (by simp)

/-- the data-source failure of the update handler: `get_data` is needed and raises -/
def sqliteDsFails (cfg : SqliteCfg) (data : Option Val) : Bool := cfg.keyPath.isSome && data.isNone

/-- **Deny before any change — SQLite update handler.** Unless the client is authorised the outcome is
forbidden / data-source error / (wrong type) internal error and no store operation happened. -/
theorem deny_before_effects_sqlite {P : Pton} (law : PtonLaw P) (cfg : SqliteCfg) (data : Option Val)
    (client : String) (bodyOk : Bool) :
    effectsOK (authorisedBy P (expectedSqlite cfg data) client) (sqliteDsFails cfg data)
      (expectedSqlite cfg data).hasBad (decideSqlite P cfg data client bodyOk).1
      (decideSqlite P cfg data client bodyOk).2 = true := by
  unfold decideSqlite sqliteDsFails
  simp only
  by_cases h1 : (cfg.keyPath.isSome && data.isNone) = true
  · rw [if_pos h1]; simp [effectsOK, h1]
  · rw [if_neg h1]
    have hp := permission_none_iff law (expectedSqlite cfg data) client
    revert hp
    cases permission P (expectedSqlite cfg data) client with
    | none => intro hp; simp only at hp; cases bodyOk <;> simp [effectsOK, hp]
    | some o =>
      cases o with
      | forbidden => intro _; simp [effectsOK]
      | internalError => intro hp; simp only at hp; simp [effectsOK, hp]
      | served => intro hp; exact absurd hp (by simp)
      | notFound => intro hp; exact absurd hp (by simp)
      | dsError => intro hp; exact absurd hp (by simp)
      | badRequest => intro hp; exact absurd hp (by simp)

/-- one world: a client that is not authorised, with no wrongly typed value involved and no re-raised
data-source failure, is answered `forbidden` and nothing was touched -/
theorem unauthorised_forbidden {P : Pton} (law : PtonLaw P) (cfg : FileCfg) (w : World) (client : String)
    (hu : authorisedBy P (worldExpected cfg w) client = false)
    (hb : (worldExpected cfg w).hasBad = false) (hd : dsErrorExit cfg w = false) :
    (decideFile P cfg w client).1 = .forbidden ∧ (decideFile P cfg w client).2.fileTouched = false ∧
      (decideFile P cfg w client).2.rendered = false ∧ (decideFile P cfg w client).2.storeOps = 0 := by
  unfold decideFile
  simp only
  have h1 : ¬ ((cfg.lookup = .find && w.find = .raises && cfg.dsAction = .error) = true) := by
    intro h
    simp only [Bool.and_eq_true, decide_eq_true_eq] at h
    unfold dsErrorExit dsFails at hd
    simp [h.1.1, h.1.2, h.2] at hd
  have h2 : ¬ ((getDataCalledOf cfg w && w.data.isNone && cfg.dsAction = .error) = true) := by
    intro h
    simp only [Bool.and_eq_true, decide_eq_true_eq] at h
    unfold dsErrorExit dsFails at hd
    simp [h.1.1, h.1.2, h.2] at hd
  rw [if_neg h1, if_neg h2]
  have hp := permission_none_iff law (worldExpected cfg w) client
  revert hp
  cases permission P (worldExpected cfg w) client with
  | none => intro hp; simp only at hp; rw [hu] at hp; cases hp
  | some o =>
    cases o with
    | forbidden => intro _; simp
    | internalError => intro hp; simp only at hp; rw [hb] at hp; cases hp
    | served => intro hp; exact absurd hp (by simp)
    | notFound => intro hp; exact absurd hp (by simp)
    | dsError => intro hp; exact absurd hp (by simp)
    | badRequest => intro hp; exact absurd hp (by simp)

/-- **What an unauthorised client sees does not depend on the world.** Take any two worlds — they may
differ in whether the system exists (`find`), in all of its data, and in whether the file exists, is a
directory or cannot be translated. If the client is authorised in neither, no wrongly typed value is
involved and the data source's failure (if any) is not re-raised, both worlds answer `forbidden` — the
same outcome — and in neither was a file touched or a template rendered. -/
theorem unauthorised_independent_of_world {P : Pton} (law : PtonLaw P) (cfg : FileCfg) (w₁ w₂ : World)
    (client : String)
    (hu₁ : authorisedBy P (worldExpected cfg w₁) client = false)
    (hu₂ : authorisedBy P (worldExpected cfg w₂) client = false)
    (hb₁ : (worldExpected cfg w₁).hasBad = false) (hb₂ : (worldExpected cfg w₂).hasBad = false)
    (hd₁ : dsErrorExit cfg w₁ = false) (hd₂ : dsErrorExit cfg w₂ = false) :
    (decideFile P cfg w₁ client).1 = (decideFile P cfg w₂ client).1 ∧
    (decideFile P cfg w₁ client).1 = .forbidden ∧
    (decideFile P cfg w₁ client).2.fileTouched = false ∧ (decideFile P cfg w₂ client).2.fileTouched = false ∧
    (decideFile P cfg w₁ client).2.rendered = false ∧ (decideFile P cfg w₂ client).2.rendered = false := by
  have a := unauthorised_forbidden law cfg w₁ client hu₁ hb₁ hd₁
  have b := unauthorised_forbidden law cfg w₂ client hu₂ hb₂ hd₂
  exact ⟨by rw [a.1, b.1], a.1, a.2.1, b.2.1, a.2.2.1, b.2.2.1⟩

/-- **The store is untouched for an unauthorised client**, whatever the stored data looks like (wrong
types and data-source failures included) and whatever the request body is: no store operation, the
update is not applied, and the answer does not depend on the body (`bodyOk`) — in particular it is never
"bad request": the body is not looked at before the access decision. -/
theorem unauthorised_sqlite_store_untouched {P : Pton} (law : PtonLaw P) (cfg : SqliteCfg) (data : Option Val)
    (client : String) (bodyOk : Bool) (hu : authorisedBy P (expectedSqlite cfg data) client = false) :
    (decideSqlite P cfg data client bodyOk).2.storeOps = 0 ∧ (decideSqlite P cfg data client bodyOk).1 ≠ .served ∧
    (decideSqlite P cfg data client bodyOk).1 ≠ .badRequest := by
  have h := deny_before_effects_sqlite law cfg data client bodyOk
  rw [hu] at h
  simp only [effectsOK, Bool.false_or, Bool.and_eq_true, Bool.or_eq_true, beq_iff_eq] at h
  refine ⟨h.2, ?_⟩
  rcases h.1.1.1 with (h' | h') | h'
  · rw [h']; simp
  · rw [h'.1]; simp
  · rw [h'.1]; simp

/-- **The body cannot influence what an unauthorised client gets** (update handler): the decision and
the effects are the same for a decodable and an undecodable body. -/
theorem unauthorised_sqlite_body_irrelevant {P : Pton} (law : PtonLaw P) (cfg : SqliteCfg) (data : Option Val)
    (client : String) (hu : authorisedBy P (expectedSqlite cfg data) client = false) :
    decideSqlite P cfg data client true = decideSqlite P cfg data client false := by
  have hp := permission_none_iff law (expectedSqlite cfg data) client
  unfold decideSqlite
  by_cases h1 : (cfg.keyPath.isSome && data.isNone) = true
  · simp [h1]
  · simp only [h1, Bool.false_eq_true, if_false]
    revert hp
    cases hperm : permission P (expectedSqlite cfg data) client with
    | none => intro hp; simp only at hp; rw [hu] at hp; simp at hp
    | some o => intro _; rfl

/-! ## the hypotheses are satisfiable, the known-bad behaviours are rejected -/

/-- a tiny `inet_pton`: knows two texts -/
def demoPton : Pton where
  p4 := fun s => if s = "10.0.0.0" then some [10, 0, 0, 0] else if s = "10.0.0.7" then some [10, 0, 0, 7] else none
  p6 := fun _ => none

theorem demoPton_law : PtonLaw demoPton where
  len4 := by
    intro s b h
    unfold demoPton at h
    simp only at h
    split at h
    · cases h; rfl
    · split at h
      · cases h; rfl
      · cases h
  len6 := by intro s b h; cases h

example : containsIp demoPton true ["10.0.0.0/29"] "10.0.0.7" = true := by decide
example : containsIp demoPton true ["10.0.0.0/30"] "10.0.0.7" = false := by decide
-- a malformed netmask is not read as /0, an over-long one is rejected
example : containsIp demoPton true ["10.0.0.0/", "10.0.0.0/x", "10.0.0.0/33"] "10.0.0.7" = false := by decide
-- a checker that sees a served file for an unauthorised client rejects it
example : effectsOK false false false .served { fileTouched := true } = false := by decide
-- … also "not found" (it would reveal that the permission check came second)
example : effectsOK false false false .notFound {} = false := by decide
-- … also a store operation behind a 403
example : effectsOK false false false .forbidden { storeOps := 1 } = false := by decide
-- an internal error is tolerated only when a wrongly typed value is involved
example : effectsOK false false false .internalError {} = false := by decide
example : effectsOK false false true .internalError {} = true := by decide
-- a widening answer of contains_ip_address is rejected by the soundness checker
example : containsSound demoPton true ["10.0.0.0/30"] "10.0.0.7" true = false := by decide

end Vinegar.C05
