import Vinegar.Lemmas.TftpFlow
/-
C02 — TFTP transfers are lock-step, retransmit boundedly on timeout only, always end.

`c02Check T R` is the automaton of `Spec/Tftp.lean` (evaluated by the driver on the
implementation's traces as well). It accepts a trace iff
* the first transmission of a packet other than the first one follows the receipt, from the
  requesting client, of the acknowledgement of the previous packet (lock-step; block 1 after an
  OACK only after ACK 0),
* every retransmission directly follows a `timeout` event, and that timeout fired exactly at the
  deadline set when the try started — duplicates, stale/future ACKs and foreign packets neither
  trigger a resend nor move the deadline (one tick later than the server's clock if handling a
  stray kept it busy past the deadline: the 1 ms floor of `_set_socket_timeout`),
* a packet is transmitted at most `1 + R` times,
* after the last timeout of a packet, after an ERROR from the client and after an invalid packet
  no DATA/OACK is sent.
The theorems hold for EVERY event script, content, option set and configuration.
-/
namespace Vinegar.C02
open Vinegar Vinegar.Tftp

/-- every trace of the OACK + data phases is accepted by the C02 automaton; it ends in `ended` when
the phases were aborted and in a quiet state (nothing outstanding) otherwise -/
theorem c02Check_processRequest (env : Env) (hw : WrapOK env.wrap) (oack : Opts)
    (blocks : List (Option Bytes)) (script : List Ev) :
    ∃ P', runSteps (c02Step env.timeout env.maxRetries) .idle (processRequest env oack blocks 0 script).obs = some P' ∧
      (((processRequest env oack blocks 0 script).out = .gaveUp ∨
        (processRequest env oack blocks 0 script).out = .invalid ∨
        (processRequest env oack blocks 0 script).out = .peerError) → P' = .ended) ∧
      (((processRequest env oack blocks 0 script).out = .completed ∨
        (processRequest env oack blocks 0 script).out = .overflow ∨
        (processRequest env oack blocks 0 script).out = .readFault) → Quiet P') := by
  unfold processRequest
  split
  · exact sendData_run env.timeout env.maxRetries env rfl rfl hw blocks 0 0 script .idle (by decide) (Or.inl rfl)
  · have hS := sendWithRetry_run env.timeout env.maxRetries env rfl (oackPacket oack) 0
      (isFlow_oackPacket oack) (expectOf_oackPacket oack) (env.maxRetries + 1) 0 0 script .idle (by omega)
      (by omega) (fun _ => by simp [c02Step, isFlow_oackPacket, expectOf_oackPacket, sent])
    generalize sendWithRetry env (oackPacket oack) 0 (env.maxRetries + 1) 0 script = r at hS
    cases hout : r.out with
    | acked =>
      simp only [hout]
      obtain ⟨c', hrun, hack, hpk⟩ := hS.1 hout
      have hr' : Ready env.wrap 0 (.flow c') := by
        refine Or.inr ⟨c', rfl, hack, ?_⟩
        intro m b' _
        rw [hpk]
        exact (dataPacket_ne_oackPacket m b' oack).symm
      obtain ⟨P', h1, h2, h3⟩ := sendData_run env.timeout env.maxRetries env rfl rfl hw blocks 0 r.now r.rest
        (.flow c') (by decide) hr'
      exact ⟨P', by simp only [Res.pre_obs, runSteps_append, hrun, Option.bind_some, h1], by simpa using h2,
        by simpa using h3⟩
    | gaveUp => simp only [hout]; exact ⟨.ended, hS.2 (by simp [hout]), fun _ => rfl, by simp⟩
    | invalid => simp only [hout]; exact ⟨.ended, hS.2 (by simp [hout]), fun _ => rfl, by simp⟩
    | peerError => simp only [hout]; exact ⟨.ended, hS.2 (by simp [hout]), fun _ => rfl, by simp⟩

theorem step_nonflow_send (T R : Nat) (P : Phase) (t : Nat) (p : Bytes) (h : isFlow p = false) :
    c02Step T R P (.send t 0 p) = some .ended := by
  simp [c02Step, h]

theorem runSteps_tail (T R : Nat) (P : Phase) (e : End) (now : Nat) :
    (runSteps (c02Step T R) P (finish e now ++ [Obs.closeFile, Obs.closeSocket])).isSome = true := by
  have herr : isFlow err0 = false := isFlow_errorPacket _ _
  cases e <;> simp [finish, runSteps, c02Step, herr]

/-- **C02** for whole transfers: for every configuration (with a wrap value of 0, 1 or none — any
value below 65535), request, handler result and event script, the trace of the model is accepted -/
theorem c02Check_runTransfer (cfg : Cfg) (hw : WrapOK cfg.wrap) (rrq : Rrq) (h : HandlerResult)
    (script : List Ev) :
    c02Check (negOf cfg rrq h).timeout cfg.maxRetries (runTransfer cfg rrq h script) = true := by
  unfold c02Check runTransfer
  cases h with
  | tftpError code =>
    simp [runSteps, c02Step, isFlow_errorPacket]
  | raised =>
    have herr : isFlow err0 = false := isFlow_errorPacket _ _
    simp [runSteps, c02Step, herr]
  | stream content caps sizeKnown faultAt =>
    simp only
    obtain ⟨P', h1, _, _⟩ := c02Check_processRequest (envOf cfg rrq (.stream content caps sizeKnown faultAt)) hw
      (negOf cfg rrq (.stream content caps sizeKnown faultAt)).oack
      (blockReads rrq.netascii (negOf cfg rrq (.stream content caps sizeKnown faultAt)).blockSize content caps faultAt) script
    have h1' : runSteps (c02Step (negOf cfg rrq (.stream content caps sizeKnown faultAt)).timeout cfg.maxRetries)
        .idle (processRequest (envOf cfg rrq (.stream content caps sizeKnown faultAt))
          (negOf cfg rrq (.stream content caps sizeKnown faultAt)).oack
          (blockReads rrq.netascii (negOf cfg rrq (.stream content caps sizeKnown faultAt)).blockSize content caps faultAt)
          0 script).obs = some P' := h1
    rw [List.append_assoc, runSteps_append, h1', Option.bind_some]
    exact runSteps_tail _ _ _ _ _

/-! ### bounded retransmission, stated directly -/

def isClientSend : Obs → Bool
  | .send _ 0 _ => true
  | _ => false

theorem awaitAck_no_client_send (expect limit : Nat) :
    ∀ (s : List Ev) (now : Nat), ∀ o ∈ (awaitAck expect limit now s).obs, isClientSend o = false := by
  intro s
  induction s with
  | nil => intro now o ho; simp [awaitAck] at ho; subst ho; rfl
  | cons ev s ih =>
    intro now o ho
    cases ev with
    | silence => simp [awaitAck] at ho; subst ho; rfl
    | pkt d cpu src data =>
      unfold awaitAck at ho
      split at ho
      · split at ho
        · split at ho
          · split at ho
            · simp at ho; subst ho; rfl
            · simp only [Res.pre_obs, List.cons_append, List.nil_append, List.mem_cons] at ho
              rcases ho with ho | ho
              · subst ho; rfl
              · exact ih _ o ho
          · simp at ho; subst ho; rfl
          · simp at ho; subst ho; rfl
        · rename_i hsrc
          simp only [Res.pre_obs, List.cons_append, List.nil_append, List.mem_cons] at ho
          rcases ho with ho | ho | ho
          · subst ho; rfl
          · subst ho
            cases src with
            | zero => exact absurd rfl hsrc
            | succ k => rfl
          · exact ih _ o ho
      · simp at ho; subst ho; rfl

/-- a packet is transmitted at most `tries` times (`tries = 1 + max_retries` in the callers) -/
theorem send_count_le (env : Env) (packet : Bytes) (expect : Nat) :
    ∀ (tries now : Nat) (s : List Ev),
      ((sendWithRetry env packet expect tries now s).obs.filter isClientSend).length ≤ tries := by
  intro tries
  induction tries with
  | zero => intro now s; simp [sendWithRetry]
  | succ k ih =>
    intro now s
    rw [sendWithRetry_succ]
    have hA := awaitAck_no_client_send expect (now + env.timeout) s now
    generalize awaitAck expect (now + env.timeout) now s = r at hA
    have hpre : r.obs.filter isClientSend = [] := by
      apply List.filter_eq_nil_iff.mpr; intro o ho; simp [hA o ho]
    cases hout : r.out <;>
      simp only [Res.pre_obs, List.filter_append, List.filter_cons, isClientSend, if_true, hpre,
        List.length_cons, List.length_nil, List.length_append, List.cons_append, List.nil_append]
    · omega
    · have := ih r.now r.rest; omega
    · omega
    · omega

/-! ### every transfer ends: duration bound -/

/-- the slack each received datagram may add: its handling time plus one tick -/
def scriptCost : List Ev → Nat
  | [] => 0
  | .silence :: s => scriptCost s
  | .pkt _ cpu _ _ :: s => cpu + 1 + scriptCost s

theorem awaitAck_time (expect limit : Nat) :
    ∀ (s : List Ev) (now K : Nat), now < limit + K →
      (awaitAck expect limit now s).now + scriptCost (awaitAck expect limit now s).rest ≤
        limit + K + scriptCost s := by
  intro s
  induction s with
  | nil =>
    intro now K h
    simp only [awaitAck, scriptCost, remaining]; split <;> omega
  | cons ev s ih =>
    intro now K h
    cases ev with
    | silence => simp only [awaitAck, scriptCost, remaining]; split <;> omega
    | pkt d cpu src data =>
      unfold awaitAck
      have hrem : d < remaining limit now → now + d + cpu < limit + (K + cpu + 1) := by
        unfold remaining; split <;> omega
      split
      · rename_i hd
        have h' := hrem hd
        split
        · split
          · split
            · simp only [scriptCost]; omega
            · have := ih (now + d + cpu) (K + cpu + 1) h'
              simp only [Res.pre_now, Res.pre_rest, scriptCost]; omega
          · simp only [scriptCost]; omega
          · simp only [scriptCost]; omega
        · have := ih (now + d + cpu) (K + cpu + 1) h'
          simp only [Res.pre_now, Res.pre_rest, scriptCost]; omega
      · simp only [scriptCost, remaining]; split <;> omega

theorem sendWithRetry_time (env : Env) (hT : 1 ≤ env.timeout) (packet : Bytes) (expect : Nat) :
    ∀ (tries now : Nat) (s : List Ev),
      (sendWithRetry env packet expect tries now s).now + scriptCost (sendWithRetry env packet expect tries now s).rest
        ≤ now + tries * env.timeout + scriptCost s := by
  intro tries
  induction tries with
  | zero => intro now s; simp [sendWithRetry]
  | succ k ih =>
    intro now s
    rw [sendWithRetry_succ]
    have hA := awaitAck_time expect (now + env.timeout) s now 0 (by omega)
    generalize awaitAck expect (now + env.timeout) now s = r at hA
    have hmul : (k + 1) * env.timeout = k * env.timeout + env.timeout := by
      rw [Nat.add_mul]; omega
    cases hout : r.out <;> simp only [Res.pre_now, Res.pre_rest]
    · omega
    · have := ih r.now r.rest; omega
    · omega
    · omega

theorem sendData_time (env : Env) (hT : 1 ≤ env.timeout) :
    ∀ (blocks : List (Option Bytes)) (prev now : Nat) (s : List Ev),
      (sendData env blocks prev now s).now + scriptCost (sendData env blocks prev now s).rest
        ≤ now + blocks.length * ((env.maxRetries + 1) * env.timeout) + scriptCost s := by
  intro blocks
  induction blocks with
  | nil => intro prev now s; simp [sendData]
  | cons blk blocks ih =>
    intro prev now s
    have hlen : (blk :: blocks).length * ((env.maxRetries + 1) * env.timeout) =
        blocks.length * ((env.maxRetries + 1) * env.timeout) + (env.maxRetries + 1) * env.timeout := by
      simp [Nat.add_mul]
    cases blk with
    | none => simp only [sendData]; omega
    | some b =>
      unfold sendData
      split
      · simp only; omega
      · rename_i n _
        simp only
        have hS := sendWithRetry_time env hT (dataPacket n b) n (env.maxRetries + 1) now s
        generalize sendWithRetry env (dataPacket n b) n (env.maxRetries + 1) now s = r at hS
        cases hout : r.out <;> simp only [Res.pre_now, Res.pre_rest]
        · have := ih n r.now r.rest; omega
        · omega
        · omega
        · omega

/-- **termination with a bound**: for every client behaviour the OACK and data phases are over
after at most `packets × (1 + max_retries) × timeout` ticks, plus, for every datagram the server
received, its handling time and one tick (the slack of the 1 ms floor). With no strays and no
handling delay this is the bound of the property statement. -/
theorem duration_bound (env : Env) (hT : 1 ≤ env.timeout) (oack : Opts) (blocks : List (Option Bytes))
    (script : List Ev) :
    (processRequest env oack blocks 0 script).now ≤
      (blocks.length + 1) * ((env.maxRetries + 1) * env.timeout) + scriptCost script := by
  have hmul : (blocks.length + 1) * ((env.maxRetries + 1) * env.timeout) =
      blocks.length * ((env.maxRetries + 1) * env.timeout) + (env.maxRetries + 1) * env.timeout := by
    rw [Nat.add_mul]; omega
  unfold processRequest
  split
  · have := sendData_time env hT blocks 0 0 script; omega
  · have hS := sendWithRetry_time env hT (oackPacket oack) 0 (env.maxRetries + 1) 0 script
    generalize sendWithRetry env (oackPacket oack) 0 (env.maxRetries + 1) 0 script = r at hS
    cases hout : r.out <;> simp only [hout, Res.pre_now]
    · have := sendData_time env hT blocks 0 r.now r.rest; omega
    · omega
    · omega
    · omega

/-- the negotiated interval is at least one second, so the bound applies to every transfer -/
theorem negotiated_timeout_pos (cfg : Cfg) (raw : Opts) (na : Bool) (size : Option Nat)
    (hd : 1 ≤ cfg.defaultTimeout) : 1 ≤ (negotiate cfg raw na size).timeout := by
  unfold negotiate
  simp only
  split
  · rename_i t ht
    unfold negTimeout at ht
    split at ht
    · split at ht
      · rename_i hc
        simp only [Option.some.injEq] at ht
        subst ht
        simp only [Bool.and_eq_true, decide_eq_true_eq] at hc
        have : 0 < Generated.MIN_TIMEOUT := by decide
        exact Nat.mul_pos (by omega) (by decide)
      · cases ht
    · cases ht
  · exact hd

/-! ### non-vacuity: concrete runs that meet the hypotheses and exercise retransmission -/

def demoEnv : Env := { timeout := 2048, maxRetries := 1, wrap := some 0 }

/-- one lost DATA (timeout → identical resend), one duplicate ACK that must not trigger a resend -/
example : c02Check 2048 1
    (processRequest demoEnv [] [some [1, 2, 3, 4, 5, 6, 7, 8], some [9]] 0
      [.silence, .pkt 5 0 0 (ackPacket 1), .pkt 1 0 0 (ackPacket 1), .pkt 2 0 0 (ackPacket 2)]).obs = true := by
  decide

/-- the pinned behaviour (sending the next block after the retries are exhausted) is rejected -/
example : c02Check 2048 1
    [.send 0 0 (dataPacket 1 [1, 2, 3, 4, 5, 6, 7, 8]), .timeout 2048,
     .send 2048 0 (dataPacket 1 [1, 2, 3, 4, 5, 6, 7, 8]), .timeout 4096,
     .send 4096 0 (dataPacket 2 [9])] = false := by
  decide

/-- a resend in response to a duplicate ACK is rejected -/
example : c02Check 2048 1
    [.send 0 0 (dataPacket 2 [1]), .recv 3 3 0 (ackPacket 1), .send 3 0 (dataPacket 2 [1])] = false := by
  decide

example : WrapOK (some 0) ∧ WrapOK (some 1) ∧ WrapOK none := by
  refine ⟨?_, ?_, ?_⟩ <;> intro w h <;> simp at h <;> subst h <;> decide

end Vinegar.C02
