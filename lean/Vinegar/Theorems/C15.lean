import Vinegar.Lemmas.Sqlite
import Vinegar.Lemmas.SqliteConsts
/-
C15 — SQLite state is one map; writes visible everywhere at once (and survive a kill).

What is PROVED here (for the model of `Model/Sqlite.lean`, for ALL histories, views, values):

* `ops_refine_map` — any sequence of operations through any number of `DataStore`s, sources and
  update handlers (each step names the configuration of the view it goes through; views have no
  state) behaves like the single abstract map `Key → Option Str`: every result is the one the
  abstract map prescribes (`ResOK`: reads return the last written text exactly; `get_data`,
  `find_systems`, `list_systems` return exactly the right rows in id/key order; a non-JSON-safe
  value is rejected) and the map evolves by plain function updates. Refinement by induction over
  the history.
* `checkTrace_run`, `effectOK_iff`, `resultOK_iff` — the Bool checker that the driver evaluates on
  the IMPLEMENTATION's observations accepts every model trace, and says exactly what the Prop
  specification says (it is not a comparison with the model).
* `find_spec`, `get_data_spec`, `list_spec`, `strict_rejects`, `strict_accepts_dumps`,
  `prefix_wrap_strip`, `strip_key_iff`, `update_action_spec`, `update_noop_cases`.

What is NOT provable here and rests on differential evidence only: that the real connections
see each other's committed writes at once, that a write is atomic and survives killing the
writer. In the model a view is stateless by construction; SQLite's autocommit/atomic-commit is
trusted and exercised by the histories over several connections/processes and by the SIGKILL test.
-/
namespace Vinegar.C15
open Vinegar Vinegar.Sqlite

/-- the primary-key order is an invariant of every history (all `ORDER BY` results rely on it) -/
theorem run_sorted (steps : List Step) : ∀ (db : Db), Sorted db →
    Sorted (run steps db).2 ∧ ∀ p ∈ (run steps db).1, Sorted p.2 := by
  induction steps with
  | nil => intro db hs; exact ⟨hs, by simp [run]⟩
  | cons s ss ih =>
    intro db hs
    have hs' : Sorted (applyIntent (intent s) db) := sorted_applyIntent _ hs
    obtain ⟨h1, h2⟩ := ih _ hs'
    simp only [run, step]
    refine ⟨h1, ?_⟩
    intro p hp
    rcases List.mem_cons.mp hp with hp | hp
    · subst hp; exact hs'
    · exact h2 p hp

/-- **C15, refinement.** Every history — any operations, through any number of views of any
configuration, with any values — run by the model from a map in primary-key order is a run of the
abstract map: each result is what the abstract map before the step prescribes, each write is a
function update, and the final content stands for the final abstract map. -/
theorem ops_refine_map (steps : List Step) : ∀ (db : Db), Sorted db →
    AbsRun (abs db) steps ((run steps db).1.map (·.1)) (abs (run steps db).2) := by
  induction steps with
  | nil => intro db _; simp [run, AbsRun]
  | cons s ss ih =>
    intro db hs
    have hs' : Sorted (applyIntent (intent s) db) := sorted_applyIntent _ hs
    simp only [run, step, List.map_cons, AbsRun]
    refine ⟨result_ok hs s, ?_⟩
    rw [← abs_applyIntent]
    exact ih _ hs'

/-- one write through one view is one function update of the abstract map, whatever the view -/
theorem step_effect (s : Step) (db : Db) : abs (step s db).2 = aApply (intent s) (abs db) :=
  abs_applyIntent _ _

set_option linter.unusedSimpArgs false in
/-- a view has no state: a read after a write through ANY other view returns exactly the text
that was written (`json.dumps` of the value) -/
theorem read_your_writes (strict strict' : Bool) (sid key : Str) (v : PyVal) (t : Str) (db : Db)
    (h : setDecision strict sid key v = .ok t) :
    result (.store strict' (.getValue sid key)) (step (.store strict (.setValue sid key v)) db).2 = .text t := by
  have hv : (validText sid && validText key) = true := by
    cases hvv : (validText sid && validText key) with
    | true => rfl
    | false =>
      exfalso
      unfold setDecision at h
      generalize checkValue v = c at h
      generalize dumps v = d at h
      cases strict <;> cases c <;> cases d <;>
        simp [hvv, bind, Except.bind, pure, Except.pure] at h
  simp only [result, storeResult, hv, if_true, step, intent, storeIntent, h, applyIntent, lookup_dbSet]

/-- the effect checker is the abstract equation -/
theorem effectOK_iff (i : Intent) (pre post : Db) :
    effectOK i pre post = true ↔ abs post = aApply i (abs pre) := effectOK_iff' i pre post

/-- the result checker is the result specification -/
theorem resultOK_iff (s : Step) (pre : Db) (r : Res) : resultOK s pre r = true ↔ ResOK s (abs pre) r :=
  Vinegar.Sqlite.resultOK_iff s pre r

theorem outside_step {s : Step} {k : Key} (h : outsideTarget s = some k) (db : Db) :
    intent s = .nothing ∧ result s db = .status 400 := by
  cases s with
  | store _ _ => simp [outsideTarget] at h
  | source _ _ => simp [outsideTarget] at h
  | handler cfg rq =>
    simp only [outsideTarget] at h
    simp only [intent, result, handlerIntent, handlerResult]
    cases hc : prepareContext cfg rq.uri with
    | none => simp [hc] at h
    | some sid =>
      simp only [hc] at h ⊢
      cases hd : decide' cfg sid rq with
      | reply c => simp [hd] at h
      | perform op => simp [hd] at h
      | outside => exact ⟨rfl, rfl⟩

/-- the checker accepts every step of the model -/
theorem checkStep_step (s : Step) (db : Db) (hs : Sorted db) :
    checkStep s db (step s db).1 (step s db).2 = true := by
  simp only [checkStep, step, Bool.and_eq_true]
  refine ⟨(Vinegar.Sqlite.resultOK_iff s db _).mpr (result_ok hs s), ?_⟩
  unfold stepEffectOK
  cases ho : outsideTarget s with
  | none => exact (effectOK_iff' _ _ _).mpr (abs_applyIntent _ _)
  | some k =>
    obtain ⟨hi, hr⟩ := outside_step ho db
    simp only [hr, hi, applyIntent]
    have : (Res.status 400 == Res.status 200) = false := by decide
    simp only [this]
    exact (effectOK_iff' _ _ _).mpr rfl

/-- **the checker evaluated on the implementation's observations accepts every model trace** -/
theorem checkTrace_run (steps : List Step) : ∀ (db : Db), Sorted db →
    checkTrace steps db (run steps db).1 = true := by
  induction steps with
  | nil => intro db _; simp [run, checkTrace]
  | cons s ss ih =>
    intro db hs
    have hs' : Sorted (applyIntent (intent s) db) := sorted_applyIntent _ hs
    have h1 := checkStep_step s db hs
    simp only [step] at h1
    simp only [run, step, checkTrace, Bool.and_eq_true]
    exact ⟨h1, ih _ hs'⟩

/-- a step accepted by the checker (and not marked outside the body grammar) satisfies the
specification: its result is the one the abstract map prescribes and its effect is the function
update — this is what a `true` of the checker on an implementation observation means -/
theorem checkStep_sound (s : Step) (pre post : Db) (r : Res) (ho : outsideTarget s = none)
    (h : checkStep s pre r post = true) : ResOK s (abs pre) r ∧ abs post = aApply (intent s) (abs pre) := by
  simp only [checkStep, Bool.and_eq_true, stepEffectOK, ho] at h
  exact ⟨(Vinegar.Sqlite.resultOK_iff s pre r).mp h.1, (effectOK_iff' _ _ _).mp h.2⟩

/-! ### find / get_data / list -/

/-- **find** returns exactly the systems whose stored text equals `json.dumps(value)` — compared as
JSON text, so `(1, 2)` finds `[1, 2]` and `1` does not find `1.0` or `true` —, in id order,
through a store of either strictness -/
theorem find_spec (strict : Bool) (db : Db) (hs : Sorted db) (key : Str) (v : PyVal) (t : Str)
    (hd : dumps v = .ok t) (hk : validText key = true) :
    ∃ l, result (.store strict (.findSystems key v)) db = .systems l ∧
      StrictSorted l ∧ ∀ s, s ∈ l ↔ abs db (s, key) = some t := by
  refine ⟨dbFind key t db, ?_, find_spec' hs key t⟩
  simp [result, storeResult, hd, hk]

/-- a value that cannot be serialised cannot be searched for: the exception of `json.dumps` -/
theorem find_unserialisable (strict : Bool) (db : Db) (key : Str) (v : PyVal) (e : Err) (hd : dumps v = .error e) :
    step (.store strict (.findSystems key v)) db = (.exc e, db) := by
  simp [step, result, storeResult, hd, intent, storeIntent, applyIntent]

theorem get_data_spec (strict : Bool) (db : Db) (hs : Sorted db) (sid : Str) (hv : validText sid = true) :
    ∃ kvs, result (.store strict (.getData sid)) db = .data kvs ∧
      StrictSorted (kvs.map (·.1)) ∧ ∀ k t, (k, t) ∈ kvs ↔ abs db (sid, k) = some t := by
  refine ⟨dbGetData sid db, ?_, getData_spec' hs sid⟩
  simp [result, storeResult, hv]

theorem list_spec (strict : Bool) (db : Db) (hs : Sorted db) :
    ∃ l, result (.store strict .listSystems) db = .systems l ∧
      StrictSorted l ∧ ∀ s, s ∈ l ↔ ∃ k t, abs db (s, k) = some t :=
  ⟨dbList db, rfl, list_spec' hs⟩

/-! ### the strict check -/

/-- `_check_value` accepts exactly the JSON-safe values (None, bool, int, float, str, lists and
str-keyed dicts of such, recursively) -/
theorem strict_check_iff (v : PyVal) : checkValue v = .ok () ↔ jsonSafe v = true := check_iff_safe v

/-- **non-JSON-safe values are rejected**: through a strict store `set_value` of such a value
raises and leaves the map untouched -/
theorem strict_rejects (v : PyVal) (sid key : Str) (db : Db) (h : jsonSafe v = false) :
    ∃ e, step (.store true (.setValue sid key v)) db = (.exc e, db) := by
  have hc : checkValue v ≠ .ok () := fun hc => by rw [(check_iff_safe v).mp hc] at h; cases h
  cases hcv : checkValue v with
  | ok u => cases u; exact absurd hcv hc
  | error e =>
    refine ⟨e, ?_⟩
    simp [step, result, intent, storeResult, storeIntent, setDecision, hcv, bind, Except.bind, applyIntent]

/-- a JSON-safe value is never refused by `json.dumps`: the strict store stores its text -/
theorem strict_accepts_dumps (v : PyVal) (sid key : Str) (db : Db) (h : jsonSafe v = true)
    (hs : validText sid = true) (hk : validText key = true) :
    ∃ t, dumps v = .ok t ∧ step (.store true (.setValue sid key v)) db = (.unit, dbSet (sid, key) t db) := by
  obtain ⟨t, ht⟩ := dumps_safe v h
  refine ⟨t, ht, ?_⟩
  have hc := (check_iff_safe v).mpr h
  simp [step, result, intent, storeResult, storeIntent, setDecision, hc, ht, hs, hk, bind, Except.bind, applyIntent]

/-- what the strict check rejects, kind by kind -/
example (l : List PyVal) : jsonSafe (.tuple l) = false := rfl
example : jsonSafe .set = false := rfl
example : jsonSafe .bytes = false := rfl
example : jsonSafe .cyclic = false := rfl
example (i : Int) (v : PyVal) : jsonSafe (.dict [(.int i, v)]) = false := by simp [jsonSafe, jsonSafeItems, jsonSafeKey]
example (v : PyVal) : jsonSafe (.dict [(.none, v)]) = false := by simp [jsonSafe, jsonSafeItems, jsonSafeKey]
example (b : Bool) (v : PyVal) : jsonSafe (.dict [(.bool b, v)]) = false := by simp [jsonSafe, jsonSafeItems, jsonSafeKey]
example : jsonSafe (.list [.int 1, .dict [(.str [97], .tuple [])]]) = false := by
  simp [jsonSafe, jsonSafeList, jsonSafeItems, jsonSafeKey]
/-- … and the class of the exception is decided by the first offence in traversal order -/
example : checkValue (.list [.tuple [], .cyclic]) = .error .typeError := rfl
example : checkValue (.list [.cyclic, .tuple []]) = .error .valueError := rfl
example : checkValue (.dict [(.int 1, .cyclic)]) = .error .typeError := rfl
/-- a non-strict store stores what `json.dumps` makes of a tuple — the list text — which is why
`find` compares texts -/
example : dumps (.tuple [.int 1, .int 2]) = dumps (.list [.int 1, .int 2]) := rfl

/-! ### key prefix -/

/-- `find_system` strips exactly `key_prefix + ":"` -/
theorem strip_key_iff (pfx K k : Str) :
    stripKey pfx K = some k ↔ (pfx = [] ∧ K = k) ∨ (pfx ≠ [] ∧ K = pfx ++ 58 :: k) := by
  unfold stripKey
  by_cases hp : pfx = []
  · simp [hp]
  · simp only [hp, if_false, false_and, false_or, ne_eq, not_false_eq_true, true_and]
    constructor
    · intro h
      have := stripPrefix_some h
      simpa using this
    · intro h
      subst h
      have : pfx ++ 58 :: k = (pfx ++ [58]) ++ k := by simp
      rw [this]
      exact stripPrefix_append _ _

theorem kvLookup_of_mem {k t : Str} : ∀ {kvs : List (Str × Str)}, StrictSorted (kvs.map (·.1)) →
    (k, t) ∈ kvs → kvLookup k kvs = some t
  | [], _, h => by cases h
  | (k0, t0) :: r, hs, h => by
    have hs' := List.pairwise_cons.mp hs
    rcases List.mem_cons.mp h with h | h
    · cases h; simp [kvLookup]
    · have hne : k0 ≠ k := ltStr_ne (hs'.1 k (List.mem_map.mpr ⟨(k, t), h, rfl⟩))
      simp only [kvLookup, hne, if_false]
      exact kvLookup_of_mem hs'.2 h

/-- **prefix wrap/strip consistency**: if a source with a non-empty `key_prefix` finds system `s`
for the lookup key `prefix:k` and value `v`, then the data tree it returns for `s`, descended
along the components of the prefix, is the row dict of `s`, and that dict holds exactly
`json.dumps(v)` under `k` — `find_system` and `get_data` speak about the same prefixed key -/
theorem prefix_wrap_strip (db : Db) (hs : Sorted db) (cfg : SrcCfg) (hp : cfg.pfx ≠ []) (k : Str) (v : PyVal)
    (s : Str) (hv : validText s = true)
    (hf : result (.source cfg (.findSystem (cfg.pfx ++ 58 :: k) v)) db = .optSystem (some s)) :
    ∃ kvs t, result (.source cfg (.getData s)) db = .wrapped (wrap (splitColon cfg.pfx) (.data kvs)) ∧
      descend (splitColon cfg.pfx) (wrap (splitColon cfg.pfx) (.data kvs)) = some (.data kvs) ∧
      dumps v = .ok t ∧ kvLookup k kvs = some t := by
  have hstrip : stripKey cfg.pfx (cfg.pfx ++ 58 :: k) = some k :=
    (strip_key_iff _ _ _).mpr (Or.inr ⟨hp, rfl⟩)
  simp only [result, srcResult] at hf
  cases hfe : cfg.findEnabled with
  | false => simp [hfe] at hf
  | true =>
    simp only [hfe, Bool.not_true, Bool.false_eq_true, if_false, hstrip, storeResult] at hf
    cases hd : dumps v with
    | error e => simp [hd] at hf
    | ok t =>
      simp only [hd] at hf
      by_cases hk : validText k = true
      · simp only [hk, if_true, Res.optSystem.injEq] at hf
        have hfind := find_spec' hs k t
        have hmem : s ∈ dbFind k t db := by
          generalize dbFind k t db = l at hf
          match l, hf with
          | [a], hf => simp [onlyOne] at hf; simp [hf]
        have hl : abs db (s, k) = some t := (hfind.2 s).mp hmem
        have hgd := getData_spec' hs s
        refine ⟨dbGetData s db, t, ?_, descend_wrap _ _, rfl, ?_⟩
        · simp [result, srcResult, storeResult, hv, wrapData, hp]
        · exact kvLookup_of_mem hgd.1 ((hgd.2 k t).mpr hl)
      · simp [hk] at hf

/-! ### the update handler -/

/-- a matching, authorised POST whose decision is to perform `op` answers 200 exactly if the store
operation returned, and its effect on the abstract map is that operation's function update -/
theorem handler_perform (cfg : HCfg) (rq : Req) (sid : Str) (op : StoreOp) (db : Db)
    (hc : prepareContext cfg rq.uri = some sid) (hd : decide' cfg sid rq = .perform op)
    (hr : storeResult true op db = .unit) :
    (step (.handler cfg rq) db).1 = .status 200 ∧
      abs (step (.handler cfg rq) db).2 = aApply (storeIntent true op) (abs db) := by
  refine ⟨?_, ?_⟩
  · simp [step, result, handlerResult, hc, hd, hr]
  · rw [step_effect]; simp [intent, handlerIntent, hc, hd]

/-- **POST /prefix/<system> performs exactly the configured action** on the percent-decoded system
id `sid` (`prepareContext`), for every action: the status is 200 and the abstract map changes by
exactly that action's function update —
`delete_data`: all keys of `sid` vanish; `delete_value`: `(sid, key)` vanishes; `set_value`: the
configured value's JSON text; `set_text_value_from_request_body`: the JSON text of the UTF-8
decoded body; `set_json_value_from_request_body`: the JSON text of the parsed body. -/
theorem update_action_spec (cfg : HCfg) (rq : Req) (sid : Str) (db : Db)
    (hm : rq.method = methodPOST) (hc : prepareContext cfg rq.uri = some sid)
    (ha : allowed cfg rq.client = true) (hsid : validText sid = true) :
    (cfg.action = .deleteData →
      (step (.handler cfg rq) db).1 = .status 200 ∧
      abs (step (.handler cfg rq) db).2 = fun k => if k.1 = sid then none else abs db k) ∧
    (cfg.action = .deleteValue → validText cfg.key = true →
      (step (.handler cfg rq) db).1 = .status 200 ∧
      abs (step (.handler cfg rq) db).2 = fun k => if k = (sid, cfg.key) then none else abs db k) ∧
    (cfg.action = .setValue → ∀ t, setDecision true sid cfg.key cfg.value = .ok t →
      (step (.handler cfg rq) db).1 = .status 200 ∧
      abs (step (.handler cfg rq) db).2 = fun k => if k = (sid, cfg.key) then some t else abs db k) ∧
    (cfg.action = .setText → ∀ raw s, readBody rq = some raw → decodeUtf8 .strict raw = some s →
      validText cfg.key = true →
      (step (.handler cfg rq) db).1 = .status 200 ∧
      abs (step (.handler cfg rq) db).2 = fun k => if k = (sid, cfg.key) then some (dumpsStr s) else abs db k) ∧
    (cfg.action = .setJson → ∀ raw v rest t, readBody rq = some raw → decodeJsonBody raw = .ok v rest →
      setDecision true sid cfg.key v = .ok t →
      (step (.handler cfg rq) db).1 = .status 200 ∧
      abs (step (.handler cfg rq) db).2 = fun k => if k = (sid, cfg.key) then some t else abs db k) := by
  have hna : (!allowed cfg rq.client) = false := by simp [ha]
  refine ⟨?_, ?_, ?_, ?_, ?_⟩
  · intro hact
    have hd : decide' cfg sid rq = .perform (.deleteData sid) := by simp [decide', hm, hna, hact]
    have := handler_perform cfg rq sid _ db hc hd (by simp [storeResult, hsid])
    simpa [storeIntent, hsid, aApply] using this
  · intro hact hk
    have hd : decide' cfg sid rq = .perform (.deleteValue sid cfg.key) := by simp [decide', hm, hna, hact]
    have := handler_perform cfg rq sid _ db hc hd (by simp [storeResult, hsid, hk])
    simpa [storeIntent, hsid, hk, aApply] using this
  · intro hact t ht
    have hd : decide' cfg sid rq = .perform (.setValue sid cfg.key cfg.value) := by simp [decide', hm, hna, hact]
    have := handler_perform cfg rq sid _ db hc hd (by simp [storeResult, ht])
    simpa [storeIntent, ht, aApply] using this
  · intro hact raw s hraw hdec hk
    have hd : decide' cfg sid rq = .perform (.setValue sid cfg.key (.str s)) := by
      simp [decide', hm, hna, hact, hraw, hdec]
    have ht : setDecision true sid cfg.key (.str s) = .ok (dumpsStr s) := by
      simp [setDecision, checkValue, dumps, hsid, hk, bind, Except.bind]
    have := handler_perform cfg rq sid _ db hc hd (by simp [storeResult, ht])
    simpa [storeIntent, ht, aApply] using this
  · intro hact raw v rest t hraw hdec ht
    have hd : decide' cfg sid rq = .perform (.setValue sid cfg.key v) := by
      simp [decide', hm, hna, hact, hraw, hdec]
    have := handler_perform cfg rq sid _ db hc hd (by simp [storeResult, ht])
    simpa [storeIntent, ht, aApply] using this

/-- **nothing changes otherwise**: a request that does not match (`/prefix/` without a system id,
another prefix, a NUL), another method (405), an unauthorised client (403), an unreadable or
undecodable body (400) leave the map exactly as it was -/
theorem update_noop_cases (cfg : HCfg) (rq : Req) (db : Db) :
    (prepareContext cfg rq.uri = none → step (.handler cfg rq) db = (.noMatch, db)) ∧
    (∀ sid, prepareContext cfg rq.uri = some sid →
      (rq.method ≠ methodPOST → step (.handler cfg rq) db = (.status 405, db)) ∧
      (rq.method = methodPOST → allowed cfg rq.client = false → step (.handler cfg rq) db = (.status 403, db)) ∧
      (rq.method = methodPOST → allowed cfg rq.client = true →
        (cfg.action = .setJson ∨ cfg.action = .setText) → readBody rq = none →
        step (.handler cfg rq) db = (.status 400, db)) ∧
      (rq.method = methodPOST → allowed cfg rq.client = true → cfg.action = .setText →
        ∀ raw, readBody rq = some raw → decodeUtf8 .strict raw = none →
        step (.handler cfg rq) db = (.status 400, db)) ∧
      (rq.method = methodPOST → allowed cfg rq.client = true → cfg.action = .setJson →
        ∀ raw, readBody rq = some raw → decodeJsonBody raw = .bad →
        step (.handler cfg rq) db = (.status 400, db))) := by
  refine ⟨?_, ?_⟩
  · intro hc
    simp [step, result, intent, handlerResult, handlerIntent, hc, applyIntent]
  · intro sid hc
    refine ⟨?_, ?_, ?_, ?_, ?_⟩
    · intro hm
      simp [step, result, intent, handlerResult, handlerIntent, hc, decide', hm, applyIntent]
    · intro hm ha
      simp [step, result, intent, handlerResult, handlerIntent, hc, decide', hm, ha, applyIntent]
    · intro hm ha hact hraw
      rcases hact with hact | hact <;>
        simp [step, result, intent, handlerResult, handlerIntent, hc, decide', hm, ha, hact, hraw, applyIntent]
    · intro hm ha hact raw hraw hdec
      simp [step, result, intent, handlerResult, handlerIntent, hc, decide', hm, ha, hact, hraw, hdec, applyIntent]
    · intro hm ha hact raw hraw hdec
      simp [step, result, intent, handlerResult, handlerIntent, hc, decide', hm, ha, hact, hraw, hdec, applyIntent]

/-- `%00` in the request URI never matches (the decoded examples — `/u/%61` addresses system
`a`, `/u/` alone or another prefix do not match — are part of the correspondence stream, because
`unquote` is defined by well-founded recursion and does not reduce under `decide`) -/
example : prepareContext { path := lit "/u", action := .deleteData, key := [], value := .none, clients := [] }
    (lit "/u/a%00") = none := by decide

/-- **tie to the source text**: the SQL statements, action names and the method literal that the
translator reads from `/repo` on every run are the ones the model was written for -/
theorem code_literals :
    Generated.SQLITE_SQL_SET_VALUE = "INSERT OR REPLACE INTO system_data (system_id, key, value) VALUES (?, ?, ?);" ∧
    Generated.SQLITE_SQL_DELETE_VALUE = "DELETE FROM system_data WHERE system_id=? and key=?;" ∧
    Generated.SQLITE_SQL_DELETE_DATA = "DELETE FROM system_data WHERE system_id=?;" ∧
    Generated.SQLITE_SQL_GET_VALUE = "SELECT value FROM system_data WHERE system_id=? AND KEY=?;" ∧
    Generated.SQLITE_SQL_GET_DATA = "SELECT key, value FROM system_data WHERE system_id=? ORDER BY key;" ∧
    Generated.SQLITE_SQL_FIND_SYSTEMS = "SELECT system_id FROM system_data WHERE key=? AND value=? ORDER BY system_id;" ∧
    Generated.SQLITE_SQL_LIST_SYSTEMS = "SELECT DISTINCT system_id FROM system_data ORDER BY system_id;" ∧
    Generated.SQLITE_UPDATE_ACTIONS = Action.all.map Action.name ∧
    Generated.SQLITE_UPDATE_KEY_ACTIONS = (Action.all.filter Action.needsKey).map Action.name ∧
    methodPOST = lit Generated.SQLITE_UPDATE_METHOD :=
  ⟨sql_set_value, sql_delete_value, sql_delete_data, sql_get_value, sql_get_data, sql_find_systems,
    sql_list_systems, update_actions, update_key_actions, update_method⟩

/-- the hypotheses of the refinement theorem are satisfiable: the empty database -/
example : Sorted [] := List.Pairwise.nil
/-- the checker rejects the known-bad behaviours: a lost write (`INSERT OR IGNORE` on an existing
key), a write that leaked to another key, a `find` that misses a system or is out of order -/
example : effectOK (.set (lit "a", lit "k") (lit "2")) [((lit "a", lit "k"), lit "1")]
    [((lit "a", lit "k"), lit "1")] = false := by decide
example : effectOK (.del (lit "a", lit "k")) [((lit "a", lit "j"), lit "1"), ((lit "a", lit "k"), lit "1")] [] = false := by
  decide
example : findOK [((lit "a", lit "k"), lit "1"), ((lit "b", lit "k"), lit "1")] (lit "k") (lit "1") [lit "a"] = false := by
  decide
example : findOK [((lit "a", lit "k"), lit "1"), ((lit "b", lit "k"), lit "1")] (lit "k") (lit "1") [lit "b", lit "a"] = false := by
  decide

end Vinegar.C15
