import Vinegar.Theorems.C01
/-
C08 — netascii conversion is correct and independent of block and read boundaries.
-/
namespace Vinegar.C08
open Vinegar Vinegar.Tftp

/-- one read, converted with the carried `last_byte_was_cr` flag, contributes exactly what the
whole-buffer reference conversion says, whatever follows (`rest`) -/
theorem chunk_ref (l : Bool) (c rest : Bytes) (hne : c ≠ []) :
    refSkip l (c ++ rest) = (convChunk l c).1 ++ refSkip (convChunk l c).2 rest :=
  convChunk_ref l c rest hne

/-- for every content, every way the stream splits its reads and every block size ≥ 1 the client
receives the reference conversion: every CR LF kept, every other CR and every other LF → CR LF -/
theorem stream_eq_ref (size : Nat) (hs : 0 < size) (content : Bytes) (caps : List Nat) :
    (transferBlocks true size content caps).flatten = netasciiRef content := by
  have := transferBlocks_flatten true size hs content caps
  simpa [expectedOutput] using this

/-- same block framing rules as octet mode -/
theorem netascii_framing (size : Nat) (hs : 0 < size) (content : Bytes) (caps : List Nat) :
    framingOK size (transferBlocks true size content caps) = true :=
  transferBlocks_framing true size hs content caps

theorem netascii_payloadsOK (size : Nat) (hs : 0 < size) (content : Bytes) (caps : List Nat) :
    payloadsOK true size content (transferBlocks true size content caps) = true :=
  transferBlocks_payloadsOK true size hs content caps

theorem dictGet_optEntry_ne (name key : List Char) (v : Option Nat) (h : name ≠ key) :
    dictGet (optEntry name v) key = none := by
  cases v <;> simp [optEntry, dictGet, h]

theorem dictGet_append (a b : Opts) (k : List Char) :
    dictGet (a ++ b) k = (dictGet a k).or (dictGet b k) := by
  induction a with
  | nil => simp [dictGet]
  | cons p a ih =>
    obtain ⟨k', v'⟩ := p
    simp only [List.cons_append, dictGet]
    split <;> simp [ih]

/-- a transfer size is never announced in netascii mode -/
theorem netascii_no_tsize (cfg : Cfg) (raw : Opts) (size : Option Nat) :
    dictGet (negotiate cfg raw true size).oack optTsize = none := by
  unfold negotiate
  simp only [dictGet_append]
  rw [dictGet_optEntry_ne optBlksize optTsize _ (by decide),
      dictGet_optEntry_ne optTimeout optTsize _ (by decide)]
  have : negTsize (lowerDict (pyDict raw)) true size = none := by
    unfold negTsize; split <;> simp
  simp [this, optEntry, dictGet]

/-- whole netascii transfers (every script, every configuration): the DATA packets are a prefix
of the ideal packets for the converted content, all of them unless aborted -/
theorem c08_runTransfer (cfg : Cfg) (hw : WrapOK cfg.wrap) (opts : Opts) (content : Bytes)
    (caps : List Nat) (sizeKnown : Bool) (script : List Ev) :
    c01Check true (negOf cfg ⟨true, opts⟩ (.stream content caps sizeKnown none)).blockSize cfg.wrap
      (negOf cfg ⟨true, opts⟩ (.stream content caps sizeKnown none)).timeout cfg.maxRetries content
      (runTransfer cfg ⟨true, opts⟩ (.stream content caps sizeKnown none) script) = true :=
  C01.c01Check_runTransfer cfg hw ⟨true, opts⟩ content caps sizeKnown script

/-- the pinned behaviour (skip the byte after a read-final CR unconditionally) violates the property -/
def convChunkPinned (lastCR : Bool) (chunk : Bytes) : Bytes × Bool :=
  match lastCR, chunk with
  | true, _ :: t => convBody t
  | _, c => convBody c

example : (convChunk false [55, CR]).1 ++ (convChunkPinned (convChunk false [55, CR]).2 [88]).1
    ≠ netasciiRef [55, CR, 88] := by decide

example : (transferBlocks true 8 [49, 50, 51, 52, 53, 54, 55, CR, 88] [8, 1]).flatten
    = [49, 50, 51, 52, 53, 54, 55, CR, LF, 88] := by decide

end Vinegar.C08
