import Vinegar.Lemmas.TftpData
import Vinegar.Theorems.Reader
import Vinegar.Theorems.C02
/-
C01 — TFTP octet transfers deliver the handler's bytes exactly, even under packet loss.

Reader level (every content, every short-read pattern `caps`, every block size ≥ 1): the
payload sequence concatenates to the content, all blocks but the last have exactly the block
size, the last fewer (possibly zero) bytes, independent of how the stream splits its reads.
Protocol level (every event script): the DATA packets, in order of first transmission, are an
initial part of the ideal packet sequence (numbers 1, 2, …, 65535, wrap, wrap+1, …) and the
whole of it unless the transfer was aborted (client ERROR, invalid packet, retries exhausted);
without a wrap value the sequence stops at block 65535 and an ERROR packet follows. An ERROR packet
of the server's own is no "abort" that excuses missing data: it is accepted only in answer to the
client's abort or after the last ideal packet (`serverErrorsJustified`, `serverErrorsJustified_iff`).
And "an ERROR packet follows" is demanded, not merely allowed: a transfer that is too long for the block
counter and whose ideal packets were all sent must leave the C02 automaton in `ended`
(`overflowEndsWithError`, `overflowEndsWithError_iff`, `c02Step_ended`) — stopping silently after the
acknowledgement of block 65535 is rejected.
The theorems are stated for both transfer modes (`na`); C01 is the instance `na = false`.
-/
namespace Vinegar.C01
open Vinegar Vinegar.Tftp

/-- in-order concatenation of the blocks is exactly the supplied bytes -/
theorem blocks_flatten (size : Nat) (hs : 0 < size) (content : Bytes) (caps : List Nat) :
    (transferBlocks false size content caps).flatten = content :=
  transferBlocks_flatten false size hs content caps

/-- every non-final block carries exactly the block size, the final one fewer (possibly zero) bytes -/
theorem blocks_framing (size : Nat) (hs : 0 < size) (content : Bytes) (caps : List Nat) :
    framingOK size (transferBlocks false size content caps) = true :=
  transferBlocks_framing false size hs content caps

/-- however the handler's stream splits its reads, the blocks are the same -/
theorem reader_independent_of_read_splitting (size : Nat) (content : Bytes) (caps caps' : List Nat) :
    transferBlocks false size content caps = transferBlocks false size content caps' :=
  transferBlocks_caps_irrelevant false size content caps caps'

theorem clientData_finish (e : End) (now : Nat) :
    clientData (finish e now ++ [Obs.closeFile, Obs.closeSocket]) = [] := by
  have h : opcodeOf err0 ≠ some opDATA := by
    rw [err0, opcodeOf_errorPacket]; simp [opERROR_val, opDATA_val]
  cases e <;> simp [finish, clientData, h]

/-- data delivered by the OACK + data phases -/
theorem processRequest_data (env : Env) (hw : WrapOK env.wrap) (oack : Opts) (bl : List Bytes)
    (script : List Ev) :
    ∃ m, dataFirsts (processRequest env oack (bl.map some) 0 script).obs = (idealPackets env.wrap 0 bl).take m ∧
      (((processRequest env oack (bl.map some) 0 script).out = .completed ∨
        (processRequest env oack (bl.map some) 0 script).out = .overflow) →
          (idealPackets env.wrap 0 bl).take m = idealPackets env.wrap 0 bl) ∧
      (processRequest env oack (bl.map some) 0 script).out ≠ .readFault := by
  unfold processRequest dataFirsts
  split
  · obtain ⟨m, h1, h2, _, h4⟩ := sendData_data env hw bl 0 0 script (by decide)
    exact ⟨m, h1, h2, h4⟩
  · obtain ⟨j, hj, _⟩ := clientData_sendWithRetry env (oackPacket oack) 0 (env.maxRetries + 1) 0 script
    have hop : opcodeOf (oackPacket oack) ≠ some opDATA := by
      rw [opcodeOf_oackPacket]; simp [opOACK_val, opDATA_val]
    simp only [hop, if_false] at hj
    generalize sendWithRetry env (oackPacket oack) 0 (env.maxRetries + 1) 0 script = r at hj
    cases hout : r.out with
    | acked =>
      simp only [hout]
      obtain ⟨m, h1, h2, _, h4⟩ := sendData_data env hw bl 0 r.now r.rest (by decide)
      exact ⟨m, by simpa [clientData_append, hj] using h1, by simpa using h2, by simpa using h4⟩
    | gaveUp => simp only [hout]; exact ⟨0, by simp [hj, dedupAdj], by simp, by simp⟩
    | invalid => simp only [hout]; exact ⟨0, by simp [hj, dedupAdj], by simp, by simp⟩
    | peerError => simp only [hout]; exact ⟨0, by simp [hj, dedupAdj], by simp, by simp⟩

theorem take_isPrefixOf (l : List Bytes) (m : Nat) : (l.take m).isPrefixOf l = true := by
  rw [List.isPrefixOf_iff_prefix]
  exact List.take_prefix m l

/-- **C01 / C08 on whole transfers**: for every configuration (wrap 0, 1 or none), request,
content, short-read pattern and event script, the model's trace passes `c01Check`: the DATA
packets are a prefix of the ideal sequence for the negotiated block size, and all of it unless
the trace shows an abort; the transfer is not abandoned within the retry budget; the server sends
an ERROR packet of its own only after the client's abort or after the whole ideal sequence; and a
transfer that is too long for the block counter (wrapping disabled) does end with that ERROR packet
unless it was over before -/
theorem c01Check_runTransfer (cfg : Cfg) (hw : WrapOK cfg.wrap) (rrq : Rrq) (content : Bytes)
    (caps : List Nat) (sizeKnown : Bool) (script : List Ev) :
    c01Check rrq.netascii (negOf cfg rrq (.stream content caps sizeKnown none)).blockSize cfg.wrap
      (negOf cfg rrq (.stream content caps sizeKnown none)).timeout cfg.maxRetries content
      (runTransfer cfg rrq (.stream content caps sizeKnown none) script) = true := by
  generalize hh : HandlerResult.stream content caps sizeKnown none = h
  have hrun : runTransfer cfg rrq h script =
      (processRequest (envOf cfg rrq h) (negOf cfg rrq h).oack
        ((transferBlocks rrq.netascii (negOf cfg rrq h).blockSize content caps).map some) 0 script).obs ++
      (finish (processRequest (envOf cfg rrq h) (negOf cfg rrq h).oack
        ((transferBlocks rrq.netascii (negOf cfg rrq h).blockSize content caps).map some) 0 script).out
        (processRequest (envOf cfg rrq h) (negOf cfg rrq h).oack
        ((transferBlocks rrq.netascii (negOf cfg rrq h).blockSize content caps).map some) 0 script).now ++
       [Obs.closeFile, Obs.closeSocket]) := by
    subst hh
    simp [runTransfer, blockReads]
  have hideal : idealBlocks rrq.netascii (negOf cfg rrq h).blockSize content =
      transferBlocks rrq.netascii (negOf cfg rrq h).blockSize content caps := by
    rw [idealBlocks, transferBlocks_eq_split]
  obtain ⟨m, h1, h2, h3⟩ := processRequest_data (envOf cfg rrq h) hw (negOf cfg rrq h).oack
    (transferBlocks rrq.netascii (negOf cfg rrq h).blockSize content caps) script
  obtain ⟨P', hP, hPend, hPquiet⟩ := C02.c02Check_processRequest (envOf cfg rrq h) hw (negOf cfg rrq h).oack
    ((transferBlocks rrq.netascii (negOf cfg rrq h).blockSize content caps).map some) script
  have hquiet := noServerError_processRequest (envOf cfg rrq h) (negOf cfg rrq h).oack
    ((transferBlocks rrq.netascii (negOf cfg rrq h).blockSize content caps).map some) 0 script
  have hlen := processRequest_completed_length (envOf cfg rrq h) (negOf cfg rrq h).oack
    (transferBlocks rrq.netascii (negOf cfg rrq h).blockSize content caps) script
  generalize processRequest (envOf cfg rrq h) (negOf cfg rrq h).oack
    ((transferBlocks rrq.netascii (negOf cfg rrq h).blockSize content caps).map some) 0 script = pr at *
  have hwrap : (envOf cfg rrq h).wrap = cfg.wrap := rfl
  rw [hwrap] at h1 h2 hlen
  unfold c01Check
  simp only [hideal]
  have hdatas : dataFirsts (runTransfer cfg rrq h script) =
      (idealPackets cfg.wrap 0 (transferBlocks rrq.netascii (negOf cfg rrq h).blockSize content caps)).take m := by
    rw [hrun]
    unfold dataFirsts at h1 ⊢
    rw [clientData_append, clientData_finish, List.append_nil]
    exact h1
  rw [hdatas, take_isPrefixOf, Bool.true_and]
  have herr : isFlow err0 = false := isFlow_errorPacket _ _
  have hP2 : runSteps (c02Step (negOf cfg rrq h).timeout cfg.maxRetries) .idle pr.obs = some P' := hP
  -- the transfer is never abandoned with the retry budget of the outstanding packet unused
  have hfinal : noPrematureGiveUp (negOf cfg rrq h).timeout cfg.maxRetries (runTransfer cfg rrq h script) = true := by
    unfold noPrematureGiveUp
    rw [hrun, runSteps_append, hP2, Option.bind_some]
    cases hout : pr.out with
    | completed =>
      rcases hPquiet (Or.inl hout) with hq | ⟨c, hq, hack⟩
      · subst hq; simp [finish, runSteps, c02Step, finalOK]
      · subst hq; simp [finish, runSteps, c02Step, finalOK, hack]
    | overflow =>
      rcases hPquiet (Or.inr (Or.inl hout)) with hq | ⟨c, hq, _⟩ <;> subst hq <;>
        simp [finish, runSteps, c02Step, finalOK, herr]
    | readFault =>
      rcases hPquiet (Or.inr (Or.inr hout)) with hq | ⟨c, hq, _⟩ <;> subst hq <;>
        simp [finish, runSteps, c02Step, finalOK, herr]
    | gaveUp => rw [hPend (Or.inl hout)]; simp [finish, runSteps, c02Step, finalOK]
    | invalid => rw [hPend (Or.inr (Or.inl hout))]; simp [finish, runSteps, c02Step, finalOK, herr]
    | peerError => rw [hPend (Or.inr (Or.inr hout))]; simp [finish, runSteps, c02Step, finalOK]
  rw [hfinal, Bool.and_true]
  -- the only ERROR packet of the server's own is the one of `finish`: after the client's invalid packet
  -- (automaton in `ended`) or at the counter overflow, when the whole ideal sequence has been sent
  have hsej : serverErrorsJustified (negOf cfg rrq h).timeout cfg.maxRetries
      (idealPackets cfg.wrap 0 (transferBlocks rrq.netascii (negOf cfg rrq h).blockSize content caps))
      (runTransfer cfg rrq h script) = true := by
    unfold serverErrorsJustified
    rw [hrun, errorsJustifiedFrom_append _ _ _ _ pr.obs .idle P' [] hquiet hP2]
    cases hout : pr.out with
    | completed => simp [finish, errorsJustifiedFrom, isServerError, c02Step]
    | gaveUp => simp [finish, errorsJustifiedFrom, isServerError, c02Step]
    | peerError => simp [finish, errorsJustifiedFrom, isServerError, c02Step]
    | invalid =>
      rw [hPend (Or.inr (Or.inl hout))]
      simp [finish, errorsJustifiedFrom, isServerError, isEnded, c02Step, herr]
    | overflow =>
      have hall : dedupAdj (clientData pr.obs) =
          idealPackets cfg.wrap 0 (transferBlocks rrq.netascii (negOf cfg rrq h).blockSize content caps) := by
        rw [← h2 (Or.inr hout)]; exact h1
      simp [finish, errorsJustifiedFrom, isServerError, c02Step, herr, hall]
    | readFault => exact absurd hout h3
  rw [hsej, Bool.and_true]
  -- a transfer that is too long for the block counter is never completed: it is aborted before or at
  -- block 65535 (automaton in `ended`) or `finish` sends the ERROR packet of the overflow
  have hovf : overflowEndsWithError (negOf cfg rrq h).timeout cfg.maxRetries
      (transferBlocks rrq.netascii (negOf cfg rrq h).blockSize content caps)
      (idealPackets cfg.wrap 0 (transferBlocks rrq.netascii (negOf cfg rrq h).blockSize content caps))
      (runTransfer cfg rrq h script) = true := by
    unfold overflowEndsWithError
    cases hout : pr.out with
    | completed => simp [tooLong, hlen hout]
    | overflow =>
      rw [hrun, runSteps_append, hP2, Option.bind_some]
      rcases hPquiet (Or.inr (Or.inl hout)) with hq | ⟨c, hq, _⟩ <;> subst hq <;>
        simp [hout, finish, runSteps, c02Step, isEnded, herr]
    | readFault => exact absurd hout h3
    | gaveUp =>
      rw [hrun, runSteps_append, hP2, Option.bind_some, hPend (Or.inl hout)]
      simp [hout, finish, runSteps, c02Step, isEnded]
    | invalid =>
      rw [hrun, runSteps_append, hP2, Option.bind_some, hPend (Or.inr (Or.inl hout))]
      simp [hout, finish, runSteps, c02Step, isEnded, herr]
    | peerError =>
      rw [hrun, runSteps_append, hP2, Option.bind_some, hPend (Or.inr (Or.inr hout))]
      simp [hout, finish, runSteps, c02Step, isEnded]
  rw [hovf, Bool.and_true]
  have hended : (pr.out = .gaveUp ∨ pr.out = .invalid ∨ pr.out = .peerError) →
      sawAbort (negOf cfg rrq h).timeout cfg.maxRetries (runTransfer cfg rrq h script) = true := by
    intro hc
    have hP' := hPend hc
    subst hP'
    unfold sawAbort
    rw [hrun, runSteps_append, hP2, Option.bind_some]
    rcases hc with hc | hc | hc <;> simp [hc, finish, runSteps, c02Step, herr]
  cases hout : pr.out with
  | completed => rw [h2 (Or.inl hout)]; simp
  | overflow => rw [h2 (Or.inr hout)]; simp
  | gaveUp => rw [hended (Or.inl hout)]; simp
  | invalid => rw [hended (Or.inr (Or.inl hout))]; simp
  | peerError => rw [hended (Or.inr (Or.inr hout))]; simp
  | readFault => exact absurd hout h3

/-- a transfer whose trace shows no abort delivered every ideal packet, i.e. (with
`blocks_flatten`/`blocks_framing`) exactly the supplied bytes in correctly framed blocks -/
theorem complete_unless_aborted (cfg : Cfg) (hw : WrapOK cfg.wrap) (rrq : Rrq) (content : Bytes)
    (caps : List Nat) (sizeKnown : Bool) (script : List Ev)
    (hna : sawAbort (negOf cfg rrq (.stream content caps sizeKnown none)).timeout cfg.maxRetries
      (runTransfer cfg rrq (.stream content caps sizeKnown none) script) = false) :
    dataFirsts (runTransfer cfg rrq (.stream content caps sizeKnown none) script) =
      idealPackets cfg.wrap 0
        (idealBlocks rrq.netascii (negOf cfg rrq (.stream content caps sizeKnown none)).blockSize content) := by
  have h := c01Check_runTransfer cfg hw rrq content caps sizeKnown script
  unfold c01Check at h
  simp only [hna, Bool.false_or, Bool.and_eq_true, beq_iff_eq] at h
  exact h.1.1.1.2

/-! ### the server's own ERROR packets -/

theorem isServerError_iff (o : Obs) :
    isServerError o = true ↔ ∃ t p, o = Obs.send t 0 p ∧ isFlow p = false := by
  cases o with
  | send t dst p =>
    simp only [isServerError, Bool.and_eq_true, beq_iff_eq, Bool.not_eq_true', Obs.send.injEq]
    constructor
    · rintro ⟨hd, hp⟩; exact ⟨t, p, ⟨rfl, hd, rfl⟩, hp⟩
    · rintro ⟨t', p', ⟨_, hd, hp⟩, hf⟩; exact ⟨hd, hp ▸ hf⟩
  | _ => simp [isServerError]

theorem isEnded_iff (ph : Phase) : isEnded ph = true ↔ ph = .ended := by
  cases ph <;> simp [isEnded]

theorem errorsJustifiedFrom_iff (T R : Nat) (ideal : List Bytes) :
    ∀ (tr : List Obs) (ph0 : Phase) (sentRev : List Bytes),
      errorsJustifiedFrom T R ideal ph0 sentRev tr = true ↔
        ∀ pre t p post ph, tr = pre ++ Obs.send t 0 p :: post → isFlow p = false →
          runSteps (c02Step T R) ph0 pre = some ph →
          ph = .ended ∨ dedupAdj (sentRev.reverse ++ clientData pre) = ideal := by
  intro tr
  induction tr with
  | nil =>
    intro ph0 sentRev
    simp [errorsJustifiedFrom]
  | cons o rest ih =>
    intro ph0 sentRev
    have hcd : ∀ l, clientData (o :: l) = clientData [o] ++ clientData l := fun l => clientData_append [o] l
    constructor
    · intro h pre t p post ph htr hflow hrun
      simp only [errorsJustifiedFrom, Bool.and_eq_true, Bool.or_eq_true, Bool.not_eq_true', beq_iff_eq] at h
      cases pre with
      | nil =>
        simp only [List.nil_append, List.cons.injEq] at htr
        simp only [runSteps, Option.some.injEq] at hrun
        subst hrun
        have hse : isServerError o = true := (isServerError_iff o).2 ⟨t, p, htr.1, hflow⟩
        rcases h.1 with (h1 | h1) | h1
        · rw [hse] at h1; cases h1
        · exact Or.inl ((isEnded_iff _).1 h1)
        · right; simpa [clientData] using h1
      | cons o' pre' =>
        simp only [List.cons_append, List.cons.injEq] at htr
        obtain ⟨ho, hrest⟩ := htr
        subst ho
        simp only [runSteps] at hrun
        cases hstep : c02Step T R ph0 o with
        | none => simp [hstep] at hrun
        | some ph1 =>
          simp only [hstep] at hrun
          have h2 := h.2
          simp only [hstep] at h2
          have := (ih ph1 _).1 h2 pre' t p post ph hrest hflow hrun
          simpa [hcd pre', List.append_assoc] using this
    · intro h
      simp only [errorsJustifiedFrom, Bool.and_eq_true, Bool.or_eq_true, Bool.not_eq_true', beq_iff_eq]
      constructor
      · cases hse : isServerError o with
        | false => exact Or.inl (Or.inl rfl)
        | true =>
          obtain ⟨t, p, ho, hflow⟩ := (isServerError_iff o).1 hse
          rcases h [] t p rest ph0 (by simp [ho]) hflow rfl with h1 | h1
          · exact Or.inl (Or.inr ((isEnded_iff _).2 h1))
          · exact Or.inr (by simpa [clientData] using h1)
      · cases hstep : c02Step T R ph0 o with
        | none => rfl
        | some ph1 =>
          simp only
          apply (ih ph1 _).2
          intro pre t p post ph htr hflow hrun
          have := h (o :: pre) t p post ph (by simp [htr]) hflow (by simp [runSteps, hstep, hrun])
          simpa [hcd pre, List.append_assoc] using this

/-- what `serverErrorsJustified` says: whenever the server sends the client a packet that is neither
DATA nor OACK, the C02 automaton has already reached `ended` on the events before it (client ERROR,
invalid packet, retries exhausted), or the DATA packets sent before it are the whole ideal sequence
(traces the automaton rejects beforehand are `c02Check`'s business) -/
theorem serverErrorsJustified_iff (T R : Nat) (ideal : List Bytes) (tr : List Obs) :
    serverErrorsJustified T R ideal tr = true ↔
      ∀ pre t p post ph, tr = pre ++ Obs.send t 0 p :: post → isFlow p = false →
        runSteps (c02Step T R) .idle pre = some ph → ph = .ended ∨ dataFirsts pre = ideal := by
  unfold serverErrorsJustified dataFirsts
  simpa using errorsJustifiedFrom_iff T R ideal tr .idle []

/-- the model sends an ERROR packet of its own only in reply to the client's invalid packet or when
the block counter overflows after the last ideal packet (conjunct of `c01Check_runTransfer`) -/
theorem serverErrorsJustified_runTransfer (cfg : Cfg) (hw : WrapOK cfg.wrap) (rrq : Rrq) (content : Bytes)
    (caps : List Nat) (sizeKnown : Bool) (script : List Ev) :
    serverErrorsJustified (negOf cfg rrq (.stream content caps sizeKnown none)).timeout cfg.maxRetries
      (idealPackets cfg.wrap 0
        (idealBlocks rrq.netascii (negOf cfg rrq (.stream content caps sizeKnown none)).blockSize content))
      (runTransfer cfg rrq (.stream content caps sizeKnown none) script) = true := by
  have h := c01Check_runTransfer cfg hw rrq content caps sizeKnown script
  unfold c01Check at h
  simp only [Bool.and_eq_true] at h
  exact h.1.2

/-! ### an over-long transfer ends with an error -/

/-- how the C02 automaton gets into `ended`: through a datagram of the server to the client that is
neither DATA nor OACK (its ERROR packet), an ERROR or invalid packet from the client, or the timeout of
the last permitted transmission — closing the file or the socket does not get it there -/
theorem c02Step_ended (T R : Nat) (ph : Phase) (o : Obs) (h : c02Step T R ph o = some .ended) :
    ph = .ended ∨
    (∃ t p, o = .send t 0 p ∧ isFlow p = false) ∨
    (∃ t d data c, o = .recv t d 0 data ∧ ph = .flow c ∧ (classify data = .invalid ∨ classify data = .peerError)) ∨
    (∃ t c, o = .timeout t ∧ ph = .flow c ∧ c.acked = false ∧ c.count = R + 1) := by
  cases o with
  | send t dst p =>
    by_cases hd : dst = 0
    · subst hd
      by_cases hf : isFlow p = true
      · simp only [c02Step, hf, if_true] at h
        cases ph with
        | ended => exact Or.inl rfl
        | idle => cases he : expectOf p <;> simp [he] at h
        | flow c =>
          cases he : expectOf p with
          | none => simp [he] at h
          | some e =>
            simp only [he] at h
            split at h <;> split at h <;> simp at h
      · exact Or.inr (Or.inl ⟨t, p, rfl, by simpa using hf⟩)
    · simp only [c02Step, hd, if_false] at h
      cases ph <;> simp at h
      exact Or.inl rfl
  | recv t d src data =>
    cases ph with
    | ended => exact Or.inl rfl
    | idle => simp [c02Step] at h
    | flow c =>
      by_cases hs : src = 0
      · subst hs
        simp only [c02Step, if_true] at h
        cases hc : classify data with
        | ack n => simp [hc] at h
        | invalid => exact Or.inr (Or.inr (Or.inl ⟨t, d, data, c, rfl, rfl, Or.inl hc⟩))
        | peerError => exact Or.inr (Or.inr (Or.inl ⟨t, d, data, c, rfl, rfl, Or.inr hc⟩))
      · simp [c02Step, hs] at h
  | timeout t =>
    cases ph with
    | ended => exact Or.inl rfl
    | idle => simp [c02Step] at h
    | flow c =>
      by_cases hcount : c.count = R + 1
      · cases hack : c.acked with
        | false => exact Or.inr (Or.inr (Or.inr ⟨t, c, rfl, rfl, hack, hcount⟩))
        | true => simp [c02Step, hack] at h
      · simp [c02Step, hcount] at h
  | closeSocket => simp only [c02Step, Option.some.injEq] at h; exact Or.inl h
  | closeFile => simp only [c02Step, Option.some.injEq] at h; exact Or.inl h
  | logException => simp only [c02Step, Option.some.injEq] at h; exact Or.inl h

/-- what `overflowEndsWithError` says: when the content has more blocks than ideal packets (counter
overflow with wrapping disabled) and all ideal packets were sent, the C02 automaton leaves the trace
in `ended` (traces the automaton rejects are `c02Check`'s business) -/
theorem overflowEndsWithError_iff (T R : Nat) (blocks ideal : List Bytes) (tr : List Obs) :
    overflowEndsWithError T R blocks ideal tr = true ↔
      (ideal.length < blocks.length → dataFirsts tr = ideal →
        ∀ ph, runSteps (c02Step T R) .idle tr = some ph → ph = .ended) := by
  unfold overflowEndsWithError tooLong
  cases hrun : runSteps (c02Step T R) .idle tr with
  | none => simp
  | some ph =>
    simp only [Bool.or_eq_true, Bool.not_eq_true', Bool.and_eq_false_iff, decide_eq_false_iff_not,
      beq_eq_false_iff_ne, isEnded_iff, Option.some.injEq]
    constructor
    · rintro ((h | h) | h) hlt hall ph' hph
      · exact absurd hlt h
      · exact absurd hall h
      · exact hph ▸ h
    · intro h
      by_cases hlt : ideal.length < blocks.length
      · by_cases hall : dataFirsts tr = ideal
        · exact Or.inr (h hlt hall ph rfl)
        · exact Or.inl (Or.inr hall)
      · exact Or.inl (Or.inl hlt)

/-- the model ends every over-long transfer whose ideal packets were all sent with an ERROR packet, or
the transfer was over before for one of the other reasons of `c02Step_ended` (conjunct of
`c01Check_runTransfer`) -/
theorem overflowEndsWithError_runTransfer (cfg : Cfg) (hw : WrapOK cfg.wrap) (rrq : Rrq) (content : Bytes)
    (caps : List Nat) (sizeKnown : Bool) (script : List Ev) :
    overflowEndsWithError (negOf cfg rrq (.stream content caps sizeKnown none)).timeout cfg.maxRetries
      (idealBlocks rrq.netascii (negOf cfg rrq (.stream content caps sizeKnown none)).blockSize content)
      (idealPackets cfg.wrap 0
        (idealBlocks rrq.netascii (negOf cfg rrq (.stream content caps sizeKnown none)).blockSize content))
      (runTransfer cfg rrq (.stream content caps sizeKnown none) script) = true := by
  have h := c01Check_runTransfer cfg hw rrq content caps sizeKnown script
  unfold c01Check at h
  simp only [Bool.and_eq_true] at h
  exact h.2

/-! ### block numbering -/

/-- the ideal packets are numbered 1, 2, 3, … up to 65535 -/
theorem idealPackets_numbers (wrap : Option Nat) :
    ∀ (bl : List Bytes) (prev i : Nat) (b : Bytes), prev + i < Generated.MAX_BLOCK_NUMBER →
      bl[i]? = some b → (idealPackets wrap prev bl)[i]? = some (dataPacket (prev + i + 1) b) := by
  intro bl
  induction bl with
  | nil => intro prev i b _ h; simp at h
  | cons x xs ih =>
    intro prev i b hlt hb
    have hne : prev ≠ Generated.MAX_BLOCK_NUMBER := by omega
    simp only [idealPackets, nextBlock, hne, if_false]
    cases i with
    | zero => simp at hb; simp [hb]
    | succ k =>
      simp only [List.getElem?_cons_succ] at hb ⊢
      have := ih (prev + 1) k b (by omega) hb
      rw [this]; congr 2; omega

/-- after block 65535 the numbering continues at the configured wrap value -/
theorem idealPackets_wraps (w : Nat) (b : Bytes) (rest : List Bytes) :
    idealPackets (some w) Generated.MAX_BLOCK_NUMBER (b :: rest) =
      dataPacket w b :: idealPackets (some w) w rest := by
  simp [idealPackets, nextBlock]

/-- without a wrap value no packet follows block 65535 (no block number is ever reused) … -/
theorem idealPackets_stops (bl : List Bytes) :
    idealPackets none Generated.MAX_BLOCK_NUMBER bl = [] := by
  cases bl <;> simp [idealPackets, nextBlock]

/-- … and the transfer ends with an ERROR packet: when the counter overflows the model leaves the
block loop with `overflow`, which `finish` answers with exactly one ERROR packet -/
theorem overflow_error_not_reuse (env : Env) (b : Bytes) (bs : List (Option Bytes)) (now : Nat) (s : List Ev)
    (hw : env.wrap = none) :
    (sendData env (some b :: bs) Generated.MAX_BLOCK_NUMBER now s).out = .overflow ∧
    (sendData env (some b :: bs) Generated.MAX_BLOCK_NUMBER now s).obs = [] ∧
    finish .overflow now = [Obs.send now 0 err0] := by
  simp [sendData, nextBlock, hw, finish]

/-! ### non-vacuity -/

/-- a 3-block transfer with one lost DATA, one duplicate ACK and one stale ACK completes and
passes the checker -/
example : c01Check false 8 (some 0) 2048 1 [1,2,3,4,5,6,7,8, 9,10,11,12,13,14,15,16, 17]
    (processRequest C02.demoEnv []
      ((transferBlocks false 8 [1,2,3,4,5,6,7,8, 9,10,11,12,13,14,15,16, 17] [3, 1]).map some) 0
      [.silence, .pkt 1 0 0 (ackPacket 1), .pkt 1 0 0 (ackPacket 1), .pkt 1 0 0 (ackPacket 2),
       .pkt 0 0 0 (ackPacket 0), .pkt 1 0 0 (ackPacket 3)]).obs = true := by
  decide

/-- dropping a byte (the pinned netascii defect, or any reader bug) is rejected -/
example : c01Check false 8 (some 0) 2048 1 [1,2,3,4,5,6,7,8,9]
    [.send 0 0 (dataPacket 1 [1,2,3,4,5,6,7,8]), .recv 1 1 0 (ackPacket 1),
     .send 1 0 (dataPacket 2 []), .recv 2 2 0 (ackPacket 2)] = false := by
  decide

/-! #### the server's own ERROR packets -/

/-- an ERROR packet out of the blue after an acknowledged block with content left (what a server does
that treats "wrap to 0" as "wrapping disabled", on a small scale) is rejected … -/
example : c01Check false 8 (some 0) 2048 1 [1,2,3,4,5,6,7,8,9]
    [.send 0 0 (dataPacket 1 [1,2,3,4,5,6,7,8]), .recv 1 1 0 (ackPacket 1),
     .send 1 0 (errorPacket 3 [70]), .closeFile, .closeSocket] = false := by
  decide

/-- … by the new conjunct: the other three accept that trace (the ERROR packet makes it "aborted") -/
example :
    (dataFirsts [.send 0 0 (dataPacket 1 [1,2,3,4,5,6,7,8]), .recv 1 1 0 (ackPacket 1),
        .send 1 0 (errorPacket 3 [70]), .closeFile, .closeSocket]).isPrefixOf
      (idealPackets (some 0) 0 (idealBlocks false 8 [1,2,3,4,5,6,7,8,9])) = true ∧
    sawAbort 2048 1 [.send 0 0 (dataPacket 1 [1,2,3,4,5,6,7,8]), .recv 1 1 0 (ackPacket 1),
        .send 1 0 (errorPacket 3 [70]), .closeFile, .closeSocket] = true ∧
    noPrematureGiveUp 2048 1 [.send 0 0 (dataPacket 1 [1,2,3,4,5,6,7,8]), .recv 1 1 0 (ackPacket 1),
        .send 1 0 (errorPacket 3 [70]), .closeFile, .closeSocket] = true ∧
    serverErrorsJustified 2048 1 (idealPackets (some 0) 0 (idealBlocks false 8 [1,2,3,4,5,6,7,8,9]))
      [.send 0 0 (dataPacket 1 [1,2,3,4,5,6,7,8]), .recv 1 1 0 (ackPacket 1),
        .send 1 0 (errorPacket 3 [70]), .closeFile, .closeSocket] = false := by
  decide

/-- the same while the block is still unacknowledged -/
example : c01Check false 8 (some 0) 2048 1 [1,2,3,4,5,6,7,8,9]
    [.send 0 0 (dataPacket 1 [1,2,3,4,5,6,7,8]), .send 1 0 err0, .closeFile, .closeSocket] = false := by
  decide

/-- an internal error before the first packet of a stream transfer (ERROR as the only datagram) is
rejected, for non-empty and for empty content -/
example : c01Check false 8 (some 0) 2048 1 [1] [.send 0 0 err0, .closeFile, .closeSocket] = false ∧
    c01Check true 8 (some 0) 2048 1 [1] [.logException, .send 0 0 err0, .closeFile, .closeSocket] = false ∧
    c01Check false 8 (some 0) 2048 1 [] [.send 0 0 err0, .closeFile, .closeSocket] = false := by
  decide

/-- the model's own ERROR reply to an invalid packet from the client (opcode 9 while block 2 is
outstanding) is accepted: the automaton is in `ended` when it is sent -/
def demoInvalid : Res End :=
  processRequest C02.demoEnv [] ((transferBlocks false 8 [1,2,3,4,5,6,7,8,9] []).map some) 0
    [.pkt 1 0 0 (ackPacket 1), .pkt 1 0 0 [0, 9]]

example : demoInvalid.out = .invalid ∧ finish demoInvalid.out demoInvalid.now = [.send 2 0 err0] ∧
    c01Check false 8 (some 0) 2048 1 [1,2,3,4,5,6,7,8,9]
      (demoInvalid.obs ++ finish demoInvalid.out demoInvalid.now ++ [.closeFile, .closeSocket]) = true := by
  decide

/-- counter overflow on a small scale (the block loop entered at block 65534): with wrapping disabled
the ideal sequence ends with block 65535 and the model's ERROR after it is justified; the very same
trace is rejected when the configuration says "continue at block 0" -/
def demoOverflow : Res End :=
  sendData { timeout := 2048, maxRetries := 1, wrap := none } [some [1], some [2]] 65534 0
    [.pkt 1 0 0 (ackPacket 65535)]

example : demoOverflow.out = .overflow ∧
    serverErrorsJustified 2048 1 (idealPackets none 65534 [[1], [2]])
      (demoOverflow.obs ++ finish demoOverflow.out demoOverflow.now ++ [.closeFile, .closeSocket]) = true ∧
    serverErrorsJustified 2048 1 (idealPackets (some 0) 65534 [[1], [2]])
      (demoOverflow.obs ++ finish demoOverflow.out demoOverflow.now ++ [.closeFile, .closeSocket]) = false := by
  decide

/-! #### an over-long transfer with wrapping disabled must END WITH AN ERROR -/

/-- the same small scale: two blocks left at block 65534, wrapping disabled, so block 65535 is the last
ideal packet and the content is too long. A server that sends it, receives its acknowledgement and
then just closes file and socket (the ERROR packet of the overflow branch is never sent) is rejected … -/
example : overflowEndsWithError 2048 1 [[1], [2]] (idealPackets none 65534 [[1], [2]])
    [.send 0 0 (dataPacket 65535 [1]), .recv 1 1 0 (ackPacket 65535), .closeFile, .closeSocket] = false := by
  decide

/-- … by the new conjunct alone: for the other four the trace is a complete, orderly transfer (every
ideal packet sent, nothing outstanding, no ERROR packet to justify) -/
example :
    tooLong [[1], [2]] (idealPackets none 65534 [[1], [2]]) = true ∧
    (dataFirsts [.send 0 0 (dataPacket 65535 [1]), .recv 1 1 0 (ackPacket 65535), .closeFile, .closeSocket]).isPrefixOf
      (idealPackets none 65534 [[1], [2]]) = true ∧
    dataFirsts [.send 0 0 (dataPacket 65535 [1]), .recv 1 1 0 (ackPacket 65535), .closeFile, .closeSocket] =
      idealPackets none 65534 [[1], [2]] ∧
    noPrematureGiveUp 2048 1
      [.send 0 0 (dataPacket 65535 [1]), .recv 1 1 0 (ackPacket 65535), .closeFile, .closeSocket] = true ∧
    serverErrorsJustified 2048 1 (idealPackets none 65534 [[1], [2]])
      [.send 0 0 (dataPacket 65535 [1]), .recv 1 1 0 (ackPacket 65535), .closeFile, .closeSocket] = true := by
  decide

/-- the model's trace of that transfer is the rejected one plus the ERROR packet, and is accepted -/
example : demoOverflow.obs ++ finish demoOverflow.out demoOverflow.now ++ [.closeFile, .closeSocket] =
      [.send 0 0 (dataPacket 65535 [1]), .recv 1 1 0 (ackPacket 65535), .send 1 0 err0, .closeFile, .closeSocket] ∧
    overflowEndsWithError 2048 1 [[1], [2]] (idealPackets none 65534 [[1], [2]])
      (demoOverflow.obs ++ finish demoOverflow.out demoOverflow.now ++ [.closeFile, .closeSocket]) = true := by
  decide

/-- the retry budget running out at block 65535 (no acknowledgement, two transmissions) also ends the
transfer, without an ERROR packet; and with a wrap value the clause does not apply -/
def demoOverflowGaveUp : Res End :=
  sendData { timeout := 2048, maxRetries := 1, wrap := none } [some [1], some [2]] 65534 0 []

def demoWrapped : Res End :=
  sendData { timeout := 2048, maxRetries := 1, wrap := some 0 } [some [1], some [2]] 65534 0
    [.pkt 1 0 0 (ackPacket 65535), .pkt 1 0 0 (ackPacket 0)]

example : demoOverflowGaveUp.out = .gaveUp ∧
    overflowEndsWithError 2048 1 [[1], [2]] (idealPackets none 65534 [[1], [2]])
      (demoOverflowGaveUp.obs ++ finish demoOverflowGaveUp.out demoOverflowGaveUp.now ++
        [.closeFile, .closeSocket]) = true ∧
    demoWrapped.out = .completed ∧
    tooLong [[1], [2]] (idealPackets (some 0) 65534 [[1], [2]]) = false ∧
    overflowEndsWithError 2048 1 [[1], [2]] (idealPackets (some 0) 65534 [[1], [2]])
      (demoWrapped.obs ++ finish demoWrapped.out demoWrapped.now ++ [.closeFile, .closeSocket]) = true := by
  decide

end Vinegar.C01
