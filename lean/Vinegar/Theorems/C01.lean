import Vinegar.Lemmas.TftpData
import Vinegar.Theorems.Reader
import Vinegar.Theorems.C02
/-
C01 — TFTP octet transfers deliver the handler's bytes exactly, even under packet loss.

Reader level (every content, every short-read pattern `caps`, every block size ≥ 1): the
payload sequence concatenates to the content, all blocks but the last have exactly the block
size, the last fewer (possibly zero) bytes, independent of how the stream splits its reads.
Protocol level (every event script): the DATA packets, in order of first transmission, are an
initial part of the ideal packet sequence (numbers 1, 2, …, 65535, wrap, wrap+1, …) and the
whole of it unless the transfer was aborted (client ERROR, invalid packet, retries exhausted);
without a wrap value the sequence stops at block 65535 and an ERROR packet follows.
The theorems are stated for both transfer modes (`na`); C01 is the instance `na = false`.
-/
namespace Vinegar.C01
open Vinegar Vinegar.Tftp

/-- in-order concatenation of the blocks is exactly the supplied bytes -/
theorem blocks_flatten (size : Nat) (hs : 0 < size) (content : Bytes) (caps : List Nat) :
    (transferBlocks false size content caps).flatten = content :=
  transferBlocks_flatten false size hs content caps

/-- every non-final block carries exactly the block size, the final one fewer (possibly zero) bytes -/
theorem blocks_framing (size : Nat) (hs : 0 < size) (content : Bytes) (caps : List Nat) :
    framingOK size (transferBlocks false size content caps) = true :=
  transferBlocks_framing false size hs content caps

/-- however the handler's stream splits its reads, the blocks are the same -/
theorem reader_independent_of_read_splitting (size : Nat) (content : Bytes) (caps caps' : List Nat) :
    transferBlocks false size content caps = transferBlocks false size content caps' :=
  transferBlocks_caps_irrelevant false size content caps caps'

theorem clientData_finish (e : End) (now : Nat) :
    clientData (finish e now ++ [Obs.closeFile, Obs.closeSocket]) = [] := by
  have h : opcodeOf err0 ≠ some opDATA := by
    rw [err0, opcodeOf_errorPacket]; simp [opERROR_val, opDATA_val]
  cases e <;> simp [finish, clientData, h]

/-- data delivered by the OACK + data phases -/
theorem processRequest_data (env : Env) (hw : WrapOK env.wrap) (oack : Opts) (bl : List Bytes)
    (script : List Ev) :
    ∃ m, dataFirsts (processRequest env oack (bl.map some) 0 script).obs = (idealPackets env.wrap 0 bl).take m ∧
      (((processRequest env oack (bl.map some) 0 script).out = .completed ∨
        (processRequest env oack (bl.map some) 0 script).out = .overflow) →
          (idealPackets env.wrap 0 bl).take m = idealPackets env.wrap 0 bl) ∧
      (processRequest env oack (bl.map some) 0 script).out ≠ .readFault := by
  unfold processRequest dataFirsts
  split
  · obtain ⟨m, h1, h2, _, h4⟩ := sendData_data env hw bl 0 0 script (by decide)
    exact ⟨m, h1, h2, h4⟩
  · obtain ⟨j, hj, _⟩ := clientData_sendWithRetry env (oackPacket oack) 0 (env.maxRetries + 1) 0 script
    have hop : opcodeOf (oackPacket oack) ≠ some opDATA := by
      rw [opcodeOf_oackPacket]; simp [opOACK_val, opDATA_val]
    simp only [hop, if_false] at hj
    generalize sendWithRetry env (oackPacket oack) 0 (env.maxRetries + 1) 0 script = r at hj
    cases hout : r.out with
    | acked =>
      simp only [hout]
      obtain ⟨m, h1, h2, _, h4⟩ := sendData_data env hw bl 0 r.now r.rest (by decide)
      exact ⟨m, by simpa [clientData_append, hj] using h1, by simpa using h2, by simpa using h4⟩
    | gaveUp => simp only [hout]; exact ⟨0, by simp [hj, dedupAdj], by simp, by simp⟩
    | invalid => simp only [hout]; exact ⟨0, by simp [hj, dedupAdj], by simp, by simp⟩
    | peerError => simp only [hout]; exact ⟨0, by simp [hj, dedupAdj], by simp, by simp⟩

theorem take_isPrefixOf (l : List Bytes) (m : Nat) : (l.take m).isPrefixOf l = true := by
  rw [List.isPrefixOf_iff_prefix]
  exact List.take_prefix m l

/-- **C01 / C08 on whole transfers**: for every configuration (wrap 0, 1 or none), request,
content, short-read pattern and event script, the model's trace passes `c01Check`: the DATA
packets are a prefix of the ideal sequence for the negotiated block size, and all of it unless
the trace shows an abort -/
theorem c01Check_runTransfer (cfg : Cfg) (hw : WrapOK cfg.wrap) (rrq : Rrq) (content : Bytes)
    (caps : List Nat) (sizeKnown : Bool) (script : List Ev) :
    c01Check rrq.netascii (negOf cfg rrq (.stream content caps sizeKnown none)).blockSize cfg.wrap
      (negOf cfg rrq (.stream content caps sizeKnown none)).timeout cfg.maxRetries content
      (runTransfer cfg rrq (.stream content caps sizeKnown none) script) = true := by
  generalize hh : HandlerResult.stream content caps sizeKnown none = h
  have hrun : runTransfer cfg rrq h script =
      (processRequest (envOf cfg rrq h) (negOf cfg rrq h).oack
        ((transferBlocks rrq.netascii (negOf cfg rrq h).blockSize content caps).map some) 0 script).obs ++
      (finish (processRequest (envOf cfg rrq h) (negOf cfg rrq h).oack
        ((transferBlocks rrq.netascii (negOf cfg rrq h).blockSize content caps).map some) 0 script).out
        (processRequest (envOf cfg rrq h) (negOf cfg rrq h).oack
        ((transferBlocks rrq.netascii (negOf cfg rrq h).blockSize content caps).map some) 0 script).now ++
       [Obs.closeFile, Obs.closeSocket]) := by
    subst hh
    simp [runTransfer, blockReads]
  have hideal : idealBlocks rrq.netascii (negOf cfg rrq h).blockSize content =
      transferBlocks rrq.netascii (negOf cfg rrq h).blockSize content caps := by
    rw [idealBlocks, transferBlocks_eq_split]
  obtain ⟨m, h1, h2, h3⟩ := processRequest_data (envOf cfg rrq h) hw (negOf cfg rrq h).oack
    (transferBlocks rrq.netascii (negOf cfg rrq h).blockSize content caps) script
  obtain ⟨P', hP, hPend, hPquiet⟩ := C02.c02Check_processRequest (envOf cfg rrq h) hw (negOf cfg rrq h).oack
    ((transferBlocks rrq.netascii (negOf cfg rrq h).blockSize content caps).map some) script
  generalize processRequest (envOf cfg rrq h) (negOf cfg rrq h).oack
    ((transferBlocks rrq.netascii (negOf cfg rrq h).blockSize content caps).map some) 0 script = pr at *
  have hwrap : (envOf cfg rrq h).wrap = cfg.wrap := rfl
  rw [hwrap] at h1 h2
  unfold c01Check
  simp only [hideal]
  have hdatas : dataFirsts (runTransfer cfg rrq h script) =
      (idealPackets cfg.wrap 0 (transferBlocks rrq.netascii (negOf cfg rrq h).blockSize content caps)).take m := by
    rw [hrun]
    unfold dataFirsts at h1 ⊢
    rw [clientData_append, clientData_finish, List.append_nil]
    exact h1
  rw [hdatas, take_isPrefixOf, Bool.true_and]
  have herr : isFlow err0 = false := isFlow_errorPacket _ _
  have hP2 : runSteps (c02Step (negOf cfg rrq h).timeout cfg.maxRetries) .idle pr.obs = some P' := hP
  -- the transfer is never abandoned with the retry budget of the outstanding packet unused
  have hfinal : noPrematureGiveUp (negOf cfg rrq h).timeout cfg.maxRetries (runTransfer cfg rrq h script) = true := by
    unfold noPrematureGiveUp
    rw [hrun, runSteps_append, hP2, Option.bind_some]
    cases hout : pr.out with
    | completed =>
      rcases hPquiet (Or.inl hout) with hq | ⟨c, hq, hack⟩
      · subst hq; simp [finish, runSteps, c02Step, finalOK]
      · subst hq; simp [finish, runSteps, c02Step, finalOK, hack]
    | overflow =>
      rcases hPquiet (Or.inr (Or.inl hout)) with hq | ⟨c, hq, _⟩ <;> subst hq <;>
        simp [finish, runSteps, c02Step, finalOK, herr]
    | readFault =>
      rcases hPquiet (Or.inr (Or.inr hout)) with hq | ⟨c, hq, _⟩ <;> subst hq <;>
        simp [finish, runSteps, c02Step, finalOK, herr]
    | gaveUp => rw [hPend (Or.inl hout)]; simp [finish, runSteps, c02Step, finalOK]
    | invalid => rw [hPend (Or.inr (Or.inl hout))]; simp [finish, runSteps, c02Step, finalOK, herr]
    | peerError => rw [hPend (Or.inr (Or.inr hout))]; simp [finish, runSteps, c02Step, finalOK]
  rw [hfinal, Bool.and_true]
  have hended : (pr.out = .gaveUp ∨ pr.out = .invalid ∨ pr.out = .peerError) →
      sawAbort (negOf cfg rrq h).timeout cfg.maxRetries (runTransfer cfg rrq h script) = true := by
    intro hc
    have hP' := hPend hc
    subst hP'
    unfold sawAbort
    rw [hrun, runSteps_append, hP2, Option.bind_some]
    rcases hc with hc | hc | hc <;> simp [hc, finish, runSteps, c02Step, herr]
  cases hout : pr.out with
  | completed => rw [h2 (Or.inl hout)]; simp
  | overflow => rw [h2 (Or.inr hout)]; simp
  | gaveUp => rw [hended (Or.inl hout)]; simp
  | invalid => rw [hended (Or.inr (Or.inl hout))]; simp
  | peerError => rw [hended (Or.inr (Or.inr hout))]; simp
  | readFault => exact absurd hout h3

/-- a transfer whose trace shows no abort delivered every ideal packet, i.e. (with
`blocks_flatten`/`blocks_framing`) exactly the supplied bytes in correctly framed blocks -/
theorem complete_unless_aborted (cfg : Cfg) (hw : WrapOK cfg.wrap) (rrq : Rrq) (content : Bytes)
    (caps : List Nat) (sizeKnown : Bool) (script : List Ev)
    (hna : sawAbort (negOf cfg rrq (.stream content caps sizeKnown none)).timeout cfg.maxRetries
      (runTransfer cfg rrq (.stream content caps sizeKnown none) script) = false) :
    dataFirsts (runTransfer cfg rrq (.stream content caps sizeKnown none) script) =
      idealPackets cfg.wrap 0
        (idealBlocks rrq.netascii (negOf cfg rrq (.stream content caps sizeKnown none)).blockSize content) := by
  have h := c01Check_runTransfer cfg hw rrq content caps sizeKnown script
  unfold c01Check at h
  simp only [hna, Bool.false_or, Bool.and_eq_true, beq_iff_eq] at h
  exact h.1.2

/-! ### block numbering -/

/-- the ideal packets are numbered 1, 2, 3, … up to 65535 -/
theorem idealPackets_numbers (wrap : Option Nat) :
    ∀ (bl : List Bytes) (prev i : Nat) (b : Bytes), prev + i < Generated.MAX_BLOCK_NUMBER →
      bl[i]? = some b → (idealPackets wrap prev bl)[i]? = some (dataPacket (prev + i + 1) b) := by
  intro bl
  induction bl with
  | nil => intro prev i b _ h; simp at h
  | cons x xs ih =>
    intro prev i b hlt hb
    have hne : prev ≠ Generated.MAX_BLOCK_NUMBER := by omega
    simp only [idealPackets, nextBlock, hne, if_false]
    cases i with
    | zero => simp at hb; simp [hb]
    | succ k =>
      simp only [List.getElem?_cons_succ] at hb ⊢
      have := ih (prev + 1) k b (by omega) hb
      rw [this]; congr 2; omega

/-- after block 65535 the numbering continues at the configured wrap value -/
theorem idealPackets_wraps (w : Nat) (b : Bytes) (rest : List Bytes) :
    idealPackets (some w) Generated.MAX_BLOCK_NUMBER (b :: rest) =
      dataPacket w b :: idealPackets (some w) w rest := by
  simp [idealPackets, nextBlock]

/-- without a wrap value no packet follows block 65535 (no block number is ever reused) … -/
theorem idealPackets_stops (bl : List Bytes) :
    idealPackets none Generated.MAX_BLOCK_NUMBER bl = [] := by
  cases bl <;> simp [idealPackets, nextBlock]

/-- … and the transfer ends with an ERROR packet: when the counter overflows the model leaves the
block loop with `overflow`, which `finish` answers with exactly one ERROR packet -/
theorem overflow_error_not_reuse (env : Env) (b : Bytes) (bs : List (Option Bytes)) (now : Nat) (s : List Ev)
    (hw : env.wrap = none) :
    (sendData env (some b :: bs) Generated.MAX_BLOCK_NUMBER now s).out = .overflow ∧
    (sendData env (some b :: bs) Generated.MAX_BLOCK_NUMBER now s).obs = [] ∧
    finish .overflow now = [Obs.send now 0 err0] := by
  simp [sendData, nextBlock, hw, finish]

/-! ### non-vacuity -/

/-- a 3-block transfer with one lost DATA, one duplicate ACK and one stale ACK completes and
passes the checker -/
example : c01Check false 8 (some 0) 2048 1 [1,2,3,4,5,6,7,8, 9,10,11,12,13,14,15,16, 17]
    (processRequest C02.demoEnv []
      ((transferBlocks false 8 [1,2,3,4,5,6,7,8, 9,10,11,12,13,14,15,16, 17] [3, 1]).map some) 0
      [.silence, .pkt 1 0 0 (ackPacket 1), .pkt 1 0 0 (ackPacket 1), .pkt 1 0 0 (ackPacket 2),
       .pkt 0 0 0 (ackPacket 0), .pkt 1 0 0 (ackPacket 3)]).obs = true := by
  decide

/-- dropping a byte (the pinned netascii defect, or any reader bug) is rejected -/
example : c01Check false 8 (some 0) 2048 1 [1,2,3,4,5,6,7,8,9]
    [.send 0 0 (dataPacket 1 [1,2,3,4,5,6,7,8]), .recv 1 1 0 (ackPacket 1),
     .send 1 0 (dataPacket 2 []), .recv 2 2 0 (ackPacket 2)] = false := by
  decide

end Vinegar.C01
