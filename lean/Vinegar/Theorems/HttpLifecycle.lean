import Vinegar.Spec.Http
/-
Lifecycle of `HttpServer` (HTTP half of C20): `start()` / `stop()` as the REPAIRED code runs them
(D8: `stop()` = `shutdown()` + `server_close()` + join of the main thread), sequentially and under
every interleaving at lock granularity.

What `_running_lock` really protects: both methods run entirely inside `with self._running_lock`,
so the statements of two lifecycle calls never interleave; a thread that finds the lock taken
waits.  The concurrent model (`Sys`, `step`, `exec`) therefore has one lock owner that advances
statement by statement (`Pc`), while scheduling any other thread is a no-op.  The intermediate
states inside a call (socket bound but flag still false, …) are NOT consistent — the theorem
says that they are never visible once every call has returned.
-/
namespace Vinegar.HttpLifecycle
open Vinegar.Http.Lifecycle Vinegar.Http.Spec Vinegar.Http.Spec.Lifecycle

/-! ### sequential calls -/

theorem call_start_ok (s : State) :
    call s (.start true) =
      if s.running then (s, false)
      else ({ s with serverObj := true, listening := true, threadRef := true, threadAlive := true,
                     running := true }, false) := by
  obtain ⟨a, b, c, d, e⟩ := s
  cases a <;> rfl

theorem call_start_blocked (s : State) :
    call s (.start false) = if s.running then (s, false) else (s, true) := by
  obtain ⟨a, b, c, d, e⟩ := s
  cases a <;> rfl

theorem call_stop (s : State) :
    call s .stop =
      if s.running then
        ({ s with listening := false, threadRef := false, threadAlive := false, running := false }, false)
      else (s, false) := by
  obtain ⟨a, b, c, d, e⟩ := s
  cases a <;> rfl

/-- **`start()` is idempotent**: from ANY state, a second `start()` changes nothing and does not
raise (whether or not the port could be bound). -/
theorem start_idem (s : State) (b b' : Bool) (h : (call s (.start b)).2 = false) :
    call (call s (.start b)).1 (.start b') = ((call s (.start b)).1, false) := by
  obtain ⟨r, so, l, tr, ta⟩ := s
  cases b <;> cases b' <;> cases r <;> simp_all [call_start_ok, call_start_blocked]

/-- **`stop()` is idempotent**: from ANY state, a second `stop()` changes nothing, and neither raises. -/
theorem stop_idem (s : State) :
    call (call s .stop).1 .stop = ((call s .stop).1, false) ∧ (call s .stop).2 = false := by
  obtain ⟨r, so, l, tr, ta⟩ := s
  cases r <;> simp [call_stop]

theorem call_consistent (s : State) (op : Op) (h : consistent s = true) :
    consistent (call s op).1 = true := by
  obtain ⟨r, so, l, tr, ta⟩ := s
  cases op with
  | start b =>
    cases b <;> cases r <;> cases so <;> cases l <;> cases tr <;> cases ta <;> first | rfl | exact h
  | stop =>
    cases r <;> cases so <;> cases l <;> cases tr <;> cases ta <;> first | rfl | exact h

/-- **Lifecycle invariant**: every sequential history of `start` (binding or failing to bind) and
`stop` calls on a fresh server leaves it fully running or fully stopped after every call. -/
theorem lifecycle_inv (s : State) (ops : List Op) (h : consistent s = true) :
    consistent (run s ops) = true := by
  induction ops generalizing s with
  | nil => exact h
  | cons op ops ih => exact ih _ (call_consistent s op h)

theorem lifecycle_inv_init (ops : List Op) : consistent (run init ops) = true :=
  lifecycle_inv init ops (by decide)

/-- **A quiescent `stop()` releases everything**: when it returns (from any consistent state) the
flag is down, the listening socket is closed — clients are refused and a new bind succeeds — and
the main thread has been joined and forgotten; the call does not raise. -/
theorem quiescent_stop_releases (s : State) (h : consistent s = true) :
    let r := call s .stop
    r.2 = false ∧ fullyStopped r.1 = true ∧ connectRefused r.1 = true ∧ rebindPossible r.1 = true ∧
      mainThreadEnded r.1 = true ∧ serves r.1 = false := by
  obtain ⟨r, so, l, tr, ta⟩ := s
  cases r <;> cases so <;> cases l <;> cases tr <;> cases ta <;> first | decide | exact absurd h (by decide)

/-- **Restart serves**: `stop()` followed by `start()` on the same object (port free) gives a fully
running server that accepts and serves; and `start()` on a stopped server whose port is taken by
somebody else raises and leaves it fully stopped. -/
theorem restart_serves (s : State) (h : consistent s = true) :
    let s1 := (call s .stop).1
    fullyRunning (call s1 (.start true)).1 = true ∧ serves (call s1 (.start true)).1 = true ∧
      (call s1 (.start true)).2 = false ∧
      fullyStopped (call s1 (.start false)).1 = true ∧ (call s1 (.start false)).2 = true := by
  obtain ⟨r, so, l, tr, ta⟩ := s
  cases r <;> cases so <;> cases l <;> cases tr <;> cases ta <;> first | decide | exact absurd h (by decide)

/-- the prober's view of a consistent state is a consistent probe (ties the state predicate to what
the harness can observe) -/
theorem probe_of_consistent (s : State) (h : consistent s = true) :
    probeConsistent (expectProbe s false) = true := by
  obtain ⟨r, so, l, tr, ta⟩ := s
  cases r <;> cases so <;> cases l <;> cases tr <;> cases ta <;> first | decide | exact absurd h (by decide)

/-- the history checker accepts the probes the automaton predicts, for every history -/
theorem historyCheck_model (s : State) (ops : List Op) (i : Nat) :
    historyCheck s (ops.zip (modelProbes s ops)) i = none := by
  induction ops generalizing s i with
  | nil => simp [historyCheck]
  | cons op ops ih =>
    simp only [modelProbes, List.zip_cons_cons, historyCheck]
    have : firstFailed (probeClauses (call s op).1 (call s op).2 (expectProbe (call s op).1 (call s op).2)) = none := by
      simp [firstFailed, probeClauses, expectProbe]
    rw [this]
    exact ih _ _

/-! ### all interleavings -/

/-- what holds for the state while the lock owner is at `pc` -/
def pcInv : Pc → State → Bool
  | .startCheck _, s => consistent s
  | .startBind _, s => fullyStopped s
  | .startThread, s => !s.running && s.serverObj && s.listening && !s.threadRef && !s.threadAlive
  | .startFlag, s => !s.running && s.serverObj && s.listening && s.threadRef && s.threadAlive
  | .stopCheck, s => consistent s
  | .stopShutdown, s => fullyRunning s
  | .stopClose, s => fullyRunning s
  | .stopJoin, s => s.running && s.serverObj && !s.listening && s.threadRef && s.threadAlive
  | .stopFlag, s => s.running && !s.listening && !s.threadRef && !s.threadAlive

def postOk (r : State × Option Pc × Bool) : Bool :=
  match r.2.1 with
  | none => consistent r.1
  | some pc' => pcInv pc' r.1

/-- every statement of `start`/`stop` leads from its precondition to the next statement's
precondition, and the statement that leaves the `with` block leaves a consistent state
(exhaustive over the 32 states and all program points) -/
theorem micro_inv (pc : Pc) (s : State) (h : pcInv pc s = true) : postOk (micro s pc) = true := by
  obtain ⟨r, so, l, tr, ta⟩ := s
  revert h
  cases pc with
  | startCheck b => cases b <;> cases r <;> cases so <;> cases l <;> cases tr <;> cases ta <;> decide
  | startBind b => cases b <;> cases r <;> cases so <;> cases l <;> cases tr <;> cases ta <;> decide
  | startThread => cases r <;> cases so <;> cases l <;> cases tr <;> cases ta <;> decide
  | startFlag => cases r <;> cases so <;> cases l <;> cases tr <;> cases ta <;> decide
  | stopCheck => cases r <;> cases so <;> cases l <;> cases tr <;> cases ta <;> decide
  | stopShutdown => cases r <;> cases so <;> cases l <;> cases tr <;> cases ta <;> decide
  | stopClose => cases r <;> cases so <;> cases l <;> cases tr <;> cases ta <;> decide
  | stopJoin => cases r <;> cases so <;> cases l <;> cases tr <;> cases ta <;> decide
  | stopFlag => cases r <;> cases so <;> cases l <;> cases tr <;> cases ta <;> decide

/-- invariant of the concurrent system -/
def Inv (y : Sys) : Prop :=
  match y.lock with
  | none => consistent y.st = true
  | some (_, pc) => pcInv pc y.st = true

theorem first_inv (op : Op) (s : State) (h : consistent s = true) : pcInv (Pc.first op) s = true := by
  cases op <;> exact h

theorem step_inv (y : Sys) (t : Nat) (h : Inv y) : Inv (step y t) := by
  unfold step
  cases hl : y.lock with
  | none =>
    simp only [Inv, hl] at h
    cases ht : y.todo t with
    | nil => simpa [Inv, hl] using h
    | cons op rest => simpa [Inv] using first_inv op y.st h
  | some oc =>
    obtain ⟨owner, pc⟩ := oc
    simp only [Inv, hl] at h
    by_cases ho : owner = t
    · have hm := micro_inv pc y.st h
      simp only [ho, ↓reduceIte]
      rcases hmic : micro y.st pc with ⟨s', next, r⟩
      rw [hmic] at hm
      cases next with
      | none => simpa [Inv, postOk] using hm
      | some pc' => simpa [Inv, postOk] using hm
    · simpa [ho, Inv, hl] using h

theorem exec_inv (y : Sys) (sched : List Nat) (h : Inv y) : Inv (exec y sched) := by
  induction sched generalizing y with
  | nil => exact h
  | cons t rest ih => exact ih _ (step_inv y t h)

/-- **Concurrent calls end consistently.** For ANY number of threads, ANY lists of `start` /
`stop` calls per thread, and ANY interleaving at lock granularity (schedule), starting from a
quiescent consistent server: whenever the lock is free — in particular once all calls have
returned — the server is fully running or fully stopped. -/
theorem concurrent_end_consistent (y0 : Sys) (h0 : y0.lock = none) (hc : consistent y0.st = true)
    (sched : List Nat) :
    ((exec y0 sched).lock = none → consistent (exec y0 sched).st = true) ∧
    ((exec y0 sched).allReturned → consistent (exec y0 sched).st = true ∧
        probeConsistent (expectProbe (exec y0 sched).st false) = true) := by
  have hinv : Inv (exec y0 sched) := exec_inv y0 sched (by simpa [Inv, h0] using hc)
  have key : (exec y0 sched).lock = none → consistent (exec y0 sched).st = true := by
    intro hl
    simpa [Inv, hl] using hinv
  exact ⟨key, fun hr => ⟨key hr.1, probe_of_consistent _ (key hr.1)⟩⟩

/-- a call raises only at the bind that the OS refuses (the port is held by somebody else) -/
theorem raise_only_when_bind_fails (s : State) (pc : Pc) (h : (micro s pc).2.2 = true) :
    pc = .startBind false := by
  cases pc with
  | startBind b => cases b <;> simp_all [micro]
  | startCheck b => simp only [micro] at h; split at h <;> simp at h
  | stopCheck => simp only [micro] at h; split at h <;> simp at h
  | _ => simp [micro] at h

/-- **No deadlock at the lock**: the owner never waits for anybody — scheduling it always advances
it, and after at most five of its own steps the lock is free again. -/
theorem holder_releases (y : Sys) (o : Nat) (pc : Pc) (hl : y.lock = some (o, pc)) :
    ∃ k, k ≤ 5 ∧ (exec y (List.replicate k o)).lock = none := by
  have one : ∀ (y : Sys) (pc : Pc), y.lock = some (o, pc) →
      (step y o).lock = (match (micro y.st pc).2.1 with
        | none => none
        | some pc' => some (o, pc')) ∧ (step y o).st = (micro y.st pc).1 := by
    intro y pc hl
    unfold step
    simp only [hl, ↓reduceIte]
    rcases hm : micro y.st pc with ⟨s', next, r⟩
    cases next <;> simp
  -- walk down the program points
  have flag_s : ∀ y : Sys, y.lock = some (o, .startFlag) → (exec y [o]).lock = none := by
    intro y h; simpa [exec, micro] using (one y _ h).1
  have flag_p : ∀ y : Sys, y.lock = some (o, .stopFlag) → (exec y [o]).lock = none := by
    intro y h; simpa [exec, micro] using (one y _ h).1
  have thread_s : ∀ y : Sys, y.lock = some (o, .startThread) → (exec y [o, o]).lock = none := by
    intro y h
    have := (one y _ h).1
    simp only [micro] at this
    simpa [exec] using flag_s (step y o) this
  have join_p : ∀ y : Sys, y.lock = some (o, .stopJoin) → (exec y [o, o]).lock = none := by
    intro y h
    have := (one y _ h).1
    simp only [micro] at this
    simpa [exec] using flag_p (step y o) this
  have close_p : ∀ y : Sys, y.lock = some (o, .stopClose) → (exec y [o, o, o]).lock = none := by
    intro y h
    have := (one y _ h).1
    simp only [micro] at this
    simpa [exec] using join_p (step y o) this
  have shut_p : ∀ y : Sys, y.lock = some (o, .stopShutdown) → (exec y [o, o, o, o]).lock = none := by
    intro y h
    have := (one y _ h).1
    simp only [micro] at this
    simpa [exec] using close_p (step y o) this
  have bind_s : ∀ (y : Sys) b, y.lock = some (o, .startBind b) →
      ∃ k, k ≤ 3 ∧ (exec y (List.replicate k o)).lock = none := by
    intro y b h
    have := (one y _ h).1
    cases b
    · exact ⟨1, by omega, by simpa [exec, micro, List.replicate] using this⟩
    · simp only [micro] at this
      exact ⟨3, by omega, by simpa [exec, List.replicate] using thread_s (step y o) this⟩
  cases pc with
  | startFlag => exact ⟨1, by omega, by simpa [List.replicate] using flag_s y hl⟩
  | stopFlag => exact ⟨1, by omega, by simpa [List.replicate] using flag_p y hl⟩
  | startThread => exact ⟨2, by omega, by simpa [List.replicate] using thread_s y hl⟩
  | stopJoin => exact ⟨2, by omega, by simpa [List.replicate] using join_p y hl⟩
  | stopClose => exact ⟨3, by omega, by simpa [List.replicate] using close_p y hl⟩
  | stopShutdown => exact ⟨4, by omega, by simpa [List.replicate] using shut_p y hl⟩
  | startBind b =>
    obtain ⟨k, hk, h⟩ := bind_s y b hl
    exact ⟨k, by omega, h⟩
  | startCheck b =>
    have := (one y _ hl).1
    by_cases hr : y.st.running = true
    · exact ⟨1, by omega, by simpa [exec, micro, hr, List.replicate] using this⟩
    · simp only [micro, hr] at this
      obtain ⟨k, hk, h⟩ := bind_s (step y o) b (by simpa using this)
      exact ⟨k + 1, by omega, by simpa [exec, List.replicate] using h⟩
  | stopCheck =>
    have := (one y _ hl).1
    by_cases hr : y.st.running = true
    · simp only [micro, hr] at this
      exact ⟨5, by omega, by simpa [exec, List.replicate] using shut_p (step y o) (by simpa using this)⟩
    · exact ⟨1, by omega, by simpa [exec, micro, hr, List.replicate] using this⟩

/-! ### the pinned `stop()` (D8) is rejected; the hypotheses are satisfiable -/

/-- D8: after `start(); stop()` the pinned code is neither running nor stopped … -/
example : consistent (stopPinned (call init (.start true)).1) = false := by decide

/-- … a prober sees the port still accepting and not re-bindable, and the checker names it -/
example : historyCheck init
    [(.start true, ⟨false, true, true, false, true⟩), (.stop, ⟨false, true, false, false, false⟩)] 0
      = some (1, "port") := by decide

/-- the repaired behaviour passes the same check -/
example : historyCheck init
    [(.start true, ⟨false, true, true, false, true⟩), (.stop, ⟨false, false, false, true, false⟩),
     (.start true, ⟨false, true, true, false, true⟩)] 0 = none := by decide

/-- two threads, `start` against `stop`, one particular interleaving: ends consistent -/
example :
    let y0 : Sys := ⟨init, none, fun t => if t = 0 then [.start true] else if t = 1 then [.stop, .start true] else [], 0⟩
    consistent (exec y0 [1, 0, 1, 1, 0, 0, 0, 1, 0, 0, 1, 1, 1, 1, 1]).st = true := by decide

end Vinegar.HttpLifecycle
