import Vinegar.Lemmas.MatcherSound
/-
C18 — System matcher: grammar, precedence, quoting, evaluation equal the documentation.

Model: `Vinegar/Model/Matcher.lean` (the recursive-descent parser of `_parser/*.py`, character by
character, the evaluator, the LRU expression cache). Spec: `Vinegar/Spec/Matcher.lean` (concrete
syntax trees = the documented renderings of an expression tree; printer family; Bool checkers of
one observation of `match()`).

What the theorems say about the property:
* `parse_render` / `eval_parse_print` / `parse_printTop` / `matchObs_printTop`: for EVERY expression
  tree, EVERY legal rendering (minimal or redundant parentheses, any legal whitespace, either
  quoting, `/` with or without `i`, the prefix-less shorthand) is accepted and evaluates like the tree
  under EVERY valuation of the terms, for every system id and data dictionary;
  `precedence_not_and_or`: `not` > `and` > `or`.
* `parse_total`, `matchObs_value_or_ValueError`: the parser is total (fuel never runs out); the only
  documented outcomes of `match()` are a Boolean or `ValueError`.
* `reject_*`: the documented error classes are rejected (keyword misuse, unknown `@` type,
  unterminated quotes/escapes, empty unquoted pattern/key, unbalanced parentheses, bad regular
  expression).
* `cache_irrelevant`, `cache_history`, `first_use_eq_cached_use`: the expression cache is a pure memo.
* `parse_sound`, `parse_iff_rendering`, `reject_every_other_string`, `accepted_meaning`,
  `renderings_unambiguous`: the converse — EVERY accepted string is a legal rendering of exactly the
  tree the parser returns, so the legal renderings are exactly the accepted language, every other
  string raises `ValueError`, and a value returned by `match()` is the documented value of every tree
  the string is a rendering of. `keyword_before_paren`: the one family in `legal` that is behaviour
  of the code rather than a promise of the documentation (`(and)`).
* `checkCase_model`: the checker evaluated on the implementation's observations accepts every model
  observation. `generated_tables`: the tie to the translator.
Terms (`re`, `fnmatch`) are an abstract valuation `am : Atom → σ → Bool`; nothing is assumed of it.
-/
namespace Vinegar.C18
open Vinegar Vinegar.Matcher

/-- Every legal rendering (any concrete syntax tree that respects precedence, keyword
    separation and quoting rules, with any whitespace at every place where whitespace may
    stand, minimal or redundant parentheses, either quoting) is accepted and denotes exactly
    the tree it was written from. -/
theorem parse_render (lead : Str) (c : Cst) (trail : Str) (hl : legalTop lead c trail = true) :
    parse (renderTop lead c trail) = .ok (abstract c) :=
  parse_renderTop lead c trail hl

/-- `eval (parse (print t)) = eval t` for ALL legal renderings of ALL trees under EVERY valuation
    of the terms and every system. -/
theorem eval_parse_print (t : Expr) (lead : Str) (c : Cst) (trail : Str) (hl : legalTop lead c trail = true)
    (hc : abstract c = t) :
    ∃ t', parse (renderTop lead c trail) = .ok t' ∧
      ∀ (σ : Type) (am : Atom → σ → Bool) (sys : σ), eval am t' sys = eval am t sys :=
  ⟨t, by rw [parse_render lead c trail hl, hc], fun _ _ _ => rfl⟩

/-- the printer family: every tree whose data keys are non-empty, printed in any well-formed
    style, is parsed back to itself -/
theorem parse_printTop (sty : Style) (hs : sty.ok = true) (t : Expr) (ht : printable t = true) :
    parse (printTop sty t) = .ok t := by
  have hl : legalTop sty.pad (print sty t) sty.pad = true := by
    have := hs
    simp only [Style.ok, Bool.and_eq_true] at this
    simp [legalTop, this.2, legal_print sty hs t ht, endsKeyword_print sty t]
  unfold printTop
  rw [parse_render _ _ _ hl, abstract_print]

/-- `match()` on a printed tree returns the documented value of the tree -/
theorem matchObs_printTop {σ : Type} (atomOk : Atom → Bool) (am : Atom → σ → Bool) (sty : Style) (hs : sty.ok = true)
    (t : Expr) (ht : printable t = true) (hok : t.atoms.all atomOk = true) (sys : σ) :
    matchObs atomOk am (printTop sty t) sys = .result (eval am t sys) := by
  simp [matchObs, compile, parse_printTop sty hs t ht, hok]

example : styles.all Style.ok = true := styles_ok

/-- Precedence `not` > `and` > `or`, left to right: without parentheses
    `not a and b or c` is `((not a) and b) or c` and `a or b and not c` is `a or (b and (not c))`,
    for all legally spelled terms `a b c` (none of them one of the three words written without
    quotes or prefix) and any (non-empty) whitespace between the words. -/
theorem precedence_not_and_or (a b c : AtomSyn) (ha : legalAtom a = true) (hb : legalAtom b = true)
    (hc : legalAtom c = true) (hka : bareKeyword a = false) (hkb : bareKeyword b = false) (hkc : bareKeyword c = false)
    (w1 w2 w3 w4 w5 : Str)
    (hw : allSpace w1 = true ∧ allSpace w2 = true ∧ allSpace w3 = true ∧ allSpace w4 = true ∧ allSpace w5 = true)
    (hne : w1 ≠ [] ∧ w2 ≠ [] ∧ w3 ≠ [] ∧ w4 ≠ [] ∧ w5 ≠ []) :
    parse (kwNot ++ w1 ++ renderAtom a ++ w2 ++ kwAnd ++ w3 ++ renderAtom b ++ w4 ++ kwOr ++ w5 ++ renderAtom c) =
        .ok (.or (.and (.not (.atom a.atom)) (.atom b.atom)) (.atom c.atom)) ∧
    parse (renderAtom a ++ w1 ++ kwOr ++ w2 ++ renderAtom b ++ w3 ++ kwAnd ++ w4 ++ kwNot ++ w5 ++ renderAtom c) =
        .ok (.or (.atom a.atom) (.and (.atom b.atom) (.not (.atom c.atom)))) := by
  obtain ⟨h1, h2, h3, h4, h5⟩ := hw
  obtain ⟨n1, n2, n3, n4, n5⟩ := hne
  have e1 : ∀ w : Str, w ≠ [] → (!w.isEmpty) = true := by
    intro w h; cases w with
    | nil => exact absurd rfl h
    | cons _ _ => rfl
  constructor
  · have := parse_render [] (.or (.and (.not w1 (.atom a)) w2 w3 (.atom b)) w4 w5 (.atom c)) []
      (by simp [legalTop, legal, endsKeyword, allSpace, level, *] <;> simp_all [allSpace])
    simpa [renderTop, render, abstract] using this
  · have := parse_render [] (.or (.atom a) w1 w2 (.and (.atom b) w3 w4 (.not w5 (.atom c)))) []
      (by simp [legalTop, legal, endsKeyword, allSpace, level, *] <;> simp_all [allSpace])
    simpa [renderTop, render, abstract] using this

/-- The parser is total: every string is either accepted with a tree or rejected with a
    parse error; the termination fuel is never exhausted. -/
theorem parse_total (s : Str) :
    (∃ e, parse s = .ok e) ∨ (∃ err, parse s = .error err ∧ err ≠ .fuel) := by
  cases h : parse s with
  | ok e => exact Or.inl ⟨e, rfl⟩
  | error err =>
    refine Or.inr ⟨err, rfl, ?_⟩
    intro he; subst he
    exact parse_ne_fuel s h

/-- `match()` either returns the documented value of the denoted tree or raises `ValueError`
    — there is no third outcome in the documented behaviour. -/
theorem matchObs_value_or_ValueError {σ : Type} (atomOk : Atom → Bool) (am : Atom → σ → Bool) (s : Str) (sys : σ) :
    (∃ e, compile atomOk s = .ok e ∧ matchObs atomOk am s sys = .result (eval am e sys)) ∨
    (∃ err, compile atomOk s = .error err ∧ matchObs atomOk am s sys = .raised "ValueError") := by
  unfold matchObs
  cases h : compile atomOk s with
  | ok e => exact Or.inl ⟨e, rfl, rfl⟩
  | error err => exact Or.inr ⟨err, rfl, rfl⟩

/-! ### the expression cache -/

/-- The cache is a pure memo: whatever (valid) state it is in, a call returns what compiling the
    string from scratch returns, and leaves the cache valid — hits, misses, evictions included. -/
theorem cache_irrelevant (atomOk : Atom → Bool) (c : Cache) (hv : CacheValid atomOk c) (s : Str) :
    (c.get atomOk s).1 = compile atomOk s ∧ CacheValid atomOk (c.get atomOk s).2 := by
  unfold Cache.get
  cases hl : c.entries.lookup s with
  | some e =>
    have hm := lookup_mem hl
    have := hv _ hm
    refine ⟨this.symm, ?_⟩
    intro p hp
    simp at hp
    rcases hp with rfl | hp
    · exact this
    · exact hv p hp.1
  | none =>
    cases hc : compile atomOk s with
    | ok e =>
      refine ⟨rfl, ?_⟩
      intro p hp
      have hp' := List.mem_of_mem_take hp
      simp at hp'
      rcases hp' with rfl | hp'
      · exact hc
      · exact hv p hp'
    | error err => exact ⟨rfl, hv⟩

theorem matchCached_spec {σ : Type} (atomOk : Atom → Bool) (am : Atom → σ → Bool) (c : Cache)
    (hv : CacheValid atomOk c) (s : Str) (sys : σ) :
    (matchCached atomOk am c s sys).1 = matchObs atomOk am s sys ∧
      CacheValid atomOk (matchCached atomOk am c s sys).2 := by
  obtain ⟨h1, h2⟩ := cache_irrelevant atomOk c hv s
  unfold matchCached matchObs
  rw [← h1]
  generalize c.get atomOk s = g at h2 ⊢
  obtain ⟨r, c'⟩ := g
  cases r with
  | ok e => exact ⟨rfl, h2⟩
  | error err => exact ⟨rfl, h2⟩

/-- Any history of `match()` calls through one cache (from any valid state, in particular the
    empty one) observes exactly what cache-less evaluation observes. -/
theorem cache_history {σ : Type} (atomOk : Atom → Bool) (am : Atom → σ → Bool) (c : Cache)
    (hv : CacheValid atomOk c) (calls : List (Str × σ)) :
    runCached atomOk am c calls = calls.map (fun p => matchObs atomOk am p.1 p.2) := by
  induction calls generalizing c with
  | nil => rfl
  | cons x t ih =>
    obtain ⟨s, sys⟩ := x
    obtain ⟨h1, h2⟩ := matchCached_spec atomOk am c hv s sys
    simp only [runCached, List.map_cons, h1]
    rw [ih _ h2]

/-- first use = cached use -/
theorem first_use_eq_cached_use {σ : Type} (atomOk : Atom → Bool) (am : Atom → σ → Bool) (c : Cache)
    (hv : CacheValid atomOk c) (s : Str) (sys : σ) :
    (matchCached atomOk am (matchCached atomOk am c s sys).2 s sys).1 = (matchCached atomOk am c s sys).1 := by
  obtain ⟨h1, h2⟩ := matchCached_spec atomOk am c hv s sys
  rw [(matchCached_spec atomOk am _ h2 s sys).1, h1]

/-- The spec checker the driver evaluates on the implementation's observations accepts
    everything the model observes (all four uses, any universe of systems). -/
theorem checkCase_model {σ : Type} (atomOk : Atom → Bool) (am : Atom → σ → Bool) (s : Str) (systems : List σ) :
    checkCase (compile atomOk s) am systems (modelCaseObs atomOk am s systems) = true := by
  unfold modelCaseObs
  simp only []
  rw [cache_history atomOk am Cache.empty (cacheValid_empty atomOk)]
  have hmap : (systems.map (fun sys => (s, sys)) ++ systems.map (fun sys => (s, sys))).map
      (fun p => matchObs atomOk am p.1 p.2) =
      systems.map (fun sys => matchObs atomOk am s sys) ++ systems.map (fun sys => matchObs atomOk am s sys) := by
    simp [List.map_append, List.map_map, Function.comp_def]
  rw [hmap]
  have ht : (systems.map (fun sys => matchObs atomOk am s sys) ++ systems.map (fun sys => matchObs atomOk am s sys)).take
      systems.length = systems.map (fun sys => matchObs atomOk am s sys) := by
    rw [List.take_left' (by simp)]
  have hd : (systems.map (fun sys => matchObs atomOk am s sys) ++ systems.map (fun sys => matchObs atomOk am s sys)).drop
      systems.length = systems.map (fun sys => matchObs atomOk am s sys) := by
    rw [List.drop_left' (by simp)]
  simp only [checkCase, checkCache, ht, hd, checkSystems_map, beq_self_eq_true, Bool.and_self]

/-! ### rejection: "every other string is rejected with ValueError" — the documented error classes -/

/-- unknown `@` type: an expression starting with `@` that starts none of the six documented
    prefixes is rejected -/
theorem reject_unknown_type (rest : Str) (h1 : acceptPrefix dataTable ('@' :: rest) = none)
    (h2 : acceptPrefix idTable ('@' :: rest) = none) : parse ('@' :: rest) = .error .unsupportedType := by
  apply parse_of_unary_error _ _ (noSpaceHead_cons '@' rest (by decide))
  show unary (rest.length + 1 + 1) ⟨none, '@' :: rest⟩ = _
  rw [unary_succ_nonparen _ none '@' rest (by decide)]
  apply unaryRest_simple_error _ _ _ _ _ (by decide)
  rw [simple, h1, h2, unsupportedStart_eq]
  simp [dropPrefix?]

example : parse "@foo@x".toList = .error .unsupportedType :=
  reject_unknown_type _ (by rw [dataTable_eq]; decide) (by rw [idTable_eq]; decide)

/-- keyword misuse: `and` / `or` where an operand must stand -/
theorem reject_keyword_as_operand (kw rest : Str) (hkw : kw = kwAnd ∨ kw = kwOr)
    (hrest : rest = [] ∨ ∃ d t, rest = d :: t ∧ (d = '(' ∨ isSpace d = true)) :
    parse (kw ++ rest) = .error .keywordMisplaced := by
  have hat : keywordAt kw (kw ++ rest) = true := (keywordAt_self kw rest).2 hrest
  have hfind : findKeyword keywords (kw ++ rest) = some kw := by
    rw [keywords_eq]
    rcases hkw with rfl | rfl
    · simp [findKeyword, List.find?, hat]
    · have h1 : keywordAt kwAnd (kwOr ++ rest) = false := by simp [keywordAt, dropPrefix?, kwAnd, kwOr]
      have h2 : keywordAt kwNot (kwOr ++ rest) = false := by simp [keywordAt, dropPrefix?, kwNot, kwOr]
      simp [findKeyword, List.find?, h1, h2, hat]
  obtain ⟨d, t, hdt, hd⟩ : ∃ d t, kw ++ rest = d :: t ∧ d ≠ '(' ∧ isSpace d = false := by
    rcases hkw with rfl | rfl
    · exact ⟨'a', _, rfl, by decide, by decide⟩
    · exact ⟨'o', _, rfl, by decide, by decide⟩
  apply parse_of_unary_error _ _ (by rw [hdt]; exact noSpaceHead_cons d t hd.2)
  rw [hdt, unary_succ_nonparen _ none d t hd.1, ← hdt]
  unfold unaryRest
  rw [peekKeyword_hit keywords kw none _ hfind (Or.inl rfl)]
  have : kw ≠ kwNot := by rcases hkw with rfl | rfl <;> decide
  simp [this]

/-- keyword misuse: `not` without an operand -/
theorem reject_missing_operand (ws : Str) (hws : allSpace ws = true) : parse (kwNot ++ ws) = .error .emptyPattern := by
  apply parse_of_unary_error (kwNot ++ ws) _ (noSpaceHead_cons 'n' (['o', 't'] ++ ws) (by decide))
  have hat : keywordAt kwNot (kwNot ++ ws) = true := by
    rw [keywordAt_self]
    cases ws with
    | nil => exact Or.inl rfl
    | cons w t => exact Or.inr ⟨w, t, rfl, Or.inr (by simp [allSpace] at hws; exact hws.1)⟩
  have e1 : kwNot ++ ws = 'n' :: (['o', 't'] ++ ws) := rfl
  rw [e1, unary_succ_nonparen _ none 'n' _ (by decide), ← e1]
  unfold unaryRest
  rw [peekKeyword_hit keywords kwNot none _ (findKeyword_not _ hat) (Or.inl rfl)]
  simp only [if_true, consume_append]
  have : skipWs ⟨lastOr none kwNot, ws⟩ = ⟨lastOr (lastOr none kwNot) ws, []⟩ := by
    simpa using skipWs_append (lastOr none kwNot) ws [] hws (fun _ _ h => by cases h)
  rw [this]
  have hlen : (kwNot ++ ws).length = (ws.length + 2) + 1 := by simp [kwNot]
  rw [hlen, unary_nil]

/-- unterminated quotes -/
theorem reject_unterminated_quote (q : Quote) (t : Str) :
    parse (q.char :: escape q.char t) = .error (.expected "closing quote") := by
  apply parse_quoted_error
  have := quoted_escape_error q.char (quote_ne_escape q) t [] _ (by rw [quoted])
  simpa using this

/-- unterminated escape: a backslash as the last character inside quotes -/
theorem reject_unterminated_escape (q : Quote) (t : Str) :
    parse (q.char :: (escape q.char t ++ ['\\'])) = .error (.expected "quote or escape character") := by
  apply parse_quoted_error
  apply quoted_escape_error q.char (quote_ne_escape q)
  rw [quoted.eq_def]
  simp [(isEscape_iff '\\').2 rfl]

/-- a backslash inside quotes may only be followed by the quote in use or a backslash -/
theorem reject_bad_escape (q : Quote) (t : Str) (x : Char) (rest : Str) (hx : x ≠ q.char ∧ x ≠ '\\') :
    parse (q.char :: (escape q.char t ++ '\\' :: x :: rest)) = .error (.expected "quote or escape character") := by
  apply parse_quoted_error
  apply quoted_escape_error q.char (quote_ne_escape q)
  have : isEscape x = false := by
    cases h : isEscape x with
    | false => rfl
    | true => exact absurd ((isEscape_iff x).1 h) hx.2
  rw [quoted.eq_def]
  simp [(isEscape_iff '\\').2 rfl, hx.1, this]

/-- empty unquoted pattern after an `@id_…@` prefix (end of input, whitespace or a reserved
    character follows) -/
theorem reject_empty_pattern (kind : Kind) (slash cs : Bool) (k : Str) (h : slash = true ∨ cs = true) (hk : StopP k) :
    parse (['@', 'i', 'd', '_'] ++ (kindName kind ++ (renderOpts slash cs ++ ('@' :: k)))) = .error .emptyPattern := by
  apply parse_of_unary_error (['@', 'i', 'd', '_'] ++ (kindName kind ++ (renderOpts slash cs ++ ('@' :: k)))) _
    (noSpaceHead_cons '@' (['i', 'd', '_'] ++ (kindName kind ++ (renderOpts slash cs ++ ('@' :: k)))) (by decide))
  have e1 : ['@', 'i', 'd', '_'] ++ (kindName kind ++ (renderOpts slash cs ++ ('@' :: k))) =
      '@' :: (['i', 'd', '_'] ++ (kindName kind ++ (renderOpts slash cs ++ ('@' :: k)))) := rfl
  rw [e1]
  show unary (_ + 1 + 1) _ = _
  rw [unary_succ_nonparen _ none '@' _ (by decide)]
  apply unaryRest_simple_error _ _ _ _ _ (by decide)
  rw [← e1]
  obtain ⟨hnone, o, r1, hacc, hopt⟩ := id_head kind slash cs k h
  rw [simple, hnone, hacc]
  simp only [hopt, expectPattern_empty k hk]

example : parse "@id_glob@".toList = .error .emptyPattern :=
  reject_empty_pattern .glob false true [] (Or.inr rfl) (Or.inl rfl)

/-- empty key after an `@data_…:` prefix: unquoted (`@data_glob:@v`) or quoted (`@data_glob:''@v`) -/
theorem reject_empty_key (kind : Kind) (slash cs : Bool) (k : Str) (h : slash = true ∨ cs = true)
    (hk : (∃ d k', k = d :: k' ∧ isStopKey d = true) ∨ (∃ q : Quote, ∃ k', k = q.char :: q.char :: k')) :
    parse (['@', 'd', 'a', 't', 'a', '_'] ++ (kindName kind ++ (renderOpts slash cs ++ (':' :: k)))) = .error .emptyKey := by
  apply parse_of_unary_error (['@', 'd', 'a', 't', 'a', '_'] ++ (kindName kind ++ (renderOpts slash cs ++ (':' :: k)))) _
    (noSpaceHead_cons '@' (['d', 'a', 't', 'a', '_'] ++ (kindName kind ++ (renderOpts slash cs ++ (':' :: k)))) (by decide))
  have e1 : ['@', 'd', 'a', 't', 'a', '_'] ++ (kindName kind ++ (renderOpts slash cs ++ (':' :: k))) =
      '@' :: (['d', 'a', 't', 'a', '_'] ++ (kindName kind ++ (renderOpts slash cs ++ (':' :: k)))) := rfl
  rw [e1]
  show unary (_ + 1 + 1) _ = _
  rw [unary_succ_nonparen _ none '@' _ (by decide)]
  apply unaryRest_simple_error _ _ _ _ _ (by decide)
  rw [← e1]
  obtain ⟨o, r1, hacc, hopt⟩ := data_head kind slash cs k h
  rw [simple, hacc]
  simp only [hopt]
  have : expectKey k = .error .emptyKey := by
    rcases hk with ⟨d, k', rfl, hd⟩ | ⟨q, k', rfl⟩
    · have hq : isQuote d = false := by
        cases hq : isQuote d with
        | false => rfl
        | true =>
          rcases (isQuote_iff d).1 hq with rfl | rfl
          · revert hd; decide
          · revert hd; decide
      rw [expectKey.eq_def]
      simp [hq, unquoted, hd]
    · rw [expectKey.eq_def]
      simp [isQuote_char]
  simp only [this]

/-- unbalanced parentheses: a legal expression with its closing parenthesis missing, or with one
    closing parenthesis too many -/
theorem reject_unbalanced (c : Cst) (hl : legalTop [] c [] = true) :
    parse ('(' :: render c) = .error (.expected ")") ∧ parse (render c ++ [')']) = .error .trailingInput := by
  have hnk : endsKeyword c = false := by simpa [legalTop] using (by simpa [legalTop] using hl : _ ∧ _).2
  have hkw : ∀ k, KwOK c k := fun k h => by simp [hnk] at h
  have hl : legal c = true := by simp [legalTop, allSpace] at hl; exact hl.1
  have hlev := (levels c hl).2.2
  constructor
  · apply parse_of_unary_error _ _ (noSpaceHead_cons '(' _ (by decide))
    show unary ((render c).length + 1 + 1) ⟨none, '(' :: render c⟩ = _
    rw [unary_succ_paren]
    unfold parenBody
    have := O_exit c hlev ((render c).length + 1) (some '(') [] (by simp)
      (fun _ => Or.inr ⟨'(', rfl, Or.inr rfl⟩) (Or.inr (Or.inl rfl)) (hkw _)
      (keywordAt_nil _ kwAnd_ne) (keywordAt_nil _ kwOr_ne)
    simp only [List.append_nil] at this
    rw [this]
    rfl
  · unfold parse
    obtain ⟨d, r, hr, hd, _, _⟩ := render_cons c hl
    have hdw : dropWs [')'] = [')'] := by
      simpa using dropWs_append [] [')'] rfl (noSpaceHead_cons ')' [] (by decide))
    have := O_exit c hlev ((render c ++ [')']).length + 1) none [')'] (Nat.lt_succ_self _)
      (fun _ => Or.inl rfl) (Or.inr (Or.inr ⟨')', [], rfl, Or.inr rfl⟩)) (hkw _)
      (by rw [hdw]; exact keywordAt_paren kwAnd ⟨'a', _, rfl, by decide⟩ [])
      (by rw [hdw]; exact keywordAt_paren kwOr ⟨'o', _, rfl, by decide⟩ [])
    rw [this]
    have : (skipWs ⟨(render c).getLast?, [')']⟩).rest = [')'] := by rw [skipWs_rest, hdw]
    simp [this]

/-- a term whose regular expression `re` refuses makes the whole expression a `ValueError` -/
theorem reject_bad_regex {σ : Type} (atomOk : Atom → Bool) (am : Atom → σ → Bool) (s : Str) (e : Expr)
    (hp : parse s = .ok e) (hbad : e.atoms.all atomOk = false) (sys : σ) :
    compile atomOk s = .error .badRegex ∧ matchObs atomOk am s sys = .raised "ValueError" := by
  have : compile atomOk s = .error .badRegex := by simp [compile, hp, hbad]
  exact ⟨this, by simp [matchObs, this]⟩

/-- keyword misuse: `and` directly after a closing quote (keywords must be preceded by whitespace
    or a parenthesis) -/
theorem reject_keyword_glued (q : Quote) (hq : q ≠ .none) (s rest : Str)
    (hrest : rest = [] ∨ ∃ d t, rest = d :: t ∧ (d = '(' ∨ isSpace d = true)) :
    parse (renderStr q s ++ (kwAnd ++ rest)) = .error .missingWhitespace := by
  have hrs := renderStr_quoted q hq s
  have hns : NoSpaceHead (renderStr q s ++ (kwAnd ++ rest)) := by
    rw [hrs]; exact noSpaceHead_cons q.char _ (by cases q <;> decide)
  unfold parse orLevel andLevel
  have hinner : generic kwAnd (unary ((renderStr q s ++ (kwAnd ++ rest)).length + 1)) Expr.and
      ⟨none, renderStr q s ++ (kwAnd ++ rest)⟩ = .error .missingWhitespace := by
    unfold generic
    rw [skipWs_nospace none _ hns, unary_quoted q hq s _ _ (Nat.lt_succ_self _)]
    dsimp only
    rw [skipWs_nospace (some q.char) (kwAnd ++ rest) (noSpaceHead_cons 'a' _ (by decide))]
    exact loop_glued kwAnd _ _ _ _ q.char _ (by cases q <;> decide) rfl ((keywordAt_self kwAnd rest).2 hrest)
  rw [generic_error kwOr _ Expr.or _ _ (by rw [skipWs_nospace none _ hns]; exact hinner)]

/-! ### soundness: "every other string is rejected … never silently accepted with a different meaning" -/

/-- PARSER SOUNDNESS. Whatever string the parser accepts is a legal rendering — optional
    whitespace around a concrete syntax tree that respects `not` > `and` > `or`, the keyword
    separation, quoting and escape rules — of EXACTLY the tree the parser returns. Proved by inverting
    every function of the recursive-descent parser (`Lemmas/MatcherSound.lean`: terms with prefixes,
    options, quoting and escapes; the `not` level; the `and`/`or` levels and parentheses; whitespace
    at every position).

    Documented-behaviour note: `legal` contains one family the documentation does not promise — an
    unquoted prefix-less term spelling `and`, `or` or `not` directly before a closing parenthesis
    (`(and)`, `(x or not)`), because the code's keyword look-ahead treats only whitespace, `(` and the
    end of the input as a keyword boundary (`Spec/Matcher.lean`, `bareKeyword`; `keyword_before_paren`
    below). With that family stated, the set of legal renderings is exactly the accepted language. -/
theorem parse_sound (s : Str) (t : Expr) (h : parse s = .ok t) :
    ∃ lead c trail, legalTop lead c trail = true ∧ renderTop lead c trail = s ∧ abstract c = t :=
  parse_sound_top s t h

/-- accepted with tree `t` ⇔ a legal rendering of `t` (`parse_render` and `parse_sound` together) -/
theorem parse_iff_rendering (s : Str) (t : Expr) :
    parse s = .ok t ↔ ∃ lead c trail, legalTop lead c trail = true ∧ renderTop lead c trail = s ∧ abstract c = t := by
  constructor
  · exact parse_sound s t
  · rintro ⟨lead, c, trail, hl, rfl, rfl⟩
    exact parse_render lead c trail hl

/-- Every string that is not a legal rendering of any tree is rejected: `match()` raises
    `ValueError` for it, for every valuation of the terms and every system. -/
theorem reject_every_other_string {σ : Type} (atomOk : Atom → Bool) (am : Atom → σ → Bool) (s : Str)
    (h : ∀ lead c trail, legalTop lead c trail = true → renderTop lead c trail ≠ s) (sys : σ) :
    (∃ err, parse s = .error err) ∧ matchObs atomOk am s sys = .raised "ValueError" := by
  cases hp : parse s with
  | ok t =>
    obtain ⟨lead, c, trail, hl, hr, _⟩ := parse_sound s t hp
    exact absurd hr (h lead c trail hl)
  | error err => exact ⟨⟨err, rfl⟩, by simp [matchObs, compile, hp]⟩

/-- Never silently another meaning: if `match()` returns a value for `s` at all, then `s` is a
    legal rendering, and the value is the documented value of EVERY tree `s` is a legal rendering of. -/
theorem accepted_meaning {σ : Type} (atomOk : Atom → Bool) (am : Atom → σ → Bool) (s : Str) (sys : σ) (b : Bool)
    (h : matchObs atomOk am s sys = .result b) :
    (∃ lead c trail, legalTop lead c trail = true ∧ renderTop lead c trail = s) ∧
    ∀ lead c trail, legalTop lead c trail = true → renderTop lead c trail = s → b = eval am (abstract c) sys := by
  unfold matchObs compile at h
  cases hp : parse s with
  | error err => simp [hp] at h
  | ok t =>
    obtain ⟨lead, c, trail, hl, hr, _⟩ := parse_sound s t hp
    refine ⟨⟨lead, c, trail, hl, hr⟩, ?_⟩
    intro lead' c' trail' hl' hr'
    have := parse_render lead' c' trail' hl'
    rw [hr', hp] at this
    injection this with this
    rw [← this]
    rw [hp] at h
    cases hok : t.atoms.all atomOk with
    | true => simp only [hok, if_true] at h; injection h with h; exact h.symm
    | false => simp [hok] at h

/-- No string has two documented meanings: two legal renderings that are the same string denote
    the same tree — and that tree is what the parser returns for it. -/
theorem renderings_unambiguous (l1 : Str) (c1 : Cst) (t1 : Str) (l2 : Str) (c2 : Cst) (t2 : Str)
    (h1 : legalTop l1 c1 t1 = true) (h2 : legalTop l2 c2 t2 = true)
    (heq : renderTop l1 c1 t1 = renderTop l2 c2 t2) :
    abstract c1 = abstract c2 ∧ parse (renderTop l1 c1 t1) = .ok (abstract c1) := by
  have p1 := parse_render l1 c1 t1 h1
  have p2 := parse_render l2 c2 t2 h2
  rw [heq, p2] at p1
  injection p1 with p1
  exact ⟨p1.symm, parse_render l1 c1 t1 h1⟩

/-- The documented-behaviour note in one statement: directly before a closing parenthesis a bare
    `and` / `or` / `not` is an id-glob term, whatever legal expression precedes it inside the group
    (`(and)` matches the system id "and"); followed by whitespace, `(` or the end of the input the
    same word is the keyword and the string is rejected (`reject_keyword_as_operand`). -/
theorem keyword_before_paren (kw : Str) (hkw : kw ∈ keywords) (ws : Str) (hws : allSpace ws = true) :
    parse ('(' :: (ws ++ (kw ++ [')']))) = .ok (.atom ⟨none, .glob, kw, false⟩) := by
  have hu : unquotedOk isStopPattern kw = true := by
    rw [keywords_eq] at hkw
    simp at hkw
    rcases hkw with rfl | rfl | rfl <;> decide
  have := parse_render [] (.paren ws (.atom ⟨⟨none, .glob, kw, false⟩, true, true, .none, .none⟩) []) []
    (by simp [legalTop, legal, legalAtom, endsKeyword, hws, hu]; rfl)
  simpa [renderTop, render, renderAtom, renderPrefix, renderStr, abstract] using this

example : parse "(and)".toList = .ok (.atom ⟨none, .glob, "and".toList, false⟩) :=
  keyword_before_paren kwAnd (by decide) [] rfl
example : parse "and".toList = .error .keywordMisplaced :=
  reject_keyword_as_operand kwAnd [] (Or.inl rfl) (Or.inl rfl)

/-- The literal tables the model reads from `Vinegar.Generated` (regenerated from /repo on every
    run) are the documented ones; the proofs above depend on exactly these facts. -/
theorem generated_tables :
    keywords = [kwAnd, kwNot, kwOr] ∧ kwFollow = [['(']] ∧ kwPrecede = [['('], [')']] ∧
    reservedPattern = [['@'], ['('], [')']] ∧ reservedKey = [['@'], ['('], [')']] ∧
    quoteStrs = [['\''], ['"']] ∧ escapeStr = ['\\'] ∧ optionI = ['i'] ∧ dataOptEnd = [':'] ∧ idOptEnd = ['@'] ∧
    keyEnd = ['@'] ∧ unsupportedStart = ['@'] ∧ dataTable.length = 6 ∧ idTable.length = 6 ∧
    isSpace ' ' = true ∧ Generated.MATCHER_CACHE_SIZE = 256 :=
  ⟨keywords_eq, kwFollow_eq, kwPrecede_eq, reservedPattern_eq, reservedKey_eq, quoteStrs_eq, escapeStr_eq, optionI_eq,
    dataOptEnd_eq, idOptEnd_eq, keyEnd_eq, unsupportedStart_eq, by rw [dataTable_eq]; rfl, by rw [idTable_eq]; rfl,
    by decide, by decide⟩

/-! ### the hypotheses are satisfiable, the known-bad behaviour is rejected by the checker -/

example : legalTop [] (.and (.atom ⟨⟨none, .glob, "web*".toList, false⟩, true, true, .none, .none⟩) [' '] [' ']
    (.not [] (.paren [] (.atom ⟨⟨some "role".toList, .re, "d.b".toList, true⟩, false, false, .none, .double⟩) []))) []
    = true := by decide

/-- an `OverflowError` (D13) where the documentation prescribes `ValueError` is refused by the checker -/
example : obsOk (σ := Unit) (.error .badRegex) (fun _ _ => false) () (.raised "OverflowError") = false := by decide
/-- so is a `RecursionError` on a deeply nested but valid expression -/
example (e : Expr) : obsOk (σ := Unit) (.ok e) (fun _ _ => false) () (.raised "RecursionError") = false := by
  simp [obsOk]
/-- and a differing answer on cached use -/
example : checkCache ⟨[.result true], [.result false], [.result true], [.result true]⟩ = false := by decide

end Vinegar.C18
