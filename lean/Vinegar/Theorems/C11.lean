import Vinegar.Lemmas.YamlFuel
import Vinegar.Spec.Matcher
/-
C11 — the YAML target source compiles the documented targeting/include/merge semantics.

`Vinegar.Yaml.compile` is the model of `YamlTargetSource.get_data` with an empty cache
(`_process_top`, `_process_data_files`, `_process_data_file`, `_process_data_file_content`,
`_resolve_relative_include`, the merge loop of `compile_data`). `Vinegar.Yaml.Expands` is the
module documentation transcribed as a relation (Spec/Yaml.lean). Every theorem is quantified
over ALL trees, top files, configurations, parent chains and fuels.
-/
namespace Vinegar.C11
open Vinegar.Yaml

/-- "take the top file's targets in file order, keep those whose expression matches,
concatenate their file lists"; an empty top file is allowed only with `allow_empty_top` -/
def DocTop (cfg : Cfg) (top : TopView) (names : List Name) : Prop :=
  (top = .parsed .null ∧ cfg.allowEmptyTop = true ∧ names = []) ∨
  (∃ es, top = .parsed (.entries es) ∧ docTopNames es = some names)

theorem processTop_ok (cfg : Cfg) (top : TopView) (o : Option (List Name))
    (h : processTop cfg.allowEmptyTop top = .ok o) :
    (o = none ∧ DocTop cfg top []) ∨ (∃ ns, o = some ns ∧ DocTop cfg top ns) := by
  cases top with
  | missing => simp [processTop] at h
  | renderError => simp [processTop] at h
  | parsed p =>
    cases p with
    | error => simp [processTop, topOutcome] at h
    | nonMapping => simp [processTop, topOutcome] at h
    | null =>
      simp only [processTop, topOutcome] at h
      by_cases ha : cfg.allowEmptyTop = true
      · simp [ha] at h; subst h; exact Or.inl ⟨rfl, Or.inl ⟨rfl, ha, rfl⟩⟩
      · simp [ha] at h
    | entries es =>
      simp only [processTop, topOutcome] at h
      cases ht : topNames es with
      | error e => simp [ht] at h
      | ok ns =>
        simp [ht] at h; subst h
        have := topNames_doc es
        rw [ht] at this
        exact Or.inr ⟨ns, rfl, Or.inr ⟨es, rfl, this.symm⟩⟩

/-- **Soundness.** Whenever the compiler returns data, the documentation derives a piece list
for the files selected by the top file, and the data is the left fold of `merge` over exactly
that list (all trees, ids and preceding data — they enter through the rendered view only). -/
theorem compile_eq_doc (cfg : Cfg) (fuel : Nat) (top : TopView) (tree : Tree) (data : Mapping)
    (h : compile cfg fuel top tree = .ok data) :
    ∃ names pieces, DocTop cfg top names ∧ Expands tree [TOPFILE] names pieces ∧
      foldMerge cfg [] pieces = .ok data := by
  unfold compile at h
  simp only [bindE_ok_iff] at h
  obtain ⟨o, h1, ps, h2, h3⟩ := h
  cases processTop_ok cfg top o h1 with
  | inl hn =>
    obtain ⟨rfl, hd⟩ := hn
    simp [expandTop] at h2; subst h2
    exact ⟨[], [], hd, Expands.nil, h3⟩
  | inr hs =>
    obtain ⟨ns, rfl, hd⟩ := hs
    simp only [expandTop] at h2
    obtain ⟨dps, hdoc, rfl⟩ := (expandDoc tree fuel).2.2.1 _ _ _ h2
    refine ⟨ns, dps, hd, (docSound tree fuel).2 _ _ _ hdoc, ?_⟩
    rw [← foldMerge_nonEmpties]; exact h3

/-- **Completeness.** Whenever the documentation derives a piece list, the compiler returns
the left fold of `merge` over it (data, or the `TypeError` of an unmergeable pair) for every
sufficiently large recursion budget: it neither loops nor invents an error. -/
theorem doc_complete (cfg : Cfg) (top : TopView) (tree : Tree) (names : List Name) (pieces : List Mapping)
    (ht : DocTop cfg top names) (he : Expands tree [TOPFILE] names pieces) :
    ∃ f0, ∀ fuel, f0 ≤ fuel → compile cfg fuel top tree = foldMerge cfg [] pieces := by
  obtain ⟨f0, hf⟩ := docComplete tree _ _ _ he
  refine ⟨f0, fun fuel hfuel => ?_⟩
  have hx := (expandDoc tree fuel).2.2.2 _ _ _ (hf fuel hfuel)
  cases ht with
  | inl h =>
    obtain ⟨rfl, ha, rfl⟩ := h
    cases he
    simp [compile, processTop, topOutcome, ha, bindE, expandTop]
  | inr h =>
    obtain ⟨es, rfl, hd⟩ := h
    have ht : topNames es = .ok names := by
      have := topNames_doc es
      rw [hd] at this
      exact (toOpt_eq_some_iff _ _).1 this
    simp only [compile, processTop, topOutcome, ht, bindE, expandTop]
    have hx' : expandList fuel tree [TOPFILE] names = .ok (nonEmpties pieces) := hx
    rw [hx']
    exact foldMerge_nonEmpties cfg [] pieces

/-- The Bool checker that `bin/check C11` evaluates on the implementation's observation
accepts every output of the model (same fuel on both sides). -/
theorem c11Check_compile (cfg : Cfg) (fuel : Nat) (top : TopView) (tree : Tree) :
    c11Check cfg fuel top tree (toOpt (compile cfg fuel top tree)) = true := by
  unfold c11Check docData compile
  cases top with
  | missing => simp [processTop, bindE, toOpt]
  | renderError => simp [processTop, bindE, toOpt]
  | parsed p =>
    cases p with
    | error => simp [processTop, topOutcome, bindE, toOpt]
    | nonMapping => simp [processTop, topOutcome, bindE, toOpt]
    | null =>
      by_cases ha : cfg.allowEmptyTop = true
      · simp [processTop, topOutcome, ha, bindE, expandTop, foldMerge, toOpt, Mapping.beq, Val.beqKvs]
      · simp [processTop, topOutcome, ha, bindE, toOpt]
    | entries es =>
      simp only [processTop, topOutcome]
      have hdoc := topNames_doc es
      cases ht : topNames es with
      | error e =>
        rw [ht] at hdoc
        simp [bindE, toOpt, ← hdoc]
      | ok ns =>
        rw [ht] at hdoc
        simp only [toOpt] at hdoc
        simp only [← hdoc, bindE, expandTop]
        cases hx : expandList fuel tree [TOPFILE] ns with
        | error e =>
          have : docList tree fuel [TOPFILE] ns = none := by
            cases hd : docList tree fuel [TOPFILE] ns with
            | none => rfl
            | some dps =>
              have := (expandDoc tree fuel).2.2.2 _ _ _ hd
              rw [hx] at this; cases this
          simp [this, toOpt]
        | ok ps =>
          obtain ⟨dps, hd, rfl⟩ := (expandDoc tree fuel).2.2.1 _ _ _ hx
          simp only [hd, foldMerge_nonEmpties]
          cases hm : foldMerge cfg [] dps with
          | error e => simp [toOpt]
          | ok d => simp [toOpt, Mapping.beq_refl]

/-- An include cycle raises `RuntimeError`: a file that is one of its own ancestors is
rejected before it is read, whatever it contains. -/
theorem cycle_raises (fuel : Nat) (tree : Tree) (parents : List Name) (name place : Name) (node : FileNode)
    (h : name ∈ parents) :
    expandFile (fuel + 1) tree parents name place node = .error .cycle ∧ Err.cycle.cls = "RuntimeError" := by
  rw [expandFile.eq_def]
  simp [h, Err.cls]

/-- … and no list of files containing such a name ever yields data, for any fuel (the
documented relation has no derivation either: `Expands.cons` demands `name ∉ parents`). -/
theorem cycle_never_ok (tree : Tree) (parents : List Name) (names : List Name) (name : Name)
    (hn : name ∈ names) (hp : name ∈ parents) (fuel : Nat) (ps : List Mapping) :
    expandList fuel tree parents names ≠ .ok ps := by
  induction names generalizing ps with
  | nil => cases hn
  | cons n ns ih =>
    intro h
    rw [expandList_cons_ok_iff] at h
    obtain ⟨place, node, p, q, _, h2, h3, _⟩ := h
    cases List.mem_cons.1 hn with
    | inl heq =>
      subst heq
      cases fuel with
      | zero => simp [expandFile_zero] at h2
      | succ f => rw [(cycle_raises f tree parents name place node hp).1] at h2; cases h2
    | inr hmem => exact ih hmem q h3

theorem resolveFile_error (tree : Tree) (n : Name) (e : Err) (hp : pathOf n ≠ [])
    (h : resolveFile tree n = .error e) : e = .missing := by
  unfold resolveFile at h
  simp only [hp, if_false] at h
  split at h
  · cases h
  · cases h
  · split at h
    · cases h
    · cases h; rfl

theorem mapE_error_of_mem {α β : Type} (f : α → Except Err β) (l : List α) (P : Err → Prop)
    (hP : ∀ a, a ∈ l → ∀ e, f a = .error e → P e) (a : α) (ha : a ∈ l) (e : Err) (he : f a = .error e) :
    ∃ e', mapE f l = .error e' ∧ P e' := by
  induction l with
  | nil => cases ha
  | cons b bs ih =>
    rw [mapE]
    cases hb : f b with
    | error e' => exact ⟨e', rfl, hP b List.mem_cons_self e' hb⟩
    | ok y =>
      have hmem : a ∈ bs := by
        cases List.mem_cons.1 ha with
        | inl h => subst h; rw [he] at hb; cases hb
        | inr h => exact h
      obtain ⟨e', h1, h2⟩ := ih (fun x hx => hP x (List.mem_cons_of_mem _ hx)) hmem
      exact ⟨e', by simp [h1], h2⟩

theorem resolveAll_missing (tree : Tree) (names : List Name) (n : Name) (hdom : ∀ m ∈ names, pathOf m ≠ [])
    (hn : n ∈ names) (hm : resolveFile tree n = .error .missing) :
    resolveAll tree names = .error .missing := by
  obtain ⟨e', h1, h2⟩ := mapE_error_of_mem (fun n => bindE (resolveFile tree n) (fun r => .ok (n, r))) names
    (fun e => e = .missing)
    (fun a ha e h => by
      cases hr : resolveFile tree a with
      | error e2 =>
        rw [hr] at h; simp [bindE] at h; subst h
        exact resolveFile_error tree a e2 (hdom a ha) hr
      | ok r => rw [hr] at h; simp [bindE] at h)
    n hn .missing (by simp [hm, bindE])
  subst h2
  exact h1

/-- A name that resolves neither to `name.yaml` nor to `name/init.yaml` raises
`FileNotFoundError`, wherever it stands in the list and before any file of the list is read
(names with at least one non-empty segment: the documented syntax). -/
theorem missing_raises (fuel : Nat) (tree : Tree) (parents : List Name) (names : List Name) (n : Name)
    (hdom : ∀ m ∈ names, pathOf m ≠ []) (hn : n ∈ names) (hm : resolveFile tree n = .error .missing) :
    expandList fuel tree parents names = .error .missing ∧ Err.missing.cls = "FileNotFoundError" := by
  unfold expandList
  rw [resolveAll_missing tree names n hdom hn hm]
  simp [bindE, Err.cls]

/-- A file whose content is not a mapping raises `TypeError`. -/
theorem nonmapping_raises (fuel : Nat) (tree : Tree) (parents : List Name) (name place : Name)
    (h : name ∉ parents) :
    expandFile (fuel + 1) tree parents name place (.file .nonMapping) = .error .nonMapping ∧
      Err.nonMapping.cls = "TypeError" := by
  rw [expandFile.eq_def]
  simp [h, Err.cls]

theorem resolveRelative_error_cls (inc place : Name) (e : Err) (h : resolveRelative inc place = .error e) :
    e.cls = "RuntimeError" := by
  unfold resolveRelative at h
  split at h
  · cases h; rfl
  · split at h
    · rw [stripDots_spec] at h
      rename_i tl _
      by_cases hle : leadingDots ("" :: tl) ≤ place.length
      · simp only [hle, if_true] at h
        split at h
        · rename_i heq; cases heq
        · cases h; rfl
        · cases h
      · simp only [hle, if_false] at h
        cases h; rfl
    · cases h

/-- An include name that the documented rule rejects (empty, dots only, above the root) makes
the including file raise `RuntimeError`, before any included file is looked up. -/
theorem bad_include_raises (fuel : Nat) (tree : Tree) (parents : List Name) (name place : Name)
    (kvs : Mapping) (incs : List Name) (i : Name) (e : Err)
    (hp : name ∉ parents) (hi : includeNames (splitAtInclude kvs).2.1 = .ok incs)
    (hmem : i ∈ incs) (he : resolveRelative i place = .error e) :
    ∃ e', expandFile (fuel + 1) tree parents name place (.file (.mapping kvs)) = .error e' ∧
      e'.cls = "RuntimeError" := by
  obtain ⟨e', h1, h2⟩ := mapE_error_of_mem (fun i => resolveRelative i place) incs
    (fun e => e.cls = "RuntimeError") (fun a _ e h => resolveRelative_error_cls a place e h) i hmem e he
  refine ⟨e', ?_, h2⟩
  rw [expandFile.eq_def]
  simp [hp, processContent_eq_split, hi, bindE, h1]

/-- The empty name raises `RuntimeError`: in an include list (first part) and in a file list
of the top file, even for a target that does not match (second part). -/
theorem empty_name_raises :
    (∀ (fuel : Nat) (tree : Tree) (parents : List Name) (name place : Name) (kvs : Mapping) (incs : List Name),
      name ∉ parents → includeNames (splitAtInclude kvs).2.1 = .ok incs → [""] ∈ incs →
      ∃ e', expandFile (fuel + 1) tree parents name place (.file (.mapping kvs)) = .error e' ∧
        e'.cls = "RuntimeError") ∧
    (∀ (m : MatchRes) (ns : List Name) (rest : List (MatchRes × TopList)), [""] ∈ ns →
      topNames ((m, .names ns) :: rest) = .error .topEmptyName ∧ Err.topEmptyName.cls = "RuntimeError") := by
  constructor
  · intro fuel tree parents name place kvs incs hp hi hmem
    exact bad_include_raises fuel tree parents name place kvs incs [""] .emptyName hp hi hmem
      (by simp [resolveRelative])
  · intro m ns rest h
    simp [topNames, h, Err.cls]

/-- A relative include with more leading dots than the including file's place has components
refers above the root of the tree: `resolveRelative` fails with the `aboveRoot` error
(`RuntimeError`), hence (by `bad_include_raises`) so does the including file. -/
theorem above_root_raises (inc place : Name) (h1 : inc ≠ [""]) (h2 : leadingDots inc > place.length) :
    resolveRelative inc place = .error .aboveRoot ∧ Err.aboveRoot.cls = "RuntimeError" ∧
      docResolve inc place = none := by
  have hk : leadingDots inc ≠ 0 := by omega
  refine ⟨?_, rfl, ?_⟩
  · unfold resolveRelative
    simp only [h1, if_false]
    cases inc with
    | nil => simp [leadingDots] at hk
    | cons s rest =>
      by_cases hs : s = ""
      · subst hs
        simp only [stripDots_spec]
        have : ¬ leadingDots ("" :: rest) ≤ place.length := by omega
        simp [this]
      · exact absurd (leadingDots_cons_ne rest hs) hk
  · unfold docResolve
    simp only [hk, if_false]
    split
    · rfl
    · simp

/-! ## Fuel adequacy

The cycle check of `_process_data_file` compares include NAMES (`file_name in parent_files`),
and one file has many names: `a.b`, `a..b`, `a.b.`, and in a top list `.a.b` all denote
`a/b.yaml` (joining an empty segment is the identity in `pathlib`). Therefore the chain of
ancestors is NOT bounded by the number of files: a file can include itself under ever new
names without tripping the check (`x/y.yaml = {include: ['..y']}` listed as `x..y` includes
itself once as `x.y` and then `y.yaml`), and the recursion depth is a polynomial in the
LENGTHS of the names whose degree is the depth of the tree (see `aliasTree` below and
DESIGN.md §5 C11 for a two-file tree on which the real code raises `RecursionError`).
It is bounded all the same (Lemmas/YamlFuel.lean: a name in the chain is a prefix of a
top-file name followed by at most `D` non-empty prefixes of pushed parts of include names,
and the names of a chain are pairwise distinct): with
  `T` = Σ (|t| + 1) over the names `t` selected by the top file (|t| = number of segments),
  `S` = the number of segments of all include names that occur in the tree,
  `D` = the number of components of the longest path of the tree,
the budget `fuelBound = T·(S+1)^D + 1` is always enough. The only hypothesis is that the tree
is finite; names are arbitrary (those that the code rejects — empty, dots only, above the
root, without any non-empty segment — end the expansion with their error, for every budget).
-/

/-- **Fuel adequacy.** On every finite tree and for every list of names, every recursion
budget of at least `fuelBound tree files names` gives the same result — data or error — as
that budget: Python's recursion limit never decides above the bound. -/
theorem expand_fuel_adequate (tree : Tree) (files : List Path) (hfin : ∀ p, tree p ≠ none → p ∈ files)
    (names : List Name) (fuel : Nat) (hf : fuelBound tree files names ≤ fuel) :
    expandList fuel tree [TOPFILE] names = expandList (fuelBound tree files names) tree [TOPFILE] names := by
  unfold expandList
  cases hr : resolveAll tree names with
  | error e => rfl
  | ok rs =>
    simp only [bindE]
    apply expandAll_congr
    intro r hr'
    obtain ⟨hmem, hres⟩ := resolveAll_mem tree names rs hr r hr'
    have hchain : FChain tree files names [TOPFILE] := by
      refine ⟨by simp, ?_⟩
      intro n hn; simp at hn; exact Or.inl hn
    have hb := length_cands_lt_fuelBound tree files names
    apply expandFile_fuel_irrelevant_all tree files names hfin fuel (fuelBound tree files names) [TOPFILE]
      r.1 r.2.1 r.2.2 hchain (Reach.top hmem) hres
    · simp only [List.length_cons, List.length_nil]; omega
    · simp only [List.length_cons, List.length_nil]; omega

/-- … and above the bound the budget is never exhausted: the result is not the
`RecursionError` of the model (the compiler does not loop). -/
theorem expand_no_recursion_error (tree : Tree) (files : List Path) (hfin : ∀ p, tree p ≠ none → p ∈ files)
    (names : List Name) (fuel : Nat) (hf : fuelBound tree files names ≤ fuel) :
    expandList fuel tree [TOPFILE] names ≠ .error .fuel := by
  unfold expandList
  cases hr : resolveAll tree names with
  | error e =>
    simp only [bindE]
    intro h; cases h
    exact resolveAll_error_ne_fuel tree names _ hr rfl
  | ok rs =>
    simp only [bindE]
    intro hx
    unfold expandAll at hx
    cases hm : mapE (fun r => (fun n r nd => expandFile fuel tree [TOPFILE] n r nd) r.1 r.2.1 r.2.2) rs with
    | ok pss => rw [hm] at hx; simp [bindE] at hx
    | error e' =>
      rw [hm] at hx; simp only [bindE] at hx
      cases hx
      obtain ⟨r, hr', hre⟩ := mapE_error_mem _ rs _ hm
      obtain ⟨hmem, hres⟩ := resolveAll_mem tree names rs hr r hr'
      have hchain : FChain tree files names [TOPFILE] := by
        refine ⟨by simp, ?_⟩
        intro n hn; simp at hn; exact Or.inl hn
      have hb := length_cands_lt_fuelBound tree files names
      refine expandFile_no_fuel_error tree files names hfin fuel [TOPFILE] r.1 r.2.1 r.2.2 hchain
        (Reach.top hmem) hres ?_ hre
      simp only [List.length_cons, List.length_nil]; omega

/-- the same for the whole compilation; `compileBound` is `fuelBound` for the names the top
file selects -/
theorem compile_fuel_adequate (cfg : Cfg) (top : TopView) (tree : Tree) (files : List Path)
    (hfin : ∀ p, tree p ≠ none → p ∈ files) (fuel : Nat) (hf : compileBound cfg top tree files ≤ fuel) :
    compile cfg fuel top tree = compile cfg (compileBound cfg top tree files) top tree := by
  unfold compile
  cases hp : processTop cfg.allowEmptyTop top with
  | error e => rfl
  | ok o =>
    simp only [bindE]
    cases o with
    | none => rfl
    | some ns =>
      have hb : compileBound cfg top tree files = fuelBound tree files ns := by
        unfold compileBound; rw [hp]
      simp only [expandTop]
      rw [hb] at hf ⊢
      rw [expand_fuel_adequate tree files hfin ns fuel hf]

theorem compile_no_recursion_error (cfg : Cfg) (top : TopView) (tree : Tree) (files : List Path)
    (hfin : ∀ p, tree p ≠ none → p ∈ files) (fuel : Nat) (hf : compileBound cfg top tree files ≤ fuel) :
    compile cfg fuel top tree ≠ .error .fuel := by
  unfold compile
  cases hp : processTop cfg.allowEmptyTop top with
  | error e =>
    simp only [bindE]
    intro h; cases h
    exact processTop_error_ne_fuel _ _ _ hp rfl
  | ok o =>
    simp only [bindE]
    cases o with
    | none =>
      simp only [expandTop]
      intro h
      exact foldMerge_error_ne_fuel cfg [] [] _ h rfl
    | some ns =>
      have hb : compileBound cfg top tree files = fuelBound tree files ns := by
        unfold compileBound; rw [hp]
      rw [hb] at hf
      simp only [expandTop]
      cases hx : expandList fuel tree [TOPFILE] ns with
      | error e =>
        simp only []
        intro h; cases h
        exact expand_no_recursion_error tree files hfin ns fuel hf hx
      | ok ps =>
        simp only []
        intro h
        exact foldMerge_error_ne_fuel cfg [] ps _ h rfl

/-- **Sharper bound on the documented syntax.** On a finite tree whose include names have no
empty segments, for top-file names without empty segments, a name determines its path, the
ancestors are distinct resolvable names plus the top file, and already the budget
`2·|files| + 2` is enough (each file is reachable as `p` and, if it is an `init` file, as its
directory). This linear bound is FALSE without the restriction: `linear_bound_fails` below. -/
theorem expand_fuel_adequate_clean (tree : Tree) (files : List Path) (hct : CleanTree tree files)
    (names : List Name) (hnames : ∀ n, n ∈ names → CleanName n) (fuel : Nat)
    (hf : 2 * files.length + 2 ≤ fuel) :
    expandList fuel tree [TOPFILE] names = expandList (2 * files.length + 2) tree [TOPFILE] names := by
  unfold expandList
  cases hr : resolveAll tree names with
  | error e => rfl
  | ok rs =>
    simp only [bindE]
    apply expandAll_congr
    intro r hr'
    obtain ⟨hmem, hres⟩ := resolveAll_mem tree names rs hr r hr'
    have hchain : Chain tree [TOPFILE] := by
      refine ⟨by simp, ?_⟩
      intro n hn; simp at hn; exact Or.inl hn
    apply expandFile_fuel_irrelevant tree files hct fuel (2 * files.length + 2) [TOPFILE] r.1 r.2.1 r.2.2
      hchain (hnames r.1 hmem) hres
    · simp only [depthBound, List.length_cons, List.length_nil]; omega
    · simp only [depthBound, List.length_cons, List.length_nil]; omega

/-- the same for the whole compilation -/
theorem compile_fuel_adequate_clean (cfg : Cfg) (top : TopView) (tree : Tree) (files : List Path)
    (hct : CleanTree tree files)
    (hnames : ∀ o ns, processTop cfg.allowEmptyTop top = .ok o → o = some ns → ∀ n, n ∈ ns → CleanName n)
    (fuel : Nat) (hf : 2 * files.length + 2 ≤ fuel) :
    compile cfg fuel top tree = compile cfg (2 * files.length + 2) top tree := by
  unfold compile
  cases hp : processTop cfg.allowEmptyTop top with
  | error e => rfl
  | ok o =>
    simp only [bindE]
    cases o with
    | none => rfl
    | some ns =>
      simp only [expandTop]
      rw [expand_fuel_adequate_clean tree files hct ns (hnames (some ns) ns hp rfl) fuel hf]

/-- the hypotheses of the clean fragment are satisfiable: a relative include -/
example : CleanInc ["", "b"] := by
  unfold CleanInc CleanName
  decide

/-! A tree outside the clean fragment: ONE file `a.yaml` whose include list is `['..a']`
("the file `a` one directory up"), selected by the top file under the name `.....a` (five
leading dots, a name of `a.yaml`: the segments `["","","","","","a"]`). Every include drops
one leading empty segment, the six names `.....a`, `....a`, …, `a` are pairwise distinct, so
the cycle check never fires and `a.yaml` is expanded six times inside itself before `..a`
finally points above the root. (`kvs` is any mapping with that include list, e.g.
`[("include", .list [.str "..a"])]`; `String.splitOn` does not reduce in the kernel, hence the
hypothesis. The real code behaves identically: `RuntimeError … outside the root` after six
nested calls; with `k` dots, `k + 1` calls.) -/

def aliasTree (kvs : Mapping) : Tree := fun p => if p = ["a"] then some (.file (.mapping kvs)) else none
def aliasTop : List Name := [["", "", "", "", "", "a"]]

/-- the hypothesis of `expand_fuel_adequate` is met … -/
theorem aliasTree_finite (kvs : Mapping) : ∀ p, aliasTree kvs p ≠ none → p ∈ [["a"]] := by
  intro p hp
  unfold aliasTree at hp
  by_cases h : p = ["a"]
  · simp [h]
  · simp [h] at hp

/-- … by a case that the clean-name fragment excluded -/
example : ¬ (∀ n, n ∈ aliasTop → CleanName n) := by
  intro h
  exact (h _ List.mem_cons_self).2 (by decide)

/-- **The linear bound fails outside the clean fragment**: one file, so `2·|files| + 2 = 4`,
but the budget 4 is exhausted while the budget 6 yields the proper error. -/
theorem linear_bound_fails (kvs : Mapping) (hinc : includeNames (splitAtInclude kvs).2.1 = .ok [["", "", "a"]]) :
    expandList (2 * [["a"]].length + 2) (aliasTree kvs) [TOPFILE] aliasTop = .error .fuel ∧
    expandList 6 (aliasTree kvs) [TOPFILE] aliasTop = .error .aboveRoot := by
  constructor <;>
  simp [expandList, aliasTop, aliasTree, resolveAll, mapE, resolveFile, pathOf, bindE, expandAll, expandFile,
    processContent_eq_split, hinc, resolveRelative, stripDots, TOPFILE, List.dropLast]

/-- on this tree `T = 7`, `S = 3`, `D = 1`: the bound is 29 -/
theorem aliasTree_bound (kvs : Mapping) (hinc : includeNames (splitAtInclude kvs).2.1 = .ok [["", "", "a"]]) :
    fuelBound (aliasTree kvs) [["a"]] aliasTop = 29 := by
  simp [fuelBound, treeIncs, incsAt, aliasTree, hinc, totalLen, maxLen, aliasTop]

/-- `expand_fuel_adequate` applied: every budget ≥ 29 gives the `RuntimeError` of the
reference above the root -/
theorem aliasTree_result (kvs : Mapping) (hinc : includeNames (splitAtInclude kvs).2.1 = .ok [["", "", "a"]])
    (fuel : Nat) (hf : 29 ≤ fuel) :
    expandList fuel (aliasTree kvs) [TOPFILE] aliasTop = .error .aboveRoot := by
  have hb := aliasTree_bound kvs hinc
  rw [expand_fuel_adequate (aliasTree kvs) [["a"]] (aliasTree_finite kvs) aliasTop fuel (by rw [hb]; exact hf), hb]
  simp [expandList, aliasTop, aliasTree, resolveAll, mapE, resolveFile, pathOf, bindE, expandAll, expandFile,
    processContent_eq_split, hinc, resolveRelative, stripDots, TOPFILE, List.dropLast]

/-- Never partial data: the result is either an error (and then no data at all — the result
type is a sum), or the merge of the COMPLETE documented piece list of every selected file. -/
theorem never_partial (cfg : Cfg) (fuel : Nat) (top : TopView) (tree : Tree) :
    (∃ e, compile cfg fuel top tree = .error e) ∨
    (∃ data names pieces, compile cfg fuel top tree = .ok data ∧ DocTop cfg top names ∧
      Expands tree [TOPFILE] names pieces ∧ foldMerge cfg [] pieces = .ok data) := by
  cases h : compile cfg fuel top tree with
  | error e => exact Or.inl ⟨e, rfl⟩
  | ok data =>
    obtain ⟨names, pieces, h1, h2, h3⟩ := compile_eq_doc cfg fuel top tree data h
    exact Or.inr ⟨data, names, pieces, rfl, h1, h2, h3⟩

/-- The preceding data is never merged into the result: `compile` does not even take it as an
argument (it reaches the model only as template/matching context, i.e. through the rendered
view), and every top-level key of the result is a key of a piece of a FILE of the tree. The
key order is the documented one (`merge_keys`: the keys of the first mapping in order, then
the new keys of the second). -/
theorem preceding_not_merged (cfg : Cfg) (fuel : Nat) (top : TopView) (tree : Tree) (data : Mapping)
    (h : compile cfg fuel top tree = .ok data) :
    ∃ names pieces, Expands tree [TOPFILE] names pieces ∧
      ∀ k, k ∈ data.map (·.1) → ∃ p, p ∈ pieces ∧ k ∈ p.map (·.1) := by
  obtain ⟨names, pieces, _, h2, h3⟩ := compile_eq_doc cfg fuel top tree data h
  refine ⟨names, pieces, h2, fun k hk => ?_⟩
  cases foldMerge_keys cfg [] pieces data h3 k hk with
  | inl h => simp at h
  | inr h => exact h

/-- documented key order of one merge step -/
theorem merge_key_order (ml ms : Bool) (a b m : Mapping) (h : merge ml ms a b = some m) :
    m.map (·.1) = a.map (·.1) ++ (b.filter (fun p => !hasKey p.1 a)).map (·.1) :=
  merge_keys ml ms a b m h

/-! Hypotheses are satisfiable; the known-bad behaviour is rejected. -/

/-- the D17 tree: `top: {'*': [a]}`, `a.yaml = {}` — the documentation gives `{}` -/
def d17Tree : Tree := fun p => if p = ["a"] then some (.file (.mapping [])) else none
def d17Top : TopView := .parsed (.entries [(.yes, .names [["a"]])])

example : (match compile {} 5 d17Top d17Tree with | .ok m => m.isEmpty | .error _ => false) = true := by decide
/-- the pinned implementation raised `ValueError` here (D17): rejected by the checker -/
example : c11Check {} 5 d17Top d17Tree none = false := by decide
example : c11Check {} 5 d17Top d17Tree (some []) = true := by decide

/-! ### target expressions: the concrete reading of glob terms used to evaluate the top file's expressions
independently of the real matcher (`Matcher.evalConcrete`, driver op `matcher.eval`) -/
section Glob
open Vinegar.Matcher


/-- `*` alone matches everything -/
theorem globMatch_star : ∀ (s : Str), globMatch ['*'] s = true
  | [] => by simp [globMatch]
  | _ :: s => by simp [globMatch, globMatch_star s]

/-- a pattern without `*` and `?` matches exactly itself -/
theorem globMatch_plain : ∀ (p s : Str), (∀ c ∈ p, c ≠ '*' ∧ c ≠ '?') → globMatch p s = decide (p = s)
  | [], [], _ => by simp [globMatch]
  | [], _ :: _, _ => by simp [globMatch]
  | c :: p, [], h => by
    have := h c (by simp)
    simp [globMatch, this.1]
  | c :: p, d :: s, h => by
    have hc := h c (by simp)
    have ih := globMatch_plain p s (fun x hx => h x (by simp [hx]))
    simp only [globMatch, hc.1, if_false, hc.2, decide_false, Bool.false_or, ih]
    by_cases hcd : c = d <;> simp [hcd]

/-- `prefix*` matches exactly the strings that start with the prefix -/
theorem globMatch_prefix_star : ∀ (p s : Str), (∀ c ∈ p, c ≠ '*' ∧ c ≠ '?') →
    globMatch (p ++ ['*']) s = p.isPrefixOf s
  | [], s, _ => by simpa using globMatch_star s
  | c :: p, [], h => by
    have := h c (by simp)
    simp [globMatch, this.1]
  | c :: p, d :: s, h => by
    have hc := h c (by simp)
    have ih := globMatch_prefix_star p s (fun x hx => h x (by simp [hx]))
    simp only [List.cons_append, globMatch, hc.1, if_false, hc.2, decide_false, Bool.false_or, ih,
      List.isPrefixOf]
    by_cases hcd : c = d <;> simp [hcd]

example : globMatch "web-*".toList "web-1".toList = true ∧ globMatch "web-*".toList "db-1".toList = false
    ∧ globMatch "s?".toList "s1".toList = true ∧ globMatch "*a*b".toList "xaybb".toList = true := by
  simp [globMatch]
end Glob

end Vinegar.C11
