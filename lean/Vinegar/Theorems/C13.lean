import Vinegar.Lemmas.Merge
import Vinegar.Lemmas.MergeAssoc
/-
Property C13 — data-tree merging and data-source chaining follow the documented algebra.

`mergeDict` / `mergeVal` / `compositeRun` / `aggregateVersion` (Vinegar/Model/Merge.lean) mirror
`_merge_data_trees`, `_CompositeDataSource.get_data` / `find_system` and `aggregate_version`.
All theorems are quantified over every tree, every flag setting, every list of sources.
Non-mutation of the arguments cannot be stated over immutable values; the harness checks it.
-/
namespace Vinegar.C13
open Vinegar.Merge

variable {ml ms : Bool}

/-! ## merge -/

/-- **Key order.** The merged dictionary has `a`'s keys in `a`'s order followed by the keys of
`b` that `a` does not have, in `b`'s order (`b` a dictionary, i.e. with distinct keys). The
checker `checkKeys` evaluated on the implementation's results is this statement. -/
theorem merge_keys {a b r : Dict} (hb : distinctKeys b = true) (h : mergeDict ml ms a b = .ok r) :
    keysOf r = keysOf a ++ (keysOf b).filter (fun k => !memKey k (keysOf a)) ∧
      checkKeys a b r = true := by
  obtain ⟨m, hm, rfl⟩ := mergeDict_ok h
  have hk := mergeEntries_keys hm
  have hf : (fun kv : Key × Val => !hasKey kv.1 m) = (fun kv => !memKey kv.1 (keysOf a)) := by
    funext kv; rw [hasKey_of_keys_eq hk, hasKey_eq_memKey]
  have : keysOf (addNew m b) = keysOf a ++ (keysOf b).filter (fun k => !memKey k (keysOf a)) := by
    rw [addNew_eq m b hb, hf]
    simp only [keysOf, List.map_append, List.filter_map] at hk ⊢
    rw [hk]; rfl
  exact ⟨this, by simp [checkKeys, expectedKeys, this]⟩

/-- **Per-key value.** For every key `k`: present in both trees ⇒ the result carries the merge
of the two values (see `merge_leaf_spec` for what that is); present in one tree only ⇒ that
tree's value unchanged; absent from both ⇒ absent. -/
theorem merge_value_spec {a b r : Dict} (h : mergeDict ml ms a b = .ok r) (k : Key) :
    match lookup k a, lookup k b with
    | some v, some ov => ∃ rv, mergeVal ml ms v ov = .ok rv ∧ lookup k r = some rv
    | some v, Option.none => lookup k r = some v
    | Option.none, some ov => lookup k r = some ov
    | Option.none, Option.none => lookup k r = Option.none := by
  obtain ⟨m, hm, rfl⟩ := mergeDict_ok h
  have h1 := lookup_mergeEntries hm k
  rw [lookup_addNew]
  cases ha : lookup k a with
  | none =>
    simp only [ha] at h1
    cases hb : lookup k b <;> simp [h1]
  | some v =>
    simp only [ha] at h1
    cases hb : lookup k b with
    | none => simp only [hb] at h1; simp [h1]
    | some ov =>
      simp only [hb] at h1
      obtain ⟨rv, h2, h3⟩ := h1
      exact ⟨rv, h2, by simp [h3]⟩

/-- **The value for a common key** follows the decision table `expect` over the kinds of the two
values and the flags: two mappings merge recursively; two sequences with `merge_lists` give the
first list followed by the unseen elements of the second; two sets with `merge_sets` give the
union; a mapping (or flagged sequence / set) meeting another kind never yields a value; in all
other cases the second value wins. (`appendUnseen` is characterised by `append_unseen_spec`.) -/
theorem merge_leaf_spec {v ov rv : Val} (h : mergeVal ml ms v ov = .ok rv) :
    match expect ml ms v.kind ov.kind with
    | .recurse => ∃ a b r, v = .dict a ∧ ov = .dict b ∧ rv = .dict r ∧ mergeDict ml ms a b = .ok r
    | .append => rv = .list (appendUnseen v.elems ov.elems)
    | .union => rv = .set (appendUnseen v.elems ov.elems)
    | .override => rv = ov
    | .conflict => False := by
  by_cases hb : v.kind = .mapping ∧ ov.kind = .mapping
  · obtain ⟨a, rfl⟩ := kind_mapping hb.1
    obtain ⟨b, rfl⟩ := kind_mapping hb.2
    rw [mergeVal_dict] at h
    simp only [Val.kind, expect]
    cases hm : mergeDict ml ms a b with
    | error e => simp [hm] at h
    | ok r =>
      simp only [hm, Except.ok.injEq] at h
      exact ⟨a, b, r, rfl, rfl, h.symm, hm⟩
  · rw [mergeVal_leaf hb] at h
    have t := mergeLeaf_table ml ms v ov hb
    cases hE : expect ml ms v.kind ov.kind with
    | recurse => simp only [hE] at t
    | conflict => simp only [hE] at t ⊢; obtain ⟨e, he⟩ := t; rw [he] at h; cases h
    | append => simp only [hE] at t ⊢; rw [t] at h; injection h with h; exact h.symm
    | union => simp only [hE] at t ⊢; rw [t] at h; injection h with h; exact h.symm
    | override => simp only [hE] at t ⊢; rw [t] at h; injection h with h; exact h.symm

/-- "first list, then unseen elements" / "set union": what `appendUnseen` produces is accepted by
the declarative checkers (prefix = first list, rest = duplicate-free subsequence of the second
list, nothing of the second list lost; union has exactly the elements of both). -/
theorem append_unseen_spec (a b : List Val) (hb : ∀ e ∈ b, e.wf = true) :
    checkAppend a b (appendUnseen a b) = true ∧ checkUnion a b (appendUnseen a b) = true :=
  ⟨checkAppend_appendUnseen a b (fun e he => pyEq_refl e (hb e he)),
   checkUnion_appendUnseen a b (fun e he => pyEq_refl e (hb e he))⟩

theorem isErr_mergeVal (v : Val) : ∀ ov, isErr (mergeVal ml ms v ov) = hasConflict ml ms v ov := by
  have leaf : ∀ v ov : Val, ¬(v.kind = .mapping ∧ ov.kind = .mapping) →
      isErr (mergeVal ml ms v ov) = hasConflict ml ms v ov := by
    intro v ov hb
    rw [mergeVal_leaf hb, hasConflict_leaf hb]
    have t := mergeLeaf_table ml ms v ov hb
    cases hE : expect ml ms v.kind ov.kind with
    | recurse => simp only [hE] at t
    | conflict => simp only [hE] at t ⊢; obtain ⟨e, he⟩ := t; rw [he]; rfl
    | append => simp only [hE] at t ⊢; rw [t]; rfl
    | union => simp only [hE] at t ⊢; rw [t]; rfl
    | override => simp only [hE] at t ⊢; rw [t]; rfl
  induction v using Val.induct' with
  | dict a ih =>
    intro ov
    by_cases hb : (Val.dict a).kind = .mapping ∧ ov.kind = .mapping
    · obtain ⟨b, rfl⟩ := kind_mapping hb.2
      have h1 : isErr (mergeVal ml ms (.dict a) (.dict b)) = isErr (mergeEntries ml ms a b) := by
        simp only [mergeVal]; cases mergeEntries ml ms a b <;> rfl
      have h2 : hasConflict ml ms (.dict a) (.dict b) = dictConflict ml ms a b := by
        simp [hasConflict]
      rw [h1, h2]
      clear h1 h2 hb
      induction a with
      | nil => simp [mergeEntries, dictConflict, isErr]
      | cons kv rest ihr =>
        obtain ⟨k, v⟩ := kv
        rw [mergeEntries_isErr_cons, dictConflict]
        rw [ihr (fun kv hkv => ih kv (by simp [hkv]))]
        cases hl : lookup k b with
        | none => rfl
        | some ov => simp only []; rw [ih (k, v) (by simp) ov]
    · exact leaf _ _ hb
  | none => intro ov; exact leaf _ _ (by simp [Val.kind])
  | bool => intro ov; exact leaf _ _ (by simp [Val.kind])
  | int => intro ov; exact leaf _ _ (by simp [Val.kind])
  | str => intro ov; exact leaf _ _ (by simp [Val.kind])
  | bytes => intro ov; exact leaf _ _ (by simp [Val.kind])
  | float => intro ov; exact leaf _ _ (by simp [Val.kind])
  | list => intro ov; exact leaf _ _ (by simp [Val.kind])
  | tuple => intro ov; exact leaf _ _ (by simp [Val.kind])
  | set => intro ov; exact leaf _ _ (by simp [Val.kind])

/-- **TypeError iff.** The merge raises exactly when some key path common to both trees leads to
a mapping (or flagged sequence / set) meeting a value of a different kind (`dictConflict`, a
recursive search phrased with the decision table only). -/
theorem merge_typeerror_iff (a b : Dict) :
    (∃ e, mergeDict ml ms a b = .error e) ↔ dictConflict ml ms a b = true := by
  rw [← isErr_iff]
  have h1 : isErr (mergeDict ml ms a b) = isErr (mergeVal ml ms (.dict a) (.dict b)) := by
    simp only [mergeDict, mergeVal]; cases mergeEntries ml ms a b <;> rfl
  have h2 : hasConflict ml ms (.dict a) (.dict b) = dictConflict ml ms a b := by simp [hasConflict]
  rw [h1, isErr_mergeVal, h2]

/-- **Left identity.** `merge({}, b) == b`. -/
theorem merge_empty_left (b : Dict) (hb : distinctKeys b = true) : mergeDict ml ms [] b = .ok b := by
  simp only [mergeDict, mergeEntries]
  rw [addNew_eq [] b hb]
  simp [hasKey, lookup]

/-- **Right identity.** `merge(a, {}) == a`. -/
theorem merge_empty_right (a : Dict) : mergeDict ml ms a [] = .ok a := by
  have : mergeEntries ml ms a [] = .ok a := by
    induction a with
    | nil => simp [mergeEntries]
    | cons kv rest ih => obtain ⟨k, v⟩ := kv; simp [mergeEntries, lookup, ih]
  simp [mergeDict, this, addNew]

theorem checkValue_mergeVal (v : Val) :
    ∀ ov r, ov.wf = true → mergeVal ml ms v ov = .ok r → checkValue ml ms v ov r = true := by
  have leaf : ∀ v ov r : Val, ¬(v.kind = .mapping ∧ ov.kind = .mapping) → ov.wf = true →
      mergeVal ml ms v ov = .ok r → checkValue ml ms v ov r = true := by
    intro v ov r hb hw h
    have hs := merge_leaf_spec h
    have hr : ∀ e ∈ ov.elems, e.wf = true := elems_wf hw
    unfold checkValue
    cases hE : expect ml ms v.kind ov.kind with
    | recurse => exact (hb (expect_recurse hE)).elim
    | conflict => simp only [hE] at hs
    | append => simp only [hE] at hs ⊢; subst hs; exact (append_unseen_spec _ _ hr).1
    | union => simp only [hE] at hs ⊢; subst hs; exact (append_unseen_spec _ _ hr).2
    | override => simp only [hE] at hs ⊢; subst hs; simp
  induction v using Val.induct' with
  | dict a ih =>
    intro ov r hw h
    by_cases hb : (Val.dict a).kind = .mapping ∧ ov.kind = .mapping
    · obtain ⟨b, rfl⟩ := kind_mapping hb.2
      simp only [Val.wf, Bool.and_eq_true] at hw
      rw [mergeVal_dict] at h
      cases hm : mergeDict ml ms a b with
      | error e => simp [hm] at h
      | ok r' =>
        simp only [hm, Except.ok.injEq] at h
        subst h
        rw [checkValue_dict]
        obtain ⟨m, hme, rfl⟩ := mergeDict_ok hm
        have hk := mergeEntries_keys hme
        have hf : (fun kv : Key × Val => !hasKey kv.1 m) = (fun kv => !hasKey kv.1 a) := by
          funext kv; rw [hasKey_of_keys_eq hk]
        rw [addNew_eq m b hw.1, hf]
        show checkEntries ml ms b (newEntries a b) a (m ++ newEntries a b) = true
        generalize newEntries a b = newB
        clear hm hk hf hb
        induction a generalizing m with
        | nil =>
          simp [mergeEntries] at hme; subst hme
          simp [checkEntries]
        | cons kv rest ihr =>
          obtain ⟨k, v⟩ := kv
          obtain ⟨rv, m', rfl, hr, hv⟩ := mergeEntries_cons_ok hme
          simp only [List.cons_append, checkEntries, beq_self_eq_true, Bool.true_and, Bool.and_eq_true]
          refine ⟨?_, ihr (fun kv hkv => ih kv (by simp [hkv])) m' hr⟩
          cases hl : lookup k b with
          | none => simp only [hl] at hv; subst hv; simp
          | some ov =>
            simp only [hl] at hv
            exact ih (k, v) (by simp) ov rv (lookup_wf hw.2 hl) hv
    · exact leaf _ _ _ hb hw h
  | none => intro ov r; exact leaf _ _ _ (by simp [Val.kind])
  | bool => intro ov r; exact leaf _ _ _ (by simp [Val.kind])
  | int => intro ov r; exact leaf _ _ _ (by simp [Val.kind])
  | str => intro ov r; exact leaf _ _ _ (by simp [Val.kind])
  | bytes => intro ov r; exact leaf _ _ _ (by simp [Val.kind])
  | float => intro ov r; exact leaf _ _ _ (by simp [Val.kind])
  | list => intro ov r; exact leaf _ _ _ (by simp [Val.kind])
  | tuple => intro ov r; exact leaf _ _ _ (by simp [Val.kind])
  | set => intro ov r; exact leaf _ _ _ (by simp [Val.kind])

/-- **The whole-result checker accepts every model result.** `checkDict` (recursing over the
observed result: entries of `a` in order, each merged per the decision table with `b`'s value,
then exactly `b`'s new entries) holds for `mergeDict a b` whenever `b` is a dictionary (distinct
keys at every level). The same `checkDict` is evaluated on the implementation's results. -/
theorem merge_checked {a b r : Dict} (hb : Dict.wf b = true) (h : mergeDict ml ms a b = .ok r) :
    checkDict ml ms a b r = true := by
  have hw : (Val.dict b).wf = true := by simpa [Val.wf, Dict.wf] using hb
  have hv : mergeVal ml ms (.dict a) (.dict b) = .ok (.dict r) := by rw [mergeVal_dict, h]
  have := checkValue_mergeVal (.dict a) (.dict b) (.dict r) hw hv
  rwa [checkValue_dict] at this

/-- **Outcome checker** (TypeError iff conflict, else the documented result) accepts the model's
outcome as the harness observes it. -/
theorem merge_outcome_checked (a b : Dict) (hb : Dict.wf b = true) :
    checkOutcome ml ms a b (observedOutcome (mergeDict ml ms a b)) = true := by
  cases h : mergeDict ml ms a b with
  | error e =>
    have := (merge_typeerror_iff (ml := ml) (ms := ms) a b).mp ⟨e, h⟩
    simp [observedOutcome, checkOutcome, this]
  | ok r =>
    have hc : dictConflict ml ms a b = false := by
      cases hd : dictConflict ml ms a b with
      | false => rfl
      | true =>
        obtain ⟨e, he⟩ := (merge_typeerror_iff (ml := ml) (ms := ms) a b).mpr hd
        rw [h] at he; cases he
    simp [observedOutcome, checkOutcome, hc, merge_checked hb h]

/-! ## composite source -/

variable {H : String → String}

/-- **The composite returns the left fold of the merge** over the data its sources answered
(`compositeOuts`, one answer per source), and the fold of `aggregate_version` over their
versions. (`mergeFold` is `List.foldlM mergeDict`, lemma `mergeFold_eq_foldlM`.) -/
theorem composite_foldl {srcs : List Source} {sid : String} {d0 d : Dict} {v0 v : String}
    (h : compositeGet H ml ms srcs sid d0 v0 = .ok (d, v)) :
    (compositeOuts H ml ms srcs sid d0 v0).length = srcs.length ∧
    mergeFold ml ms d0 ((compositeOuts H ml ms srcs sid d0 v0).map (·.1)) = .ok d ∧
    versionFold H v0 ((compositeOuts H ml ms srcs sid d0 v0).map (·.2)) = v := by
  induction srcs generalizing d0 v0 with
  | nil =>
    simp only [compositeGet, compositeRun, Except.ok.injEq, Prod.mk.injEq] at h
    simp [compositeOuts, mergeFold, versionFold, h.1, h.2]
  | cons s rest ih =>
    simp only [compositeGet, compositeRun] at h
    simp only [compositeOuts]
    cases hg : s.getData sid d0 v0 with
    | error c => simp [hg] at h
    | ok p =>
      obtain ⟨nd, nv⟩ := p
      simp only [hg] at h ⊢
      cases hm : mergeDict ml ms d0 nd with
      | error e => simp [hm] at h
      | ok pd' =>
        simp only [hm] at h ⊢
        obtain ⟨h1, h2, h3⟩ := ih (d0 := pd') (v0 := aggregateVersion H [v0, nv]) h
        refine ⟨by simp [h1], ?_, ?_⟩
        · simp only [List.map_cons, mergeFold, hm]; exact h2
        · simp only [List.map_cons, versionFold, List.foldl_cons]; exact h3

/-- **Each source is given the merged data and the aggregated version of all sources before
it**, and the unchanged system id: the `k`-th recorded call carries the fold of the merge over
the first `k` answers and the fold of `aggregate_version` over their versions — also in runs
that later fail. -/
theorem composite_args {srcs : List Source} {sid : String} {d0 : Dict} {v0 : String}
    (k : Nat) (c : GetCall) (hc : (compositeLog H ml ms srcs sid d0 v0)[k]? = some c) :
    ∃ dk, mergeFold ml ms d0 (((compositeOuts H ml ms srcs sid d0 v0).take k).map (·.1)) = .ok dk ∧
      c.sid = sid ∧ c.pd = dk ∧
      c.pv = versionFold H v0 (((compositeOuts H ml ms srcs sid d0 v0).take k).map (·.2)) := by
  induction srcs generalizing d0 v0 k with
  | nil => simp [compositeLog, compositeRun] at hc
  | cons s rest ih =>
    simp only [compositeLog, compositeRun] at hc
    simp only [compositeOuts]
    cases hg : s.getData sid d0 v0 with
    | error e =>
      simp only [hg] at hc ⊢
      cases k with
      | zero =>
        simp only [List.getElem?_cons_zero, Option.some.injEq] at hc
        subst hc
        exact ⟨d0, by simp [mergeFold], rfl, rfl, by simp [versionFold]⟩
      | succ k => simp at hc
    | ok p =>
      obtain ⟨nd, nv⟩ := p
      simp only [hg] at hc ⊢
      cases hm : mergeDict ml ms d0 nd with
      | error e =>
        simp only [hm] at hc ⊢
        cases k with
        | zero =>
          simp only [List.getElem?_cons_zero, Option.some.injEq] at hc
          subst hc
          exact ⟨d0, by simp [mergeFold], rfl, rfl, by simp [versionFold]⟩
        | succ k => simp at hc
      | ok pd' =>
        simp only [hm] at hc ⊢
        cases k with
        | zero =>
          simp only [List.getElem?_cons_zero, Option.some.injEq] at hc
          subst hc
          exact ⟨d0, by simp [mergeFold], rfl, rfl, by simp [versionFold]⟩
        | succ k =>
          simp only [List.getElem?_cons_succ] at hc
          obtain ⟨dk, h1, h2, h3, h4⟩ := ih (d0 := pd') (v0 := aggregateVersion H [v0, nv]) k hc
          refine ⟨dk, ?_, h2, h3, ?_⟩
          · simp only [List.take_succ_cons, List.map_cons, mergeFold, hm]; exact h1
          · simp only [List.take_succ_cons, List.map_cons, versionFold, List.foldl_cons]; exact h4

/-- **The chain checker accepts every model run**: `checkChain` (every source called in order
with the system id, a correctly merged tree per `checkDict` and `H(prev | version)`; a raising
source or a merge conflict ends the run with that exception; otherwise the last state is the
result) holds for the model's call log and outcome as the harness observes them, provided the
sources answer with dictionaries. The same checker runs on the real composite's call log. -/
theorem composite_checked (srcs : List Source) (sid : String) (d0 : Dict) (v0 : String)
    (hs : ∀ s ∈ srcs, ∀ sid pd pv nd nv, s.getData sid pd pv = .ok (nd, nv) → Dict.wf nd = true) :
    checkChain H ml ms sid srcs.length d0 v0
      (getEntriesOf srcs (compositeLog H ml ms srcs sid d0 v0))
      (observedResult (compositeGet H ml ms srcs sid d0 v0)) = true := by
  induction srcs generalizing d0 v0 with
  | nil => simp [compositeGet, compositeRun, getEntriesOf, observedResult, checkChain]
  | cons s rest ih =>
    have ih' := fun d v => ih d v (fun s hs' => hs s (by simp [hs']))
    simp only [compositeLog, compositeGet, compositeRun] at ih' ⊢
    cases hg : s.getData sid d0 v0 with
    | error c =>
      simp [getEntriesOf, hg, observedResult, checkChain, resultIsError, CompErr.name]
    | ok p =>
      obtain ⟨nd, nv⟩ := p
      have hwf := hs s (by simp) sid d0 v0 nd nv hg
      simp only []
      cases hm : mergeDict ml ms d0 nd with
      | error e =>
        have hcf := (merge_typeerror_iff (ml := ml) (ms := ms) d0 nd).mp ⟨e, hm⟩
        simp [getEntriesOf, hg, observedResult, checkChain, resultIsError, CompErr.name, hcf]
      | ok pd' =>
        have hcf : dictConflict ml ms d0 nd = false := by
          cases hd : dictConflict ml ms d0 nd with
          | false => rfl
          | true =>
            obtain ⟨e, he⟩ := (merge_typeerror_iff (ml := ml) (ms := ms) d0 nd).mpr hd
            rw [hm] at he; cases he
        have hck := merge_checked hwf hm
        have hrec := ih' pd' (aggregateVersion H [v0, nv])
        simp only [getEntriesOf, hg, checkChain, List.length_cons, Nat.add_sub_cancel, hcf,
          beq_self_eq_true, Bool.false_eq_true, if_false]
        have hns : nextState
            (getEntriesOf rest (compositeRun H ml ms rest sid pd' (aggregateVersion H [v0, nv])).1)
            (observedResult (compositeRun H ml ms rest sid pd' (aggregateVersion H [v0, nv])).2) =
            some (pd', aggregateVersion H [v0, nv]) := by
          cases rest with
          | nil => simp [compositeRun, getEntriesOf, observedResult, nextState]
          | cons s2 rest2 =>
            simp only [compositeRun]
            cases s2.getData sid pd' (aggregateVersion H [v0, nv]) with
            | error c => simp [getEntriesOf, nextState]
            | ok p2 =>
              obtain ⟨nd2, nv2⟩ := p2
              simp only []
              cases mergeDict ml ms pd' nd2 <;> simp [getEntriesOf, nextState]
        rw [hns]
        simp only [hck, Bool.true_and, Bool.and_eq_true]
        refine ⟨by simp, ?_, hrec⟩
        simp [aggregateVersion, joinSep]

/-- **find_system answers with the first non-None result in order**: if the sources before
index `i` answer `None` and source `i` answers `r ≠ None` (an id or an exception), the
composite answers `r` after asking exactly `i + 1` sources; if all answer `None`, so does the
composite after asking all of them. -/
theorem composite_find_first (srcs : List Source) (key : String) (value : Val) :
    (∀ i r, (h : i < srcs.length) →
        (∀ j, (hj : j < i) → srcs[j].findSystem key value = .ok Option.none) →
        srcs[i].findSystem key value = r → r ≠ .ok Option.none →
        compositeFindRun srcs key value = (i + 1, r)) ∧
    ((∀ s ∈ srcs, s.findSystem key value = .ok Option.none) →
        compositeFindRun srcs key value = (srcs.length, .ok Option.none)) := by
  induction srcs with
  | nil =>
    refine ⟨fun i r h => by simp at h, fun _ => by simp [compositeFindRun]⟩
  | cons s rest ih =>
    refine ⟨?_, ?_⟩
    · intro i r h hbefore hi hr
      cases i with
      | zero =>
        simp only [List.getElem_cons_zero] at hi
        simp only [compositeFindRun]
        rw [hi]
        cases r with
        | error c => rfl
        | ok o =>
          cases o with
          | none => exact absurd rfl hr
          | some x => rfl
      | succ i =>
        have h0 := hbefore 0 (by omega)
        simp only [List.getElem_cons_zero] at h0
        simp only [List.getElem_cons_succ] at hi
        have := ih.1 i r (by simpa using h) (fun j hj => by
          have := hbefore (j + 1) (by omega)
          simpa using this) hi hr
        simp [compositeFindRun, h0, this]
    · intro hall
      have h0 := hall s (by simp)
      have := ih.2 (fun s hs => hall s (by simp [hs]))
      simp [compositeFindRun, h0, this]

/-- **The find checker accepts every model run** (`checkFind`: sources asked in order with the
unchanged key and value up to and including the first that does not answer `None`; its answer
is the composite's). The same checker runs on the real composite's call log. -/
theorem composite_find_checked (srcs : List Source) (key : String) (value : Val) :
    checkFind key value srcs.length
      (findEntriesOf srcs key value (compositeFindRun srcs key value).1)
      (compositeFindRun srcs key value).2 = true := by
  induction srcs with
  | nil => simp [compositeFindRun, findEntriesOf, checkFind, findOutBeq]
  | cons s rest ih =>
    simp only [compositeFindRun]
    cases hf : s.findSystem key value with
    | error c => simp [findEntriesOf, checkFind, hf, findOutBeq]
    | ok o =>
      cases o with
      | some x => simp [findEntriesOf, checkFind, hf, findOutBeq]
      | none =>
        simp only [findEntriesOf, List.take_succ_cons, List.map_cons, checkFind, hf,
          List.length_cons, Nat.add_sub_cancel, beq_self_eq_true, Bool.and_true]
        simp only [findEntriesOf] at ih
        simpa using ih

/-! ## versions -/

/-- **`aggregate_version` is injective on separator-free version lists of equal length**, if
the hash is: equal aggregates ⇒ equal constituent lists. (`"|".join` is what is modelled; a
constituent containing `|` can collide: `["a|b"]` vs `["a","b"]` have different lengths, but
`["a|b","c"]` and `["a","b|c"]` join to the same string — hence the hypothesis.) -/
theorem aggregate_version_injective (hH : Function.Injective H) :
    ∀ vs vs' : List String, vs.length = vs'.length →
      (∀ v ∈ vs, sepFree v) → (∀ v ∈ vs', sepFree v) →
      aggregateVersion H vs = aggregateVersion H vs' → vs = vs' := by
  intro vs vs' hl h1 h2 h
  have hj : joinSep vs = joinSep vs' := hH h
  clear h
  induction vs generalizing vs' with
  | nil => cases vs' with
    | nil => rfl
    | cons _ _ => simp at hl
  | cons v rest ih =>
    cases vs' with
    | nil => simp at hl
    | cons v' rest' =>
      cases rest with
      | nil =>
        cases rest' with
        | nil => simp only [joinSep] at hj; rw [hj]
        | cons _ _ => simp at hl
      | cons w rest =>
        cases rest' with
        | nil => simp at hl
        | cons w' rest' =>
          rw [joinSep_cons2, joinSep_cons2] at hj
          obtain ⟨e1, e2⟩ := join2_inj_first hj (h1 v (by simp)) (h2 v' (by simp))
          have := ih (w' :: rest') (by simpa using hl) (fun x hx => h1 x (by simp [hx]))
            (fun x hx => h2 x (by simp [hx])) e2
          rw [e1, this]

/-- **The composite version determines every constituent version** (and the initial version):
for an injective hash and separator-free constituent versions, two runs over equally many
sources that end with the same composite version had the same initial version and the same
constituent versions, one by one. -/
theorem composite_version_injective (hH : Function.Injective H) :
    ∀ (vs vs' : List String) (v0 v0' : String), vs.length = vs'.length →
      (∀ v ∈ vs, sepFree v) → (∀ v ∈ vs', sepFree v) →
      versionFold H v0 vs = versionFold H v0' vs' → v0 = v0' ∧ vs = vs' := by
  intro vs
  induction vs with
  | nil =>
    intro vs' v0 v0' hl _ _ h
    cases vs' with
    | nil => exact ⟨by simpa [versionFold] using h, rfl⟩
    | cons _ _ => simp at hl
  | cons v rest ih =>
    intro vs' v0 v0' hl h1 h2 h
    cases vs' with
    | nil => simp at hl
    | cons v' rest' =>
      simp only [versionFold, List.foldl_cons] at h
      obtain ⟨e1, e2⟩ := ih rest' _ _ (by simpa using hl) (fun x hx => h1 x (by simp [hx]))
        (fun x hx => h2 x (by simp [hx])) h
      have hj : v0 ++ "|" ++ v = v0' ++ "|" ++ v' := by
        have := hH e1
        simpa [joinSep] using this
      obtain ⟨e3, e4⟩ := join2_inj hj (h1 v (by simp)) (h2 v' (by simp))
      exact ⟨e3, by rw [e4, e2]⟩

/-- **The composite changes its version whenever a constituent's version changes**: two
successful composite runs over equally many sources (same or different initial version) whose
sources answered with different version lists return different versions. -/
theorem composite_version_changes (hH : Function.Injective H)
    {srcs srcs' : List Source} {sid sid' : String} {d0 d0' d d' : Dict} {v0 v v' : String}
    (hl : srcs.length = srcs'.length)
    (h : compositeGet H ml ms srcs sid d0 v0 = .ok (d, v))
    (h' : compositeGet H ml ms srcs' sid' d0' v0 = .ok (d', v'))
    (hf : ∀ x ∈ (compositeOuts H ml ms srcs sid d0 v0).map (·.2), sepFree x)
    (hf' : ∀ x ∈ (compositeOuts H ml ms srcs' sid' d0' v0).map (·.2), sepFree x)
    (hne : (compositeOuts H ml ms srcs sid d0 v0).map (·.2) ≠
           (compositeOuts H ml ms srcs' sid' d0' v0).map (·.2)) :
    v ≠ v' := by
  obtain ⟨l1, _, e1⟩ := composite_foldl h
  obtain ⟨l2, _, e2⟩ := composite_foldl h'
  intro hv
  have := composite_version_injective hH _ _ v0 v0 (by simp [l1, l2, hl]) hf hf'
    (by rw [e1, e2, hv])
  exact hne this.2

/-! ## associativity

`mergeLeft a b c` = `merge(merge(a, b), c)`, `mergeRight a b c` = `merge(a, merge(b, c))`
(Spec/Merge.lean; the inner call's exception is the exception of the whole).  For dictionaries
(distinct keys at every level) and every flag setting the two are the SAME association list —
same keys in the same order, the same key objects (`True` vs `1`), the same values, lists in
the same order with the same representative of `==`-equal elements — whenever one of them
succeeds, and one raises iff the other does.  Probed on the real `merge_data_trees` before
proving (471 648 exhaustive single-key triples over a 33-value alphabet incl. `True`/`1`
bridging in keys, list and set elements, and 300 000 random nested triples: no difference in
outcome class, value, key order or key type); the harness compares both bracketings of every
generated triple (clause `assoc`).

Why list / set merging does NOT break it: with `⊕ = appendUnseen`, `(A ⊕ B) ⊕ C` and
`A ⊕ (B ⊕ C)` both keep `A`, then the first representative of every `==`-class of `B` that
`A` lacks, then the first representative of every class of `C` that neither has — all that is
needed of `==` is reflexivity on the elements (`pyEq_refl`, from well-formedness) and
transitivity (`pyEq_trans`, unconditional); symmetry is not needed.  `True == 1` is harmless
because the surviving representative is the leftmost one under both bracketings.  The statement
would fail only for an `==` that is not transitive or not reflexive (NaN), which the value
domain excludes.

What is NOT equal is the identity of the raised error (the `raise` site, in Python the message
with the key path): `merge_assoc_error_site_differs`.
-/

/-- **Associativity.** For dictionaries `a`, `b`, `c` (distinct keys at every level) and every
flag setting: if both bracketings succeed, `merge(merge(a,b),c)` and `merge(a,merge(b,c))` are
the same association list — keys, key order and values (nested dictionaries, appended lists and
united sets included). -/
theorem merge_assoc {a b c ab bc l r : Dict}
    (ha : Dict.wf a = true) (hb : Dict.wf b = true) (hc : Dict.wf c = true)
    (h1 : mergeDict ml ms a b = .ok ab) (h2 : mergeDict ml ms ab c = .ok l)
    (h3 : mergeDict ml ms b c = .ok bc) (h4 : mergeDict ml ms a bc = .ok r) : l = r := by
  obtain ⟨bc', h3', h4'⟩ := (assocD_all (ml := ml) (ms := ms) a b c ha hb hc).1 ab l h1 h2
  rw [h3] at h3'; injection h3' with h3'; subst h3'
  rw [h4] at h4'; injection h4' with h4'; exact h4'.symm

/-- **Associativity, success half.** One bracketing succeeds with result `l` iff the other
succeeds with the same `l`. -/
theorem merge_assoc_ok_iff {a b c : Dict}
    (ha : Dict.wf a = true) (hb : Dict.wf b = true) (hc : Dict.wf c = true) (l : Dict) :
    mergeLeft ml ms a b c = .ok l ↔ mergeRight ml ms a b c = .ok l := by
  have hA := assocD_all (ml := ml) (ms := ms) a b c ha hb hc
  simp only [mergeLeft, mergeRight]
  constructor
  · intro h
    cases h1 : mergeDict ml ms a b with
    | error e => simp [h1] at h
    | ok ab =>
      simp only [h1] at h
      obtain ⟨bc, h3, h4⟩ := hA.1 ab l h1 h
      simp only [h3, h4]
  · intro h
    cases h3 : mergeDict ml ms b c with
    | error e => simp [h3] at h
    | ok bc =>
      simp only [h3] at h
      obtain ⟨ab, h1, h2⟩ := hA.2 bc l h3 h
      simp only [h1, h2]

/-- **Associativity, error half.** `merge(merge(a,b),c)` raises TypeError iff
`merge(a,merge(b,c))` does (in either case from the inner or from the outer call). -/
theorem merge_assoc_typeerror_iff {a b c : Dict}
    (ha : Dict.wf a = true) (hb : Dict.wf b = true) (hc : Dict.wf c = true) :
    (∃ e, mergeLeft ml ms a b c = .error e) ↔ (∃ e, mergeRight ml ms a b c = .error e) := by
  have hi := merge_assoc_ok_iff (ml := ml) (ms := ms) ha hb hc
  constructor
  · rintro ⟨e, he⟩
    cases hr : mergeRight ml ms a b c with
    | error e' => exact ⟨e', rfl⟩
    | ok l => rw [(hi l).mpr hr] at he; cases he
  · rintro ⟨e, he⟩
    cases hl : mergeLeft ml ms a b c with
    | error e' => exact ⟨e', rfl⟩
    | ok l => rw [(hi l).mp hl] at he; cases he

/-- **Associativity of the observable outcome**: what a caller sees of the two bracketings —
the result, or the exception class — is the same. This is the equation the harness evaluates on
the real `merge_data_trees` for every generated triple (clause `assoc`). -/
theorem merge_assoc_outcome {a b c : Dict}
    (ha : Dict.wf a = true) (hb : Dict.wf b = true) (hc : Dict.wf c = true) :
    observedOutcome (mergeLeft ml ms a b c) = observedOutcome (mergeRight ml ms a b c) := by
  have hi := merge_assoc_ok_iff (ml := ml) (ms := ms) ha hb hc
  cases hl : mergeLeft ml ms a b c with
  | ok l => rw [(hi l).mp hl]
  | error e =>
    cases hr : mergeRight ml ms a b c with
    | error e' => rfl
    | ok l => rw [(hi l).mpr hr] at hl; cases hl

/-- **The stronger equation `mergeLeft = mergeRight` is false**: the two bracketings may raise
at different `raise` sites (in Python: same class `TypeError`, different message and key path).
Witness (`merge_lists` on): `a = {y: {}, x: 1}`, `b = {x: 1}`, `c = {x: [], y: 1}` — the left
bracketing fails on `y` (mapping vs non-mapping), the right one on `x` (sequence vs
non-sequence) inside `merge(b, c)`. Hence `merge_assoc_outcome` identifies the errors. -/
theorem merge_assoc_error_site_differs :
    ∃ a b c : Dict, Dict.wf a = true ∧ Dict.wf b = true ∧ Dict.wf c = true ∧
      mergeLeft true false a b c = .error .mapping ∧
      mergeRight true false a b c = .error .sequence :=
  ⟨[(.str "y", .dict []), (.str "x", .int 1)], [(.str "x", .int 1)],
   [(.str "x", .list []), (.str "y", .int 1)], by decide, by decide, by decide, rfl, rfl⟩

/-- **The merge of two dictionaries is a dictionary** (distinct keys at every level), so the
well-formedness hypotheses of the theorems above hold again for merged trees, e.g. along a
composite run. -/
theorem merge_wf {a b r : Dict} (ha : Dict.wf a = true) (hb : Dict.wf b = true)
    (h : mergeDict ml ms a b = .ok r) : Dict.wf r = true :=
  wf_mergeDict ha hb h

/-- **List / set merging is associative on its own**: appending the unseen elements of `B` and
then of `C` to `A` gives the same list as appending to `A` the unseen elements of `B ⊕ C` —
same elements, same order, same representative of `==`-equal elements (`True` vs `1`). -/
theorem append_unseen_assoc (A B C : List Val) (hB : ∀ e ∈ B, e.wf = true) (hC : ∀ e ∈ C, e.wf = true) :
    appendUnseen (appendUnseen A B) C = appendUnseen A (appendUnseen B C) :=
  appendUnseen_assoc A B C (fun e he => pyEq_refl e (hB e he)) (fun e he => pyEq_refl e (hC e he))

/-- `True == 1` bridging in keys and list elements, tuples merged into lists: both bracketings
give `{True: [True, 2, 3]}` (the key object and the representative `True` come from `a`) -/
example :
    mergeLeft true true [(.bool true, .list [.bool true])] [(.int 1, .list [.int 1, .int 2])]
      [(.bool true, .tuple [.int 2, .bool true, .int 3])] = .ok [(.bool true, .list [.bool true, .int 2, .int 3])] ∧
    mergeRight true true [(.bool true, .list [.bool true])] [(.int 1, .list [.int 1, .int 2])]
      [(.bool true, .tuple [.int 2, .bool true, .int 3])] = .ok [(.bool true, .list [.bool true, .int 2, .int 3])] :=
  ⟨rfl, rfl⟩

/-! ## examples: the hypotheses are satisfiable, known-bad behaviour is rejected -/

/-- an injective "hash" exists, so the version theorems are not vacuous -/
example : Function.Injective (fun s : String => s) := fun _ _ h => h
example : sepFree "3f2a" := by unfold sepFree; decide
/-- without separator-freeness `"|".join` collides, so the hypothesis cannot be dropped -/
example : joinSep ["a|b", "c"] = joinSep ["a", "b|c"] := by decide
/-- a well-formed dictionary; a model run the theorems talk about -/
example : Dict.wf [(.str "x", .list [.int 1]), (.int 1, .dict [(.none, .set [])])] = true := by decide
example : mergeDict true true [(.int 1, .list [.int 1, .bool false])] [(.bool true, .tuple [.int 0, .int 2, .int 2])]
    = .ok [(.int 1, .list [.int 1, .bool false, .int 2])] := by rfl

/-- b's value must win: keeping a's value is rejected -/
example : checkDict false false [(.int 1, .int 5)] [(.int 1, .int 6)] [(.int 1, .int 5)] = false := by decide
/-- list append without the "unseen" test is rejected -/
example : checkValue true true (.list [.int 1]) (.list [.int 1, .int 2]) (.list [.int 1, .int 1, .int 2]) = false := by
  decide
/-- ignoring the set flag (overriding instead of uniting) is rejected -/
example : checkValue false true (.set [.int 1]) (.set [.int 2]) (.set [.int 2]) = false := by decide
/-- b's new key placed before a's keys is rejected -/
example : checkKeys [(.int 1, .none)] [(.int 2, .none)] [(.int 2, .none), (.int 1, .none)] = false := by decide
/-- returning a value where a mapping meets a scalar is rejected; so is raising without a conflict -/
example : checkOutcome false false [(.int 1, .dict [])] [(.int 1, .int 0)] (.ok [(.int 1, .int 0)]) = false := by decide
example : checkOutcome false false [(.int 1, .int 0)] [(.int 1, .int 2)] (.error "TypeError") = false := by decide
/-- find_system answering with the LAST non-None result is rejected -/
example : checkFind "k" .none 2
    [⟨"k", .none, .ok (some "first")⟩, ⟨"k", .none, .ok (some "last")⟩] (.ok (some "last")) = false := by decide
/-- a source that is not given the merged data of its predecessors is rejected -/
example : checkChain (fun s => s) false false "id" 2 [] "v"
    [⟨"id", [], "v", .ok ([(.int 1, .int 1)], "a")⟩, ⟨"id", [], "v|a", .ok ([], "b")⟩]
    (.ok ([(.int 1, .int 1)], "v|a|b")) = false := by decide

end Vinegar.C13
