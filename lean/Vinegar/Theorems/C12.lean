import Vinegar.Lemmas.YamlCache
/-
C12 — YAML target caching is transparent: never stale, isolated, versions track data.

The model (`Vinegar.Yaml.compileC`, `getData`, `runHistory`, `Cache`) has the three cache
layers of the code: the per-system item `{top, data_file_<name>, result}` consulted as
`_old_cache` and rebuilt as `_new_cache`, and the `LRUCache`/`NullCache` underneath. It
describes the REPAIRED behaviour for D14 (distinct versions for the pre- and post-include
piece of a file) and D15 (a name already processed in this compile is not rendered again).

Hypotheses, never axioms: `VerOK vf` — `version_for_str` injective with separator-free
values, `aggregate_version` injective on lists of separator-free strings ("no hash
collisions") — and `SepFree pdv` for the preceding-data versions handed in by the caller.
Value isolation (deep copies) holds by construction: model values are immutable; the harness
checks it on the implementation by mutating every returned tree.
-/
namespace Vinegar.C12
open Vinegar.Yaml

/-- **The invariant.** Every part of a cache item was computed from a text (and preceding
data version) carrying the version it is stored under; see `Vinegar.Yaml.Valid`. -/
def Valid (vf : VerFns) (W : World) (cfg : Cfg) (id : String) (item : Item) : Prop :=
  Vinegar.Yaml.Valid vf W cfg id item

/-- what the caller of `compile_data` observes -/
def resultOf : Except Err Compiled → Except Err (Mapping × String)
  | .ok r => .ok (r.data, r.version)
  | .error e => .error e

theorem compileC_result (vf : VerFns) (W : World) (hver : VerOK vf) (cfg : Cfg) (fuel : Nat) (id pdv : String)
    (hpdv : SepFree pdv) (top : VTop) (tree : VTree) (old : Option Item)
    (hold : ∀ item, old = some item → Valid vf W cfg id item) :
    resultOf (compileC vf W cfg fuel id pdv top tree old) = compileV vf W cfg fuel id pdv top tree := by
  have h := compileC_spec vf W hver cfg fuel id pdv hpdv top tree old hold
  cases hv : compileV vf W cfg fuel id pdv top tree with
  | error e => rw [hv] at h; simp only [] at h; rw [h]; rfl
  | ok dv =>
    rw [hv] at h
    obtain ⟨r, h1, h2, h3, _, _⟩ := h
    rw [h1]; simp only [resultOf, h2, h3]

/-- **Transparency of one compile.** With ANY valid cache item, `compile_data` returns the
data, the version string, or the error that it returns with an empty cache; and the data of
the empty-cache run is the C11 model `compile` on the tree as it is now (all trees, ids,
preceding-data versions, fuels). -/
theorem compile_transparent (vf : VerFns) (W : World) (hver : VerOK vf) (cfg : Cfg) (fuel : Nat)
    (id pdv : String) (hpdv : SepFree pdv) (top : VTop) (tree : VTree) (old : Item)
    (hold : Valid vf W cfg id old) :
    resultOf (compileC vf W cfg fuel id pdv top tree (some old)) =
      resultOf (compileC vf W cfg fuel id pdv top tree none) ∧
    dataOf (resultOf (compileC vf W cfg fuel id pdv top tree (some old))) =
      compile cfg fuel (topViewOf W id pdv top) (ptree W tree) := by
  have h1 := compileC_result vf W hver cfg fuel id pdv hpdv top tree (some old)
    (fun item h => by cases h; exact hold)
  have h2 := compileC_result vf W hver cfg fuel id pdv hpdv top tree none (fun item h => by cases h)
  refine ⟨by rw [h1, h2], ?_⟩
  rw [h1, compileV_data vf W]
  cases compileV vf W cfg fuel id pdv top tree <;> rfl

/-- **The invariant is preserved**: the item that `compile_data` hands back for storing is
valid again (whether it is the old object or a new one). -/
theorem compile_preserves_valid (vf : VerFns) (W : World) (hver : VerOK vf) (cfg : Cfg) (fuel : Nat)
    (id pdv : String) (hpdv : SepFree pdv) (top : VTop) (tree : VTree) (old : Option Item)
    (hold : ∀ item, old = some item → Valid vf W cfg id item) (r : Compiled)
    (h : compileC vf W cfg fuel id pdv top tree old = .ok r) : Valid vf W cfg id r.item := by
  have hs := compileC_spec vf W hver cfg fuel id pdv hpdv top tree old hold
  cases hv : compileV vf W cfg fuel id pdv top tree with
  | error e => rw [hv] at hs; simp only [] at hs; rw [hs] at h; cases h
  | ok dv =>
    rw [hv] at hs
    obtain ⟨r', h1, _, _, h4, _⟩ := hs
    rw [h1] at h; cases h; exact h4

/-- **D15 repaired, for the model**: within one compile every file name is rendered at most
once (the read log has no duplicates). The cache keys are NAMES: two different names of one
file (`a` and `a.init`, `a.b` and `a..b`) are still read once each. -/
theorem one_read_per_file (vf : VerFns) (W : World) (hver : VerOK vf) (cfg : Cfg) (fuel : Nat)
    (id pdv : String) (hpdv : SepFree pdv) (top : VTop) (tree : VTree) (old : Option Item)
    (hold : ∀ item, old = some item → Valid vf W cfg id item) (r : Compiled)
    (h : compileC vf W cfg fuel id pdv top tree old = .ok r) : r.reads.Nodup := by
  have hs := compileC_spec vf W hver cfg fuel id pdv hpdv top tree old hold
  cases hv : compileV vf W cfg fuel id pdv top tree with
  | error e => rw [hv] at hs; simp only [] at hs; rw [hs] at h; cases h
  | ok dv =>
    rw [hv] at hs
    obtain ⟨r', h1, _, _, _, h5⟩ := hs
    rw [h1] at h; cases h; exact h5

/-! ## the LRU -/

/-- **The LRU refines a bounded recency list**, for every cache size: size 0 is the
`NullCache` (never returns, never stores); for size ≥ 1 `get` returns the stored value and
makes the key the most recent one, `set` makes `(k, v)` the most recent entry and keeps
exactly the `size` most recent entries (`specTouch`) — the in-place update, `move_to_end` and
the single `popitem(last=False)` of the code suffice because of the representation invariant
(distinct keys, at most `size` entries), which both operations preserve. -/
theorem lru_spec {V : Type} (c : Cache V) (hinv : c.Inv) (k : String) (v : V) :
    (c.size = 0 → (c.get k).1 = none ∧ (c.get k).2.data = c.data ∧ (c.set k v).data = c.data) ∧
    (0 < c.size →
      (c.get k).1 = odGet k c.data ∧
      (∀ w, odGet k c.data = some w → (c.get k).2.data = c.data.filter (fun p => p.1 ≠ k) ++ [(k, w)]) ∧
      (odGet k c.data = none → (c.get k).2.data = c.data) ∧
      (c.set k v).data = specTouch c.size k v c.data) ∧
    (c.get k).2.Inv ∧ (c.set k v).Inv := by
  obtain ⟨hnd, hlen⟩ := hinv
  have hlen' : (c.data.filter (fun p => p.1 ≠ k) ++ [(k, v)]).length ≤ c.size + 1 := by
    simp only [List.length_append, List.length_cons, List.length_nil]
    have := List.length_filter_le (fun p => decide (p.1 ≠ k)) c.data
    omega
  have hset : 0 < c.size → (c.set k v).data = specTouch c.size k v c.data := by
    intro hs
    unfold Cache.set specTouch
    have : ¬ c.size = 0 := by omega
    simp only [this, if_false, moveToEnd_set k v c.data hnd]
    split
    · rename_i hgt
      have : (c.data.filter (fun p => p.1 ≠ k) ++ [(k, v)]).length - c.size = 1 := by omega
      simp only [this, List.drop_one]
    · rename_i hle
      have : (c.data.filter (fun p => p.1 ≠ k) ++ [(k, v)]).length - c.size = 0 := by omega
      simp only [this, List.drop_zero]
  refine ⟨?_, ?_, ?_, ?_⟩
  · intro hs
    simp [Cache.get, Cache.set, hs]
  · intro hs
    have hne : ¬ c.size = 0 := by omega
    refine ⟨?_, ?_, ?_, hset hs⟩
    · unfold Cache.get
      simp only [hne, if_false]
      cases odGet k c.data <;> rfl
    · intro w hw
      unfold Cache.get
      simp only [hne, if_false, hw, moveToEnd_get k w c.data hnd hw]
    · intro hn
      unfold Cache.get
      simp only [hne, if_false, hn]
  · unfold Cache.get
    by_cases hs : c.size = 0
    · simp only [hs, if_true]; exact ⟨hnd, by omega⟩
    · simp only [hs, if_false]
      cases hg : odGet k c.data with
      | none => exact ⟨hnd, hlen⟩
      | some w =>
        simp only [Cache.Inv, moveToEnd_get k w c.data hnd hg]
        refine ⟨keys_touch_nodup k w c.data hnd, ?_⟩
        -- the key was present: removing it and appending it keeps the length
        have hmem := odGet_mem k c.data w hg
        have : (c.data.filter (fun p => p.1 ≠ k)).length < c.data.length := by
          apply List.length_filter_lt_length_iff_exists.2
          exact ⟨(k, w), hmem, by simp⟩
        simp only [List.length_append, List.length_cons, List.length_nil]
        omega
  · by_cases hs : c.size = 0
    · unfold Cache.set; simp only [hs, if_true]; exact ⟨hnd, by omega⟩
    · have hpos : 0 < c.size := by omega
      have hsz : (c.set k v).size = c.size := by
        unfold Cache.set; simp only [hs, if_false]; split <;> rfl
      refine ⟨?_, ?_⟩
      · rw [hset hpos]
        unfold specTouch
        exact List.Nodup.sublist (List.Sublist.map _ (List.drop_sublist _ _)) (keys_touch_nodup k v c.data hnd)
      · rw [hset hpos, hsz]
        unfold specTouch
        simp only [List.length_drop]
        omega

/-! ## histories -/

/-- the property kept by the LRU: every stored item is valid for the system it is stored under -/
def CacheValid (vf : VerFns) (W : World) (cfg : Cfg) (cache : Cache Item) : Prop :=
  cache.All (fun id item => Valid vf W cfg id item)

/-- one `get_data` call: returns what the cache-less compilation returns (data, version or
error), keeps every stored item valid, keeps the cache size -/
theorem getData_step (vf : VerFns) (W : World) (hver : VerOK vf) (cfg : Cfg) (fuel : Nat)
    (cache : Cache Item) (hc : CacheValid vf W cfg cache) (c : Call) (hpdv : SepFree c.pdv) :
    (getData vf W cfg fuel cache c).1 = compileV vf W cfg fuel c.id c.pdv c.top c.tree ∧
    CacheValid vf W cfg (getData vf W cfg fuel cache c).2.1 := by
  unfold getData
  obtain ⟨hget, hall, _⟩ := Cache.get_all (fun id item => Valid vf W cfg id item) cache c.id hc
  have hold : ∀ item, (cache.get c.id).1 = some item → Valid vf W cfg c.id item := fun item h => hget item h
  have hs := compileC_spec vf W hver cfg fuel c.id c.pdv hpdv c.top c.tree (cache.get c.id).1 hold
  cases hv : compileV vf W cfg fuel c.id c.pdv c.top c.tree with
  | error e =>
    rw [hv] at hs
    simp only [] at hs
    simp only [hs]
    exact ⟨trivial, hall⟩
  | ok dv =>
    rw [hv] at hs
    obtain ⟨r, h1, h2, h3, h4, _⟩ := hs
    simp only [h1]
    refine ⟨by rw [h2, h3], ?_⟩
    split
    · exact (Cache.set_all _ _ c.id r.item hall h4).1
    · exact hall

/-- every `get` of the history carries a separator-free preceding-data version (caller
contract: version strings are hashes) -/
def PdvOK : List Step → Prop
  | [] => True
  | .get _ pdv :: rest => SepFree pdv ∧ PdvOK rest
  | _ :: rest => PdvOK rest

/-- **Transparency over histories.** For every history of {write, delete, mkdir, swap
file↔dir/init, top-file change, get(system, preceding data)}, every cache size (0 = no
cache, eviction included) and every valid initial cache content — in particular the empty
cache of a new source — each call of the long-lived source returns exactly what a newly
constructed cache-less source returns on the tree as it is at that moment. -/
theorem history_transparent (vf : VerFns) (W : World) (R : Render) (hver : VerOK vf) (cfg : Cfg) (fuel : Nat)
    (steps : List Step) :
    ∀ (fs : Fs) (cache : Cache Item), CacheValid vf W cfg cache → PdvOK steps →
      (runHistory vf W R cfg fuel fs cache steps).map dataOf = freshHistory W R cfg fuel fs steps := by
  induction steps with
  | nil => intro fs cache _ _; rfl
  | cons s rest ih =>
    intro fs cache hc hp
    cases s with
    | get id pdv =>
      obtain ⟨hp1, hp2⟩ := hp
      have hstep := getData_step vf W hver cfg fuel cache hc (fs.call R id pdv) hp1
      simp only [runHistory, freshHistory, List.map_cons]
      rw [ih fs _ hstep.2 hp2, hstep.1]
      congr 1
      unfold freshResult
      have := compileV_data vf W cfg fuel id pdv (fs.call R id pdv).top (fs.call R id pdv).tree
      have e1 : (fs.call R id pdv).topView W = topViewOf W id pdv (fs.call R id pdv).top := by
        unfold Call.topView topViewOf Fs.call
        cases viewTop R id pdv fs.top <;> rfl
      have e2 : (fs.call R id pdv).parsedTree W = ptree W (fs.call R id pdv).tree := rfl
      rw [e1, e2, this]
      have e3 : (fs.call R id pdv).id = id := rfl
      have e4 : (fs.call R id pdv).pdv = pdv := rfl
      rw [e3, e4]
      cases compileV vf W cfg fuel id pdv (fs.call R id pdv).top (fs.call R id pdv).tree <;> rfl
    | write p src => simp only [runHistory, freshHistory]; exact ih _ cache hc hp
    | delete p => simp only [runHistory, freshHistory]; exact ih _ cache hc hp
    | mkdir p => simp only [runHistory, freshHistory]; exact ih _ cache hc hp
    | swap p => simp only [runHistory, freshHistory]; exact ih _ cache hc hp
    | setTop n => simp only [runHistory, freshHistory]; exact ih _ cache hc hp

/-- a new source: any size, nothing stored -/
theorem cacheValid_new (vf : VerFns) (W : World) (cfg : Cfg) (size : Nat) : CacheValid vf W cfg ⟨size, []⟩ := by
  intro k v h; cases h

/-! ## versions track data -/

/-- a returned pair (data, version): the version is the aggregate of the versions of a list
of good pieces whose merge is the data -/
def GoodResult (vf : VerFns) (W : World) (cfg : Cfg) (d : Mapping) (v : String) : Prop :=
  ∃ vps : List (Mapping × String), (∀ p, p ∈ vps → GoodPiece vf W p) ∧ v = vf.agg (vps.map (·.2)) ∧
    foldMerge cfg [] (vps.map (·.1)) = .ok d

theorem compileV_good (vf : VerFns) (W : World) (cfg : Cfg) (fuel : Nat) (id pdv : String) (top : VTop)
    (tree : VTree) (d : Mapping) (v : String)
    (h : compileV vf W cfg fuel id pdv top tree = .ok (d, v)) : GoodResult vf W cfg d v := by
  unfold compileV at h
  simp only [bindE_ok_iff] at h
  obtain ⟨te, _, vps, h2, data, h3, h4⟩ := h
  cases h4
  exact ⟨vps, expandTopV_good vf W tree fuel te.1 vps h2, rfl, h3⟩

theorem goodResult_determines (vf : VerFns) (W : World) (hver : VerOK vf) (cfg : Cfg) (d1 d2 : Mapping)
    (v : String) (h1 : GoodResult vf W cfg d1 v) (h2 : GoodResult vf W cfg d2 v) : d1 = d2 := by
  obtain ⟨l1, g1, e1, f1⟩ := h1
  obtain ⟨l2, g2, e2, f2⟩ := h2
  have hl : l1.map (·.2) = l2.map (·.2) := by
    apply hver.agg_inj
    · intro x hx; rw [List.mem_map] at hx; obtain ⟨p, hp, rfl⟩ := hx
      exact good_sepFree vf W hver p (g1 p hp)
    · intro x hx; rw [List.mem_map] at hx; obtain ⟨p, hp, rfl⟩ := hx
      exact good_sepFree vf W hver p (g2 p hp)
    · rw [← e1, ← e2]
  have hd := good_lists vf W hver l1 l2 g1 g2 hl
  rw [hd, f2] at f1
  cases f1; rfl

theorem runHistory_good (vf : VerFns) (W : World) (R : Render) (hver : VerOK vf) (cfg : Cfg) (fuel : Nat)
    (steps : List Step) :
    ∀ (fs : Fs) (cache : Cache Item), CacheValid vf W cfg cache → PdvOK steps →
      ∀ d v, .ok (d, v) ∈ runHistory vf W R cfg fuel fs cache steps → GoodResult vf W cfg d v := by
  induction steps with
  | nil => intro fs cache _ _ d v h; cases h
  | cons s rest ih =>
    intro fs cache hc hp d v h
    cases s with
    | get id pdv =>
      obtain ⟨hp1, hp2⟩ := hp
      have hstep := getData_step vf W hver cfg fuel cache hc (fs.call R id pdv) hp1
      simp only [runHistory, List.mem_cons] at h
      cases h with
      | inl h => rw [hstep.1] at h; exact compileV_good vf W cfg fuel _ _ _ _ d v h.symm
      | inr h => exact ih fs _ hstep.2 hp2 d v h
    | write p src => simp only [runHistory] at h; exact ih _ cache hc hp d v h
    | delete p => simp only [runHistory] at h; exact ih _ cache hc hp d v h
    | mkdir p => simp only [runHistory] at h; exact ih _ cache hc hp d v h
    | swap p => simp only [runHistory] at h; exact ih _ cache hc hp d v h
    | setTop n => simp only [runHistory] at h; exact ih _ cache hc hp d v h

/-- **Versions track data.** Over any history, any cache size: whenever two calls return
different data, their version strings differ (for one system, and even across systems). This
is the statement whose proof attempt exposed D14: with one version per FILE the piece list is
not determined by the version list; with one version per PIECE (`:0`/`:1`) it is. -/
theorem version_separates_data (vf : VerFns) (W : World) (R : Render) (hver : VerOK vf) (cfg : Cfg) (fuel : Nat)
    (steps : List Step) (fs : Fs) (cache : Cache Item) (hc : CacheValid vf W cfg cache) (hp : PdvOK steps)
    (d1 d2 : Mapping) (v1 v2 : String)
    (h1 : .ok (d1, v1) ∈ runHistory vf W R cfg fuel fs cache steps)
    (h2 : .ok (d2, v2) ∈ runHistory vf W R cfg fuel fs cache steps) (hd : d1 ≠ d2) : v1 ≠ v2 := by
  intro hv
  subst hv
  exact hd (goodResult_determines vf W hver cfg d1 d2 v1
    (runHistory_good vf W R hver cfg fuel steps fs cache hc hp d1 v1 h1)
    (runHistory_good vf W R hver cfg fuel steps fs cache hc hp d2 v1 h2))

/-! Hypotheses are satisfiable; the known-bad behaviour is rejected. -/

/-- the invariant holds of the empty item -/
example (vf : VerFns) (W : World) (cfg : Cfg) (id : String) : Valid vf W cfg id Item.empty :=
  valid_empty vf W cfg id

/-- the D14 observation (equal versions, different data for one system) is rejected by the
checker that `bin/check C12` evaluates on the implementation's observations -/
example : versionsSeparate
    [("s1", .ok [("k", .int 1), ("j", .int 3), ("m", .int 2)] "df6d"),
     ("s1", .ok [("k", .int 1), ("j", .int 1), ("m", .int 2)] "df6d")] = false := by decide
/-- … and so is the stale result of the long-lived source against a fresh source -/
example : c12CheckCall (.ok [("k", .int 1), ("j", .int 1), ("m", .int 2)] "df6d")
    (.ok [("k", .int 1), ("j", .int 3), ("m", .int 2)] "df6d") = false := by decide

end Vinegar.C12
