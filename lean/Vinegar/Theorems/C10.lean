import Vinegar.Theorems.C09
/-
C10 — first matching handler wins and sees the true request metadata (TFTP half).
-/
namespace Vinegar.C10
open Vinegar Vinegar.Tftp

/-- the handler used is the least index whose `can_handle` accepts -/
theorem dispatch_first : ∀ (l : List Bool) (i : Nat),
    firstAccept l = some i ↔ (l[i]? = some true ∧ ∀ j, j < i → l[j]? = some false)
  | [], i => by simp [firstAccept]
  | true :: rest, i => by
    simp only [firstAccept, Option.some.injEq]
    constructor
    · intro h; subst h; simp
    · rintro ⟨h1, h2⟩
      cases i with
      | zero => rfl
      | succ k => have := h2 0 (by omega); simp at this
  | false :: rest, i => by
    have ih := dispatch_first rest
    simp only [firstAccept, Option.map_eq_some_iff]
    constructor
    · rintro ⟨k, hk, rfl⟩
      obtain ⟨h1, h2⟩ := (ih k).mp hk
      refine ⟨by simpa using h1, ?_⟩
      intro j hj
      cases j with
      | zero => rfl
      | succ j' => simpa using h2 j' (by omega)
    · rintro ⟨h1, h2⟩
      cases i with
      | zero => simp at h1
      | succ k =>
        refine ⟨k, (ih k).mpr ⟨by simpa using h1, ?_⟩, rfl⟩
        intro j hj
        simpa using h2 (j + 1) (by omega)

/-- `prepare_context`, `can_handle` of handlers `base`, `base+1`, …, `base+n-1`, in order -/
def pairs : Nat → Nat → List Call
  | _, 0 => []
  | base, n + 1 => Call.prepare base :: Call.canHandle base :: pairs (base + 1) n

theorem pairs_succ (base n : Nat) :
    pairs base (n + 1) = Call.prepare base :: Call.canHandle base :: pairs (base + 1) n := rfl

/-- `prepare_context` and `can_handle` are called for exactly the handlers up to the chosen one, in
order, each `can_handle` with its own handler's context; `handle` is called once, on the chosen
handler — and on no handler when none accepts -/
theorem dispatch_calls : ∀ (l : List Bool) (base : Nat),
    dispatchCalls base l =
      match firstAccept l with
      | some i => pairs base i ++ [Call.prepare (base + i), Call.canHandle (base + i), Call.handle (base + i)]
      | none => pairs base l.length
  | [], base => by simp [dispatchCalls, firstAccept, pairs]
  | true :: rest, base => by simp [dispatchCalls, firstAccept, pairs]
  | false :: rest, base => by
    have ih := dispatch_calls rest (base + 1)
    simp only [dispatchCalls, firstAccept, ih]
    cases h : firstAccept rest with
    | none => simp [pairs_succ]
    | some i =>
      simp only [Option.map_some, pairs_succ, List.cons_append]
      simp [Nat.add_assoc, Nat.add_comm 1 i]

/-- if no handler accepts, the client gets FILE_NOT_FOUND (and no transfer is started) -/
theorem none_not_found (accepts : List Char → List Bool) (hi lo : UInt8) (body : Bytes) (rrq : DecodedRrq)
    (hlen : (hi :: lo :: body).length ≤ maxReq) (hop : unbe16 hi lo = opRRQ)
    (hdec : decodeFields body = some rrq) (hmode : rrq.mode ≠ .mail)
    (hnone : firstAccept (accepts rrq.filename) = none) :
    processDatagram accepts (hi :: lo :: body) = .error Generated.ERROR_FILE_NOT_FOUND := by
  unfold processDatagram
  rw [List.take_of_length_le hlen]
  simp [hop, hdec, hmode, hnone]

/-- the handler is started for the decoded request exactly when some handler accepts -/
theorem some_transfer (accepts : List Char → List Bool) (hi lo : UInt8) (body : Bytes) (rrq : DecodedRrq) (i : Nat)
    (hlen : (hi :: lo :: body).length ≤ maxReq) (hop : unbe16 hi lo = opRRQ)
    (hdec : decodeFields body = some rrq) (hmode : rrq.mode ≠ .mail)
    (hsome : firstAccept (accepts rrq.filename) = some i) :
    processDatagram accepts (hi :: lo :: body) = .transfer rrq i := by
  unfold processDatagram
  rw [List.take_of_length_le hlen]
  simp [hop, hdec, hmode, hsome]

/-- the server address handed to the handler: the address the datagram was sent to (when the
platform reports it) and ALWAYS the port, flow info and scope of the socket it arrived on -/
theorem serverAddr_spec (dst : Option (List Char)) (sn : SockAddr) :
    (serverAddr dst sn).port = sn.port ∧ (serverAddr dst sn).flow = sn.flow ∧
    (serverAddr dst sn).scope = sn.scope ∧ (serverAddr dst sn).host = dst.getD sn.host := by
  cases dst <;> simp [serverAddr]

example : firstAccept [false, true, true] = some 1 ∧
    dispatchCalls 0 [false, true, true] =
      [.prepare 0, .canHandle 0, .prepare 1, .canHandle 1, .handle 1] := by decide

end Vinegar.C10
