import Vinegar.Model.Lifecycle
/-
C20 (lifecycle half, TFTP server): idempotence, restart, and consistency of the end state under
EVERY interleaving of start()/stop() calls from ANY number of threads.
-/
namespace Vinegar.C20Lifecycle
open Vinegar.Lifecycle

def isMid : Pc → Bool
  | .stopJoin => true
  | .stopFinish => true
  | _ => false

def isFin : Pc → Bool
  | .stopFinish => true
  | _ => false

theorem countP_set {α : Type} (p : α → Bool) : ∀ (l : List α) (i : Nat) (a : α) (h : i < l.length),
    (l.set i a).countP p + (if p l[i] then 1 else 0) = l.countP p + (if p a then 1 else 0)
  | [], i, a, h => by simp at h
  | x :: xs, 0, a, _ => by
    simp only [List.set_cons_zero, List.countP_cons, List.getElem_cons_zero]
    omega
  | x :: xs, i + 1, a, h => by
    have ih := countP_set p xs i a (by simpa using h)
    simp only [List.set_cons_succ, List.countP_cons, List.getElem_cons_succ]
    omega

/-- the invariant of the lifecycle protocol -/
structure Inv (c : Config) : Prop where
  mid_le : c.pcs.countP isMid ≤ 1
  flag : c.sh.shutdownReq = true ↔ c.pcs.countP isMid = 1
  stopped : c.sh.running = false → c.sh.threadAlive = false ∧ c.pcs.countP isMid = 0
  serving : c.sh.running = true → c.sh.shutdownReq = false → c.sh.threadAlive = true
  joined : c.pcs.countP isFin = 1 → c.sh.threadAlive = false
  fin_le : c.pcs.countP isFin ≤ c.pcs.countP isMid
  sock : c.sh.socketOpen = c.sh.threadAlive

theorem fin_le_mid (l : List Pc) : l.countP isFin ≤ l.countP isMid := by
  induction l with
  | nil => simp
  | cons x xs ih => cases x <;> simp [List.countP_cons, isFin, isMid] <;> omega

theorem inv_step (c c' : Config) (w : Option Nat) (hi : Inv c) (hs : step c w = some c') : Inv c' := by
  obtain ⟨h1, h2, h3, h4, h5, h6, h7⟩ := hi
  cases w with
  | none =>
    simp only [step, stepServer, Option.map_eq_some_iff] at hs
    obtain ⟨sh', hsh, rfl⟩ := hs
    split at hsh
    · rename_i hc
      simp only [Bool.and_eq_true] at hc
      simp only [Option.some.injEq] at hsh
      subst hsh
      refine ⟨h1, h2, ?_, ?_, ?_, h6, rfl⟩
      · intro hr; exact ⟨rfl, (h3 hr).2⟩
      · intro _ hq; simp only at hq; rw [hc.2] at hq; cases hq
      · intro _; rfl
    · cases hsh
  | some i =>
    simp only [step] at hs
    cases hpc : c.pcs[i]? with
    | none => simp [hpc] at hs
    | some pc =>
      simp only [hpc, Option.map_eq_some_iff] at hs
      obtain ⟨r, hr, rfl⟩ := hs
      obtain ⟨sh', pc'⟩ := r
      have hlt : i < c.pcs.length := by
        rcases List.getElem?_eq_some_iff.mp hpc with ⟨h, _⟩; exact h
      have hget : c.pcs[i] = pc := by
        rcases List.getElem?_eq_some_iff.mp hpc with ⟨_, h⟩; exact h
      have hm := countP_set isMid c.pcs i pc' hlt
      have hf := countP_set isFin c.pcs i pc' hlt
      rw [hget] at hm hf
      have hfm := fin_le_mid (c.pcs.set i pc')
      show Inv ⟨sh', c.pcs.set i pc'⟩
      cases pc with
      | startCall =>
        simp only [stepPc] at hr
        split at hr <;> simp only [Option.some.injEq, Prod.mk.injEq] at hr <;> obtain ⟨rfl, rfl⟩ := hr <;>
          simp only [isMid, isFin, Bool.false_eq_true, if_false, Nat.add_zero] at hm hf
        · exact ⟨by simp only; omega, by simp only; rw [hm]; exact h2, by simp only; rw [hm]; exact h3, h4,
            by simp only; rw [hf]; exact h5, hfm, h7⟩
        · rename_i hrun
          have hrun' : c.sh.running = false := by simpa using hrun
          obtain ⟨ha, hz⟩ := h3 hrun'
          refine ⟨by simp only; omega, ?_, ?_, ?_, ?_, hfm, rfl⟩
          · simp only; rw [hm]; exact h2
          · intro hq; simp at hq
          · intro _ _; rfl
          · simp only; intro hq; rw [hf] at hq; omega
      | stopCall =>
        simp only [stepPc] at hr
        split at hr <;> simp only [Option.some.injEq, Prod.mk.injEq] at hr <;> obtain ⟨rfl, rfl⟩ := hr <;>
          simp only [isMid, isFin, Bool.false_eq_true, if_false, if_true, Nat.add_zero] at hm hf
        · exact ⟨by simp only; omega, by simp only; rw [hm]; exact h2, by simp only; rw [hm]; exact h3, h4,
            by simp only; rw [hf]; exact h5, hfm, h7⟩
        · rename_i hc
          simp only [Bool.or_eq_true, Bool.not_eq_true', not_or, Bool.not_eq_false] at hc
          obtain ⟨hrun, hflag⟩ := hc
          have hflag' : c.sh.shutdownReq = false := by simpa using hflag
          have hz : c.pcs.countP isMid = 0 := by
            have : ¬ (c.pcs.countP isMid = 1) := fun h => by
              have := h2.mpr h; rw [hflag'] at this; cases this
            omega
          refine ⟨by simp only; omega, ?_, ?_, ?_, ?_, hfm, h7⟩
          · simp only [true_iff]; omega
          · intro hq; simp only at hq; rw [hrun] at hq; cases hq
          · intro _ hq; simp at hq
          · simp only; intro hq; rw [hf] at hq; have := h6; omega
      | stopJoin =>
        simp only [stepPc] at hr
        split at hr
        · cases hr
        · rename_i ha
          have ha' : c.sh.threadAlive = false := by simpa using ha
          simp only [Option.some.injEq, Prod.mk.injEq] at hr
          obtain ⟨rfl, rfl⟩ := hr
          simp only [isMid, isFin, Bool.false_eq_true, if_false, if_true, Nat.add_zero] at hm hf
          have hmeq : (c.pcs.set i Pc.stopFinish).countP isMid = c.pcs.countP isMid := by omega
          exact ⟨by simp only; omega, by simp only; rw [hmeq]; exact h2,
            fun hq => ⟨(h3 hq).1, by have := (h3 hq).2; simp only; omega⟩, h4, fun _ => ha', hfm, h7⟩
      | stopFinish =>
        simp only [stepPc, Option.some.injEq, Prod.mk.injEq] at hr
        obtain ⟨rfl, rfl⟩ := hr
        simp only [isMid, isFin, Bool.false_eq_true, if_false, if_true, Nat.add_zero] at hm hf
        have hfin1 : c.pcs.countP isFin = 1 := by omega
        have hmid1 : c.pcs.countP isMid = 1 := by omega
        have ha := h5 hfin1
        refine ⟨by simp only; omega, ?_, ?_, ?_, ?_, hfm, h7⟩
        · simp only; constructor
          · intro hq; cases hq
          · intro hq; omega
        · intro _; exact ⟨ha, by simp only; omega⟩
        · intro hq; simp at hq
        · simp only; intro hq; omega
      | done => simp [stepPc] at hr

theorem inv_run (c : Config) (ws : List (Option Nat)) (hi : Inv c) : Inv (run c ws) := by
  induction ws generalizing c with
  | nil => exact hi
  | cons w ws ih =>
    simp only [run]
    cases hs : step c w with
    | none => exact ih c hi
    | some c' => exact ih c' (inv_step c c' w hi hs)

theorem inv_init (sh : Shared) (hc : consistent sh = true) (pcs : List Pc)
    (hp : ∀ pc ∈ pcs, pc = .startCall ∨ pc = .stopCall) : Inv ⟨sh, pcs⟩ := by
  have hmid : pcs.countP isMid = 0 := by
    rw [List.countP_eq_zero]
    intro pc hpc
    rcases hp pc hpc with h | h <;> subst h <;> simp [isMid]
  have hfin : pcs.countP isFin = 0 := by have := fin_le_mid pcs; omega
  obtain ⟨r, q, a, s⟩ := sh
  cases r <;> cases q <;> cases a <;> cases s <;> simp [consistent] at hc <;>
    exact ⟨by simp [hmid], by simp [hmid], by simp [hmid], by simp, by simp [hfin], by simp [hmid, hfin], rfl⟩

/-- **concurrent calls leave the server fully running or fully stopped**: from a consistent state,
for ANY number of threads each calling `start()` or `stop()`, under EVERY interleaving of their
critical sections and of the request-port thread, once all calls have returned the server is
either fully running (flag set, thread alive, socket open) or fully stopped (flag clear, thread
ended, socket closed), with no shutdown request left pending -/
theorem concurrent_end_consistent (sh : Shared) (hc : consistent sh = true) (pcs : List Pc)
    (hp : ∀ pc ∈ pcs, pc = .startCall ∨ pc = .stopCall) (ws : List (Option Nat))
    (hdone : allDone (run ⟨sh, pcs⟩ ws) = true) :
    consistent (run ⟨sh, pcs⟩ ws).sh = true := by
  have hi := inv_run _ ws (inv_init sh hc pcs hp)
  generalize run ⟨sh, pcs⟩ ws = c at hi hdone
  obtain ⟨h1, h2, h3, h4, h5, h6, h7⟩ := hi
  have hmid : c.pcs.countP isMid = 0 := by
    rw [List.countP_eq_zero]
    intro pc hpc
    have := List.all_eq_true.mp hdone pc hpc
    simp only [beq_iff_eq] at this
    subst this; simp [isMid]
  have hflag : c.sh.shutdownReq = false := by
    cases hq : c.sh.shutdownReq with
    | false => rfl
    | true => have := h2.mp hq; omega
  obtain ⟨⟨r, q, a, s⟩, pcs'⟩ := c
  simp only at hflag h3 h4 h7
  subst hflag
  cases r with
  | true => have := h4 rfl rfl; subst this; subst h7; simp [consistent]
  | false => have := (h3 rfl).1; subst this; subst h7; simp [consistent]

/-- no interleaving deadlocks: as long as some call has not returned, some step is enabled -/
theorem no_deadlock (c : Config) (hi : Inv c) (hnd : allDone c = false) :
    (∃ i, (step c (some i)).isSome = true) ∨ (step c none).isSome = true := by
  simp only [allDone, List.all_eq_false, beq_iff_eq, Bool.not_eq_true] at hnd
  obtain ⟨pc, hmem, hne⟩ := hnd
  obtain ⟨i, hlt, hget⟩ := List.getElem_of_mem hmem
  have hpc : c.pcs[i]? = some pc := by rw [List.getElem?_eq_getElem hlt, hget]
  by_cases hj : pc = .stopJoin ∧ c.sh.threadAlive = true
  · right
    obtain ⟨hj1, hj2⟩ := hj
    have hmidpos : 0 < c.pcs.countP isMid := by
      rw [List.countP_pos_iff]; exact ⟨pc, hmem, by subst hj1; rfl⟩
    have hflag : c.sh.shutdownReq = true := hi.flag.mpr (by have := hi.mid_le; omega)
    simp [step, stepServer, hj2, hflag]
  · left
    refine ⟨i, ?_⟩
    simp only [step, hpc]
    cases pc with
    | startCall => simp only [stepPc]; split <;> simp
    | stopCall => simp only [stepPc]; split <;> simp
    | stopJoin =>
      have : c.sh.threadAlive = false := by
        cases ha : c.sh.threadAlive with
        | false => rfl
        | true => exact absurd ⟨rfl, ha⟩ hj
      simp [stepPc, this]
    | stopFinish => simp [stepPc]
    | done => simp at hne

/-! ### sequential use -/

/-- `start()` is idempotent -/
theorem start_idem (sh : Shared) : (seqOp (seqOp sh .start).1 .start).1 = (seqOp sh .start).1 := by
  simp only [seqOp]; split <;> simp_all

/-- `stop()` is idempotent -/
theorem stop_idem (sh : Shared) (hc : consistent sh = true) :
    (seqOp (seqOp sh .stop).1 .stop).1 = (seqOp sh .stop).1 := by
  obtain ⟨r, q, a, s⟩ := sh
  cases r <;> cases q <;> cases a <;> cases s <;> simp [consistent] at hc <;> simp [seqOp]

/-- sequential operations keep the state consistent -/
theorem seq_consistent (sh : Shared) (hc : consistent sh = true) (o : Op) :
    consistent (seqOp sh o).1 = true := by
  obtain ⟨r, q, a, s⟩ := sh
  cases r <;> cases q <;> cases a <;> cases s <;> simp [consistent] at hc <;> cases o <;> simp [seqOp, consistent]

/-- after a `stop()` that is not overlapped by another call the thread has ended and the socket is
closed; a following `start()` serves again -/
theorem quiescent_stop_releases (sh : Shared) (hc : consistent sh = true) :
    (seqOp sh .stop).1.threadAlive = false ∧ (seqOp sh .stop).1.socketOpen = false ∧
    (seqOp (seqOp (seqOp sh .stop).1 .start).1 .request).2 = true := by
  obtain ⟨r, q, a, s⟩ := sh
  cases r <;> cases q <;> cases a <;> cases s <;> simp [consistent] at hc <;> simp [seqOp]

/-- the sequential `stop` is what the three concurrent steps do when nothing interferes -/
theorem seq_stop_refines (sh : Shared) (hc : consistent sh = true) :
    (run ⟨sh, [.stopCall]⟩ [some 0, none, some 0, some 0]).sh = (seqOp sh .stop).1 := by
  obtain ⟨r, q, a, s⟩ := sh
  cases r <;> cases q <;> cases a <;> cases s <;> simp [consistent] at hc <;> decide

example : consistent (run ⟨Shared.init, [.startCall, .stopCall, .stopCall, .startCall]⟩
    [some 0, some 1, some 2, some 3, none, some 1, some 3, some 1]).sh = true := by decide

end Vinegar.C20Lifecycle
