import Vinegar.Model.ConcComponents
/-
C19 — shared components are linearizable under every thread interleaving (lock-granularity model).

For a component whose operations each run inside one critical section of one lock, and for EVERY
number of threads, EVERY program per thread and EVERY schedule of their small steps (acquire /
load / store / release — the critical section is not atomic in the model, only the lock protects
it):
* `mutex_inv`       at most one thread is inside its critical section, and it holds the lock;
* `log_sequential`  the operations took effect one after the other: executing the log sequentially
                    from the initial state gives exactly the recorded results and the final state;
* `linearizable_run` hence the per-thread results pass the linearizability checker that the
                    harness also evaluates on the results of the real threads;
* `linearizable_run_probe` … and the state the run ends in answers every later sequence of calls the
                    way the final state of that same sequential order does (`linearizableP`);
* `linearizableP_sound` conversely, whatever the checker accepts is explained by a sequential order;
* `no_deadlock`     while some operation is pending some step is enabled (one lock, never nested).

Instances for the components whose public methods are one critical section of one lock, each over
the EXISTING model of the component's sequential behaviour: `linearizable_lru`,
`linearizable_store` (`DataStore`, model of C15), `linearizable_textfile` (`TextFileSource` with a file
that is rewritten during the run, model of C14); `linearizable_yaml` instantiates the same theorem at the
step function of `YamlTargetSource` (model of C12), whose `get_data` is NOT a single critical section — see
the caution there. The driver evaluates the same checkers (`linearizableP lruStep / storeStep / tfStep /
yamlStep`) on the results of the real threads.
-/
namespace Vinegar.C19
open Vinegar.Conc

variable {S Op R : Type}

def opOf (e : Nat × Op × R) : Op := e.2.1
def resOf (e : Nat × Op × R) : R := e.2.2

/-- a chronological log is a valid sequential execution from `s` ending in `s'` -/
def validFrom (step : S → Op → S × R) : S → List (Nat × Op × R) → S → Prop
  | s, [], s' => s = s'
  | s, e :: es, s' => (step s (opOf e)).2 = resOf e ∧ validFrom step (step s (opOf e)).1 es s'

theorem validFrom_snoc (step : S → Op → S × R) :
    ∀ (L : List (Nat × Op × R)) (s s' : S) (e : Nat × Op × R),
      validFrom step s L s' → (step s' (opOf e)).2 = resOf e →
      validFrom step s (L ++ [e]) (step s' (opOf e)).1
  | [], s, s', e, h, he => by
    simp only [validFrom] at h
    subst h
    exact ⟨he, rfl⟩
  | x :: xs, s, s', e, h, he => by
    obtain ⟨h1, h2⟩ := h
    exact ⟨h1, validFrom_snoc step xs _ s' e h2 he⟩

structure Inv (step : S → Op → S × R) (s0 : S) (c : Config S Op R) : Prop where
  mutex : ∀ (j : Nat) (t : Thread S Op R), c.threads[j]? = some t → t.phase ≠ Phase.idle → c.lock = some j
  lockOwner : ∀ (j : Nat), c.lock = some j → ∃ t : Thread S Op R, c.threads[j]? = some t ∧ t.phase ≠ Phase.idle
  loaded : ∀ (j : Nat) (t : Thread S Op R), c.threads[j]? = some t → t.phase = Phase.loaded →
    t.snapshot = some c.state
  pending : ∀ (j : Nat) (t : Thread S Op R), c.threads[j]? = some t →
    (t.phase = Phase.holding ∨ t.phase = Phase.loaded) → t.todo ≠ []
  seq : validFrom step s0 c.log.reverse c.state

theorem getElem?_set_self' {α : Type} (l : List α) (i : Nat) (a x : α) (h : l[i]? = some x) :
    (l.set i a)[i]? = some a := by
  have hlt : i < l.length := by
    rcases List.getElem?_eq_some_iff.mp h with ⟨h', _⟩; exact h'
  simp [List.getElem?_set, hlt]

theorem inv_step (step : S → Op → S × R) (s0 : S) (c c' : Config S Op R) (i : Nat)
    (hi : Inv step s0 c) (hs : stepThread step c i = some c') : Inv step s0 c' := by
  obtain ⟨hm, ho, hl, hp, hq⟩ := hi
  unfold stepThread at hs
  cases hti : c.threads[i]? with
  | none => simp [hti] at hs
  | some t =>
    simp only [hti] at hs
    have hset : ∀ (t' : Thread S Op R) (j : Nat) (u : Thread S Op R),
        (c.threads.set i t')[j]? = some u → (j = i ∧ u = t') ∨ (j ≠ i ∧ c.threads[j]? = some u) := by
      intro t' j u hu
      by_cases hji : j = i
      · subst hji
        rw [getElem?_set_self' c.threads j t' t hti] at hu
        exact Or.inl ⟨rfl, (Option.some.inj hu).symm⟩
      · rw [List.getElem?_set_ne (Ne.symm hji)] at hu
        exact Or.inr ⟨hji, hu⟩
    -- every other thread is idle whenever thread i is not
    have others_idle : t.phase ≠ Phase.idle → ∀ (j : Nat) (u : Thread S Op R), j ≠ i → c.threads[j]? = some u →
        u.phase = Phase.idle := by
      intro hne j u hji hu
      cases hph : u.phase with
      | idle => rfl
      | _ =>
        have h1 := hm j u hu (by rw [hph]; simp)
        have h2 := hm i t hti hne
        rw [h1] at h2
        exact absurd (Option.some.inj h2) hji
    split at hs
    · -- acquire
      rename_i hphase htodo
      split at hs
      · rename_i hfree
        simp only [Option.some.injEq] at hs
        subst hs
        have hnone : c.lock = none := by simpa using hfree
        have all_idle : ∀ (j : Nat) (u : Thread S Op R), c.threads[j]? = some u → u.phase = Phase.idle := by
          intro j u hu
          cases hph : u.phase with
          | idle => rfl
          | _ =>
            have := hm j u hu (by rw [hph]; simp)
            rw [hnone] at this; cases this
        refine ⟨?_, ?_, ?_, ?_, hq⟩
        · intro j u hu hne
          rcases hset _ j u hu with ⟨rfl, _⟩ | ⟨_, hu'⟩
          · rfl
          · exact absurd (all_idle j u hu') hne
        · intro j hj
          simp only [Option.some.injEq] at hj
          subst hj
          exact ⟨_, getElem?_set_self' _ _ _ t hti, by simp⟩
        · intro j u hu hld
          rcases hset _ j u hu with ⟨_, rfl⟩ | ⟨_, hu'⟩
          · simp at hld
          · have := all_idle j u hu'; rw [this] at hld; cases hld
        · intro j u hu hh
          rcases hset _ j u hu with ⟨_, rfl⟩ | ⟨_, hu'⟩
          · simp only; rw [htodo]; simp
          · have := all_idle j u hu'; rcases hh with hh | hh <;> rw [this] at hh <;> cases hh
      · cases hs
    · -- load
      rename_i hphase htodo
      simp only [Option.some.injEq] at hs
      subst hs
      have hne : t.phase ≠ .idle := by rw [hphase]; simp
      refine ⟨?_, ?_, ?_, ?_, hq⟩
      · intro j u hu hnu
        rcases hset _ j u hu with ⟨rfl, _⟩ | ⟨hji, hu'⟩
        · exact hm j t hti hne
        · exact hm j u hu' hnu
      · intro j hj
        have := hm i t hti hne
        simp only at hj
        rw [this] at hj
        have hji : i = j := Option.some.inj hj
        subst hji
        exact ⟨_, getElem?_set_self' _ _ _ t hti, by simp⟩
      · intro j u hu hld
        rcases hset _ j u hu with ⟨_, rfl⟩ | ⟨hji, hu'⟩
        · rfl
        · have := others_idle hne j u hji hu'; rw [this] at hld; cases hld
      · intro j u hu hh
        rcases hset _ j u hu with ⟨_, rfl⟩ | ⟨hji, hu'⟩
        · simp only; rw [htodo]; simp
        · exact hp j u hu' hh
    · -- store
      rename_i op rest snap hphase htodo hsnap
      simp only [Option.some.injEq] at hs
      subst hs
      have hne : t.phase ≠ .idle := by rw [hphase]; simp
      have hsn : snap = c.state := by
        have := hl i t hti hphase
        rw [hsnap] at this
        exact Option.some.inj this
      subst hsn
      refine ⟨?_, ?_, ?_, ?_, ?_⟩
      · intro j u hu hnu
        rcases hset _ j u hu with ⟨rfl, _⟩ | ⟨hji, hu'⟩
        · exact hm j t hti hne
        · exact hm j u hu' hnu
      · intro j hj
        have := hm i t hti hne
        simp only at hj
        rw [this] at hj
        have hji : i = j := Option.some.inj hj
        subst hji
        exact ⟨_, getElem?_set_self' _ _ _ t hti, by simp⟩
      · intro j u hu hld
        rcases hset _ j u hu with ⟨_, rfl⟩ | ⟨hji, hu'⟩
        · simp at hld
        · have := others_idle hne j u hji hu'; rw [this] at hld; cases hld
      · intro j u hu hh
        rcases hset _ j u hu with ⟨_, rfl⟩ | ⟨hji, hu'⟩
        · simp at hh
        · have := others_idle hne j u hji hu'; rcases hh with hh | hh <;> rw [this] at hh <;> cases hh
      · simp only [List.reverse_cons]
        exact validFrom_snoc step _ s0 c.state (i, op, (step c.state op).2) hq rfl
    · -- release
      rename_i hphase
      simp only [Option.some.injEq] at hs
      subst hs
      have hne : t.phase ≠ .idle := by rw [hphase]; simp
      refine ⟨?_, ?_, ?_, ?_, hq⟩
      · intro j u hu hnu
        rcases hset _ j u hu with ⟨_, rfl⟩ | ⟨hji, hu'⟩
        · simp at hnu
        · exact absurd (others_idle hne j u hji hu') hnu
      · intro j hj; simp at hj
      · intro j u hu hld
        rcases hset _ j u hu with ⟨_, rfl⟩ | ⟨hji, hu'⟩
        · simp at hld
        · have := others_idle hne j u hji hu'; rw [this] at hld; cases hld
      · intro j u hu hh
        rcases hset _ j u hu with ⟨_, rfl⟩ | ⟨hji, hu'⟩
        · simp at hh
        · have := others_idle hne j u hji hu'; rcases hh with hh | hh <;> rw [this] at hh <;> cases hh
    · cases hs

theorem inv_run (step : S → Op → S × R) (s0 : S) (c : Config S Op R) (sched : List Nat)
    (hi : Inv step s0 c) : Inv step s0 (run step c sched) := by
  induction sched generalizing c with
  | nil => exact hi
  | cons i is ih =>
    simp only [run]
    cases hs : stepThread step c i with
    | none => exact ih c hi
    | some c' => exact ih c' (inv_step step s0 c c' i hi hs)

theorem inv_init (step : S → Op → S × R) (s0 : S) (programs : List (List Op)) :
    Inv step s0 (Config.init s0 programs : Config S Op R) := by
  have hidle : ∀ (j : Nat) (t : Thread S Op R), (Config.init s0 programs : Config S Op R).threads[j]? = some t →
      t.phase = Phase.idle := by
    intro j t ht
    simp only [Config.init, List.getElem?_map, Option.map_eq_some_iff] at ht
    obtain ⟨p, _, rfl⟩ := ht
    rfl
  refine ⟨?_, ?_, ?_, ?_, rfl⟩
  · intro j t ht hne; exact absurd (hidle j t ht) hne
  · intro j hj; simp [Config.init] at hj
  · intro j t ht hl; rw [hidle j t ht] at hl; cases hl
  · intro j t ht hh; rcases hh with hh | hh <;> rw [hidle j t ht] at hh <;> cases hh

/-- **mutual exclusion**: under every schedule at most one thread is inside its critical section,
and that thread holds the lock -/
theorem mutex_inv (step : S → Op → S × R) (s0 : S) (programs : List (List Op)) (sched : List Nat)
    (j k : Nat) (t u : Thread S Op R)
    (hj : (run step (Config.init s0 programs) sched).threads[j]? = some t)
    (hk : (run step (Config.init s0 programs) sched).threads[k]? = some u)
    (htj : t.phase ≠ .idle) (huk : u.phase ≠ .idle) : j = k := by
  have hi := inv_run step s0 _ sched (inv_init step s0 programs)
  have h1 := hi.mutex j t hj htj
  have h2 := hi.mutex k u hk huk
  rw [h1] at h2
  exact Option.some.inj h2

/-- **the operations took effect one after the other**: under every schedule, executing the log
sequentially from the initial state reproduces every recorded result and the final state —
although critical sections are not atomic in the model -/
theorem log_sequential (step : S → Op → S × R) (s0 : S) (programs : List (List Op)) (sched : List Nat) :
    validFrom step s0 (run step (Config.init s0 programs) sched).log.reverse
      (run step (Config.init s0 programs) sched).state :=
  (inv_run step s0 _ sched (inv_init step s0 programs)).seq

/-- per-thread view of a chronological log -/
def obsFrom (n : Nat) (L : List (Nat × Op × R)) : List (List (Op × R)) :=
  (List.range n).map (fun i => (L.filter (fun e => e.1 == i)).map (fun e => (opOf e, resOf e)))

theorem obsFrom_length (n : Nat) (L : List (Nat × Op × R)) : (obsFrom n L).length = n := by
  simp [obsFrom]

theorem obsFrom_get (n : Nat) (L : List (Nat × Op × R)) (i : Nat) (h : i < n) :
    (obsFrom n L)[i]? = some ((L.filter (fun e => e.1 == i)).map (fun e => (opOf e, resOf e))) := by
  simp [obsFrom, h]

theorem removeHead_obsFrom (n : Nat) (e : Nat × Op × R) (L : List (Nat × Op × R)) (h : e.1 < n) :
    removeHead (obsFrom n (e :: L)) e.1 = obsFrom n L := by
  apply List.ext_getElem?
  intro j
  unfold removeHead
  by_cases hj : j < n
  · by_cases hje : j = e.1
    · subst hje
      rw [getElem?_set_self' _ _ _ _ (obsFrom_get n (e :: L) e.1 h), obsFrom_get n (e :: L) e.1 h,
        obsFrom_get n L e.1 h]
      simp
    · rw [List.getElem?_set_ne (Ne.symm hje), obsFrom_get n (e :: L) j hj, obsFrom_get n L j hj]
      have : (e.1 == j) = false := by simp [Ne.symm hje]
      simp [List.filter_cons, this]
  · have h1 : (obsFrom n L)[j]? = none := by
      rw [List.getElem?_eq_none_iff, obsFrom_length]; omega
    have h2 : ((obsFrom n (e :: L)).set e.1 ((obsFrom n (e :: L))[e.1]?.getD []).tail)[j]? = none := by
      rw [List.getElem?_eq_none_iff, List.length_set, obsFrom_length]; omega
    rw [h1, h2]

theorem obsFrom_nil_all_empty (n : Nat) : (obsFrom n ([] : List (Nat × Op × R))).all (·.isEmpty) = true := by
  simp [obsFrom]

/-- a valid sequential log is found by the linearizability search -/
theorem linearizable_of_valid [DecidableEq R] (step : S → Op → S × R) (n : Nat) :
    ∀ (L : List (Nat × Op × R)) (s s' : S), validFrom step s L s' → (∀ e ∈ L, e.1 < n) →
      linearizable step L.length s (obsFrom n L) = true := by
  intro L
  induction L with
  | nil => intro s s' _ _; simp [linearizable, obsFrom_nil_all_empty]
  | cons e L ih =>
    intro s s' hv hn
    obtain ⟨h1, h2⟩ := hv
    have he : e.1 < n := hn e (by simp)
    simp only [List.length_cons, linearizable, Bool.or_eq_true]
    right
    rw [List.any_eq_true]
    refine ⟨e.1, by simp [obsFrom_length, he], ?_⟩
    rw [obsFrom_get n (e :: L) e.1 he]
    simp only [List.filter_cons, beq_self_eq_true, if_true, List.map_cons, Bool.and_eq_true, decide_eq_true_eq]
    refine ⟨h1, ?_⟩
    have := ih _ s' h2 (fun x hx => hn x (by simp [hx]))
    rw [show removeHead (obsFrom n (e :: L)) e.1 = obsFrom n L from removeHead_obsFrom n e L he]
    exact this

theorem stepThread_shape (step : S → Op → S × R) (c c' : Config S Op R) (i : Nat)
    (hs : stepThread step c i = some c') :
    c'.threads.length = c.threads.length ∧ i < c.threads.length ∧
    (c'.log = c.log ∨ ∃ op r, c'.log = (i, op, r) :: c.log) := by
  unfold stepThread at hs
  cases hti : c.threads[i]? with
  | none => simp [hti] at hs
  | some t =>
    have hlt : i < c.threads.length := by
      rcases List.getElem?_eq_some_iff.mp hti with ⟨h', _⟩; exact h'
    simp only [hti] at hs
    split at hs
    · split at hs
      · simp only [Option.some.injEq] at hs; subst hs; exact ⟨by simp, hlt, Or.inl rfl⟩
      · cases hs
    · simp only [Option.some.injEq] at hs; subst hs; exact ⟨by simp, hlt, Or.inl rfl⟩
    · simp only [Option.some.injEq] at hs; subst hs; exact ⟨by simp, hlt, Or.inr ⟨_, _, rfl⟩⟩
    · simp only [Option.some.injEq] at hs; subst hs; exact ⟨by simp, hlt, Or.inl rfl⟩
    · cases hs

/-- every entry of the log was executed by an existing thread -/
theorem log_threads (step : S → Op → S × R) (n : Nat) (c : Config S Op R) (sched : List Nat)
    (hn : c.threads.length = n) (hl : ∀ e ∈ c.log, e.1 < n) :
    (run step c sched).threads.length = n ∧ ∀ e ∈ (run step c sched).log, e.1 < n := by
  induction sched generalizing c with
  | nil => exact ⟨hn, hl⟩
  | cons i is ih =>
    simp only [run]
    cases hs : stepThread step c i with
    | none => exact ih c hn hl
    | some c' =>
      obtain ⟨h1, h2, h3⟩ := stepThread_shape step c c' i hs
      apply ih c' (by omega)
      intro e he
      rcases h3 with h3 | ⟨op, r, h3⟩
      · rw [h3] at he; exact hl e he
      · rw [h3] at he
        simp only [List.mem_cons] at he
        rcases he with rfl | he
        · simp only; omega
        · exact hl e he

/-- **linearizability**: for every component given by a sequential `step`, every number of threads,
every program per thread and EVERY schedule, the results the threads obtained pass the
linearizability checker: some sequential order of the same calls returns the same results -/
theorem linearizable_run [DecidableEq R] (step : S → Op → S × R) (s0 : S) (programs : List (List Op))
    (sched : List Nat) :
    linearizable step (run step (Config.init s0 programs) sched).log.length s0
      (obsFrom programs.length (run step (Config.init s0 programs) sched).log.reverse) = true := by
  have hv := log_sequential step s0 programs sched
  have hn := (log_threads step programs.length (Config.init s0 programs : Config S Op R) sched
    (by simp [Config.init]) (by simp [Config.init])).2
  have := linearizable_of_valid step programs.length _ s0 _ hv (fun e he => hn e (by simpa using he))
  simpa using this

/-! ### the probe of the final state -/

/-- calls made one after the other from a state return … what they return -/
theorem probeOK_seqRun [DecidableEq R] (step : S → Op → S × R) :
    ∀ (q : List Op) (s : S), probeOK step s (q.zip (seqRun step s q).2) = true
  | [], s => by simp [probeOK]
  | op :: ops, s => by
    simp only [seqRun, List.zip_cons_cons, probeOK, decide_true, Bool.true_and]
    exact probeOK_seqRun step ops _

/-- a valid sequential log whose final state answers the probe is found by the search -/
theorem linearizableP_of_valid [DecidableEq R] (step : S → Op → S × R) (n : Nat) (probe : List (Op × R)) :
    ∀ (L : List (Nat × Op × R)) (s s' : S), validFrom step s L s' → (∀ e ∈ L, e.1 < n) →
      probeOK step s' probe = true → linearizableP step L.length s (obsFrom n L) probe = true := by
  intro L
  induction L with
  | nil =>
    intro s s' hv _ hp
    simp only [validFrom] at hv
    subst hv
    simp [linearizableP, obsFrom_nil_all_empty, hp]
  | cons e L ih =>
    intro s s' hv hn hp
    obtain ⟨h1, h2⟩ := hv
    have he : e.1 < n := hn e (by simp)
    simp only [List.length_cons, linearizableP, Bool.or_eq_true]
    right
    rw [List.any_eq_true]
    refine ⟨e.1, by simp [obsFrom_length, he], ?_⟩
    rw [obsFrom_get n (e :: L) e.1 he]
    simp only [List.filter_cons, beq_self_eq_true, if_true, List.map_cons, Bool.and_eq_true, decide_eq_true_eq]
    refine ⟨h1, ?_⟩
    have := ih _ s' h2 (fun x hx => hn x (by simp [hx])) hp
    rw [show removeHead (obsFrom n (e :: L)) e.1 = obsFrom n L from removeHead_obsFrom n e L he]
    exact this

/-- **linearizability including the state left behind**: for every component given by a sequential
`step`, every number of threads, every program per thread, EVERY schedule and every sequence `q` of
calls made afterwards: the results the threads obtained together with the answers to `q` in the state
the run ended in pass the probe-aware checker — some sequential order of the threads' calls returns
the same results AND ends in a state that answers `q` the same way -/
theorem linearizable_run_probe [DecidableEq R] (step : S → Op → S × R) (s0 : S) (programs : List (List Op))
    (sched : List Nat) (q : List Op) :
    linearizableP step (run step (Config.init s0 programs) sched).log.length s0
      (obsFrom programs.length (run step (Config.init s0 programs) sched).log.reverse)
      (q.zip (seqRun step (run step (Config.init s0 programs) sched).state q).2) = true := by
  have hv := log_sequential step s0 programs sched
  have hn := (log_threads step programs.length (Config.init s0 programs : Config S Op R) sched
    (by simp [Config.init]) (by simp [Config.init])).2
  have := linearizableP_of_valid step programs.length _ _ s0 _ hv (fun e he => hn e (by simpa using he))
    (probeOK_seqRun step q _)
  simpa using this

/-- the probe-aware checker refines the plain one -/
theorem linearizableP_linearizable [DecidableEq R] (step : S → Op → S × R) (probe : List (Op × R)) :
    ∀ (f : Nat) (s : S) (obs : List (List (Op × R))), linearizableP step f s obs probe = true →
      linearizable step f s obs = true := by
  intro f
  induction f with
  | zero =>
    intro s obs h
    simp only [linearizableP, Bool.and_eq_true] at h
    simpa [linearizable] using h.1
  | succ f ih =>
    intro s obs h
    simp only [linearizableP, Bool.or_eq_true, Bool.and_eq_true] at h
    simp only [linearizable, Bool.or_eq_true]
    rcases h with h | h
    · exact Or.inl h.1
    · right
      rw [List.any_eq_true] at h ⊢
      obtain ⟨i, hi, hm⟩ := h
      refine ⟨i, hi, ?_⟩
      split at hm
      · rename_i op r tl heq
        simp only [Bool.and_eq_true] at hm ⊢
        exact ⟨hm.1, ih _ _ hm.2⟩
      · cases hm

theorem all_empty_eq_obsFrom_nil (obs : List (List (Op × R))) (h : obs.all (·.isEmpty) = true) :
    obsFrom obs.length ([] : List (Nat × Op × R)) = obs := by
  apply List.ext_getElem?
  intro j
  by_cases hj : j < obs.length
  · rw [obsFrom_get _ _ j hj]
    have hx : obs[j]? = some obs[j] := List.getElem?_eq_getElem hj
    have := List.all_eq_true.mp h obs[j] (List.getElem_mem hj)
    rw [hx]
    simp only [List.filter_nil, List.map_nil]
    rw [List.isEmpty_iff] at this
    rw [this]
  · have h1 : (obsFrom obs.length ([] : List (Nat × Op × R)))[j]? = none := by
      rw [List.getElem?_eq_none_iff, obsFrom_length]; omega
    have h2 : obs[j]? = none := by rw [List.getElem?_eq_none_iff]; omega
    rw [h1, h2]

theorem obsFrom_cons_of_removeHead (obs : List (List (Op × R))) (i : Nat) (op : Op) (r : R) (tl : List (Op × R))
    (L : List (Nat × Op × R)) (hi : obs[i]? = some ((op, r) :: tl))
    (hL : obsFrom obs.length L = removeHead obs i) : obsFrom obs.length ((i, op, r) :: L) = obs := by
  have hlt : i < obs.length := by
    rcases List.getElem?_eq_some_iff.mp hi with ⟨h', _⟩; exact h'
  apply List.ext_getElem?
  intro j
  by_cases hj : j < obs.length
  · rw [obsFrom_get _ _ j hj]
    have hLj : (obsFrom obs.length L)[j]? = (removeHead obs i)[j]? := by rw [hL]
    rw [obsFrom_get _ _ j hj] at hLj
    by_cases hji : j = i
    · subst hji
      unfold removeHead at hLj
      rw [getElem?_set_self' _ _ _ _ hi, hi] at hLj
      simp only [Option.getD_some, List.tail_cons, Option.some.injEq] at hLj
      rw [hi]
      simp only [opOf, resOf] at hLj
      simp [opOf, resOf, hLj]
    · unfold removeHead at hLj
      rw [List.getElem?_set_ne (Ne.symm hji)] at hLj
      rw [← hLj]
      have : (i == j) = false := by simp [Ne.symm hji]
      simp [this]
  · have h1 : (obsFrom obs.length ((i, op, r) :: L))[j]? = none := by
      rw [List.getElem?_eq_none_iff, obsFrom_length]; omega
    have h2 : obs[j]? = none := by rw [List.getElem?_eq_none_iff]; omega
    rw [h1, h2]

/-- **the checker is sound**: whatever observation it accepts IS explained by a sequential order —
there is a chronological log `L` (who executed what with which result) that is a valid sequential
execution from `s`, whose per-thread view is exactly the observation, and whose final state answers the
probe. (Together with `linearizable_run_probe`: the checker accepts exactly the linearizable
observations and every run of the lock-granularity model is one.) -/
theorem linearizableP_sound [DecidableEq R] (step : S → Op → S × R) (probe : List (Op × R)) :
    ∀ (f : Nat) (s : S) (obs : List (List (Op × R))), linearizableP step f s obs probe = true →
      ∃ (L : List (Nat × Op × R)) (s' : S), validFrom step s L s' ∧ obsFrom obs.length L = obs ∧
        probeOK step s' probe = true := by
  intro f
  induction f with
  | zero =>
    intro s obs h
    simp only [linearizableP, Bool.and_eq_true] at h
    exact ⟨[], s, rfl, all_empty_eq_obsFrom_nil obs h.1, h.2⟩
  | succ f ih =>
    intro s obs h
    simp only [linearizableP, Bool.or_eq_true, Bool.and_eq_true] at h
    rcases h with h | h
    · exact ⟨[], s, rfl, all_empty_eq_obsFrom_nil obs h.1, h.2⟩
    · rw [List.any_eq_true] at h
      obtain ⟨i, _, hm⟩ := h
      split at hm
      · rename_i op r tl heq
        simp only [Bool.and_eq_true, decide_eq_true_eq] at hm
        obtain ⟨L, s', hv, ho, hp⟩ := ih _ _ hm.2
        have hlen : (removeHead obs i).length = obs.length := by simp [removeHead]
        rw [hlen] at ho
        exact ⟨(i, op, r) :: L, s', ⟨hm.1, hv⟩, obsFrom_cons_of_removeHead obs i op r tl L heq ho, hp⟩
      · cases hm

/-- **no deadlock**: one lock, never nested — while any operation is pending or in progress, some
thread can take a step -/
theorem no_deadlock (step : S → Op → S × R) (s0 : S) (c : Config S Op R) (hi : Inv step s0 c)
    (hpend : ∃ (j : Nat) (t : Thread S Op R), c.threads[j]? = some t ∧ (t.todo ≠ [] ∨ t.phase ≠ Phase.idle)) :
    ∃ i, (stepThread step c i).isSome = true := by
  obtain ⟨j, t, ht, hp⟩ := hpend
  cases hlock : c.lock with
  | some k =>
    obtain ⟨u, hu, hne⟩ := hi.lockOwner k hlock
    refine ⟨k, ?_⟩
    unfold stepThread
    simp only [hu]
    cases hph : u.phase with
    | idle => exact absurd hph hne
    | holding =>
      have := hi.pending k u hu (Or.inl hph)
      cases htd : u.todo with
      | nil => exact absurd htd this
      | cons o r => simp
    | loaded =>
      have h1 := hi.pending k u hu (Or.inr hph)
      have h2 := hi.loaded k u hu hph
      cases htd : u.todo with
      | nil => exact absurd htd h1
      | cons o r => simp [h2]
    | executed => simp
  | none =>
    have hidle : t.phase = .idle := by
      cases hph : t.phase with
      | idle => rfl
      | _ =>
        have := hi.mutex j t ht (by rw [hph]; simp)
        rw [hlock] at this; cases this
    rcases hp with hp | hp
    · refine ⟨j, ?_⟩
      unfold stepThread
      simp only [ht, hidle]
      cases htd : t.todo with
      | nil => exact absurd htd hp
      | cons o r => simp [hlock]
    · exact absurd hidle hp

/-! ### instances and non-vacuity -/

/-- the synchronized LRU cache (`SynchronizedCache(LRUCache(...))`) is linearizable under every
schedule: instance of `linearizable_run` -/
theorem linearizable_lru (c0 : Lru) (programs : List (List LruOp)) (sched : List Nat) :
    linearizable lruStep (run lruStep (Config.init c0 programs) sched).log.length c0
      (obsFrom programs.length (run lruStep (Config.init c0 programs) sched).log.reverse) = true :=
  linearizable_run lruStep c0 programs sched

/-- `DataStore` (one connection mutex around every method, `vinegar/utils/sqlite_store.py`) over the
SQLite model of C15: under every schedule of every number of threads running any programs of
`set_value / get_value / delete_value / delete_data / get_data / find_systems / list_systems`, the
results pass the checker together with any calls `q` made afterwards: instance of
`linearizable_run_probe` at `storeStep` -/
theorem linearizable_store (strict : Bool) (db0 : Sqlite.Db) (programs : List (List Sqlite.StoreOp))
    (sched : List Nat) (q : List Sqlite.StoreOp) :
    linearizableP (storeStep strict) (run (storeStep strict) (Config.init db0 programs) sched).log.length db0
      (obsFrom programs.length (run (storeStep strict) (Config.init db0 programs) sched).log.reverse)
      (q.zip (seqRun (storeStep strict) (run (storeStep strict) (Config.init db0 programs) sched).state q).2) = true :=
  linearizable_run_probe (storeStep strict) db0 programs sched q

/-- `TextFileSource` (`with self._lock:` around `_update_data` + look-up,
`vinegar/data_source/text_file.py`) over the text-file model of C14, with the file being replaced
by any of the scenario's states at any point (the rewrite is a program of its own): for every
configuration, every list of file states, every version functions, under every schedule, the
results of `get_data` / `find_system` pass the checker together with any calls `q` made afterwards:
instance of `linearizable_run_probe` at `tfStep` -/
theorem linearizable_textfile (ver : String → String) (statVer : Option Nat → String) (cfg : TextFile.Cfg)
    (states : List TextFile.FileState) (w0 : TfWorld) (programs : List (List TfOp)) (sched : List Nat)
    (q : List TfOp) :
    linearizableP (tfStep ver statVer cfg states)
      (run (tfStep ver statVer cfg states) (Config.init w0 programs) sched).log.length w0
      (obsFrom programs.length (run (tfStep ver statVer cfg states) (Config.init w0 programs) sched).log.reverse)
      (q.zip (seqRun (tfStep ver statVer cfg states)
        (run (tfStep ver statVer cfg states) (Config.init w0 programs) sched).state q).2) = true :=
  linearizable_run_probe (tfStep ver statVer cfg states) w0 programs sched q

/-- the step function at which the driver decides the runs of `YamlTargetSource` (`yamlStep`: `Yaml.getData`
of C12 + the scenario's change of one file), as an instance of `linearizable_run_probe`. CAUTION about what
this says of the code: `get_data` of the real source is not one critical section (only its LRU cache is
lock-wrapped; every call has its own compiler object and the cache item is updated last-writer-wins), so the
lock-granularity model is an idealisation of this component — the theorem guarantees that the checker
accepts every execution in which the calls do take effect one at a time, with every cache state such
executions can leave behind; that the real interleavings inside `get_data` are indistinguishable from those
is what the enumerated schedules explore. -/
theorem linearizable_yaml (vf : Yaml.VerFns) (W : Yaml.World) (R : Yaml.Render) (cfg : Yaml.Cfg) (fuel : Nat)
    (pdv : String) (states : List (List Yaml.Step)) (w0 : YWorld) (programs : List (List YOp)) (sched : List Nat)
    (q : List YOp) :
    linearizableP (yamlStep vf W R cfg fuel pdv states)
      (run (yamlStep vf W R cfg fuel pdv states) (Config.init w0 programs) sched).log.length w0
      (obsFrom programs.length (run (yamlStep vf W R cfg fuel pdv states) (Config.init w0 programs) sched).log.reverse)
      (q.zip (seqRun (yamlStep vf W R cfg fuel pdv states)
        (run (yamlStep vf W R cfg fuel pdv states) (Config.init w0 programs) sched).state q).2) = true :=
  linearizable_run_probe (yamlStep vf W R cfg fuel pdv states) w0 programs sched q

/-- a call of the text-file instance IS the call of the C14 model on the file as it is now -/
theorem tfStep_call (ver : String → String) (statVer : Option Nat → String) (cfg : TextFile.Cfg)
    (states : List TextFile.FileState) (w : TfWorld) (c : TextFile.Call) :
    tfStep ver statVer cfg states w (.call c) =
      (⟨w.file, (TextFile.call ver statVer cfg w.file w.src c).1⟩, some (TextFile.call ver statVer cfg w.file w.src c).2) :=
  rfl

/-- an operation of the store instance IS the step of the C15 model through a store view -/
theorem storeStep_eq (strict : Bool) (db : Sqlite.Db) (op : Sqlite.StoreOp) :
    storeStep strict db op = ((Sqlite.step (.store strict op) db).2, (Sqlite.step (.store strict op) db).1) :=
  rfl

theorem length_filter_le' (l : List (Nat × Nat)) (k : Nat) : (l.filter (·.1 != k)).length ≤ l.length :=
  List.length_filter_le _ _

theorem lookup_some_filter_lt (l : List (Nat × Nat)) (k v : Nat) (h : l.lookup k = some v) :
    (l.filter (·.1 != k)).length < l.length := by
  induction l with
  | nil => simp at h
  | cons p l ih =>
    obtain ⟨a, b⟩ := p
    simp only [List.lookup] at h
    by_cases hka : k = a
    · subst hka
      have := length_filter_le' l k
      simp [List.filter_cons]; omega
    · have hne : (k == a) = false := by simp [hka]
      simp only [hne] at h
      have := ih h
      have hak : (a != k) = true := by simp [Ne.symm hka]
      simp only [List.filter_cons, hak, if_true, List.length_cons]; omega

/-- the LRU never exceeds its size -/
theorem lru_size_le (c : Lru) (op : LruOp) (h : c.items.length ≤ c.size) (hs : 0 < c.size) :
    (lruStep c op).1.items.length ≤ (lruStep c op).1.size := by
  cases op with
  | get k =>
    simp only [lruStep]
    cases hv : c.items.lookup k with
    | none => exact h
    | some v =>
      have := lookup_some_filter_lt c.items k v hv
      simp only [List.length_append, List.length_cons, List.length_nil]; omega
  | set k v =>
    simp only [lruStep]
    generalize hitems : (if (c.items.lookup k).isSome = true then
        if c.markOnUpdate = true then c.items.filter (·.1 != k) ++ [(k, v)]
        else c.items.map (fun p => if p.1 == k then (k, v) else p)
      else c.items ++ [(k, v)]) = items
    have hlen : items.length ≤ c.size + 1 := by
      subst hitems
      cases hv : c.items.lookup k with
      | none => simp; omega
      | some w =>
        have := lookup_some_filter_lt c.items k w hv
        simp only [Option.isSome_some, if_true]
        split
        · simp only [List.length_append, List.length_cons, List.length_nil]; omega
        · simp only [List.length_map]; omega
    split
    · simp only [List.length_tail]; omega
    · rename_i hle; omega
  | del k =>
    simp only [lruStep]
    split
    · have := length_filter_le' c.items k
      simp only; omega
    · exact h
  | contains k => exact h
  | len => exact h
  | clear => simp [lruStep]

/-- a two-thread run with a lost-update hazard: with the lock the result is one of the two
sequential outcomes; the checker rejects the unsynchronised outcome -/
example : linearizable lruStep 2 ⟨2, true, []⟩
    [[(LruOp.set 1 10, LruRes.unit)], [(LruOp.get 1, LruRes.value 10)]] = true := by decide
example : linearizable lruStep 2 ⟨2, true, []⟩
    [[(LruOp.set 1 10, LruRes.unit)], [(LruOp.get 1, LruRes.value 11)]] = false := by decide
example : linearizable lruStep 3 ⟨1, true, []⟩
    [[(LruOp.set 1 10, LruRes.unit), (LruOp.len, LruRes.nat 2)], [(LruOp.set 2 20, LruRes.unit)]] = false := by decide

/-! the store: a lost update is rejected, both sequential orders are accepted; the probe pins the final state -/
section StoreExamples
open Sqlite

def exA : Sqlite.Str := lit "a"
def exK : Sqlite.Str := lit "k"
def exDb : Db := [((exA, exK), lit "1")]

example : linearizableP (storeStep true) 2 exDb
    [[(StoreOp.setValue exA exK (.int 2), Res.unit)], [(StoreOp.getValue exA exK, Res.text (lit "2"))]]
    [(StoreOp.getValue exA exK, Res.text (lit "2"))] = true := by decide
example : linearizableP (storeStep true) 2 exDb
    [[(StoreOp.setValue exA exK (.int 2), Res.unit)], [(StoreOp.getValue exA exK, Res.text (lit "1"))]]
    [(StoreOp.getValue exA exK, Res.text (lit "2"))] = true := by decide
/-- a value nobody wrote -/
example : linearizableP (storeStep true) 2 exDb
    [[(StoreOp.setValue exA exK (.int 2), Res.unit)], [(StoreOp.getValue exA exK, Res.text (lit "3"))]]
    [] = false := by decide
/-- the threads' results are fine, the state left behind is not (the write got lost) -/
example : linearizableP (storeStep true) 2 exDb
    [[(StoreOp.setValue exA exK (.int 2), Res.unit)], [(StoreOp.deleteData exA, Res.unit)]]
    [(StoreOp.listSystems, Res.systems [exA]), (StoreOp.getValue exA exK, Res.text (lit "1"))] = false := by decide
end StoreExamples

/-! the text file: a reader that overlaps a rewrite sees the old or the new file, never the tables
cleared for the reload -/
section TextFileExamples
open TextFile

def exVar (n : String) : VarCfg := ⟨.name n, [], false, false⟩
def exCfg : Cfg := ⟨.warn, .warn, false, true, exVar "host", [("ip", exVar "ip")]⟩
def exLine (host ip : String) : Line :=
  ⟨ip ++ ";" ++ host, .groups ⟨[("ip", some ip), ("host", some host)], [none, some ip, some host]⟩⟩
def exStates : List FileState := [.text 1 [exLine "alpha" "10.0.0.1"], .text 2 [exLine "alpha" "10.0.0.9"]]
def exVer (s : String) : String := "v" ++ s
def exStat : Option Nat → String
  | none => "missing"
  | some n => String.ofList (List.replicate (n + 1) 's')
def exData (ip : String) : TfRes :=
  some (.data (.cons "ip" (.leaf (.str ip)) .nil) (exVer (ip ++ ";alpha")))

example : linearizableP (tfStep exVer exStat exCfg exStates) 2 (TfWorld.start (.text 0 [exLine "alpha" "10.0.0.1"]))
    [[(TfOp.call (.get "alpha"), exData "10.0.0.1")], [(TfOp.write 1, none)]]
    [(TfOp.call (.get "alpha"), exData "10.0.0.9")] = true := by decide
example : linearizableP (tfStep exVer exStat exCfg exStates) 2 (TfWorld.start (.text 0 [exLine "alpha" "10.0.0.1"]))
    [[(TfOp.call (.get "alpha"), some (.data .nil ""))], [(TfOp.write 1, none)]]
    [(TfOp.call (.get "alpha"), exData "10.0.0.9")] = false := by decide
/-- the source kept serving the old file after the rewrite -/
example : linearizableP (tfStep exVer exStat exCfg exStates) 2 (TfWorld.start (.text 0 [exLine "alpha" "10.0.0.1"]))
    [[(TfOp.call (.get "alpha"), exData "10.0.0.1")], [(TfOp.write 1, none)]]
    [(TfOp.call (.get "alpha"), exData "10.0.0.1")] = false := by decide
end TextFileExamples

end Vinegar.C19
