import Vinegar.Lemmas.TftpNet
/-
C20 (transfer half) — every TFTP transfer closes its socket and the handler's file object.
The lifecycle half (start/stop automata) is in `Theorems/C20Lifecycle.lean`.
-/
namespace Vinegar.C20
open Vinegar Vinegar.Tftp

def hasFile : HandlerResult → Bool
  | .stream _ _ _ _ => true
  | _ => false

theorem finish_counts (e : End) (now : Nat) :
    countObs (· == Obs.closeSocket) (finish e now) = 0 ∧ countObs (· == Obs.closeFile) (finish e now) = 0 := by
  cases e <;> simp [finish, countObs]

theorem countObs_append (p : Obs → Bool) (a b : List Obs) :
    countObs p (a ++ b) = countObs p a + countObs p b := by
  simp [countObs, List.filter_append]

/-- **every ending** of a transfer — completed, aborted by the client, ended by an invalid packet,
timed out, block-counter overflow, failed in the handler or in the stream — closes the socket exactly
once, as the last action, and the handler's file object exactly once directly before it (iff the
handler returned one), for every configuration and event script -/
theorem transfer_closes_resources (cfg : Cfg) (rrq : Rrq) (h : HandlerResult) (script : List Ev) :
    resourcesOK (hasFile h) (runTransfer cfg rrq h script) = true := by
  cases h with
  | tftpError code => simp [runTransfer, resourcesOK, countObs, hasFile]
  | raised => simp [runTransfer, resourcesOK, countObs, hasFile]
  | stream content caps sizeKnown faultAt =>
    simp only [runTransfer, hasFile]
    have hnet := processRequest_net (envOf cfg rrq (.stream content caps sizeKnown faultAt))
      (negOf cfg rrq (.stream content caps sizeKnown faultAt)).oack
      (blockReads rrq.netascii (negOf cfg rrq (.stream content caps sizeKnown faultAt)).blockSize content caps faultAt)
      0 script
    generalize processRequest (envOf cfg rrq (.stream content caps sizeKnown faultAt))
      (negOf cfg rrq (.stream content caps sizeKnown faultAt)).oack
      (blockReads rrq.netascii (negOf cfg rrq (.stream content caps sizeKnown faultAt)).blockSize content caps faultAt)
      0 script = pr at hnet
    have h1 := countObs_net (· == Obs.closeSocket) (by intro o ho; cases o <;> simp_all [isNet]) pr.obs hnet
    have h2 := countObs_net (· == Obs.closeFile) (by intro o ho; cases o <;> simp_all [isNet]) pr.obs hnet
    obtain ⟨h3, h4⟩ := finish_counts pr.out pr.now
    unfold resourcesOK
    simp only [countObs_append, h1, h2, h3, h4, if_true]
    have e1 : (pr.obs ++ finish pr.out pr.now ++ [Obs.closeFile, Obs.closeSocket]).getLast? = some Obs.closeSocket := by
      simp
    have e2 : (pr.obs ++ finish pr.out pr.now ++ [Obs.closeFile, Obs.closeSocket]).dropLast.getLast? = some Obs.closeFile := by
      rw [show pr.obs ++ finish pr.out pr.now ++ [Obs.closeFile, Obs.closeSocket]
          = (pr.obs ++ finish pr.out pr.now ++ [Obs.closeFile]) ++ [Obs.closeSocket] by simp]
      rw [List.dropLast_concat]; simp
    simp [e1, e2, countObs]

end Vinegar.C20
