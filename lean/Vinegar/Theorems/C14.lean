import Vinegar.Lemmas.TextFile
/-
C14 — Text-file source: line semantics, reverse lookup, complete reload on change.

Property theorems about `Vinegar.Model.TextFile` (which mirrors
`vinegar/data_source/text_file.py`) against `Vinegar.Spec.TextFile` (written from the
property statement). Hypotheses that stand for unmodelled components are explicit:
`statVer` (version_for_file_path as a function of the stat fields) and `ver`
(version_for_str) are injective and never "" — no hash collisions; the classification of a
line by the regular expressions is a function of its text.
-/
namespace Vinegar.C14
open Vinegar.TextFile

/-- containers that hold the records `rs` answer every call as specified -/
theorem answer_of_rel {ver : String → String} {cfg : Cfg} {t : Tables} {rs : List Rec}
    (h : Rel ver t rs) (c : Call) : answer cfg t c = specAnswer ver cfg rs c := by
  cases c with
  | get sid =>
    simp only [answer, lookupData, specAnswer, specGet, h.data sid, h.vers sid]
    cases rs.find? (fun r => r.sid = sid) <;> rfl
  | find key val =>
    simp only [answer, lookupSystem, specAnswer, specFind]
    have hc : candidates t key val = specMatches rs key val := by
      unfold candidates
      cases hv : val.hashable with
      | true => simp [h.idx key val hv]
      | false =>
        simp only [Bool.false_eq_true, if_false, h.nh key, specMatches_eq]
        rw [List.filterMap_flatMap]
        congr 1
        funext r
        exact nhHits_filter r.vars r.sid key val hv
    rw [hc]
    congr 1

/-- **parse_spec** — line semantics. Whenever the specification accepts a file (records
`rs`: one per system ID, built from the FIRST non-ignored matching line yielding that ID,
variables per configuration, mismatching/duplicate lines skipped per the actions), the
one-pass parser of the model succeeds and the containers it builds (`_system_data`,
`_system_version`, both value indexes) answer EVERY `get_data` and `find_system` call
exactly as the records specify. All files, all configurations. -/
theorem parse_spec (ver : String → String) (cfg : Cfg) (lines : List Line) (rs : List Rec)
    (hs : specRecords cfg lines [] = .ok rs) :
    ∃ t, parseFile ver cfg lines = (t, none) ∧ ∀ c, answer cfg t c = specAnswer ver cfg rs c := by
  have h := parseLines_spec ver cfg lines Tables.empty [] (Rel.empty ver)
  rw [hs] at h
  obtain ⟨t, ht, hr⟩ := h
  exact ⟨t, ht, fun c => answer_of_rel hr c⟩

/-- **parse_error_spec** — the parser raises exactly when, and exactly the exception class
that, the specification names (mismatching line with action `error`, duplicate ID with
action `error`, a system ID that is `None`/unhashable, a failing transformation or group
reference, a key that nests below a non-mapping), decided by the first such line. -/
theorem parse_error_spec (ver : String → String) (cfg : Cfg) (lines : List Line) (e : Err) :
    specRecords cfg lines [] = .error e ↔ (parseFile ver cfg lines).2 = some e := by
  have h := parseLines_spec ver cfg lines Tables.empty [] (Rel.empty ver)
  constructor
  · intro hs
    rw [hs] at h
    exact h
  · intro hp
    cases hs : specRecords cfg lines [] with
    | error e' =>
      rw [hs] at h
      have : (parseFile ver cfg lines).2 = some e' := h
      rw [this] at hp
      cases hp
      rfl
    | ok rs =>
      rw [hs] at h
      obtain ⟨t, ht, _⟩ := h
      have : (parseFile ver cfg lines).2 = none := by
        show (parseLines ver cfg lines Tables.empty).2 = none
        rw [ht]
      rw [this] at hp
      cases hp

/-- where a record comes from: a matching line `l` of the file that yields the record's ID,
whose variables give the record's data, such that NO earlier line yields that ID -/
def FirstLine (cfg : Cfg) (lines : List Line) (r : Rec) : Prop :=
  ∃ pre l post g, lines = pre ++ l :: post ∧ l.cls = .groups g ∧ specSysId cfg g = .ok r.sid ∧
    r.text = l.text ∧ specLine g cfg.vars .nil = .ok (r.vars, r.data) ∧
    ∀ l' ∈ pre, ∀ g', l'.cls = .groups g' → specSysId cfg g' ≠ .ok r.sid

theorem first_line_aux (cfg : Cfg) :
    ∀ (lines : List Line) (acc rs : List Rec), specRecords cfg lines acc = .ok rs →
      ∀ r ∈ rs, r ∈ acc ∨ (FirstLine cfg lines r ∧ ∀ a ∈ acc, a.sid ≠ r.sid) := by
  intro lines
  induction lines with
  | nil =>
    intro acc rs hs r hr
    simp only [specRecords] at hs
    cases hs
    exact Or.inl hr
  | cons l ls ih =>
    intro acc rs hs r hr
    -- a line that is skipped keeps every later first line a first line
    have skip : (∀ g', l.cls = .groups g' → specSysId cfg g' ≠ .ok r.sid) →
        FirstLine cfg ls r → FirstLine cfg (l :: ls) r := by
      intro hl ⟨pre, l0, post, g, h1, h2, h3, h4, h5, h6⟩
      refine ⟨l :: pre, l0, post, g, by rw [h1]; rfl, h2, h3, h4, h5, ?_⟩
      intro l' hl' g' hg'
      rcases List.mem_cons.mp hl' with h | h
      · subst h; exact hl g' hg'
      · exact h6 l' h g' hg'
    unfold specRecords at hs
    cases hc : l.cls with
    | ignored =>
      rw [hc] at hs
      rcases ih acc rs hs r hr with h | ⟨h, h'⟩
      · exact Or.inl h
      · exact Or.inr ⟨skip (fun g' hg' => by rw [hc] at hg'; cases hg') h, h'⟩
    | mismatch =>
      rw [hc] at hs
      by_cases hm : cfg.mismatch = Action.error
      · simp [hm] at hs
      · simp only [hm, if_false] at hs
        rcases ih acc rs hs r hr with h | ⟨h, h'⟩
        · exact Or.inl h
        · exact Or.inr ⟨skip (fun g' hg' => by rw [hc] at hg'; cases hg') h, h'⟩
    | groups g =>
      rw [hc] at hs
      simp only [] at hs
      cases hsid : specSysId cfg g with
      | error e => rw [hsid] at hs; cases hs
      | ok sid =>
        rw [hsid] at hs
        simp only [] at hs
        cases hk : acc.any (fun r => decide (r.sid = sid)) with
        | true =>
          rw [hk] at hs
          by_cases hd : cfg.duplicate = Action.error
          · simp [hd] at hs
          · simp only [hd, if_false, if_true] at hs
            rcases ih acc rs hs r hr with h | ⟨h, h'⟩
            · exact Or.inl h
            · refine Or.inr ⟨skip ?_ h, h'⟩
              intro g' hg' hsame
              rw [hc] at hg'
              cases hg'
              rw [hsid] at hsame
              cases hsame
              obtain ⟨a, ha, hsa⟩ := List.any_eq_true.mp hk
              exact h' a ha (by simpa using hsa)
        | false =>
          rw [hk] at hs
          simp only [Bool.false_eq_true, if_false] at hs
          have hnew : ∀ a ∈ acc, a.sid ≠ sid := by
            intro a ha
            have := List.any_eq_false.mp hk a ha
            simpa using this
          cases hsl : specLine g cfg.vars Kids.nil with
          | error e => rw [hsl] at hs; cases hs
          | ok p =>
            obtain ⟨vs, d⟩ := p
            rw [hsl] at hs
            simp only [] at hs
            rcases ih _ rs hs r hr with h | ⟨h, h'⟩
            · rcases List.mem_append.mp h with h | h
              · exact Or.inl h
              · simp only [List.mem_singleton] at h
                subst h
                exact Or.inr ⟨⟨[], l, ls, g, rfl, hc, hsid, rfl, hsl, fun _ h => by cases h⟩, hnew⟩
            · refine Or.inr ⟨skip ?_ h, fun a ha => h' a (List.mem_append_left _ ha)⟩
              intro g' hg' hsame
              rw [hc] at hg'
              cases hg'
              rw [hsid] at hsame
              cases hsame
              exact h' ⟨r.sid, l.text, vs, d⟩ (List.mem_append_right _ (List.mem_singleton.mpr rfl)) rfl

/-- **first_line_wins** — reading of the specification used by all theorems of this file:
every record of an accepted file stems from a non-ignored, matching line that yields the
record's system ID and has NO earlier line yielding the same ID; text (hence version),
variables and data of the record are those of that line. Together with `parse_spec`: the
model's `get_data` returns the data of the first such line, whatever follows it. -/
theorem first_line_wins (cfg : Cfg) (lines : List Line) (rs : List Rec)
    (hs : specRecords cfg lines [] = .ok rs) : ∀ r ∈ rs, FirstLine cfg lines r := by
  intro r hr
  rcases first_line_aux cfg lines [] rs hs r hr with h | ⟨h, _⟩
  · cases h
  · exact h

/-- the tail of `find_system` satisfies the find clause for any candidate list -/
theorem findOK_pick (cfg : Cfg) (rs : List Rec) (key : String) (val : Val) :
    findOK cfg rs key val (pick cfg.findFirst (specMatches rs key val)) = true := by
  unfold findOK
  cases hm : specMatches rs key val with
  | nil => simp [pick]
  | cons a l =>
    cases l with
    | nil => simp [pick]
    | cons b l' =>
      cases hf : cfg.findFirst <;> simp [pick]

/-- **find_spec** — reverse lookup. For every accepted file, `find_system(key, value)` of
the model returns a system one of whose variables is `key` with that value; it is the first
such system in file order; it is returned iff it is the only one or `find_first_match` is
set; otherwise (no match, or several without `find_first_match`) the result is `None`.
Hashable and unhashable values alike (both indexes). -/
theorem find_spec (ver : String → String) (cfg : Cfg) (lines : List Line) (rs : List Rec)
    (hs : specRecords cfg lines [] = .ok rs) (key : String) (val : Val) :
    ∃ res, answer cfg (parseFile ver cfg lines).1 (.find key val) = .found res ∧
      findOK cfg rs key val res = true ∧
      (∀ s, res = some s → (specMatches rs key val).head? = some s ∧
          ((specMatches rs key val).length = 1 ∨ cfg.findFirst = true)) ∧
      (res = none → specMatches rs key val = [] ∨
          (1 < (specMatches rs key val).length ∧ cfg.findFirst = false)) := by
  obtain ⟨t, ht, ha⟩ := parse_spec ver cfg lines rs hs
  refine ⟨pick cfg.findFirst (specMatches rs key val), ?_, findOK_pick cfg rs key val, ?_, ?_⟩
  · rw [ht, ha]
    simp only [specAnswer, specFind]
    congr 1
  · intro s hres
    cases hm : specMatches rs key val with
    | nil => rw [hm] at hres; simp [pick] at hres
    | cons a l =>
      rw [hm] at hres
      cases l with
      | nil => simp [pick] at hres; simp [hres]
      | cons b l' =>
        cases hf : cfg.findFirst <;> simp [pick, hf] at hres
        simp [hres]
  · intro hres
    cases hm : specMatches rs key val with
    | nil => exact Or.inl rfl
    | cons a l =>
      rw [hm] at hres
      cases l with
      | nil => simp [pick] at hres
      | cons b l' =>
        cases hf : cfg.findFirst <;> simp [pick, hf] at hres
        exact Or.inr ⟨by simp, rfl⟩

/-! ## Reload -/

/-- the content of the file, without its stat fields -/
def fileContent : FileState → Option Content
  | .missing => none
  | .garbage _ => some .garbage
  | .text _ ls => some (.text ls)

theorem fileContent_toFile (c : Content) (n : Nat) : fileContent (c.toFile n) = some c := by
  cases c <;> rfl

theorem stamp_toFile (c : Content) (n : Nat) : (c.toFile n).stamp = some n := by
  cases c <;> rfl

/-- a re-parse answers as the current content specifies, and stores a version only together
with containers that hold that content's records -/
theorem reparse_spec (ver : String → String) (cfg : Cfg) (fs : FileState) (curv : String) (c : Call) :
    (match (reparse ver cfg fs curv).2 with
      | some e => Res.raised e
      | none => answer cfg (reparse ver cfg fs curv).1.tables c) = specCall ver cfg (fileContent fs) c ∧
    ((reparse ver cfg fs curv).1.fileVersion = "" ∨
      ((reparse ver cfg fs curv).1.fileVersion = curv ∧ ∃ s lines rs, fs = .text s lines ∧
        specRecords cfg lines [] = .ok rs ∧
        ∀ c', answer cfg (reparse ver cfg fs curv).1.tables c' = specAnswer ver cfg rs c')) := by
  cases fs with
  | missing => exact ⟨rfl, Or.inl rfl⟩
  | garbage s => exact ⟨rfl, Or.inl rfl⟩
  | text s lines =>
    simp only [reparse, fileContent, specCall]
    cases hs : specRecords cfg lines [] with
    | error e =>
      have := (parse_error_spec ver cfg lines e).mp hs
      cases hp : parseFile ver cfg lines with
      | mk t oe =>
        rw [hp] at this
        simp only at this
        subst this
        exact ⟨rfl, Or.inl rfl⟩
    | ok rs =>
      obtain ⟨t, ht, ha⟩ := parse_spec ver cfg lines rs hs
      rw [ht]
      simp only []
      refine ⟨ha c, ?_⟩
      by_cases hce : cfg.cacheEnabled = true
      · exact Or.inr ⟨by simp [hce], s, lines, rs, rfl, hs, ha⟩
      · simp [hce]

/-- state invariant of a history: `cur` is the content of the file, every stat stamp in use
is older than the counter, and a stored file version belongs to containers that hold the
records of the content that carried that stamp — which is still the file's content if the
file still has that stamp -/
structure Inv (ver : String → String) (statVer : Option Nat → String) (cfg : Cfg) (w : World)
    (cur : Option Content) : Prop where
  content : fileContent w.file = cur
  fresh : ∀ s, w.file.stamp = some s → s < w.next
  cache : w.src.fileVersion = "" ∨ ∃ s lines rs, w.src.fileVersion = statVer (some s) ∧ s < w.next ∧
    specRecords cfg lines [] = .ok rs ∧ (∀ c, answer cfg w.src.tables c = specAnswer ver cfg rs c) ∧
    (w.file.stamp = some s → w.file = .text s lines)

/-- one call: the answer is the specified one and the invariant is kept -/
theorem call_spec {ver : String → String} {statVer : Option Nat → String} {cfg : Cfg}
    (hinj : Function.Injective statVer) (hne : ∀ o, statVer o ≠ "")
    {w : World} {cur : Option Content} (h : Inv ver statVer cfg w cur) (c : Call) :
    (call ver statVer cfg w.file w.src c).2 = specCall ver cfg cur c ∧
    Inv ver statVer cfg { w with src := (call ver statVer cfg w.file w.src c).1 } cur := by
  obtain ⟨hcont, hfresh, hcache⟩ := h
  by_cases hce : cfg.cacheEnabled = true
  · by_cases hv : statVer w.file.stamp = w.src.fileVersion
    · -- the stat version equals the stored one: the containers are used as they are
      have hu : updateData ver statVer cfg w.file w.src = (w.src, none) := by
        simp [updateData, hce, hv]
      simp only [call, hu]
      rcases hcache with h0 | ⟨s, lines, rs, hfv, hlt, hrs, hans, hfile⟩
      · exact absurd (hv.trans h0) (hne _)
      · have hst : w.file.stamp = some s := hinj (hv.trans hfv)
        have hf := hfile hst
        refine ⟨?_, ⟨hcont, hfresh, Or.inr ⟨s, lines, rs, hfv, hlt, hrs, hans, hfile⟩⟩⟩
        rw [← hcont, hf]
        simp only [fileContent, specCall, hrs]
        exact hans c
    · have hu : updateData ver statVer cfg w.file w.src =
          reparse ver cfg w.file (statVer w.file.stamp) := by
        simp [updateData, hce, hv]
      simp only [call, hu]
      have hr := reparse_spec ver cfg w.file (statVer w.file.stamp) c
      refine ⟨by rw [← hcont]; exact hr.1, ⟨hcont, hfresh, ?_⟩⟩
      rcases hr.2 with h0 | ⟨hfv, s, lines, rs, hfile, hrs, hans⟩
      · exact Or.inl h0
      · right
        refine ⟨s, lines, rs, ?_, hfresh s (by rw [hfile]; rfl), hrs, hans, fun _ => hfile⟩
        show (reparse ver cfg w.file (statVer w.file.stamp)).1.fileVersion = statVer (some s)
        rw [hfv, hfile]
        rfl
  · have hu : updateData ver statVer cfg w.file w.src = reparse ver cfg w.file "" := by
      simp [updateData, hce]
    simp only [call, hu]
    have hr := reparse_spec ver cfg w.file "" c
    refine ⟨by rw [← hcont]; exact hr.1, ⟨hcont, hfresh, ?_⟩⟩
    rcases hr.2 with h0 | ⟨hfv, _⟩
    · exact Or.inl h0
    · exact Or.inl hfv

/-- an edit keeps the invariant (with the new content) -/
theorem write_inv {ver : String → String} {statVer : Option Nat → String} {cfg : Cfg}
    {w : World} {cur : Option Content} (h : Inv ver statVer cfg w cur) (c : Content) :
    Inv ver statVer cfg { w with file := c.toFile w.next, next := w.next + 1 } (some c) := by
  obtain ⟨_, _, hcache⟩ := h
  refine ⟨fileContent_toFile c w.next, ?_, ?_⟩
  · intro s hs
    rw [stamp_toFile] at hs
    cases hs
    exact Nat.lt_succ_self _
  · rcases hcache with h0 | ⟨s, lines, rs, hfv, hlt, hrs, hans, _⟩
    · exact Or.inl h0
    · refine Or.inr ⟨s, lines, rs, hfv, Nat.lt_succ_of_lt hlt, hrs, hans, ?_⟩
      intro hs
      rw [stamp_toFile] at hs
      cases hs
      exact absurd hlt (Nat.lt_irrefl _)

theorem delete_inv {ver : String → String} {statVer : Option Nat → String} {cfg : Cfg}
    {w : World} {cur : Option Content} (h : Inv ver statVer cfg w cur) :
    Inv ver statVer cfg { w with file := .missing } none := by
  obtain ⟨_, _, hcache⟩ := h
  refine ⟨rfl, (fun s hs => by cases hs), ?_⟩
  rcases hcache with h0 | ⟨s, lines, rs, hfv, hlt, hrs, hans, _⟩
  · exact Or.inl h0
  · exact Or.inr ⟨s, lines, rs, hfv, hlt, hrs, hans, (fun hs => by cases hs)⟩

theorem run_eq_specRun {ver : String → String} {statVer : Option Nat → String} {cfg : Cfg}
    (hinj : Function.Injective statVer) (hne : ∀ o, statVer o ≠ "") :
    ∀ (hist : List Step) (w : World) (cur : Option Content), Inv ver statVer cfg w cur →
      run ver statVer cfg w hist = specRun ver cfg cur hist := by
  intro hist
  induction hist with
  | nil => intro w cur _; rfl
  | cons st ss ih =>
    intro w cur h
    cases st with
    | write c =>
      simp only [run, runStep, specRun]
      exact ih _ _ (write_inv h c)
    | delete =>
      simp only [run, runStep, specRun]
      exact ih _ _ (delete_inv h)
    | call c =>
      simp only [run, runStep, specRun]
      have hc := call_spec hinj hne h c
      rw [hc.1]
      congr 1
      exact ih _ _ hc.2

theorem start_inv (ver : String → String) (statVer : Option Nat → String) (cfg : Cfg)
    (init : Option Content) : Inv ver statVer cfg (World.start init) init := by
  cases init with
  | none => exact ⟨rfl, (fun s hs => by cases hs), Or.inl rfl⟩
  | some c =>
    refine ⟨fileContent_toFile c 0, ?_, Or.inl rfl⟩
    intro s hs
    simp only [World.start] at hs
    rw [stamp_toFile] at hs
    cases hs
    exact Nat.zero_lt_one

/-- **reload_refines** — complete reload on change. For EVERY history of rewrites (also
with undecodable bytes), deletions, re-creations — each edit changing the file's stat
fields — interleaved with `get_data`/`find_system` calls, for every configuration
(`cache_enabled` on or off, all actions), started with a new source object next to a missing
or existing file: the list of results produced by the stateful source (stat-version check,
clear-then-parse, version stored only after success) equals the list a stateless reader
produces that parses the file's CURRENT content at every call. Hence no call ever shows a
remnant of an older content, a failed parse or a missing file leaves nothing behind and is
re-tried, and a failing content keeps raising its exception. Hypotheses: the stat version
is injective in the stat fields and is never the empty string (no hash collision). -/
theorem reload_refines (ver : String → String) (statVer : Option Nat → String) (cfg : Cfg)
    (hinj : Function.Injective statVer) (hne : ∀ o, statVer o ≠ "")
    (init : Option Content) (hist : List Step) :
    run ver statVer cfg (World.start init) hist = specRun ver cfg init hist :=
  run_eq_specRun hinj hne hist _ _ (start_inv ver statVer cfg init)

/-- the checker evaluated on the implementation's observation accepts every observation of
the model -/
theorem reload_checker_accepts (ver : String → String) (statVer : Option Nat → String) (cfg : Cfg)
    (hinj : Function.Injective statVer) (hne : ∀ o, statVer o ≠ "")
    (init : Option Content) (hist : List Step) :
    reloadOK ver cfg init hist (run ver statVer cfg (World.start init) hist) = true := by
  unfold reloadOK
  rw [reload_refines ver statVer cfg hinj hne]
  exact beq_self_eq_true _

/-! ## Versions -/

def contentLines : Option Content → List Line
  | some (.text ls) => ls
  | _ => []

/-- every line that a history ever writes -/
def histLines : List Step → List Line
  | [] => []
  | .write c :: ss => contentLines (some c) ++ histLines ss
  | _ :: ss => histLines ss

/-- the data a line text stands for, given the (functional) classification of texts -/
def dataOf (cfg : Cfg) (classify : String → LineClass) (text : String) : Kids :=
  match classify text with
  | .groups g =>
    match specLine g cfg.vars .nil with
    | .ok (_, d) => d
    | .error _ => .nil
  | _ => .nil

theorem records_data (cfg : Cfg) (classify : String → LineClass) :
    ∀ (lines : List Line) (acc rs : List Rec), (∀ l ∈ lines, l.cls = classify l.text) →
      (∀ r ∈ acc, r.data = dataOf cfg classify r.text) → specRecords cfg lines acc = .ok rs →
      ∀ r ∈ rs, r.data = dataOf cfg classify r.text := by
  intro lines
  induction lines with
  | nil =>
    intro acc rs _ hacc hs
    simp only [specRecords] at hs
    cases hs
    exact hacc
  | cons l ls ih =>
    intro acc rs hl hacc hs
    have hcl := hl l (List.mem_cons_self ..)
    have hl' : ∀ x ∈ ls, x.cls = classify x.text := fun x hx => hl x (List.mem_cons_of_mem _ hx)
    unfold specRecords at hs
    cases hc : l.cls with
    | ignored => rw [hc] at hs; exact ih acc rs hl' hacc hs
    | mismatch =>
      rw [hc] at hs
      by_cases hm : cfg.mismatch = Action.error
      · simp [hm] at hs
      · simp only [hm, if_false] at hs; exact ih acc rs hl' hacc hs
    | groups g =>
      rw [hc] at hs
      simp only [] at hs
      cases hsid : specSysId cfg g with
      | error e => rw [hsid] at hs; cases hs
      | ok sid =>
        rw [hsid] at hs
        simp only [] at hs
        cases hk : acc.any (fun r => decide (r.sid = sid)) with
        | true =>
          rw [hk] at hs
          by_cases hd : cfg.duplicate = Action.error
          · simp [hd] at hs
          · simp only [hd, if_false, if_true] at hs; exact ih acc rs hl' hacc hs
        | false =>
          rw [hk] at hs
          simp only [Bool.false_eq_true, if_false] at hs
          cases hsl : specLine g cfg.vars Kids.nil with
          | error e => rw [hsl] at hs; cases hs
          | ok p =>
            obtain ⟨vs, d⟩ := p
            rw [hsl] at hs
            simp only [] at hs
            refine ih _ rs hl' ?_ hs
            intro r hr
            rcases List.mem_append.mp hr with h | h
            · exact hacc r h
            · simp only [List.mem_singleton] at h
              subst h
              simp only [dataOf, ← hcl, hc, hsl]

/-- a `get_data` answer is either "unknown system" or version and data of one line text -/
def GoodRes (ver : String → String) (cfg : Cfg) (classify : String → LineClass) : Res → Prop
  | .data d v => (d = .nil ∧ v = "") ∨ ∃ text, v = ver text ∧ d = dataOf cfg classify text
  | _ => True

theorem specCall_good (ver : String → String) (cfg : Cfg) (classify : String → LineClass)
    (cur : Option Content) (hcur : ∀ l ∈ contentLines cur, l.cls = classify l.text) (c : Call) :
    GoodRes ver cfg classify (specCall ver cfg cur c) := by
  unfold specCall
  cases cur with
  | none => trivial
  | some ct =>
    cases ct with
    | garbage => trivial
    | text lines =>
      simp only []
      cases hs : specRecords cfg lines [] with
      | error e => trivial
      | ok rs =>
        cases c with
        | find k v => trivial
        | get sid =>
          simp only [specAnswer, specGet]
          cases hf : rs.find? (fun r => r.sid = sid) with
          | none => exact Or.inl ⟨rfl, rfl⟩
          | some r =>
            have hm := List.mem_of_find?_eq_some hf
            have := records_data cfg classify lines [] rs hcur (fun _ h => by cases h) hs r hm
            exact Or.inr ⟨r.text, rfl, this⟩

theorem gets_good (ver : String → String) (cfg : Cfg) (classify : String → LineClass) :
    ∀ (hist : List Step) (cur : Option Content),
      (∀ l ∈ contentLines cur, l.cls = classify l.text) →
      (∀ l ∈ histLines hist, l.cls = classify l.text) →
      ∀ p ∈ getsOf hist (specRun ver cfg cur hist), GoodRes ver cfg classify p.2 := by
  intro hist
  induction hist with
  | nil => intro cur _ _ p hp; simp [getsOf] at hp
  | cons st ss ih =>
    intro cur hcur hh p hp
    cases st with
    | write c =>
      simp only [specRun, getsOf] at hp
      refine ih (some c) ?_ ?_ p hp
      · intro l hl; exact hh l (by simp only [histLines]; exact List.mem_append_left _ hl)
      · intro l hl; exact hh l (by simp only [histLines]; exact List.mem_append_right _ hl)
    | delete =>
      simp only [specRun, getsOf] at hp
      exact ih none (fun l hl => by simp [contentLines] at hl) (fun l hl => hh l (by simpa [histLines] using hl)) p hp
    | call c =>
      have hh' : ∀ l ∈ histLines ss, l.cls = classify l.text :=
        fun l hl => hh l (by simpa [histLines] using hl)
      cases c with
      | get sid =>
        simp only [specRun, getsOf, List.mem_cons] at hp
        rcases hp with h | h
        · subst h
          exact specCall_good ver cfg classify cur hcur (.get sid)
        · exact ih cur hcur hh' p h
      | find k v =>
        simp only [specRun, getsOf] at hp
        exact ih cur hcur hh' p hp

theorem versionPairOK_of_good {ver : String → String} {cfg : Cfg} {classify : String → LineClass}
    (hver : Function.Injective ver) (hvne : ∀ s, ver s ≠ "")
    (a b : String × Res) (ha : GoodRes ver cfg classify a.2) (hb : GoodRes ver cfg classify b.2) :
    versionPairOK a b = true := by
  obtain ⟨s, r⟩ := a
  obtain ⟨s', r'⟩ := b
  cases r with
  | found x => simp [versionPairOK]
  | raised x => simp [versionPairOK]
  | data d v =>
    cases r' with
    | found x => simp [versionPairOK]
    | raised x => simp [versionPairOK]
    | data d' v' =>
      simp only [versionPairOK, Bool.or_eq_true, bne_iff_ne, beq_iff_eq, ne_eq]
      simp only [GoodRes] at ha hb
      by_cases hd : d = d'
      · exact Or.inl (Or.inr hd)
      · right
        rcases ha with ⟨h1, h2⟩ | ⟨t, h1, h2⟩ <;> rcases hb with ⟨h3, h4⟩ | ⟨t', h3, h4⟩
        · exact absurd (h1.trans h3.symm) hd
        · rw [h2, h3]; exact fun e => hvne t' e.symm
        · rw [h1, h4]; exact hvne t
        · rw [h1, h3]
          intro e
          have := hver e
          subst this
          exact hd (h2.trans h4.symm)

/-- **version_changes_with_data** — over every history (as in `reload_refines`) and every
pair of `get_data` calls in it — before and after any number of rewrites, deletions,
re-creations and failed parses — two answers with different data carry different version
strings (in particular: a system that appears, disappears, or whose line changes gets a
new version). Hypotheses: `ver` (version_for_str) is injective and never "" (no hash
collision); the classification of a line by the regular expressions depends on the line's
text only. -/
theorem version_changes_with_data (ver : String → String) (statVer : Option Nat → String)
    (cfg : Cfg) (hinj : Function.Injective statVer) (hne : ∀ o, statVer o ≠ "")
    (hver : Function.Injective ver) (hvne : ∀ s, ver s ≠ "")
    (classify : String → LineClass) (init : Option Content) (hist : List Step)
    (hcls : ∀ l ∈ contentLines init ++ histLines hist, l.cls = classify l.text) :
    versionsOK hist (run ver statVer cfg (World.start init) hist) = true := by
  rw [reload_refines ver statVer cfg hinj hne]
  unfold versionsOK
  have hg := gets_good ver cfg classify hist init
    (fun l hl => hcls l (List.mem_append_left _ hl)) (fun l hl => hcls l (List.mem_append_right _ hl))
  simp only [List.all_eq_true]
  intro a ha b hb
  exact versionPairOK_of_good hver hvne a b (hg a ha) (hg b hb)

/-! ## The hypotheses are satisfiable, and known-bad behaviour is rejected -/

/-- the hypotheses on `ver` are satisfiable (this is the driver's instance) -/
example : Function.Injective (fun s : String => "v" ++ s) ∧ ∀ s : String, "v" ++ s ≠ "" := by
  refine ⟨?_, ?_⟩
  · intro s t h
    have := congrArg String.toList h
    simp [String.toList_append] at this
    exact String.toList_inj.mp this
  · intro s h
    have := congrArg String.toList h
    simp [String.toList_append] at this

/-- the hypotheses on `statVer` are satisfiable -/
example : ∃ f : Option Nat → String, Function.Injective f ∧ ∀ o, f o ≠ "" := by
  refine ⟨fun o => match o with
    | none => "m"
    | some n => "s" ++ String.ofList (List.replicate n 'x'), ?_, ?_⟩
  · intro a b h
    cases a <;> cases b
    · rfl
    · have := congrArg String.toList h; simp [String.toList_append] at this
    · have := congrArg String.toList h; simp [String.toList_append] at this
    · have := congrArg String.toList h
      simp [String.toList_append] at this
      rw [this]
  · intro o h
    cases o
    · have := congrArg String.toList h; simp at this
    · have := congrArg String.toList h; simp [String.toList_append] at this

private def exCfg : Cfg :=
  { mismatch := .warn, duplicate := .error, findFirst := false, cacheEnabled := true,
    sysId := ⟨.name "id", [], false, false⟩,
    vars := [("a", ⟨.name "a", [], false, false⟩)] }

private def exLine (id a : String) : Line :=
  ⟨id ++ ";" ++ a, .groups ⟨[("id", some id), ("a", some a)], [some (id ++ ";" ++ a), some id, some a]⟩⟩

private def exGood : Content := .text [exLine "s1" "x"]
private def exDup : Content := .text [exLine "s1" "y", exLine "s1" "z"]

/-- a source that keeps serving the partial tables of a failed parse (version stored before
the parse) is rejected: the second call must raise again -/
example :
    reloadOK (fun s => "v" ++ s) exCfg (some exGood)
      [.write exDup, .call (.get "s1"), .call (.get "s1")]
      [.raised "ValueError", .data (.cons "a" (.leaf (.str "y")) .nil) "vs1;y"] = false := by decide

/-- … and so is one that keeps the old content after the file has been deleted -/
example :
    reloadOK (fun s => "v" ++ s) exCfg (some exGood)
      [.call (.get "s1"), .delete, .call (.get "s1")]
      [.data (.cons "a" (.leaf (.str "x")) .nil) "vs1;x",
       .data (.cons "a" (.leaf (.str "x")) .nil) "vs1;x"] = false := by decide

/-- the model's own answers for that history are accepted (instance of `reload_checker_accepts`) -/
example :
    reloadOK (fun s => "v" ++ s) exCfg (some exGood)
      [.call (.get "s1"), .delete, .call (.get "s1")]
      [.data (.cons "a" (.leaf (.str "x")) .nil) "vs1;x", .raised "FileNotFoundError"] = true := by decide

end Vinegar.C14
