import Vinegar.Lemmas.Reader
/-
Reader-level statements shared by C01 (octet) and C08 (netascii): for every
content, every short-read pattern `caps` and every block size ≥ 1 the payload
sequence produced by the reader model is framed correctly and concatenates to the
expected output. The per-property files restate these under the property's name.
-/
namespace Vinegar

theorem transferBlocks_eq_split (na : Bool) (size : Nat) (content : Bytes) (caps : List Nat) :
    transferBlocks na size content caps =
      splitBlocks size (2 * content.length + 2) (expectedOutput na content) := by
  unfold transferBlocks
  rw [allBlocks_eq_split, remaining_init]

theorem transferBlocks_flatten (na : Bool) (size : Nat) (hs : 0 < size) (content : Bytes)
    (caps : List Nat) :
    (transferBlocks na size content caps).flatten = expectedOutput na content := by
  rw [transferBlocks_eq_split]
  apply splitBlocks_flatten size hs
  have := expectedOutput_length_le na content
  omega

theorem transferBlocks_framing (na : Bool) (size : Nat) (hs : 0 < size) (content : Bytes)
    (caps : List Nat) :
    framingOK size (transferBlocks na size content caps) = true := by
  rw [transferBlocks_eq_split]
  apply splitBlocks_framing size hs
  have := expectedOutput_length_le na content
  omega

/-- the payload checker that is also evaluated on the implementation's DATA packets
accepts the model's payload sequence, for every content, read splitting and block size -/
theorem transferBlocks_payloadsOK (na : Bool) (size : Nat) (hs : 0 < size) (content : Bytes)
    (caps : List Nat) :
    payloadsOK na size content (transferBlocks na size content caps) = true := by
  unfold payloadsOK
  rw [transferBlocks_framing na size hs, transferBlocks_flatten na size hs]
  simp

/-- the payload sequence does not depend on how the stream splits its reads -/
theorem transferBlocks_caps_irrelevant (na : Bool) (size : Nat) (content : Bytes)
    (caps caps' : List Nat) :
    transferBlocks na size content caps = transferBlocks na size content caps' := by
  rw [transferBlocks_eq_split, transferBlocks_eq_split]

end Vinegar
