import Vinegar.Lemmas.Numerals
import Vinegar.Lemmas.TftpSends
import Vinegar.Theorems.C08
/-
C07 — TFTP option negotiation follows RFC 2347-2349; the transfer honours the OACK.
-/
namespace Vinegar.C07
open Vinegar Vinegar.Tftp

/-! ### per-option specifications (`d` is the client's option mapping with lower-cased names) -/

/-- blksize is acknowledged iff the client sent a canonical decimal (`[1-9][0-9]*`) of at least
MIN_BLOCK_SIZE = 8; the acknowledged value is min(requested, max_block_size) -/
theorem blksize_spec (cfg : Cfg) (d : Opts) (b : Nat) :
    negBlksize cfg d = some b ↔
      ∃ v, dictGet d optBlksize = some v ∧ isPosInt v = true ∧ Generated.MIN_BLOCK_SIZE ≤ parseNat v ∧
        b = min (parseNat v) cfg.maxBlockSize := by
  unfold negBlksize
  constructor
  · intro h
    split at h
    · rename_i v hv
      split at h
      · rename_i hc
        simp only [Bool.and_eq_true, decide_eq_true_eq] at hc
        simp only [Option.some.injEq] at h
        exact ⟨v, hv, hc.1, hc.2, h.symm⟩
      · cases h
    · cases h
  · rintro ⟨v, hv, h1, h2, h3⟩
    simp [hv, h1, h2, h3]

/-- timeout is acknowledged iff it is a canonical decimal within [MIN_TIMEOUT, max_timeout] … -/
theorem timeout_spec (cfg : Cfg) (d : Opts) (t : Nat) :
    negTimeout cfg d = some t ↔
      ∃ v, dictGet d optTimeout = some v ∧ isPosInt v = true ∧ Generated.MIN_TIMEOUT ≤ parseNat v ∧
        parseNat v ≤ cfg.maxTimeout ∧ t = parseNat v := by
  unfold negTimeout
  constructor
  · intro h
    split at h
    · rename_i v hv
      split at h
      · rename_i hc
        simp only [Bool.and_eq_true, decide_eq_true_eq] at hc
        simp only [Option.some.injEq] at h
        exact ⟨v, hv, hc.1.1, hc.1.2, hc.2, h.symm⟩
      · cases h
    · cases h
  · rintro ⟨v, hv, h1, h2, h3, h4⟩
    simp [hv, h1, h2, h3, h4]

/-- … and it is echoed unchanged: the string sent back is the string the client sent -/
theorem timeout_echoed (cfg : Cfg) (d : Opts) (t : Nat) (h : negTimeout cfg d = some t) :
    dictGet d optTimeout = some (showNat t) := by
  obtain ⟨v, hv, h1, _, _, h4⟩ := (timeout_spec cfg d t).mp h
  rw [hv, h4, showNat_parseNat v h1]

/-- `str(int(v)) == v` for every `v` accepted by `[1-9][0-9]*` (restated from `Lemmas/Numerals`) -/
theorem showNat_parseNat (v : List Char) (h : isPosInt v = true) : showNat (parseNat v) = v :=
  Tftp.showNat_parseNat v h

/-- tsize is acknowledged iff the client sent exactly "0", the mode is octet and the size is known;
the value is the number of bytes that will be read -/
theorem tsize_spec (d : Opts) (na : Bool) (size : Option Nat) (n : Nat) :
    negTsize d na size = some n ↔ dictGet d optTsize = some ['0'] ∧ na = false ∧ size = some n := by
  unfold negTsize
  constructor
  · intro h
    split at h
    · rename_i v hv
      split at h
      · rename_i hc
        simp only [Bool.and_eq_true, decide_eq_true_eq, Bool.not_eq_true'] at hc
        exact ⟨by rw [hv, hc.1], hc.2, h⟩
      · cases h
    · cases h
  · rintro ⟨h1, h2, h3⟩
    simp [h1, h2, h3]

/-- the OACK is empty (no OACK is sent) iff no option was accepted -/
theorem oack_iff_accepted (cfg : Cfg) (raw : Opts) (na : Bool) (size : Option Nat) :
    (negotiate cfg raw na size).oack = [] ↔
      negBlksize cfg (lowerDict (pyDict raw)) = none ∧ negTimeout cfg (lowerDict (pyDict raw)) = none ∧
      negTsize (lowerDict (pyDict raw)) na size = none := by
  unfold negotiate
  simp only [List.append_eq_nil_iff, and_assoc]
  have hE : ∀ (name : List Char) (v : Option Nat), optEntry name v = [] ↔ v = none := by
    intro name v; cases v <;> simp [optEntry]
  rw [hE, hE, hE]

/-! ### the OACK names only options the client sent -/

theorem mem_dictInsert (d : Opts) (k' v' k v : List Char) (h : (k, v) ∈ dictInsert d k' v') :
    k = k' ∨ ∃ w, (k, w) ∈ d := by
  induction d with
  | nil => simp only [dictInsert, List.mem_singleton, Prod.mk.injEq] at h; exact Or.inl h.1
  | cons p d ih =>
    obtain ⟨a, b⟩ := p
    simp only [dictInsert] at h
    split at h
    · rename_i hak
      simp only [List.mem_cons, Prod.mk.injEq] at h
      rcases h with ⟨h1, _⟩ | h
      · exact Or.inl (by rw [h1, hak])
      · exact Or.inr ⟨v, by simp [h]⟩
    · simp only [List.mem_cons, Prod.mk.injEq] at h
      rcases h with ⟨h1, h2⟩ | h
      · exact Or.inr ⟨b, by simp [h1]⟩
      · rcases ih h with h' | ⟨w, hw⟩
        · exact Or.inl h'
        · exact Or.inr ⟨w, by simp [hw]⟩

theorem mem_foldl_dictInsert (l d : Opts) (k v : List Char)
    (h : (k, v) ∈ l.foldl (fun d (p : List Char × List Char) => dictInsert d p.1 p.2) d) :
    (∃ w, (k, w) ∈ d) ∨ ∃ w, (k, w) ∈ l := by
  induction l generalizing d with
  | nil => exact Or.inl ⟨v, h⟩
  | cons p l ih =>
    simp only [List.foldl_cons] at h
    rcases ih _ h with ⟨w, hw⟩ | ⟨w, hw⟩
    · rcases mem_dictInsert d p.1 p.2 k w hw with hk | hd
      · right; exact ⟨p.2, by rw [hk]; simp⟩
      · exact Or.inl hd
    · right; exact ⟨w, by simp [hw]⟩

theorem mem_pyDict (l : Opts) (k v : List Char) (h : (k, v) ∈ pyDict l) : ∃ w, (k, w) ∈ l := by
  rcases mem_foldl_dictInsert l [] k v h with ⟨w, hw⟩ | hm
  · simp at hw
  · exact hm

theorem dictGet_mem (d : Opts) (k v : List Char) (h : dictGet d k = some v) : (k, v) ∈ d := by
  induction d with
  | nil => simp [dictGet] at h
  | cons p d ih =>
    obtain ⟨a, b⟩ := p
    simp only [dictGet] at h
    split at h
    · rename_i hk; simp only [Option.some.injEq] at h; simp [hk, h]
    · simp [ih h]

/-- an option name looked up in the lower-cased mapping was sent by the client in some letter case -/
theorem lowerDict_name_sent (raw : Opts) (k v : List Char) (h : dictGet (lowerDict (pyDict raw)) k = some v) :
    ∃ q ∈ raw, lower q.1 = k := by
  have hm := dictGet_mem _ _ _ h
  unfold lowerDict at hm
  obtain ⟨w, hw⟩ := mem_pyDict _ k v hm
  simp only [List.mem_map, Prod.mk.injEq] at hw
  obtain ⟨q, hq, heq, _⟩ := hw
  obtain ⟨w', hw'⟩ := mem_pyDict raw q.1 q.2 hq
  exact ⟨(q.1, w'), hw', heq⟩

/-- the OACK names only options the client sent (names compared case-insensitively), and only
blksize, timeout, tsize, in this order, each at most once -/
theorem oack_names_subset (cfg : Cfg) (raw : Opts) (na : Bool) (size : Option Nat) :
    (∀ p ∈ (negotiate cfg raw na size).oack, ∃ q ∈ raw, lower q.1 = p.1) ∧
    List.Sublist ((negotiate cfg raw na size).oack.map Prod.fst) [optBlksize, optTimeout, optTsize] := by
  unfold negotiate
  constructor
  · intro p hp
    simp only [List.mem_append] at hp
    rcases hp with (hp | hp) | hp
    · cases hb : negBlksize cfg (lowerDict (pyDict raw)) with
      | none => simp [optEntry, hb] at hp
      | some b =>
        simp only [optEntry, hb, List.mem_singleton] at hp
        obtain ⟨v, hv, _⟩ := (blksize_spec cfg _ b).mp hb
        subst hp
        exact lowerDict_name_sent raw optBlksize v hv
    · cases hb : negTimeout cfg (lowerDict (pyDict raw)) with
      | none => simp [optEntry, hb] at hp
      | some b =>
        simp only [optEntry, hb, List.mem_singleton] at hp
        obtain ⟨v, hv, _⟩ := (timeout_spec cfg _ b).mp hb
        subst hp
        exact lowerDict_name_sent raw optTimeout v hv
    · cases hb : negTsize (lowerDict (pyDict raw)) na size with
      | none => simp [optEntry, hb] at hp
      | some b =>
        simp only [optEntry, hb, List.mem_singleton] at hp
        obtain ⟨hv, _⟩ := (tsize_spec _ na size b).mp hb
        subst hp
        exact lowerDict_name_sent raw optTsize _ hv
  · simp only
    cases negBlksize cfg (lowerDict (pyDict raw)) <;> cases negTimeout cfg (lowerDict (pyDict raw)) <;>
      cases negTsize (lowerDict (pyDict raw)) na size <;> simp [optEntry]

/-! ### the transfer uses exactly what was acknowledged -/

theorem clamp_bounds (lo hi x : Nat) (h : lo ≤ hi) : lo ≤ clamp lo hi x ∧ clamp lo hi x ≤ hi := by
  unfold clamp; split <;> (try split) <;> omega

/-- the constructor's clamps keep the limits in the protocol's ranges -/
theorem clampCfg_bounds (dt mt : Nat) (mr : Int) (mb : Nat) (w : Option Nat) :
    Generated.DEFAULT_BLOCK_SIZE ≤ (clampCfg dt mt mr mb w).maxBlockSize ∧
    (clampCfg dt mt mr mb w).maxBlockSize ≤ Generated.MAX_BLOCK_SIZE ∧
    1 ≤ (clampCfg dt mt mr mb w).maxRetries ∧
    Generated.MIN_TIMEOUT ≤ (clampCfg dt mt mr mb w).maxTimeout ∧
    (clampCfg dt mt mr mb w).maxTimeout ≤ Generated.MAX_TIMEOUT ∧
    Generated.MIN_TIMEOUT * ticksPerSecond ≤ (clampCfg dt mt mr mb w).defaultTimeout ∧
    (clampCfg dt mt mr mb w).defaultTimeout ≤ (clampCfg dt mt mr mb w).maxTimeout * ticksPerSecond := by
  have hb := clamp_bounds Generated.DEFAULT_BLOCK_SIZE Generated.MAX_BLOCK_SIZE mb (by decide)
  have ht := clamp_bounds Generated.MIN_TIMEOUT Generated.MAX_TIMEOUT mt (by decide)
  have hd := clamp_bounds (Generated.MIN_TIMEOUT * ticksPerSecond)
    (clamp Generated.MIN_TIMEOUT Generated.MAX_TIMEOUT mt * ticksPerSecond) dt
    (Nat.mul_le_mul_right _ ht.1)
  refine ⟨hb.1, hb.2, ?_, ht.1, ht.2, hd.1, hd.2⟩
  simp only [clampCfg]
  split <;> omega

/-- the block size of the transfer is within [MIN_BLOCK_SIZE, max_block_size] -/
theorem blockSize_bounds (cfg : Cfg) (raw : Opts) (na : Bool) (size : Option Nat)
    (hmax : Generated.DEFAULT_BLOCK_SIZE ≤ cfg.maxBlockSize) :
    Generated.MIN_BLOCK_SIZE ≤ (negotiate cfg raw na size).blockSize ∧
    (negotiate cfg raw na size).blockSize ≤ cfg.maxBlockSize := by
  have h0 : Generated.MIN_BLOCK_SIZE ≤ Generated.DEFAULT_BLOCK_SIZE := by decide
  unfold negotiate
  simp only
  cases hb : negBlksize cfg (lowerDict (pyDict raw)) with
  | none => simp only [Option.getD_none]; omega
  | some b =>
    obtain ⟨v, _, _, h2, h3⟩ := (blksize_spec cfg _ b).mp hb
    simp only [Option.getD_some]
    omega

theorem firstClientSend_cons (t : Nat) (p : Bytes) (rest : List Obs) :
    firstClientSend (Obs.send t 0 p :: rest) = some p := by
  simp [firstClientSend]

theorem sendWithRetry_first (env : Env) (packet : Bytes) (expect k now : Nat) (s : List Ev) (rest : List Obs) :
    firstClientSend ((sendWithRetry env packet expect (k + 1) now s).obs ++ rest) = some packet := by
  rw [sendWithRetry_succ]
  cases (awaitAck expect (now + env.timeout) now s).out <;> simp [firstClientSend]

theorem clientSendsSat_finish (q : Bytes → Bool) (hq : q err0 = true) (e : End) (now : Nat) :
    clientSendsSat q (finish e now ++ [Obs.closeFile, Obs.closeSocket]) = true := by
  cases e <;> simp [finish, clientSendsSat, hq]

/-- **C07 on whole transfers** (every request, configuration, content, script): if nothing was
accepted no OACK is ever sent (the transfer starts with DATA); otherwise the first datagram is the
OACK prescribed by the negotiation and every OACK sent is that packet -/
theorem c07Check_runTransfer (cfg : Cfg) (rrq : Rrq) (content : Bytes) (caps : List Nat)
    (sizeKnown : Bool) (faultAt : Option Nat) (script : List Ev) :
    c07Check (negOf cfg rrq (.stream content caps sizeKnown faultAt))
      (runTransfer cfg rrq (.stream content caps sizeKnown faultAt) script) = true := by
  generalize hh : HandlerResult.stream content caps sizeKnown faultAt = h
  have hrun : runTransfer cfg rrq h script =
      (processRequest (envOf cfg rrq h) (negOf cfg rrq h).oack
        (blockReads rrq.netascii (negOf cfg rrq h).blockSize content caps faultAt) 0 script).obs ++
      (finish (processRequest (envOf cfg rrq h) (negOf cfg rrq h).oack
        (blockReads rrq.netascii (negOf cfg rrq h).blockSize content caps faultAt) 0 script).out
        (processRequest (envOf cfg rrq h) (negOf cfg rrq h).oack
        (blockReads rrq.netascii (negOf cfg rrq h).blockSize content caps faultAt) 0 script).now ++
       [Obs.closeFile, Obs.closeSocket]) := by
    subst hh
    simp [runTransfer]
  rw [hrun]
  generalize blockReads rrq.netascii (negOf cfg rrq h).blockSize content caps faultAt = blocks
  generalize envOf cfg rrq h = env
  generalize (negOf cfg rrq h) = neg
  have herr : opcodeOf err0 = some opERROR := opcodeOf_errorPacket _ _
  unfold c07Check processRequest
  by_cases he : neg.oack.isEmpty = true
  · simp only [he, ↓reduceIte]
    have hdo : (some opDATA != some opOACK) = true := bne_iff_ne.mpr (by simp [opDATA_val, opOACK_val])
    have hq : ∀ n b, (fun p => opcodeOf p != some opOACK) (dataPacket n b) = true := by
      intro n b; simp only [opcodeOf_dataPacket, hdo]
    have hne : (opcodeOf err0 != some opOACK) = true := by
      rw [herr]; exact bne_iff_ne.mpr (by simp [opERROR_val, opOACK_val])
    rw [clientSendsSat_append, sendData_clientSends (fun p => opcodeOf p != some opOACK) hq,
      clientSendsSat_finish (fun p => opcodeOf p != some opOACK) hne]
    rfl
  · simp only [he, Bool.false_eq_true, ↓reduceIte]
    have hdo : (some opDATA != some opOACK) = true := bne_iff_ne.mpr (by simp [opDATA_val, opOACK_val])
    have hq : ∀ n b, (fun p => opcodeOf p != some opOACK || p == oackPacket neg.oack) (dataPacket n b) = true := by
      intro n b; simp only [opcodeOf_dataPacket, hdo, Bool.true_or]
    have hq0 : (fun p => opcodeOf p != some opOACK || p == oackPacket neg.oack) (oackPacket neg.oack) = true := by
      simp
    have hS := sendWithRetry_clientSends (fun p => opcodeOf p != some opOACK || p == oackPacket neg.oack) env
      (oackPacket neg.oack) 0 hq0 (env.maxRetries + 1) 0 script
    have hF := sendWithRetry_first env (oackPacket neg.oack) 0 env.maxRetries 0 script
    generalize sendWithRetry env (oackPacket neg.oack) 0 (env.maxRetries + 1) 0 script = r at hS hF
    have hne : (opcodeOf err0 != some opOACK) = true := by
      rw [herr]; exact bne_iff_ne.mpr (by simp [opERROR_val, opOACK_val])
    have hfin := clientSendsSat_finish (fun p => opcodeOf p != some opOACK || p == oackPacket neg.oack)
      (by simp only [hne, Bool.true_or])
    cases hout : r.out <;> simp only [hout, Res.pre_obs, List.append_assoc]
    · rw [hF, clientSendsSat_append, clientSendsSat_append, hS,
        sendData_clientSends (fun p => opcodeOf p != some opOACK || p == oackPacket neg.oack) hq, hfin]; simp
    · rw [hF, clientSendsSat_append, hS, hfin]; simp
    · rw [hF, clientSendsSat_append, hS, hfin]; simp
    · rw [hF, clientSendsSat_append, hS, hfin]; simp

/-- every non-final block has the acknowledged (otherwise 512-byte) size: the payloads of the ideal
packets — which the DATA packets of every transfer are a prefix of, by `C01.c01Check_runTransfer`
— are the blocks for the negotiated block size -/
theorem uses_negotiated_blocksize (wrap : Option Nat) :
    ∀ (bl : List Bytes) (prev : Nat), payloadsOf (idealPackets wrap prev bl) <+: bl := by
  intro bl
  induction bl with
  | nil => intro prev; simp [idealPackets, payloadsOf]
  | cons b bl ih =>
    intro prev
    simp only [idealPackets]
    split
    · simp [payloadsOf]
    · rename_i n _
      have := ih n
      simp only [payloadsOf, List.map_cons] at this ⊢
      have hd : (dataPacket n b).drop 4 = b := by simp [dataPacket, be16]
      rw [hd]
      exact List.prefix_cons_inj b |>.mpr this

/-- retransmissions happen at the acknowledged (otherwise default) interval, and block 1 follows
only ACK 0: `C02.c02Check_runTransfer` is stated for `(negOf …).timeout`, which is -/
theorem retransmit_interval (cfg : Cfg) (raw : Opts) (na : Bool) (size : Option Nat) :
    (negotiate cfg raw na size).timeout =
      match negTimeout cfg (lowerDict (pyDict raw)) with
      | some t => t * ticksPerSecond
      | none => cfg.defaultTimeout := rfl

/-- the acknowledged tsize is the number of bytes the transfer will deliver -/
theorem tsize_value (cfg : Cfg) (raw : Opts) (na : Bool) (size : Option Nat) (v : List Char)
    (h : dictGet (negotiate cfg raw na size).oack optTsize = some v) :
    ∃ n, size = some n ∧ na = false ∧ v = showNat n := by
  unfold negotiate at h
  simp only [C08.dictGet_append] at h
  rw [C08.dictGet_optEntry_ne optBlksize optTsize _ (by decide),
      C08.dictGet_optEntry_ne optTimeout optTsize _ (by decide)] at h
  cases ht : negTsize (lowerDict (pyDict raw)) na size with
  | none => simp [ht, optEntry, dictGet] at h
  | some n =>
    obtain ⟨_, h2, h3⟩ := (tsize_spec _ na size n).mp ht
    simp only [ht, optEntry, dictGet, if_true, Option.none_or, Option.some.injEq] at h
    exact ⟨n, h3, h2, h.symm⟩

/-- tsize equals the number of bytes subsequently transferred: for a transfer that was not
aborted the payloads of the DATA packets add up to the acknowledged value (octet mode; the value is
printed canonically) -/
theorem tsize_eq_transferred (cfg : Cfg) (hw : WrapOK cfg.wrap)
    (hmax : Generated.DEFAULT_BLOCK_SIZE ≤ cfg.maxBlockSize) (opts : Opts) (content : Bytes)
    (caps : List Nat) (script : List Ev)
    (hfull : (idealPackets cfg.wrap 0 (idealBlocks false
        (negOf cfg ⟨false, opts⟩ (.stream content caps true none)).blockSize content)).length =
      (idealBlocks false (negOf cfg ⟨false, opts⟩ (.stream content caps true none)).blockSize content).length) :
    tsizeMatches (negOf cfg ⟨false, opts⟩ (.stream content caps true none))
      (runTransfer cfg ⟨false, opts⟩ (.stream content caps true none) script)
      (!sawAbort (negOf cfg ⟨false, opts⟩ (.stream content caps true none)).timeout cfg.maxRetries
        (runTransfer cfg ⟨false, opts⟩ (.stream content caps true none) script)) = true := by
  unfold tsizeMatches
  split
  · rfl
  · rename_i v hv
    obtain ⟨n, hn, _, hvn⟩ := tsize_value cfg opts false _ v hv
    simp only [sizeInfo, if_true, Option.some.injEq] at hn
    cases hs : sawAbort (negOf cfg ⟨false, opts⟩ (.stream content caps true none)).timeout cfg.maxRetries
        (runTransfer cfg ⟨false, opts⟩ (.stream content caps true none) script) with
    | true => simp
    | false =>
      have hc := C01.complete_unless_aborted cfg hw ⟨false, opts⟩ content caps true script hs
      simp only [Bool.not_false, Bool.not_true, Bool.false_or, Bool.and_eq_true, beq_iff_eq]
      subst hvn
      rw [parseNat_showNat]
      refine ⟨rfl, ?_⟩
      rw [hc]
      have hpre := uses_negotiated_blocksize cfg.wrap (idealBlocks false
        (negOf cfg ⟨false, opts⟩ (.stream content caps true none)).blockSize content) 0
      have hlen : (payloadsOf (idealPackets cfg.wrap 0 (idealBlocks false
          (negOf cfg ⟨false, opts⟩ (.stream content caps true none)).blockSize content))).length =
          (idealBlocks false (negOf cfg ⟨false, opts⟩ (.stream content caps true none)).blockSize content).length := by
        simp [payloadsOf, hfull]
      have heq := List.IsPrefix.eq_of_length hpre hlen
      rw [heq]
      obtain ⟨hb, _⟩ := blockSize_bounds cfg opts false (some content.length) hmax
      have hpos : 0 < (negOf cfg ⟨false, opts⟩ (.stream content caps true none)).blockSize := by
        have : 0 < Generated.MIN_BLOCK_SIZE := by decide
        simp only [negOf, sizeInfo, if_true]
        omega
      have := splitBlocks_flatten _ hpos (2 * content.length + 2) (expectedOutput false content)
        (by simp only [expectedOutput, Bool.false_eq_true, ↓reduceIte]; omega)
      simp only [idealBlocks] at this ⊢
      rw [this, ← hn]
      simp [expectedOutput]

/-! ### non-vacuity / examples -/

example : (negotiate ⟨2048, 30, 3, 1468, some 0⟩ [("BLKSIZE".toList, "2000".toList), ("timeout".toList, "5".toList),
    ("tsize".toList, "0".toList)] false (some 25)).oack =
    [("blksize".toList, "1468".toList), ("timeout".toList, "5".toList), ("tsize".toList, "25".toList)] := by
  decide

example : (negotiate ⟨2048, 30, 3, 1468, some 0⟩ [("blksize".toList, "08".toList), ("timeout".toList, "31".toList),
    ("tsize".toList, "0".toList)] true (some 25)).oack = [] := by decide

end Vinegar.C07
