import Vinegar.Lemmas.Addr
import Vinegar.Lemmas.AddrGlibc
/-
C16 — "Address normalisation transforms are canonical, idempotent and total".

All statements are about the executable model `Vinegar.Model.Addr` (tied to /repo by the
translator and by the correspondence `harness/props/c16.py`) and are quantified over ALL
strings (`List Char`), flags and option strings.  IPv4 and MAC are concrete.  IPv6 and the
generic transforms are proved for every `L : InetLaw`, i.e. for every pair
`inet_pton`/`inet_ntop` with  pton (ntop b) = some b  for 16-byte b,  16-byte results, and
textual addresses containing ':' and no '/';  `inetLaw_satisfiable` shows the assumption is
consistent (full-form instance).  The instance the DRIVER runs — the Lean port of glibc's
`inet_pton6`/`inet_ntop6` (`Glibc.inet`: zero compression, `::a.b.c.d`, `::ffff:a.b.c.d`) — is
PROVED to satisfy the three laws (`glibc_roundtrip`, `glibc_inetLaw`; `Lemmas/AddrGlibc.lean`),
so every `_v6`/`_ip` theorem is also stated for it without hypothesis (`…_concrete`).  What stays
trusted about glibc is only that the real C functions compute what the port computes (compared
on every string of every case).

Each `…Ok` conjunct says that the Bool spec checker of `Vinegar.Spec.Addr` — the one the
driver evaluates on what the real implementation returned — accepts the model's output.
-/
namespace Vinegar.C16
open Vinegar Vinegar.Addr

/-! ## IPv4 -/

/-- IPv4 — normalising twice equals normalising once: whatever string `ipv4_address.normalize`
returns (normal form, or the malformed input itself), normalising that string returns it
unchanged. Second conjunct: the spec checker `idemOk` accepts the model's observation. -/
theorem normalize_idem_v4 (s : Str) (r : Bool) :
    (∀ o, normalize4 s r = .ok o → normalize4 o r = .ok o) ∧
    idemOk (normalize4 s r) (match normalize4 s r with | .ok o => normalize4 o r | x => x) = true := by
  have key : ∀ o, normalize4 s r = .ok o → normalize4 o r = .ok o := by
    intro o h
    cases hp : parse4 s with
    | none =>
      simp only [normalize4, hp] at h
      obtain ⟨hr, ho⟩ := malformed_ok_inv h
      subst hr ho
      simp [normalize4, hp, malformed]
    | some p =>
      rw [normalize4_of_parse hp] at h
      cases h
      exact normalize4_fmt4 p (parse4_valid hp) r
  refine ⟨key, ?_⟩
  cases h : normalize4 s r with
  | ok o => simp [idemOk, key o h]
  | valueError => rfl
  | crash => rfl

/-- IPv4 — canonicity: two well-formed strings have equal normalised outputs iff they denote the
same address and mask (whatever the two raise flags are). -/
theorem normalize_canonical_v4 (a b : Str) (pa pb : V4) (ha : parse4 a = some pa) (hb : parse4 b = some pb)
    (r r' : Bool) :
    (normalize4 a r = normalize4 b r' ↔ pa = pb) ∧
    canonOk (parse4 a) (parse4 b) (normalize4 a r) (normalize4 b r') = true := by
  have key : normalize4 a r = normalize4 b r' ↔ pa = pb := by
    rw [normalize4_of_parse ha, normalize4_of_parse hb]
    constructor
    · intro h
      have h' : fmt4 pa = fmt4 pb := by injection h
      have := parse4_fmt4 pa (parse4_valid ha)
      rw [h', parse4_fmt4 pb (parse4_valid hb)] at this
      injection this with this; exact this.symm
    · intro h; rw [h]
  refine ⟨key, ?_⟩
  simp only [canonOk, ha, hb]
  by_cases h : pa = pb
  · simp [h, key.mpr h]
  · have : ¬ normalize4 a r = normalize4 b r' := fun e => h (key.mp e)
    simp [h, this]

/-- IPv4 — for all four functions: a string that is not well-formed (for net/broadcast: also one
without mask) comes back unchanged, or as ValueError iff `raise_error_if_malformed`; a
well-formed one always yields a string. -/
theorem malformed_unchanged_v4 (s : Str) (r : Bool) :
    malformedOk (wellFormed4 s) r s (normalize4 s r) = true ∧
    malformedOk (wellFormed4m s) r s (netAddress4 s r) = true ∧
    malformedOk (wellFormed4m s) r s (broadcastAddress4 s r) = true ∧
    malformedOk (wellFormed4 s) r s (stripMask4 s r) = true := by
  unfold wellFormed4 wellFormed4m normalize4 netAddress4 broadcastAddress4 stripMask4
  cases hp : parse4 s with
  | none => simp [malformedOk_malformed]
  | some p =>
    obtain ⟨a, b, c, d, mk⟩ := p
    cases mk with
    | none => simp [malformedOk, Res.isOk]
    | some k => simp [malformedOk, Res.isOk]

/-- IPv4 — totality: every function ends with a string or ValueError, and ValueError only when the
flag asks for it. -/
theorem raise_flag_valueerror_only_v4 (s : Str) (r : Bool) :
    outcomeOk r (normalize4 s r) = true ∧ outcomeOk r (netAddress4 s r) = true ∧
    outcomeOk r (broadcastAddress4 s r) = true ∧ outcomeOk r (stripMask4 s r) = true := by
  unfold normalize4 netAddress4 broadcastAddress4 stripMask4
  cases hp : parse4 s with
  | none => simp [outcomeOk_malformed]
  | some p =>
    obtain ⟨a, b, c, d, mk⟩ := p
    cases mk with
    | none => simp only [outcomeOk_malformed]; simp [outcomeOk]
    | some k => simp [outcomeOk]

/-- IPv4 — net / broadcast / strip-mask against the independent bit-level reference: canonical text,
the same mask (net) or none (broadcast), each of the 32 bits equal to the reference bit;
strip-mask denotes the same address without mask. -/
theorem net_broadcast_strip_spec_v4 (s : Str) (r : Bool) :
    net4Ok s (netAddress4 s r) = true ∧ bcast4Ok s (broadcastAddress4 s r) = true ∧
    strip4Ok s (stripMask4 s r) = true := by
  unfold net4Ok bcast4Ok strip4Ok netAddress4 broadcastAddress4 stripMask4
  cases hp : parse4 s with
  | none => simp
  | some p =>
    have hv := parse4_valid hp
    have hlt := toInt4_lt hv
    refine ⟨?_, ?_, ?_⟩
    · obtain ⟨a, b, c, d, mk⟩ := p
      cases mk with
      | none => simp
      | some m =>
        have hm32 : m ≤ 32 := hv.2.2.2.2 m rfl
        have hn : toInt4 ⟨a, b, c, d, some m⟩ &&& netMaskInt 32 m < 2 ^ 32 :=
          Nat.lt_of_le_of_lt Nat.and_le_left hlt
        simp only []
        rw [show ∀ n, quadOfInt n ++ '/' :: dec m = fmt4 (quadV4 n (some m)) from fun n => quadOfInt_eq n (some m)]
        rw [parse4_fmt4 _ (quadV4_valid _ _ (by intro k hk; cases hk; exact hm32))]
        simp only [toInt4_quadV4 _ _ hn, netBitsOk_and 32 m _ hm32]
        simp [quadV4]
    · obtain ⟨a, b, c, d, mk⟩ := p
      cases mk with
      | none => simp
      | some m =>
        have hm32 : m ≤ 32 := hv.2.2.2.2 m rfl
        have hn : toInt4 ⟨a, b, c, d, some m⟩ ||| hostMaskInt 32 m < 2 ^ 32 :=
          Nat.or_lt_two_pow hlt (hostMask_lt 32 m)
        simp only []
        rw [show ∀ n, quadOfInt n = fmt4 (quadV4 n none) from fun n => by
          have := quadOfInt_eq n none; simpa [fmtMask] using this]
        rw [parse4_fmt4 _ (quadV4_valid _ _ (by intro k hk; cases hk))]
        simp only [toInt4_quadV4 _ _ hn, bcastBitsOk_or 32 m _ hm32]
        simp [quadV4]
    · simp [parse4_strip hp]

/-! ## MAC -/

/-- MAC — normalising twice (with the same options) equals normalising once. -/
theorem normalize_idem_mac (s tc dl : Str) (r : Bool) :
    (∀ o, normalizeMac s tc dl r = .ok o → normalizeMac o tc dl r = .ok o) ∧
    idemOk (normalizeMac s tc dl r)
      (match normalizeMac s tc dl r with | .ok o => normalizeMac o tc dl r | x => x) = true := by
  have key : ∀ o, normalizeMac s tc dl r = .ok o → normalizeMac o tc dl r = .ok o := by
    intro o h
    cases ho : macOptions tc dl with
    | none => simp [normalizeMac, ho] at h
    | some ud =>
      obtain ⟨up, d⟩ := ud
      cases hp : parseMac s with
      | none =>
        simp only [normalizeMac, ho, hp] at h
        obtain ⟨hr, ho'⟩ := malformed_ok_inv h
        subst hr ho'
        simp [normalizeMac, ho, hp, malformed]
      | some bs =>
        rw [normalizeMac_of_parse ho hp] at h
        cases h
        exact normalizeMac_of_parse ho (parseMac_fmtMac up d (macOptions_delim ho) bs (parseMac_valid hp)) r
  refine ⟨key, ?_⟩
  cases h : normalizeMac s tc dl r with
  | ok o => simp [idemOk, key o h]
  | valueError => rfl
  | crash => rfl

/-- MAC — canonicity for every valid option combination: equal outputs iff the same six bytes. -/
theorem normalize_canonical_mac (a b tc dl : Str) (pa pb : List Nat) (up : Bool) (d : Char)
    (ho : macOptions tc dl = some (up, d)) (ha : parseMac a = some pa) (hb : parseMac b = some pb) (r r' : Bool) :
    (normalizeMac a tc dl r = normalizeMac b tc dl r' ↔ pa = pb) ∧
    canonOk (parseMac a) (parseMac b) (normalizeMac a tc dl r) (normalizeMac b tc dl r') = true := by
  have key : normalizeMac a tc dl r = normalizeMac b tc dl r' ↔ pa = pb := by
    rw [normalizeMac_of_parse ho ha, normalizeMac_of_parse ho hb]
    constructor
    · intro h
      have h' : fmtMac up d pa = fmtMac up d pb := by injection h
      have := parseMac_fmtMac up d (macOptions_delim ho) pa (parseMac_valid ha)
      rw [h', parseMac_fmtMac up d (macOptions_delim ho) pb (parseMac_valid hb)] at this
      injection this with this; exact this.symm
    · intro h; rw [h]
  refine ⟨key, ?_⟩
  simp only [canonOk, ha, hb]
  by_cases h : pa = pb
  · simp [h, key.mpr h]
  · have : ¬ normalizeMac a tc dl r = normalizeMac b tc dl r' := fun e => h (key.mp e)
    simp [h, this]

/-- MAC — with valid options a malformed address comes back unchanged or as ValueError iff
requested; a well-formed one yields a string. -/
theorem malformed_unchanged_mac (s tc dl : Str) (r : Bool) (ho : (macOptions tc dl).isSome = true) :
    malformedOk (wellFormedMac s) r s (normalizeMac s tc dl r) = true := by
  cases h : macOptions tc dl with
  | none => simp [h] at ho
  | some ud =>
    obtain ⟨up, d⟩ := ud
    unfold wellFormedMac normalizeMac
    cases hp : parseMac s with
    | none => simp [h, malformedOk_malformed]
    | some bs => simp [h, malformedOk, Res.isOk]

/-- MAC — only a string or ValueError; ValueError only if requested or if an option is invalid, and
an invalid option always raises. -/
theorem raise_flag_valueerror_only_mac (s tc dl : Str) (r : Bool) :
    outcomeOk (r || !(macOptions tc dl).isSome) (normalizeMac s tc dl r) = true ∧
    ((macOptions tc dl).isSome = false → normalizeMac s tc dl r = .valueError) := by
  unfold normalizeMac
  cases h : macOptions tc dl with
  | none => simp [outcomeOk]
  | some ud =>
    obtain ⟨up, d⟩ := ud
    cases hp : parseMac s with
    | none => simp [outcomeOk_malformed]
    | some bs => simp [outcomeOk]

/-- MAC — the output of a well-formed address is exactly `xx<d>xx<d>xx<d>xx<d>xx<d>xx` in the
requested case and delimiter and denotes the same six bytes. -/
theorem mac_output_form (s tc dl : Str) (r : Bool) (up : Bool) (d : Char) (ho : macOptions tc dl = some (up, d)) :
    macFormOk up d s (normalizeMac s tc dl r) = true := by
  unfold macFormOk
  cases hp : parseMac s with
  | none => rfl
  | some bs =>
    rw [normalizeMac_of_parse ho hp]
    simp [parseMac_fmtMac up d (macOptions_delim ho) bs (parseMac_valid hp)]

/-! ## IPv6 under `InetLaw` -/
section v6
variable (L : InetLaw)

/-- IPv6 under `InetLaw` — normalising twice equals normalising once. -/
theorem normalize_idem_v6 (s : Str) (r : Bool) :
    (∀ o, normalize6 L.toInet s r = .ok o → normalize6 L.toInet o r = .ok o) ∧
    idemOk (normalize6 L.toInet s r)
      (match normalize6 L.toInet s r with | .ok o => normalize6 L.toInet o r | x => x) = true := by
  have key : ∀ o, normalize6 L.toInet s r = .ok o → normalize6 L.toInet o r = .ok o := by
    intro o h
    cases hp : parse6 L.toInet s with
    | none =>
      simp only [normalize6, hp] at h
      obtain ⟨hr, ho⟩ := malformed_ok_inv h
      subst hr ho
      simp [normalize6, hp, malformed]
    | some p =>
      rw [normalize6_of_parse hp] at h
      cases h
      exact normalize6_of_parse (parse6_fmt L p (parse6_valid L hp)) r
  refine ⟨key, ?_⟩
  cases h : normalize6 L.toInet s r with
  | ok o => simp [idemOk, key o h]
  | valueError => rfl
  | crash => rfl

/-- IPv6 under `InetLaw` — equal outputs iff the same sixteen bytes and the same mask. -/
theorem normalize_canonical_v6 (a b : Str) (pa pb : List UInt8 × Option Nat)
    (ha : parse6 L.toInet a = some pa) (hb : parse6 L.toInet b = some pb) (r r' : Bool) :
    (normalize6 L.toInet a r = normalize6 L.toInet b r' ↔ pa = pb) ∧
    canonOk (parse6 L.toInet a) (parse6 L.toInet b) (normalize6 L.toInet a r) (normalize6 L.toInet b r') = true := by
  have key : normalize6 L.toInet a r = normalize6 L.toInet b r' ↔ pa = pb := by
    rw [normalize6_of_parse ha, normalize6_of_parse hb]
    constructor
    · intro h
      have h' : L.ntop6 pa.1 ++ fmtMask pa.2 = L.ntop6 pb.1 ++ fmtMask pb.2 := by injection h
      have := parse6_fmt L pa (parse6_valid L ha)
      rw [h', parse6_fmt L pb (parse6_valid L hb)] at this
      injection this with this; exact this.symm
    · intro h; rw [h]
  refine ⟨key, ?_⟩
  simp only [canonOk, ha, hb]
  by_cases h : pa = pb
  · simp [h, key.mpr h]
  · have : ¬ normalize6 L.toInet a r = normalize6 L.toInet b r' := fun e => h (key.mp e)
    simp [h, this]

/-- IPv6 (any `inet_pton`/`inet_ntop`) — malformed input (bad address, or a mask that is not ASCII
digits in 0…128: the repaired D12) comes back unchanged or as ValueError iff requested. -/
theorem malformed_unchanged_v6 (I : Inet) (s : Str) (r : Bool) :
    malformedOk (wellFormed6 I s) r s (normalize6 I s r) = true ∧
    malformedOk (wellFormed6m I s) r s (netAddress6 I s r) = true ∧
    malformedOk (wellFormed6 I s) r s (stripMask6 I s r) = true := by
  unfold wellFormed6 wellFormed6m normalize6 netAddress6 stripMask6
  cases hp : parse6 I s with
  | none => simp [malformedOk_malformed]
  | some p =>
    obtain ⟨b, mk⟩ := p
    cases mk with
    | none => simp [malformedOk, Res.isOk]
    | some k => simp [malformedOk, Res.isOk]

/-- IPv6 (any `inet_pton`/`inet_ntop`) — only a string or ValueError, the latter only if requested. -/
theorem raise_flag_valueerror_only_v6 (I : Inet) (s : Str) (r : Bool) :
    outcomeOk r (normalize6 I s r) = true ∧ outcomeOk r (netAddress6 I s r) = true ∧
    outcomeOk r (stripMask6 I s r) = true := by
  unfold normalize6 netAddress6 stripMask6
  cases hp : parse6 I s with
  | none => simp [outcomeOk_malformed]
  | some p =>
    obtain ⟨b, mk⟩ := p
    cases mk with
    | none => simp only [outcomeOk_malformed]; simp [outcomeOk]
    | some k => simp [outcomeOk]

/-- IPv6 under `InetLaw` — net address: canonical text, same mask, each of the 128 bits equal to the
reference bit; strip-mask denotes the same address without mask. (There is no IPv6 broadcast
function.) -/
theorem net_broadcast_strip_spec_v6 (s : Str) (r : Bool) :
    net6Ok L.toInet s (netAddress6 L.toInet s r) = true ∧ strip6Ok L.toInet s (stripMask6 L.toInet s r) = true := by
  unfold net6Ok strip6Ok netAddress6 stripMask6
  cases hp : parse6 L.toInet s with
  | none => simp
  | some p =>
    obtain ⟨b, mk⟩ := p
    have hv := parse6_valid L hp
    refine ⟨?_, ?_⟩
    · cases mk with
      | none => simp
      | some m =>
        have hb : b.length = 16 := hv.1
        have hm : m ≤ 128 := hv.2 m rfl
        have hx : bytesToNat b &&& netMaskInt 128 m < 256 ^ 16 := by
          have := bytesToNat_lt b; rw [hb] at this
          exact Nat.lt_of_le_of_lt Nat.and_le_left this
        have hc := parse6_fmt L (natToBytes b.length (bytesToNat b &&& netMaskInt 128 m), some m)
          ⟨by simp [natToBytes_length, hb], by intro k hk; cases hk; exact hm⟩
        simp only [fmtMask] at hc
        simp only [hc]
        rw [hb, bytesToNat_natToBytes, Nat.mod_eq_of_lt hx, netBitsOk_and 128 m _ hm]
        simp
    · simp [parse6_strip L hp]
end v6

/-! ## generic transforms (ip_address.py) under `InetLaw` -/
section ip
variable (L : InetLaw)

/-- Generic transform under `InetLaw` — an input that `inet_pton` reads as `::ffff:x.y.z.t` (dotted
or hexadecimal spelling) normalises to the IPv4 text `x.y.z.t`. -/
theorem generic_mapped_to_v4 (s : Str) (r : Bool) :
    mappedOk L.toInet s (normalizeIp L.toInet s r) = true ∧
    (∀ b x y z t, L.pton6 s = some b → b.take 12 = mappedPrefix → b.drop 12 = [x, y, z, t] →
      normalizeIp L.toInet s r = .ok (fmtQuad x.toNat y.toNat z.toNat t.toNat)) := by
  have key : ∀ b x y z t, L.pton6 s = some b → b.take 12 = mappedPrefix → b.drop 12 = [x, y, z, t] →
      normalizeIp L.toInet s r = .ok (fmtQuad x.toNat y.toNat z.toNat t.toNat) := by
    intro b x y z t hp hm hd
    rcases unwrap_spec L s with ⟨_, hn⟩ | ⟨b', x', y', z', t', hp', _, hd', hu⟩
    · exact absurd hm (hn b hp)
    · rw [hp] at hp'; cases hp'
      rw [hd] at hd'; cases hd'
      unfold normalizeIp
      simp only [hu, fmt4_shaped, if_true]
      rw [normalize4_fmt4 _ (v4of_valid x y z t)]
      simp [fmt4, v4of, fmtMask]
  refine ⟨?_, key⟩
  unfold mappedOk
  cases hp : L.pton6 s with
  | none => rfl
  | some b =>
    simp only
    split
    · rename_i hm
      split
      · rename_i x y z t hd
        simp [key b x y z t hp hm hd]
      · rfl
    · rfl

/-- Generic transform under `InetLaw` — normalising twice equals normalising once (the output is
never unwrapped or re-dispatched differently). -/
theorem normalize_idem_ip (s : Str) (r : Bool) :
    (∀ o, normalizeIp L.toInet s r = .ok o → normalizeIp L.toInet o r = .ok o) ∧
    idemOk (normalizeIp L.toInet s r)
      (match normalizeIp L.toInet s r with | .ok o => normalizeIp L.toInet o r | x => x) = true := by
  have key : ∀ o, normalizeIp L.toInet s r = .ok o → normalizeIp L.toInet o r = .ok o := by
    intro o h
    unfold normalizeIp at h
    simp only at h
    by_cases hs : isV4Shaped (unwrap L.toInet s) = true
    · rw [if_pos hs] at h
      have ho := normalize4_shaped hs h
      rw [normalizeIp_shaped L ho]
      exact (normalize_idem_v4 _ r).1 o h
    · rw [if_neg hs] at h
      have h6 := (normalize_idem_v6 L _ r).1 o h
      -- the output is not IPv4-shaped and is left alone by the unwrapping
      suffices hu : unwrap L.toInet o = o ∧ isV4Shaped o ≠ true by
        unfold normalizeIp; simp only [hu.1, hu.2]; exact h6
      unfold normalize6 at h
      cases hp : parse6 L.toInet (unwrap L.toInet s) with
      | none =>
        rw [hp] at h
        obtain ⟨_, ho⟩ := malformed_ok_inv h
        subst ho
        refine ⟨?_, hs⟩
        rcases unwrap_spec L s with ⟨hu, hn⟩ | ⟨b, x, y, z, t, _, _, _, hu⟩
        · rw [hu]; exact hu
        · rw [hu] at hs; exact absurd (fmt4_shaped _) hs
      | some p =>
        obtain ⟨b, m⟩ := p
        rw [hp] at h
        simp only at h
        cases h
        have hv := parse6_valid L hp
        have hsh := ntop_shape L hv.1
        have hcolon : ':' ∈ L.ntop6 b ++ fmtMask m := by simp [hsh.1]
        refine ⟨?_, fun hsho => v4shaped_noColon hsho hcolon⟩
        cases m with
        | some k => exact unwrap_of_none L (pton6_none_of_slash L (by simp [fmtMask]))
        | none =>
          simp only [fmtMask, List.append_nil]
          -- `b` is what inet_pton made of the whole (slash-free) text, and that text was not mapped
          have hb : L.pton6 (unwrap L.toInet s) = some b := by
            unfold parse6 at hp
            split at hp
            · cases hp
            · rename_i b' hb'
              split at hp
              · rename_i hnone
                cases hp
                rw [splitSlash_none hnone] at hb'; exact hb'
              · split at hp <;> cases hp
          have hnm : b.take 12 ≠ mappedPrefix := by
            rcases unwrap_spec L s with ⟨hu, hn⟩ | ⟨b', x, y, z, t, _, _, _, hu⟩
            · rw [hu] at hb; exact hn b hb
            · rw [hu] at hs; exact absurd (fmt4_shaped _) hs
          simp [unwrap, L.roundtrip b hv.1, hnm]
  refine ⟨key, ?_⟩
  cases h : normalizeIp L.toInet s r with
  | ok o => simp [idemOk, key o h]
  | valueError => rfl
  | crash => rfl

/-- Generic transform under `InetLaw` — equal outputs iff equal denoted values, where IPv4-mapped
IPv6 text denotes the IPv4 address; IPv4 and IPv6 outputs never coincide. -/
theorem normalize_canonical_ip (a b : Str) (va vb : IpVal)
    (ha : parseIp L.toInet a = some va) (hb : parseIp L.toInet b = some vb) (r r' : Bool) :
    (normalizeIp L.toInet a r = normalizeIp L.toInet b r' ↔ va = vb) ∧
    canonOk (parseIp L.toInet a) (parseIp L.toInet b) (normalizeIp L.toInet a r) (normalizeIp L.toInet b r') = true := by
  obtain ⟨hva, na⟩ := parseIp_inv L ha
  obtain ⟨hvb, nb⟩ := parseIp_inv L hb
  have key : normalizeIp L.toInet a r = normalizeIp L.toInet b r' ↔ va = vb := by
    rw [na r, nb r']
    constructor
    · intro h
      exact fmtIp_inj L hva hvb (by injection h)
    · intro h; rw [h]
  refine ⟨key, ?_⟩
  simp only [canonOk, ha, hb]
  by_cases h : va = vb
  · simp [h, key.mpr h]
  · have : ¬ normalizeIp L.toInet a r = normalizeIp L.toInet b r' := fun e => h (key.mp e)
    simp [h, this]

/-- Generic transform under `InetLaw` — malformed input comes back unchanged (in particular the
unwrapping never alters a string that is then rejected) or as ValueError iff requested. -/
theorem malformed_unchanged_ip (s : Str) (r : Bool) :
    malformedOk (parseIp L.toInet s).isSome r s (normalizeIp L.toInet s r) = true ∧
    malformedOk (wellFormedIpM L.toInet s) r s (netAddressIp L.toInet s r) = true ∧
    malformedOk (parseIpPlain L.toInet s).isSome r s (stripMaskIp L.toInet s r) = true := by
  refine ⟨?_, ?_, ?_⟩
  · cases hp : parseIp L.toInet s with
    | some v => rw [(parseIp_inv L hp).2 r]; simp [malformedOk, Res.isOk]
    | none =>
      simp only [Option.isSome, malformedOk]
      -- nothing was unwrapped, so the malformed text that comes back is the input itself
      have hu : unwrap L.toInet s = s := by
        rcases unwrap_spec L s with ⟨hu, _⟩ | ⟨b, x, y, z, t, _, _, _, hu⟩
        · exact hu
        · unfold parseIp at hp
          simp only [hu, fmt4_shaped, if_true, parse4_fmt4 _ (v4of_valid x y z t)] at hp
          simp at hp
      unfold parseIp at hp
      unfold normalizeIp
      simp only [hu] at hp ⊢
      by_cases hs : isV4Shaped s = true
      · simp only [hs, if_true] at hp ⊢
        cases h4 : parse4 s with
        | none => simp [normalize4, h4]
        | some p => simp [h4] at hp
      · simp only [hs] at hp ⊢
        cases h6 : parse6 L.toInet s with
        | none => simp [normalize6, h6]
        | some p => simp [h6] at hp
  · unfold netAddressIp
    by_cases hs : isV4Shaped s = true
    · rw [wellFormedIpM_v4 _ hs]; simp only [hs, if_true]; exact (malformed_unchanged_v4 s r).2.1
    · have hs' : isV4Shaped s = false := by simpa using hs
      rw [wellFormedIpM_v6 _ hs']; simp only [hs', Bool.false_eq_true, if_false]
      exact (malformed_unchanged_v6 L.toInet s r).2.1
  · unfold parseIpPlain stripMaskIp
    by_cases hs : isV4Shaped s = true
    · simp only [hs, if_true, Option.isSome_map]; exact (malformed_unchanged_v4 s r).2.2.2
    · have hs' : isV4Shaped s = false := by simpa using hs
      simp only [hs', Bool.false_eq_true, if_false, Option.isSome_map]; exact (malformed_unchanged_v6 L.toInet s r).2.2

/-- Generic transform (any `inet_pton`/`inet_ntop`) — only a string or ValueError, the latter only
if requested (the model's `unwrap` never raises: repaired D16). -/
theorem raise_flag_valueerror_only_ip (I : Inet) (s : Str) (r : Bool) :
    outcomeOk r (normalizeIp I s r) = true ∧ outcomeOk r (netAddressIp I s r) = true ∧
    outcomeOk r (stripMaskIp I s r) = true := by
  unfold normalizeIp netAddressIp stripMaskIp
  refine ⟨?_, ?_, ?_⟩
  · simp only; split
    · exact (raise_flag_valueerror_only_v4 _ r).1
    · exact (raise_flag_valueerror_only_v6 I _ r).1
  · split
    · exact (raise_flag_valueerror_only_v4 _ r).2.1
    · exact (raise_flag_valueerror_only_v6 I _ r).2.1
  · split
    · exact (raise_flag_valueerror_only_v4 _ r).2.2.2
    · exact (raise_flag_valueerror_only_v6 I _ r).2.2

/-- Generic transform under `InetLaw` — net address and strip-mask satisfy the reference of the
family the text is dispatched to. -/
theorem net_broadcast_strip_spec_ip (s : Str) (r : Bool) :
    netIpOk L.toInet s (netAddressIp L.toInet s r) = true ∧
    stripIpOk L.toInet s (stripMaskIp L.toInet s r) = true := by
  unfold netIpOk stripIpOk netAddressIp stripMaskIp
  by_cases hs : isV4Shaped s = true
  · simp only [hs, if_true]
    exact ⟨(net_broadcast_strip_spec_v4 s r).1, (net_broadcast_strip_spec_v4 s r).2.2⟩
  · have hs' : isV4Shaped s = false := by simpa using hs
    simp only [hs', Bool.false_eq_true, if_false]
    exact net_broadcast_strip_spec_v6 L s r
end ip

/-! ## the assumption is consistent; the checkers reject the known-bad behaviour -/

/-- `InetLaw` is satisfiable: the full-form printer/parser (`hhhh:hhhh:…:hhhh`) satisfies
round trip, length and shape. -/
theorem inetLaw_satisfiable : ∃ L : InetLaw, L.pton6 = Full.pton6 ∧ L.ntop6 = Full.print :=
  ⟨Full.law, rfl, rfl⟩

/-! ## the port of glibc that the driver runs satisfies `InetLaw` -/

/-- glibc port — round trip over ALL 2^128 addresses: for every list `b` of sixteen bytes, parsing
(`inet_pton6`) the text that `inet_ntop6` prints for `b` — full form, any compressed zero run
(`::` at the front, in the middle, at the end), `::a.b.c.d`, `::ffff:a.b.c.d` — gives `b` back.
Proved structurally (hexadecimal groups, the zero run chosen by the scan, re-expansion of `::`,
embedded IPv4 text, 8 words ↔ 16 bytes), not by enumeration. -/
theorem glibc_roundtrip (b : List UInt8) (hb : b.length = 16) : Glibc.pton6 (Glibc.ntop6 b) = some b :=
  Glibc.roundtrip b hb

/-- glibc port — the three laws of `InetLaw` hold for the port of `inet_pton6`/`inet_ntop6`
(for ALL strings `s`): round trip, sixteen-byte results, and a parsed text contains ':' and no
'/'; packaged as `glibcInetLaw`, whose underlying pair of functions is the driver's `Glibc.inet`. -/
theorem glibc_inetLaw :
    (∀ b : List UInt8, b.length = 16 → Glibc.pton6 (Glibc.ntop6 b) = some b) ∧
    (∀ s b, Glibc.pton6 s = some b → b.length = 16) ∧
    (∀ s b, Glibc.pton6 s = some b → ':' ∈ s ∧ '/' ∉ s) ∧
    glibcInetLaw.toInet = Glibc.inet :=
  ⟨Glibc.roundtrip, fun _ _ h => Glibc.pton6_length16 h, fun _ _ h => Glibc.pton6_shape h, rfl⟩

/-- IPv6 with the glibc port (no hypothesis) — normalising twice equals normalising once. -/
theorem normalize_idem_v6_concrete (s : Str) (r : Bool) :
    (∀ o, normalize6 Glibc.inet s r = .ok o → normalize6 Glibc.inet o r = .ok o) ∧
    idemOk (normalize6 Glibc.inet s r)
      (match normalize6 Glibc.inet s r with | .ok o => normalize6 Glibc.inet o r | x => x) = true :=
  normalize_idem_v6 glibcInetLaw s r

/-- IPv6 with the glibc port (no hypothesis) — equal outputs iff the same sixteen bytes and mask. -/
theorem normalize_canonical_v6_concrete (a b : Str) (pa pb : List UInt8 × Option Nat)
    (ha : parse6 Glibc.inet a = some pa) (hb : parse6 Glibc.inet b = some pb) (r r' : Bool) :
    (normalize6 Glibc.inet a r = normalize6 Glibc.inet b r' ↔ pa = pb) ∧
    canonOk (parse6 Glibc.inet a) (parse6 Glibc.inet b) (normalize6 Glibc.inet a r) (normalize6 Glibc.inet b r') = true :=
  normalize_canonical_v6 glibcInetLaw a b pa pb ha hb r r'

/-- IPv6 with the glibc port (no hypothesis) — net address and strip-mask satisfy the bit-level
reference with canonical text. -/
theorem net_broadcast_strip_spec_v6_concrete (s : Str) (r : Bool) :
    net6Ok Glibc.inet s (netAddress6 Glibc.inet s r) = true ∧ strip6Ok Glibc.inet s (stripMask6 Glibc.inet s r) = true :=
  net_broadcast_strip_spec_v6 glibcInetLaw s r

/-- Generic transform with the glibc port (no hypothesis) — text read as `::ffff:x.y.z.t`
normalises to the IPv4 text `x.y.z.t`. -/
theorem generic_mapped_to_v4_concrete (s : Str) (r : Bool) :
    mappedOk Glibc.inet s (normalizeIp Glibc.inet s r) = true ∧
    (∀ b x y z t, Glibc.pton6 s = some b → b.take 12 = mappedPrefix → b.drop 12 = [x, y, z, t] →
      normalizeIp Glibc.inet s r = .ok (fmtQuad x.toNat y.toNat z.toNat t.toNat)) :=
  generic_mapped_to_v4 glibcInetLaw s r

/-- Generic transform with the glibc port (no hypothesis) — normalising twice equals normalising once. -/
theorem normalize_idem_ip_concrete (s : Str) (r : Bool) :
    (∀ o, normalizeIp Glibc.inet s r = .ok o → normalizeIp Glibc.inet o r = .ok o) ∧
    idemOk (normalizeIp Glibc.inet s r)
      (match normalizeIp Glibc.inet s r with | .ok o => normalizeIp Glibc.inet o r | x => x) = true :=
  normalize_idem_ip glibcInetLaw s r

/-- Generic transform with the glibc port (no hypothesis) — equal outputs iff equal denoted values. -/
theorem normalize_canonical_ip_concrete (a b : Str) (va vb : IpVal)
    (ha : parseIp Glibc.inet a = some va) (hb : parseIp Glibc.inet b = some vb) (r r' : Bool) :
    (normalizeIp Glibc.inet a r = normalizeIp Glibc.inet b r' ↔ va = vb) ∧
    canonOk (parseIp Glibc.inet a) (parseIp Glibc.inet b) (normalizeIp Glibc.inet a r) (normalizeIp Glibc.inet b r') = true :=
  normalize_canonical_ip glibcInetLaw a b va vb ha hb r r'

/-- Generic transform with the glibc port (no hypothesis) — malformed input comes back unchanged
or as ValueError iff requested. -/
theorem malformed_unchanged_ip_concrete (s : Str) (r : Bool) :
    malformedOk (parseIp Glibc.inet s).isSome r s (normalizeIp Glibc.inet s r) = true ∧
    malformedOk (wellFormedIpM Glibc.inet s) r s (netAddressIp Glibc.inet s r) = true ∧
    malformedOk (parseIpPlain Glibc.inet s).isSome r s (stripMaskIp Glibc.inet s r) = true :=
  malformed_unchanged_ip glibcInetLaw s r

/-- Generic transform with the glibc port (no hypothesis) — net address and strip-mask satisfy the
reference of the family the text is dispatched to. -/
theorem net_broadcast_strip_spec_ip_concrete (s : Str) (r : Bool) :
    netIpOk Glibc.inet s (netAddressIp Glibc.inet s r) = true ∧
    stripIpOk Glibc.inet s (stripMaskIp Glibc.inet s r) = true :=
  net_broadcast_strip_spec_ip glibcInetLaw s r

/-- the port really prints the compressed and the embedded-IPv4 forms the round trip covers -/
example : Glibc.ntop6 [0x20, 0x01, 0x0d, 0xb8, 0, 0, 0, 0, 0, 0, 0, 0, 0, 0, 0, 1] = "2001:db8::1".toList := by decide
example : Glibc.ntop6 [0, 0, 0, 0, 0, 0, 0, 0, 0, 0, 0, 0, 1, 2, 3, 4] = "::1.2.3.4".toList := by decide
example : Glibc.ntop6 [0, 0, 0, 0, 0, 0, 0, 0, 0, 0, 0xff, 0xff, 1, 2, 3, 4] = "::ffff:1.2.3.4".toList := by decide
example : Glibc.ntop6 [0, 1, 0, 0, 0, 0, 0, 2, 0, 0, 0, 0, 0, 0, 0, 0] = "1:0:0:2::".toList := by decide
example : Glibc.pton6 "::ffff:1.2.3.4".toList = some [0, 0, 0, 0, 0, 0, 0, 0, 0, 0, 0xff, 0xff, 1, 2, 3, 4] := by decide
example : Glibc.pton6 "1::2:3:4:5:6:7:8".toList = none ∧ Glibc.pton6 "1.2.3.4".toList = none
    ∧ Glibc.pton6 "::1/64".toList = none := by decide

/-- hypotheses of the canonicity theorems are satisfiable, and the model computes what the
pinned test-suite expects -/
example : normalize4 "192.168.000.1/024".toList false = .ok "192.168.0.1/24".toList := by decide
example : parse4 "192.168.000.1/024".toList = some ⟨192, 168, 0, 1, some 24⟩ := by decide
example : stripMask4 "192.168.000.1/24".toList false = .ok "192.168.000.1".toList := by decide
example : netAddress4 "192.168.3.77/23".toList true = .ok "192.168.2.0/23".toList := by decide
example : broadcastAddress4 "192.168.3.77/23".toList true = .ok "192.168.3.255".toList := by decide
example : normalizeMac "a:B:0c:1:22:3f".toList "lower".toList "dash".toList true
    = .ok "0a-0b-0c-01-22-3f".toList := by decide
example : normalizeMac "a:B:0c:1:22:3f".toList "Upper".toList ":".toList false = .valueError := by decide

/-- D12 (pinned tree): `2001:db8::1/+64` came back as `2001:db8::1/64`.  The mask `+64` is not
a mask (`parseMask6`), so the input is malformed and the checker rejects the rewritten value. -/
example : parseMask6 "+64".toList = none ∧ parseMask6 " 64".toList = none ∧ parseMask6 "6_4".toList = none
    ∧ parseMask6 "٦٤".toList = none ∧ parseMask6 "64\n".toList = none ∧ parseMask6 "64".toList = some 64 := by
  decide
example (s : Str) : malformedOk false false s (.ok ('x' :: s)) = false := by
  simp [malformedOk, malformed]
/-- D16 (pinned tree): `ip_address.normalize("1.2.3.4\x00")` raised ValueError although
`raise_error_if_malformed` was False; the checkers reject that observation. -/
example (s : Str) : outcomeOk false .valueError = false ∧ malformedOk false false s .valueError = false := by
  simp [outcomeOk, malformedOk, malformed]
/-- an exception other than ValueError is never accepted -/
example (r : Bool) : outcomeOk r .crash = false := by cases r <;> rfl
/-- the bit-level reference rejects a network address that is off by one bit -/
example : netBitsOk 32 24 0xC0A80301 0xC0A80300 = true ∧ netBitsOk 32 24 0xC0A80301 0xC0A80200 = false
    ∧ netBitsOk 32 24 0xC0A80301 0xC0A80301 = false := by decide

end Vinegar.C16
